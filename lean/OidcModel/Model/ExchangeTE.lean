/-
  Model types for the DEEP translation of the token-exchange grant (Generated/TokenExchangeTE.lean, namespace GenTE):
  what `getTokenIDAndClaims`, `GetTokenIDAndSubjectFromToken`, `CreateTokenExchangeRequest`, `ValidateTokenExchangeRequest`,
  `needsRefreshToken`, `createTokens` and `CreateTokenExchangeResponse` of pkg/op read.  Getter / field names are Go's.
  Everything the code obtains from a library or from the storage is a FUNCTION FIELD (an oracle): `Crypto().Decrypt`,
  the access-token / id_token_hint verifiers, `TokenRequestByRefreshToken`, the optional verifier storage's two role
  methods, the storage policy (`ValidateTokenExchangeRequest` / `CreateTokenExchangeRequest`, which may rewrite the request)
  and token creation.  The theorems quantify over all of them; the C15 driver fills them with the answers of the real run.
-/
import OidcModel.Model.Exchange
import OidcModel.Model.Device
import OidcModel.Generated.TETypes
import OidcModel.Generated.TEGetters
import OidcModel.Generated.TokenEndpoint
import OidcModel.Generated.Claims
import OidcModel.GoX

/-- `*oidc.AccessTokenClaims` (nil-able pointer) -/
structure TEATClaims where
  set : Bool := false
  JWTID : String := ""
  Subject : String := ""
  Claims : TEClaims := []
  deriving DecidableEq, Repr, Inhabited

namespace Go
instance : HasNil TEATClaims := ⟨{}⟩
instance : Nilable TEATClaims := ⟨fun c => !c.set⟩
end Go

structure TEIDClaims where
  Subject : String := ""
  Claims : TEClaims := []
  deriving DecidableEq, Repr, Inhabited

/-- ok-value of `VerifyIDTokenHint`: Go returns the claims TOGETHER with an `IDTokenHintExpiredError` for a correctly
    signed but expired hint (the translator's WrapBoth reading); every other failure is a plain error -/
inductive TEHint
  | valid (c : TEIDClaims)
  | expired (c : TEIDClaims)
  deriving DecidableEq, Repr, Inhabited

namespace TEHint
/-- what a plain `if err != nil` check after `VerifyIDTokenHint` denotes -/
def strict : Go.R TEHint → Go.R TEIDClaims
  | .ok (.valid c) => .ok c
  | .ok (.expired _) => .error "IDTokenHintExpiredError"
  | .error e => .error e
/-- what `err != nil && !errors.As(err, &IDTokenHintExpiredError{})` lets through -/
def claims : TEHint → TEIDClaims
  | .valid c => c
  | .expired c => c
end TEHint

structure TERefreshReq where
  subject : String := ""
  deriving DecidableEq, Repr, Inhabited
def TERefreshReq.GetSubject (r : TERefreshReq) := r.subject

/-- `oidc.TokenExchangeRequest` after form decoding -/
structure TEIn where
  SubjectToken : String := ""
  SubjectTokenType : String := ""
  ActorToken : String := ""
  ActorTokenType : String := ""
  RequestedTokenType : String := ""
  Scopes : List String := []
  Resource : List String := []
  Audience : List String := []
  deriving DecidableEq, Repr, Inhabited

/-- `*oidc.AccessTokenClaims` as `CreateJWT` builds and signs them: the registered claims of the REGENERATED constructor
    `oidc.NewAccessTokenClaims` (Generated/Claims.lean), the private claims a storage hook supplied, the `act` member -/
structure TEJWTClaims extends TokenClaimsGo where
  Claims : TEClaims := []
  Actor : String := ""
  deriving DecidableEq, Repr, Inhabited

/-- `*oidc.UserInfo`: the subject `SetUserInfo` copies, and everything else a storage hook put in (among it the `act` member) -/
structure TEUserInfo where
  Subject : String := ""
  Claims : TEClaims := []
  deriving DecidableEq, Repr, Inhabited

/-- `*oidc.IDTokenClaims` as `CreateIDToken` builds and signs them -/
structure TEIDTokenClaims extends TokenClaimsGo where
  AccessTokenHash : String := ""
  CodeHash : String := ""
  Actor : String := ""
  UserInfo : TEUserInfo := {}
  deriving DecidableEq, Repr, Inhabited

/-- `(*IDTokenClaims).SetUserInfo` (pkg/oidc/token.go): the subject and all userinfo members are overwritten -/
def TEIDTokenClaims.SetUserInfo (c : TEIDTokenClaims) (i : TEUserInfo) : TEIDTokenClaims :=
  { c with Subject := i.Subject, UserInfo := i }

namespace TEConst
def AccessTokenTypeJWT : Nat := 1
def ScopeProfile := "profile"
def ScopeEmail := "email"
def ScopeAddress := "address"
def ScopePhone := "phone"
end TEConst

namespace TEScoped
/-- Go's `+` on strings (scoped: only the generated file of this slice opens the namespace) -/
scoped instance : HAdd String String String := ⟨fun a b => a ++ b⟩
end TEScoped

/-! the getters of `*tokenExchangeRequest` are REGENERATED (Generated/TEGetters.lean); here only the method-call spelling -/
namespace TEReq
def GetRequestedTokenType (r : TEReq) := GenTEGet.GetRequestedTokenType 0 r
def GetScopes (r : TEReq) := GenTEGet.GetScopes 0 r
def GetSubject (r : TEReq) := GenTEGet.GetSubject 0 r
def GetAudience (r : TEReq) := GenTEGet.GetAudience 0 r
def GetAuthTime (r : TEReq) := GenTEGet.GetAuthTime 0 r
def GetClientID (r : TEReq) := GenTEGet.GetClientID 0 r
def GetAMR (r : TEReq) := GenTEGet.GetAMR 0 r
def GetExchangeSubject (r : TEReq) := GenTEGet.GetExchangeSubject 0 r
def GetExchangeActor (r : TEReq) := GenTEGet.GetExchangeActor 0 r
end TEReq

/-- a `TokenRequest` interface value as a type switch sees it: which of the case types its dynamic type satisfies -/
structure TEAnyReq where
  is_AuthRequest : Bool := false
  is_TokenExchangeRequest : Bool := false
  is_RefreshTokenRequest : Bool := false
  is_DeviceAuthorizationState : Bool := false
  is_TokenActorRequest : Bool := false
  req : TEReq := {}
  deriving DecidableEq, Repr, Inhabited

namespace TEAnyReq
def GetScopes (a : TEAnyReq) := a.req.GetScopes
def GetSubject (a : TEAnyReq) := a.req.GetSubject
def GetAudience (a : TEAnyReq) := a.req.GetAudience
/-- `*op.tokenExchangeRequest` has no such method either (dead unless the value satisfied `TokenActorRequest`) -/
def GetActor (_a : TEAnyReq) : String := ""
def GetAuthTime (a : TEAnyReq) := a.req.GetAuthTime
def GetClientID (a : TEAnyReq) := a.req.GetClientID
def GetAMR (a : TEAnyReq) : List String := a.req.GetAMR
/-- `AuthRequest` only (dead for an exchange request) -/
def GetACR (_a : TEAnyReq) : String := ""
def GetNonce (_a : TEAnyReq) : String := ""
def GetRequestedTokenType (a : TEAnyReq) := a.req.GetRequestedTokenType
/-- `*op.tokenExchangeRequest` has no such method (the branch is dead unless the value satisfied `AuthRequest`) -/
def GetResponseType (_a : TEAnyReq) : String := ""
end TEAnyReq

/-- a `*op.tokenExchangeRequest` stored in a `TokenRequest`: the flags come from the REGENERATED method-set table -/
def TEReq.asTokenRequest (r : TEReq) : TEAnyReq :=
  { is_AuthRequest := GenTE.tokenExchangeRequest_satisfies.contains "AuthRequest",
    is_TokenExchangeRequest := GenTE.tokenExchangeRequest_satisfies.contains "TokenExchangeRequest",
    is_RefreshTokenRequest := GenTE.tokenExchangeRequest_satisfies.contains "RefreshTokenRequest",
    is_DeviceAuthorizationState := GenTE.tokenExchangeRequest_satisfies.contains "DeviceAuthorizationState",
    is_TokenActorRequest := GenTE.tokenExchangeRequest_satisfies.contains "TokenActorRequest",
    req := r }

/-- `storage.SigningKey` + go-jose: the key is usable or not (`SignerFromKey`), and what signing access-token claims with it
    yields (`crypto.Sign`) - an oracle; the default is a readable rendering of what the token carries -/
structure TESigningKey where
  signerOK : Bool := true
  SignatureAlgorithm : String := "RS256"
  signID : TEIDTokenClaims → Go.R String := fun c =>
    .ok ("idt(" ++ c.Subject ++ ":" ++ ";".intercalate (c.UserInfo.Claims.map fun kv => kv.1 ++ "=" ++ kv.2) ++ ")")
  signAT : TEJWTClaims → Go.R String := fun c =>
    .ok ("jwt(" ++ c.JWTID ++ ":" ++ c.Subject ++ ":" ++ ";".intercalate (c.Claims.map fun kv => kv.1 ++ "=" ++ kv.2) ++ ")")
  deriving Inhabited

/-- the storage as the token-exchange code sees it (`is_…` = implements the optional interface) -/
structure TEStore where
  is_TokenExchangeStorage : Bool := true
  is_TokenExchangeTokensVerifierStorage : Bool := false
  TokenRequestByRefreshToken : String → Go.R TERefreshReq := fun _ => .error "not found"
  VerifyExchangeSubjectToken : String → String → Go.R (String × String × TEClaims) := fun _ _ => .error "unknown token"
  VerifyExchangeActorToken : String → String → Go.R (String × String × TEClaims) := fun _ _ => .error "unknown token"
  ValidateTokenExchangeRequest : TEReq → Go.R TEReq := fun r => .ok r
  CreateTokenExchangeRequest : TEReq → Go.R TEReq := fun r => .ok r
  CreateAccessAndRefreshTokens : TEAnyReq → String → Go.R (String × String × Int) := fun _ _ => .ok ("at1", "rt1", 300 * Go.second)
  CreateAccessToken : TEAnyReq → Go.R (String × Int) := fun _ => .ok ("at1", 300 * Go.second)
  -- the private claims of a JWT access token: the exchange storage's hook, the optional `CanGetPrivateClaimsFromRequest`, the base hook
  is_CanGetPrivateClaimsFromRequest : Bool := false
  GetPrivateClaimsFromTokenExchangeRequest : TEAnyReq → Go.R TEClaims := fun _ => .ok []
  GetPrivateClaimsFromRequest : TEAnyReq → List String → Go.R TEClaims := fun _ _ => .ok []
  GetPrivateClaimsFromScopes : String → String → List String → Go.R TEClaims := fun _ _ _ => .ok []
  SigningKey : Go.R TESigningKey := .ok {}
  -- the client OBJECTS are the storage's too: what their methods beyond the registry's `OPClient` answer
  ClientAccessTokenType : OPClient → Nat := fun _ => 0
  ClientClockSkew : OPClient → Int := fun _ => 0
  ClientRestrictAdditionalAccessTokenScopes : OPClient → List String → List String := fun _ s => s
  -- the userinfo of an ID token: the exchange storage's hook, the base hook, the optional `CanSetUserinfoFromRequest`
  is_CanSetUserinfoFromRequest : Bool := false
  SetUserinfoFromTokenExchangeRequest : TEUserInfo → TEAnyReq → Go.R TEUserInfo := fun u _ => .ok u
  SetUserinfoFromScopes : TEUserInfo → String → String → List String → Go.R TEUserInfo := fun u _ _ _ => .ok u
  SetUserinfoFromRequest : TEUserInfo → TEAnyReq → List String → Go.R TEUserInfo := fun u _ _ => .ok u
  ClientRestrictAdditionalIdTokenScopes : OPClient → List String → List String := fun _ s => s
  ClientIDTokenUserinfoClaimsAssertion : OPClient → Bool := fun _ => false
  deriving Inhabited

structure TECrypto where
  Decrypt : String → Go.R String := fun _ => .error "decrypt"
  Encrypt : String → Go.R String := fun s => .ok ("enc(" ++ s ++ ")")
  deriving Inhabited
structure TEATVerifier where
  verify : String → Go.R TEATClaims := fun _ => .error "invalid"
  deriving Inhabited
structure TEHintVerifier where
  verify : String → Go.R TEHint := fun _ => .error "invalid"
  deriving Inhabited

/-- the provider as `Exchanger` / `TokenCreator` (`base`: client registry and authentication, as in C05) -/
structure TEProvider where
  base : Provider := {}
  Storage : TEStore := {}
  Crypto : TECrypto := {}
  AccessTokenVerifier : TEATVerifier := {}
  IDTokenHintVerifier : TEHintVerifier := {}
  deriving Inhabited

/-! the Server router (`RegisterLegacyServer(NewLegacyServer(provider))`): the handler `webServer.tokenExchangeHandler` and
    `LegacyServer.TokenExchange` are regenerated too; `withClient` (client authentication + registered grant) is the C05 slice's -/

/-- `*ClientRequest[oidc.TokenExchangeRequest]` -/
structure TEClientRequest where
  Data : TEIn := {}
  Client : OPClient := {}
  deriving Repr, Inhabited
structure TELegacyServer where
  provider : TEProvider := {}
  deriving Inhabited
structure TEWebServer where
  server : TELegacyServer := {}
  decoder : Unit := ()
  deriving Inhabited
/-- the `*http.Request` as the handler sees it: what `decodeRequest` makes of the form -/
structure TEHttpReq where
  form : Go.R TEIn := .ok {}
  deriving Inhabited
/-- what the handler writes: an OAuth error (`WriteError`) or the token response (`resp.writeOut`) -/
inductive TEHttp
  | error (e : String)
  | ok (r : ExchangeResp)
  deriving DecidableEq, Repr, Inhabited

namespace TE
/-- `strings.Split` on character lists for a one-character separator: the pieces between the occurrences of `c` (never empty:
    `n` occurrences give `n + 1` pieces) -/
def splitChars (c : Char) : List Char → List (List Char)
  | [] => [[]]
  | x :: xs =>
    if x = c then [] :: splitChars c xs
    else match splitChars c xs with
      | h :: t => (x :: h) :: t
      | [] => [[x]]
/-- `strings.Split`: for a one-character separator (the only kind the token-exchange code uses) the list function above, which the
    C15 proofs reason about (deep4: `String.splitOn` is opaque to proofs; both agree, see the `example`s in Proofs/C15Parse.lean) -/
def split (s sep : String) : List String :=
  match sep.toList with
  | [c] => (splitChars c s.toList).map String.ofList
  | _ => s.splitOn sep
/-- first position (in characters) at which `sep` starts in `l`, counted from `i` -/
def indexFrom (sep : List Char) : List Char → Nat → Option Nat
  | [], i => if sep.isEmpty then some i else none
  | x :: xs, i => if sep.isPrefixOf (x :: xs) then some i else indexFrom sep xs (i + 1)
/-- last such position -/
def lastIndexFrom (sep : List Char) : List Char → Nat → Option Nat
  | [], i => if sep.isEmpty then some i else none
  | x :: xs, i =>
    match lastIndexFrom sep xs (i + 1) with
    | some j => some j
    | none => if sep.isPrefixOf (x :: xs) then some i else none
/-- `strings.Index` / `strings.LastIndex` (-1 = absent). Positions are counted in CHARACTERS, Go's in bytes: the translated code uses
    them only to cut the same string (`s[:i]`, `s[i+len(sep):]`) around an ASCII separator, where both readings name the same pieces -/
def index (s sep : String) : Int := match indexFrom sep.toList s.toList 0 with | some i => i | none => -1
def lastIndex (s sep : String) : Int := match lastIndexFrom sep.toList s.toList 0 with | some i => i | none => -1
/-- `s[:n]`, `s[n:]`, `s[n:m]` on strings (FuncSpec.StrSlices) -/
def sliceTo (s : String) (n : Int) : String := String.ofList (s.toList.take n.toNat)
def sliceFrom (s : String) (n : Int) : String := String.ofList (s.toList.drop n.toNat)
def slice (s : String) (n m : Int) : String := String.ofList ((s.toList.take m.toNat).drop n.toNat)
/-- `strings.Cut` -/
def cut (s sep : String) : String × String × Bool :=
  match indexFrom sep.toList s.toList 0 with
  | some i => (String.ofList (s.toList.take i), String.ofList (s.toList.drop (i + sep.toList.length)), true)
  | none => (s, "", false)
/-- `strings.SplitN(s, sep, 2)`-style: at most `n` pieces, the last one unsplit (n ≥ 1; one-character separators) -/
def splitN (s sep : String) (n : Int) : List String :=
  let all := split s sep
  if n ≤ 0 || all.length ≤ n.toNat then all
  else all.take (n.toNat - 1) ++ [sep.intercalate (all.drop (n.toNat - 1))]
/-- `strings.Count` for a one-character separator -/
def count (s sep : String) : Int := (split s sep).length - 1
/-- `CreateBearerToken` / `CreateJWT`: symbolic, never empty -/
def mintAccess (tt : Nat) (id subject : String) : String := (if tt == 1 then "jwt-at(" else "at(") ++ id ++ ":" ++ subject ++ ")"
end TE

namespace Hand

def teVerifyAccessToken (_now : Int) (token : String) (v : TEATVerifier) : Go.R TEATClaims := v.verify token
def teVerifyIDTokenHint (_now : Int) (token : String) (v : TEHintVerifier) : Go.R TEHint := v.verify token

/-- `AuthorizeTokenExchangeClient`: the regenerated function of the C05 slice on the provider's registry -/
def teAuthorizeClient (now : Int) (clientID clientSecret : String) (ex : TEProvider) : Go.R OPClient :=
  Gen.AuthorizeTokenExchangeClient now clientID clientSecret ex.base

/-- the call `CreateAccessToken(ctx, tokenExchangeRequest, …)` of `CreateTokenExchangeResponse`: Go converts the
    `*tokenExchangeRequest` to the interface `TokenRequest` implicitly; here the conversion is explicit. `f` is the REGENERATED
    `GenTE.CreateAccessToken` (which calls the regenerated `createTokens`, `CreateJWT`, `CreateBearerToken`) -/
def texAsTokenRequest (f : TEAnyReq → Nat → TEProvider → OPClient → String → Go.R (String × String × Int))
    (r : TEReq) (tt : Nat) (p : TEProvider) (c : OPClient) (cur : String) : Go.R (String × String × Int) :=
  f r.asTokenRequest tt p c cur

/-- `oidc.NewAccessTokenClaims`: the REGENERATED constructor (Generated/Claims.lean) in the richer claims type -/
def teNewAccessTokenClaims (now : Int) (issuer subject : String) (audience : List String) (expiration : Int) (jwtid clientID : String)
    (skew : Int) : TEJWTClaims :=
  { toTokenClaimsGo := (Gen.NewAccessTokenClaims now issuer subject audience expiration jwtid clientID skew).TokenClaims }

/-- `SignerFromKey`: go-jose accepts the key or not -/
def teSignerFromKey (k : TESigningKey) : Go.R TESigningKey :=
  if k.signerOK then .ok k else .error "ErrSignerCreationFailed"

/-- `crypto.Sign(claims, signer)` -/
def teSignAT (c : TEJWTClaims) (s : TESigningKey) : Go.R String := s.signAT c

/-- the call `CreateIDToken(ctx, issuer, tokenExchangeRequest, …)` of `CreateTokenExchangeResponse`: the implicit conversion of
    the `*tokenExchangeRequest` to the interface `IDTokenRequest`, made explicit; `f` is the REGENERATED `GenTE.CreateIDToken` -/
def texAsIDTokenRequest (f : String → TEAnyReq → Int → String → String → TEStore → OPClient → Go.R String)
    (iss : String) (r : TEReq) (lifetime : Int) (atok code : String) (st : TEStore) (c : OPClient) : Go.R String :=
  f iss r.asTokenRequest lifetime atok code st c

/-- `oidc.NewIDTokenClaims`: the REGENERATED constructor (Generated/Claims.lean) in the richer claims type -/
def teNewIDTokenClaims (now : Int) (issuer subject : String) (audience : List String) (expiration authTime : Int) (nonce acr : String)
    (amr : List String) (clientID : String) (skew : Int) : TEIDTokenClaims :=
  { toTokenClaimsGo := (Gen.NewIDTokenClaims now issuer subject audience expiration authTime nonce acr amr clientID skew).TokenClaims }

def teDecodeRequest (_d : Unit) (r : TEHttpReq) (_postOnly : Bool) : Go.R TEIn := r.form
def teNewClientRequest (_r : TEHttpReq) (d : TEIn) (c : OPClient) : TEClientRequest := { Data := d, Client := c }
def teWriteError (_r : TEHttpReq) (e : String) : TEHttp := .error e
/-- `NewResponse(resp)` wraps the data (headers are not modelled) -/
def teNewResponse (r : ExchangeResp) : ExchangeResp := r

/-- `oidc.ClaimHash`: symbolic (the C06 slice owns its definition; for an exchange both hashed inputs are empty and it is not called) -/
def teClaimHash (claim alg : String) : Go.R String := .ok ("hash(" ++ alg ++ ":" ++ claim ++ ")")

def teSignID (c : TEIDTokenClaims) (s : TESigningKey) : Go.R String := s.signID c

end Hand
