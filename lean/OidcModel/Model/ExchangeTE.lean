/-
  Model types for the DEEP translation of the token-exchange grant (Generated/TokenExchangeTE.lean, namespace GenTE):
  what `getTokenIDAndClaims`, `GetTokenIDAndSubjectFromToken`, `CreateTokenExchangeRequest`, `ValidateTokenExchangeRequest`,
  `needsRefreshToken`, `createTokens` and `CreateTokenExchangeResponse` of pkg/op read.  Getter / field names are Go's.
  Everything the code obtains from a library or from the storage is a FUNCTION FIELD (an oracle): `Crypto().Decrypt`,
  the access-token / id_token_hint verifiers, `TokenRequestByRefreshToken`, the optional verifier storage's two role
  methods, the storage policy (`ValidateTokenExchangeRequest` / `CreateTokenExchangeRequest`, which may rewrite the request)
  and token creation.  The theorems quantify over all of them; the C15 driver fills them with the answers of the real run.
-/
import OidcModel.Model.Exchange
import OidcModel.Model.Device
import OidcModel.Generated.TETypes
import OidcModel.Generated.TokenEndpoint

/-- `map[string]any` claims carried along (opaque to every decision) -/
abbrev TEClaims := List (String × String)

/-- `*oidc.AccessTokenClaims` (nil-able pointer) -/
structure TEATClaims where
  set : Bool := false
  JWTID : String := ""
  Subject : String := ""
  Claims : TEClaims := []
  deriving DecidableEq, Repr, Inhabited

namespace Go
instance : HasNil TEATClaims := ⟨{}⟩
instance : Nilable TEATClaims := ⟨fun c => !c.set⟩
end Go

structure TEIDClaims where
  Subject : String := ""
  Claims : TEClaims := []
  deriving DecidableEq, Repr, Inhabited

/-- ok-value of `VerifyIDTokenHint`: Go returns the claims TOGETHER with an `IDTokenHintExpiredError` for a correctly
    signed but expired hint (the translator's WrapBoth reading); every other failure is a plain error -/
inductive TEHint
  | valid (c : TEIDClaims)
  | expired (c : TEIDClaims)
  deriving DecidableEq, Repr, Inhabited

namespace TEHint
/-- what a plain `if err != nil` check after `VerifyIDTokenHint` denotes -/
def strict : Go.R TEHint → Go.R TEIDClaims
  | .ok (.valid c) => .ok c
  | .ok (.expired _) => .error "IDTokenHintExpiredError"
  | .error e => .error e
/-- what `err != nil && !errors.As(err, &IDTokenHintExpiredError{})` lets through -/
def claims : TEHint → TEIDClaims
  | .valid c => c
  | .expired c => c
end TEHint

structure TERefreshReq where
  subject : String := ""
  deriving DecidableEq, Repr, Inhabited
def TERefreshReq.GetSubject (r : TERefreshReq) := r.subject

/-- `oidc.TokenExchangeRequest` after form decoding -/
structure TEIn where
  SubjectToken : String := ""
  SubjectTokenType : String := ""
  ActorToken : String := ""
  ActorTokenType : String := ""
  RequestedTokenType : String := ""
  Scopes : List String := []
  Resource : List String := []
  Audience : List String := []
  deriving DecidableEq, Repr, Inhabited

/-- `op.tokenExchangeRequest` -/
structure TEReq where
  exchangeSubjectTokenIDOrToken : String := ""
  exchangeSubjectTokenType : String := ""
  exchangeSubject : String := ""
  exchangeSubjectTokenClaims : TEClaims := []
  exchangeActorTokenIDOrToken : String := ""
  exchangeActorTokenType : String := ""
  exchangeActor : String := ""
  exchangeActorTokenClaims : TEClaims := []
  resource : List String := []
  audience : List String := []
  scopes : List String := []
  requestedTokenType : String := ""
  clientID : String := ""
  authTime : Int := 0
  subject : String := ""
  deriving DecidableEq, Repr, Inhabited

namespace TEReq
def GetRequestedTokenType (r : TEReq) := r.requestedTokenType
def GetScopes (r : TEReq) := r.scopes
def GetSubject (r : TEReq) := r.subject
def GetAudience (r : TEReq) := r.audience
end TEReq

/-- a `TokenRequest` interface value as a type switch sees it: which of the case types its dynamic type satisfies -/
structure TEAnyReq where
  is_AuthRequest : Bool := false
  is_TokenExchangeRequest : Bool := false
  is_RefreshTokenRequest : Bool := false
  is_DeviceAuthorizationState : Bool := false
  req : TEReq := {}
  deriving DecidableEq, Repr, Inhabited

namespace TEAnyReq
def GetScopes (a : TEAnyReq) := a.req.scopes
def GetRequestedTokenType (a : TEAnyReq) := a.req.requestedTokenType
/-- `*op.tokenExchangeRequest` has no such method (the branch is dead unless the value satisfied `AuthRequest`) -/
def GetResponseType (_a : TEAnyReq) : String := ""
end TEAnyReq

/-- a `*op.tokenExchangeRequest` stored in a `TokenRequest`: the flags come from the REGENERATED method-set table -/
def TEReq.asTokenRequest (r : TEReq) : TEAnyReq :=
  { is_AuthRequest := GenTE.tokenExchangeRequest_satisfies.contains "AuthRequest",
    is_TokenExchangeRequest := GenTE.tokenExchangeRequest_satisfies.contains "TokenExchangeRequest",
    is_RefreshTokenRequest := GenTE.tokenExchangeRequest_satisfies.contains "RefreshTokenRequest",
    is_DeviceAuthorizationState := GenTE.tokenExchangeRequest_satisfies.contains "DeviceAuthorizationState",
    req := r }

/-- the storage as the token-exchange code sees it (`is_…` = implements the optional interface) -/
structure TEStore where
  is_TokenExchangeStorage : Bool := true
  is_TokenExchangeTokensVerifierStorage : Bool := false
  TokenRequestByRefreshToken : String → Go.R TERefreshReq := fun _ => .error "not found"
  VerifyExchangeSubjectToken : String → String → Go.R (String × String × TEClaims) := fun _ _ => .error "unknown token"
  VerifyExchangeActorToken : String → String → Go.R (String × String × TEClaims) := fun _ _ => .error "unknown token"
  ValidateTokenExchangeRequest : TEReq → Go.R TEReq := fun r => .ok r
  CreateTokenExchangeRequest : TEReq → Go.R TEReq := fun r => .ok r
  CreateAccessAndRefreshTokens : TEAnyReq → String → Go.R (String × String × Int) := fun _ _ => .ok ("at1", "rt1", 300 * Go.second)
  CreateAccessToken : TEAnyReq → Go.R (String × Int) := fun _ => .ok ("at1", 300 * Go.second)
  deriving Inhabited

structure TECrypto where
  Decrypt : String → Go.R String := fun _ => .error "decrypt"
  deriving Inhabited
structure TEATVerifier where
  verify : String → Go.R TEATClaims := fun _ => .error "invalid"
  deriving Inhabited
structure TEHintVerifier where
  verify : String → Go.R TEHint := fun _ => .error "invalid"
  deriving Inhabited

/-- the provider as `Exchanger` / `TokenCreator` (`base`: client registry and authentication, as in C05) -/
structure TEProvider where
  base : Provider := {}
  Storage : TEStore := {}
  Crypto : TECrypto := {}
  AccessTokenVerifier : TEATVerifier := {}
  IDTokenHintVerifier : TEHintVerifier := {}
  deriving Inhabited

namespace TE
/-- `strings.Split` -/
def split (s sep : String) : List String := s.splitOn sep
/-- `CreateBearerToken` / `CreateJWT`: symbolic, never empty -/
def mintAccess (tt : Nat) (id subject : String) : String := (if tt == 1 then "jwt-at(" else "at(") ++ id ++ ":" ++ subject ++ ")"
end TE

namespace Hand

def teVerifyAccessToken (_now : Int) (token : String) (v : TEATVerifier) : Go.R TEATClaims := v.verify token
def teVerifyIDTokenHint (_now : Int) (token : String) (v : TEHintVerifier) : Go.R TEHint := v.verify token

/-- `AuthorizeTokenExchangeClient`: the regenerated function of the C05 slice on the provider's registry -/
def teAuthorizeClient (now : Int) (clientID clientSecret : String) (ex : TEProvider) : Go.R OPClient :=
  Gen.AuthorizeTokenExchangeClient now clientID clientSecret ex.base

/-- `CreateAccessToken` (pkg/op/token.go) around the REGENERATED `createTokens` (passed in): the storage creates the token(s),
    the access token string is minted from the id (opaque: Encrypt(id:subject); JWT: signed claims) -/
def texCreateAccessToken (createTokens : TEAnyReq → TEStore → String → OPClient → Go.R (String × String × Int))
    (now : Int) (r : TEReq) (tt : Nat) (p : TEProvider) (c : OPClient) (cur : String) : Go.R (String × String × Int) :=
  match createTokens r.asTokenRequest p.Storage cur c with
  | .error e => .error e
  | .ok (id, newRefreshToken, exp) => .ok (TE.mintAccess tt id r.subject, newRefreshToken, exp - now)

def texCreateIDToken (_now : Int) (_iss : String) (r : TEReq) (_lifetime : Int) (_at _code : String) (_st : TEStore) (_c : OPClient) : Go.R String :=
  .ok ("id-token-for:" ++ r.subject)

end Hand
