/-
  deep3-C04: two extensions of the code-grant history model (Model/Flow.lean), kept OUT of `Flow.Op` so that the C07 proofs
  over `Flow.Op` are not disturbed.

  1. **A storage fault at ANY storage call of a code exchange** (`FaultAt`, `stepFault`): the existing model knows one fault
     (`exchangeDeleteFails`); here the k-th storage call of the request fails, whichever it is - one of the reads of the
     validation phase (`AuthRequestByCode`, `GetClientByClientID`, `GetKeyByIDAndClientID`, `AuthorizeClientIDSecret`), the
     token-creating call itself (`CreateAccessToken` / `CreateAccessAndRefreshTokens`), or a storage call made by
     `CreateTokenResponse` after the tokens were created (private claims / signing key of a JWT access token inside
     `CreateAccessToken`; signing key / userinfo inside `CreateIDToken`; `DeleteAuthRequest`).  What happens to the storage is
     read off the REGENERATED call list `Gen.createTokenResponseCalls` (source order, `errReturned`).

  2. **Two code exchanges served concurrently** (`stepConc`): each handler is the sequence of its storage-relevant steps -
     `lookup` (the whole validation: the only read of MUTABLE state is `AuthRequestByCode`; registrations do not change),
     then token creation and `DeleteAuthRequest` in the order of `Gen.createTokenResponseCalls` - and a schedule interleaves
     the two sequences.  The storage's `DeleteAuthRequest` is a parameter: `strict` (an atomic consume: it fails when the
     request is not there any more) or idempotent (deleting what is not there succeeds - the repo's example storage and
     the reference storage of the harness).
-/
import OidcModel.Model.Flow

namespace FlowX
open Flow

/-! ## 1. faults at every storage call -/

inductive FaultAt
  /-- a read of the validation phase fails (`site` = the storage method) -/
  | validation (site : String)
  /-- `CreateAccessToken` / `CreateAccessAndRefreshTokens` itself fails: nothing was created -/
  | createTokens
  /-- a storage call inside `callee` (a call of `CreateTokenResponse`: "CreateAccessToken" = its JWT part after the tokens were
      created, "CreateIDToken", "DeleteAuthRequest") fails -/
  | issuing (callee : String)
  deriving Repr, DecidableEq

/-- the OAuth error a failing read of the validation phase is answered with (tied by the stream; that it is an ERROR is what
    the proofs use) -/
def validationFaultError (rt : Router) (site : String) (hasAssertion : Bool) : String :=
  if site == "AuthRequestByCode" then "ErrInvalidGrant"
  else if site == "AuthorizeClientIDSecret" then "ErrInvalidClient"
  else if site == "GetClientByClientID" then (if hasAssertion then "ErrServerError" else "ErrInvalidClient")
  else match rt with
    | .provider => "ErrServerError"
    | .legacy => "ErrServerError"

/-- is a failure inside `callee` answered with an error (regenerated: `errReturned` of that call of CreateTokenResponse)? -/
def calleeFatal (callee : String) : Bool :=
  Gen.createTokenResponseCalls.any fun c => c.callee == callee && c.errReturned

/-- position of a call of `CreateTokenResponse` in the regenerated call list (source order) -/
def idxOf (callee : String) : Option Nat := Gen.createTokenResponseCalls.findIdx? (·.callee == callee)

/-- does `x` come before `y` in `CreateTokenResponse`? -/
def before (x y : String) : Bool :=
  match idxOf x, idxOf y with
  | some i, some j => decide (i < j)
  | _, _ => false

/-- have the tokens been created in the storage when a storage call inside `callee` fails?  Inside `CreateAccessToken` the
    failing call comes after `createTokens` (the first thing that function does); any other callee: its position in the
    regenerated call list relative to `CreateAccessToken` -/
def mintedBefore (callee : String) : Bool := callee == "CreateAccessToken" || before "CreateAccessToken" callee

/-- the storage effects `CreateTokenResponse` has had when a storage call inside `callee` fails (`inner`: the failing call is a
    later call inside `CreateAccessToken`, not the token-creating call itself): token creation and the deletion of the request,
    each iff it comes before `callee` in the regenerated source order - so a reordering of the two is followed -/
def effectsBefore (s : St) (i : IssueFor) (callee : String) (inner : Bool) : St :=
  let s1 := if (callee == "CreateAccessToken" && inner) || before "CreateAccessToken" callee then mintTokens s i else s
  match i with
  | .code a _ _ => if deletesAuthRequest && before "DeleteAuthRequest" callee then deleteAuthRequest s1 a.id else s1
  | .refresh _ _ _ => s1

/-- a code exchange during which the storage call `f` fails -/
def stepFault (now : Int) (s : St) (rt : Router) (req : AccessTokenRequest) (ha : Bool) : FaultAt → St × Out
  | .validation site => (s, .error (validationFaultError rt site ha))
  | .createTokens =>
    match codeExchange now rt s.p req ha with
    | .error e => (s, .error e)
    | .ok i => (effectsBefore s i "CreateAccessToken" false, .error "ErrServerError")
  | .issuing callee =>
    if callee == "DeleteAuthRequest" then step now s (.exchangeDeleteFails rt req ha)     -- the fault the base model knows
    else
      match codeExchange now rt s.p req ha with
      | .error e => (s, .error e)
      | .ok i =>
        if calleeFatal callee then (effectsBefore s i callee true, .error "ErrServerError")
        else (applyIssue s i, .issued i (newRefresh s i))    -- a swallowed failure: the exchange goes through (not the code that exists)

/-! ## 2. two concurrent exchanges -/

/-- the storage-relevant steps of a handler after its lookup -/
inductive Act | mint | delete
  deriving Repr, DecidableEq

/-- the order of token creation and request deletion in `CreateTokenResponse` (regenerated) -/
def program : List Act :=
  if !deletesAuthRequest then [.mint] else if tokensBeforeDelete then [.mint, .delete] else [.delete, .mint]

/-- one handler: not started / between two storage steps (what it is issuing, the steps still to do, the refresh token its
    response will carry) / finished -/
inductive H
  | idle (req : AccessTokenRequest) (ha : Bool)
  | run (i : IssueFor) (todo : List Act) (nr : Option String)
  | fin (out : Out)
  deriving Repr

def H.finished : H → Bool | .fin _ => true | _ => false

/-- `Storage.DeleteAuthRequest(id)` under the two contracts: `strict` = fails when the request is not (no longer) stored -/
def deleteStep (strict : Bool) (s : St) (id : String) : Option St :=
  if strict && !(s.store.authReqs.any (·.id == id)) then none else some (deleteAuthRequest s id)

/-- one storage-relevant step of a handler -/
def hstep (now : Int) (rt : Router) (strict : Bool) (s : St) : H → St × H
  | .idle req ha =>
    match codeExchange now rt s.p req ha with
    | .error e => (s, .fin (.error e))
    | .ok i => (s, if program.isEmpty then .fin (.issued i none) else .run i program none)
  | .run i [] nr => (s, .fin (.issued i nr))
  | .run i (.mint :: todo) _ =>
    let s' := mintTokens s i
    let nr := newRefresh s i
    (s', if todo.isEmpty then .fin (.issued i nr) else .run i todo nr)
  | .run i (.delete :: todo) nr =>
    match i with
    | .code a _ _ =>
      match deleteStep strict s a.id with
      | some s' => (s', if todo.isEmpty then .fin (.issued i nr) else .run i todo nr)
      | none =>
        if deleteFailureFatal then (s, .fin (.error "ErrServerError"))
        else (s, if todo.isEmpty then .fin (.issued i nr) else .run i todo nr)
    | .refresh _ _ _ => (s, if todo.isEmpty then .fin (.issued i nr) else .run i todo nr)
  | .fin o => (s, .fin o)

/-- the two handlers and the order in which they finished (true = the first handler) -/
structure Conc where
  s : St
  h1 : H
  h2 : H
  order : List Bool := []
  deriving Repr

def Conc.step (now : Int) (rt : Router) (strict : Bool) (c : Conc) (first : Bool) : Conc :=
  if first then
    let r := hstep now rt strict c.s c.h1
    { c with s := r.1, h1 := r.2, order := if !c.h1.finished && r.2.finished then c.order ++ [true] else c.order }
  else
    let r := hstep now rt strict c.s c.h2
    { c with s := r.1, h2 := r.2, order := if !c.h2.finished && r.2.finished then c.order ++ [false] else c.order }

def Conc.run (now : Int) (rt : Router) (strict : Bool) (c : Conc) : List Bool → Conc
  | [] => c
  | b :: rest => Conc.run now rt strict (c.step now rt strict b) rest

/-- every handler needs at most 1 + |program| ≤ 3 steps: after the schedule, the first and then the second handler run to their end -/
def drain : List Bool := [true, true, true, true, false, false, false, false]

def outOf : H → Out | .fin o => o | _ => .error "ErrServerError"

/-- two exchanges served concurrently under `sched`: final state, the two outputs, and which finished first -/
def stepConc (now : Int) (s : St) (rt : Router) (strict : Bool) (req1 : AccessTokenRequest) (ha1 : Bool) (req2 : AccessTokenRequest) (ha2 : Bool)
    (sched : List Bool) : St × Out × Out × List Bool :=
  let c := Conc.run now rt strict { s := s, h1 := .idle req1 ha1, h2 := .idle req2 ha2 } (sched ++ drain)
  (c.s, outOf c.h1, outOf c.h2, c.order)

end FlowX
