/-
  What `createTokens` (pkg/op/token.go) is handed as `TokenRequest`: the dynamic types the type switch of
  `needsRefreshToken` distinguishes.  The REGENERATED `Gen.needsRefreshToken` (Generated/TokenIssue.lean)
  reads this type through the views `as_<GoType>` (first matching case wins, as in Go).
-/
import OidcModel.Model.Device
import OidcModel.Generated.Tables

/-- op.TokenExchangeRequest as far as `needsRefreshToken` looks at it -/
structure TokExchangeView where
  requestedTokenType : String := ""
  deriving Repr, Inhabited, DecidableEq
def TokExchangeView.GetRequestedTokenType (x : TokExchangeView) := x.requestedTokenType

/-- *op.DeviceAuthorizationState as far as `needsRefreshToken` looks at it -/
structure TokDeviceView where
  scopes : List String := []
  deriving Repr, Inhabited, DecidableEq
def TokDeviceView.GetScopes (d : TokDeviceView) := d.scopes

inductive TokReq
  | auth (a : AuthReq)                  -- op.AuthRequest (code / implicit flow)
  | exchange (x : TokExchangeView)      -- op.TokenExchangeRequest
  | refresh (r : RefreshReq)            -- op.RefreshTokenRequest
  | device (d : TokDeviceView)          -- *op.DeviceAuthorizationState
  | other                               -- jwt-bearer / client-credentials requests
  deriving Repr, Inhabited

namespace TokReq
def as_AuthRequest : TokReq → Option AuthReq | .auth a => some a | _ => none
def as_TokenExchangeRequest : TokReq → Option TokExchangeView | .exchange x => some x | _ => none
def as_RefreshTokenRequest : TokReq → Option RefreshReq | .refresh r => some r | _ => none
def as_DeviceAuthorizationState : TokReq → Option TokDeviceView | .device d => some d | _ => none
end TokReq
