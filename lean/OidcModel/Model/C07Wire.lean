/-
  C07 (shared with C04) - histories whose token requests are given AS THEY TRAVEL (body / query / both) and in which
  registrations change.  `Flow.OpX` wraps the operations of Model/Flow.lean and adds
    * `token rt w deleteFails` - a POST to the token endpoint of router `rt`; what it is (code exchange, refresh, something
      else, nothing) is decided by the REGENERATED wire-level functions of Generated/TokenWire.lean (tokensHandler / withClient /
      ... of the Server router, Exchange / RefreshTokenExchange / ... of the Provider router) from where the parameters are;
    * `reregister c` - the registration with client id `c.id` is replaced by `c` (grant types removed, another
      authentication method, ...).
-/
import OidcModel.Model.Flow
import OidcModel.Generated.TokenWire

namespace Flow
open Go

/-- the token endpoint of router `rt` on a request as it travels -/
def tokenEndpoint (now : Int) (rt : Router) (p : Provider) (w : WireReq) : TokResp :=
  match rt with
  | .provider => GenTok.Exchange now w.oracles { w := w } { p := p }
  | .legacy => GenTok.tokensHandler now w.oracles { server := ⟨p⟩ } { w := w }

/-- `Storage` side of a changed registration: the entry with the same client id is replaced -/
def reRegister (s : St) (c : OPClient) : St :=
  s.setStore { s.store with clients := s.store.clients.map fun x => if x.id == c.id then c else x }

inductive OpX
  | base (op : Op)
  | token (rt : Router) (w : WireReq) (deleteFails : Bool)     -- deleteFails: storage fault, DeleteAuthRequest errors
  | reregister (c : OPClient)
  deriving Repr

inductive OutX
  | base (o : Out)
  | other (handler : String)      -- the request went to a grant handler this model does not follow
  deriving Repr

/-- what happens once `CreateTokenResponse` is reached while `DeleteAuthRequest` fails (the tail of `Flow.step` for
    `exchangeDeleteFails`) -/
def issueDeleteFails (s : St) (i : IssueFor) : St × Out :=
  if !deletesAuthRequest then (applyIssue s i, .issued i (newRefresh s i))
  else if deleteFailureFatal then (if tokensBeforeDelete then mintTokens s i else s, .error "ErrServerError")
  else (mintTokens s i, .issued i (newRefresh s i))

def stepX (now : Int) (s : St) : OpX → St × OutX
  | .base op => let r := step now s op; (r.1, .base r.2)
  | .reregister c => (reRegister s c, .base .done)
  | .token rt w deleteFails =>
    match tokenEndpoint now rt s.p w with
    | .err e => (s, .base (.error e))
    | .other h => (s, .other h)
    | .issue (.refresh r c cur) => (applyIssue s (.refresh r c cur), .base (.issued (.refresh r c cur) (newRefresh s (.refresh r c cur))))
    | .issue (.code a c k) =>
      if deleteFails then let r := issueDeleteFails s (.code a c k); (r.1, .base r.2)
      else (applyIssue s (.code a c k), .base (.issued (.code a c k) (newRefresh s (.code a c k))))

def runX (now : Int) (s : St) : List OpX → St × List OutX
  | [] => (s, [])
  | op :: rest =>
    let (s1, o) := stepX now s op
    let (s2, os) := runX now s1 rest
    (s2, o :: os)

end Flow
