/-
  Model types for the REGENERATED JSON wrapper methods of the claims types (Generated/CodecWrap.lean, written by factgen from
  pkg/oidc/token.go, userinfo.go, introspection.go, token_request.go, types.go on every run):

    (x *T) MarshalJSON()   = mergeAndMarshalClaims((*tAlias)(x), x.Claims)            T = AccessTokenClaims, IDTokenClaims, ActorClaims,
    (x *T) UnmarshalJSON(d) = unmarshalJSONMulti(d, (*tAlias)(x), &x.Claims)               JWTProfileAssertionClaims, LogoutTokenClaims, UserInfo
    IntrospectionResponse: the same, after the `username` <- `preferred_username` fallback
    JWTTokenRequest: its own merge through the unexported `private` map (the receiver is changed by MarshalJSON)

  A claims value is seen through what encoding/json makes of its ALIAS type (struct tags + omitempty + the members' marshalers):
  `Cdc.Reg`, a top-level object or an encoding error.  encoding/json itself is a set of small twins (`jsonMarshal`,
  `jsonUnmarshal`) over the oracles of `Cdc.Oracles`; they are listed in the trusted base and tied by the correspondence stream.
  Core Lean only; nothing generated is imported here.
-/
import OidcModel.Model.CodecGen

namespace Cdw
open Cdc

abbrev Obj := Codec.Obj

/-- decoding the object `d` into the (possibly non-empty) map `m`: `m[k] = v` for every member, the other entries stay -/
def storeOver (d m : Obj) : Obj := GoX.foldKV d m (fun m k v => GoX.mapSet m k v)

/-- a value of a claims type with a `Claims map[string]any` field for the custom claims -/
structure ClaimsVal where
  /-- the struct seen through its alias type -/
  alias : Reg
  Claims : Obj := []

/-- `mergeAndMarshalClaims(alias, claims)` as the wrappers use it: the bytes and the error (the buffer is local to the callee) -/
def mmc {ρ : Type} (f : Reg → Obj → ρ × Go.R (List Obj)) (registered : Reg) (extra : Obj) : Go.R (List Obj) := (f registered extra).2

/-- the two destinations the decoding wrappers hand to `unmarshalJSONMulti`: the typed alias pointer, the address of the custom map -/
def aliasDst {α : Type} (_ : α) : Dst := 0
def claimsDst {α : Type} (_ : α) : Dst := 1
/-- `unmarshalJSONMulti(data, d1, d2)` (variadic destinations) -/
def multi2 (f : String → List Dst → Go.R Unit) (data : String) (d1 d2 : Dst) : Go.R Unit := f data [d1, d2]

/-- what `json.Unmarshal(data, dst)` leaves in the receiver for the destination `dst` of a decoding wrapper -/
def ClaimsVal.store (o : Oracles) (data : String) (v : ClaimsVal) (dst : Dst) : Go.R ClaimsVal :=
  match o.parseObj data with
  | .error e => .error e
  | .ok d =>
    if dst == 0 then
      match o.decodeAlias d v.alias with
      | .ok a => .ok { v with alias := a }
      | .error e => .error e
    else if dst == 1 then .ok { v with Claims := storeOver d v.Claims }
    else .ok v
/-- … for a list of destinations, one after the other; the first error ends it (the receiver stays partly filled) -/
def ClaimsVal.storeAll (o : Oracles) (data : String) : ClaimsVal → List Dst → ClaimsVal × Go.R Unit
  | v, [] => (v, .ok ())
  | v, d :: ds =>
    match v.store o data d with
    | .ok v' => ClaimsVal.storeAll o data v' ds
    | .error e => (v, .error e)

/-- `oidc.IntrospectionResponse`: the two members its MarshalJSON looks at, and all the others in encoded form -/
structure IntroVal where
  Username : String := ""
  PreferredUsername : String := ""
  /-- the other registered members as encoding/json writes them -/
  rest : Go.R Obj := .ok []
  Claims : Obj := []

/-- a `string` member with `omitempty` -/
def strMember (o : Oracles) (k s : String) : Go.R Obj :=
  if s == "" then .ok [] else
  match o.marshalString s with
  | .ok t => .ok [(k, t)]
  | .error e => .error e
/-- `(*introspectionResponseAlias)(i)` as encoding/json sees it -/
def introAlias (o : Oracles) (i : IntroVal) : Reg :=
  { enc := match i.rest, strMember o "username" i.Username, strMember o "preferred_username" i.PreferredUsername with
      | .ok r, .ok u, .ok p => .ok (r ++ u ++ p)
      | .error e, _, _ => .error e
      | _, .error e, _ => .error e
      | _, _, .error e => .error e }

/-- `oidc.JWTTokenRequest`: registered members iss, sub, aud, iat, exp (no omitempty), custom claims in the unexported `private` map -/
structure JwtReq where
  alias : Reg
  priv : Obj := []

/-- `json.Marshal(v)` -/
class JMarshal (α : Type) where
  marshal : Oracles → α → Go.R Obj
/-- through `type Alias JWTTokenRequest`: struct tags only, no method -/
instance : JMarshal JwtReq := ⟨fun _ j => j.alias.enc⟩
instance : JMarshal Obj := ⟨fun o m => if o.mapEncodable m then .ok m else .error "json.UnsupportedValueError"⟩
def jsonMarshal {α : Type} [JMarshal α] (o : Oracles) (v : α) : Go.R Obj := JMarshal.marshal o v

/-- the first argument of `json.Unmarshal`: raw bytes, or a document this function has just produced -/
class JDoc (δ : Type) where
  members : Oracles → δ → Go.R Obj
instance : JDoc String := ⟨fun o s => o.parseObj s⟩
instance : JDoc Obj := ⟨fun _ d => .ok d⟩
/-- the second argument: what it holds afterwards -/
class JDest (α : Type) where
  store : Oracles → Obj → α → Go.R α
instance : JDest JwtReq := ⟨fun o d j => match o.decodeAlias d j.alias with | .ok a => .ok { j with alias := a } | .error e => .error e⟩
instance : JDest Obj := ⟨fun _ d m => .ok (storeOver d m)⟩
/-- `json.Unmarshal(data, dst)` -/
def jsonUnmarshal {δ α : Type} [JDoc δ] [JDest α] (o : Oracles) (data : δ) (dst : α) : Go.R α :=
  match JDoc.members o data with
  | .error e => .error e
  | .ok d => JDest.store o d dst

/-- `time.Unix(sec, nsec)` -/
def timeUnix (sec nsec : Int) : Int := Go.tUnix sec + nsec

/-- the members of `d` whose names are in `names` (what a typed struct with these JSON names picks out of a document) -/
def restrict (names : List String) (d : Obj) : Obj := d.filter fun kv => names.contains kv.1

end Cdw
