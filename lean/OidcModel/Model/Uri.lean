/-
  URIs as the redirect-URI validation of pkg/op/auth_request.go sees them (C03).
  `net/url.Parse`, `net.ParseIP(..).IsLoopback` and `doublestar.Match` are ORACLES: the model and the
  monitor receive their answers as data (`UriOracle`), every theorem quantifies over all oracles.
  Core Lean only; nothing generated is imported here (the monitor executable builds from this file).
-/
import OidcModel.Model.OP

namespace Const
def ResponseModeQuery := "query"
def ResponseModeFragment := "fragment"
def ResponseModeFormPost := "form_post"
end Const

/-- `*url.URL` as returned by `url.Parse` (`nilp` = the nil pointer).  `Scheme`, `Hostname`, `Path`,
    `RawQuery` are what the Go code reads; `User`, `EscapedPath`, `Fragment` are further components of the
    same parse, read only by the strict reading of "loopback variant" in the monitor. -/
structure URL where
  nilp : Bool := false
  raw : String := ""            -- the string that was parsed
  Scheme : String := ""
  Host : String := ""           -- host[:port] as written
  Hostname : String := ""       -- result of `.Hostname()` (host without port and brackets)
  Path : String := ""           -- decoded path
  RawQuery : String := ""
  User : String := ""           -- userinfo as written (`""` = none)
  EscapedPath : String := ""    -- path as written
  Fragment : String := ""       -- fragment as written (`""` = none)
  deriving DecidableEq, Repr, Inhabited

instance : Go.HasNil URL := ⟨{ nilp := true }⟩
instance : Go.Nilable URL := ⟨fun u => u.nilp⟩

/-- `net.IP` reduced to the one question the code asks -/
structure IP where
  IsLoopback : Bool := false
  deriving DecidableEq, Repr, Inhabited

/-- the answers of the three libraries -/
structure UriOracle where
  parse : String → Go.R URL                    -- net/url.Parse
  parseIP : String → IP                        -- net.ParseIP(host) (nil IP ⇒ IsLoopback = false)
  globMatch : String → String → Go.R Bool      -- doublestar.Match(pattern, name); error = malformed pattern

namespace UriOracle
/-- `url.Parse s`: a successful parse is a non-nil URL of the string `s` -/
def urlParse (o : UriOracle) (s : String) : Go.R URL :=
  match o.parse s with
  | .ok u => .ok { u with raw := s, nilp := false }
  | .error e => .error e
end UriOracle


namespace Go
/-- `for _, v := range l { body }` where the body either returns (`some r`) or falls through (`none`) -/
def forRange {α β : Type} (l : List α) (body : α → Option β) : Option β :=
  match l with
  | [] => none
  | x :: xs =>
    match body x with
    | some r => some r
    | none => forRange xs body
end Go
