/-
  C17: the proof module the check builds and audits - every theorem of the slice (per-run and history theorems, request isolation
  over the slice-header model, the keys of the constructed cookie handler, the constructed relying party).
-/
import OidcModel.Proofs.C17IsoPkce
import OidcModel.Proofs.C17Keys
import OidcModel.Proofs.C17Construct
