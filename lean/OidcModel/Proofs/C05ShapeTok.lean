/-
  C05, layer 1 of the proofs (part 1: the token-endpoint functions shared with C04 / C07 / C14, namespace `Gen`).

  `SpecTok.f` is a hand-maintained, FROZEN, readable normal form of the translated Go function `Gen.f` (Generated/TokenEndpoint.lean;
  the callees stay the REGENERATED ones, so every lemma of the slice is still stated about `Gen.*`), and
  `SpecTok.f_eq : Gen.f args = SpecTok.f args` is the ONE characterisation lemma of that function.  It is the only place where the
  text of the Go function matters and it is proved by `ep_shape` (= `rfl` when the regenerated term is the frozen one, otherwise
  `go_eq` / `go_leaf` of GoTac*.lean: split both sides on their scrutinees in whatever nesting / order / polarity the Go text has,
  close the leaves by `simp_all` / `grind`).  A semantically neutral rewrite of the Go function regenerates another term and the
  same script closes the goal; a rewrite that changes what the function computes leaves an unprovable leaf, the module does not
  build and `./check C05` (and every check importing Proofs/C05.lean) reports the violation.  Every other theorem of the slice
  rewrites with `f_eq` and works on the frozen text: no other proof of the slice unfolds a regenerated definition.

  THIS FILE IS NOT GENERATED.  When a Go function changes its meaning on purpose (a `fix:` commit), the frozen text here is edited
  by hand together with the theorems that depend on it.
-/
import OidcModel.Generated.TokenEndpoint
import OidcModel.GoTacEq
set_option linter.unusedVariables false

/-- close `Gen.f args = Spec.f args` after both sides are unfolded -/
syntax "ep_shape" : tactic
macro_rules
  | `(tactic| ep_shape) => `(tactic| first
      | rfl
      | go_eq []
      | go_leaf)

namespace SpecTok
open Go
open Hand
open Const
open Gen

/-- frozen normal form of `Gen.AuthorizeClientIDSecret` (pkg/op/token_request.go:121 `AuthorizeClientIDSecret`) -/
def AuthorizeClientIDSecret (now : Int) (clientID clientSecret : String) (storage : Store) : Go.R Unit :=
  (match ((storage).AuthorizeClientIDSecret clientID clientSecret) with
  | .error err => (.error "ErrInvalidClient")
  | .ok _ =>
  Go.ok)

theorem AuthorizeClientIDSecret_eq (now : Int) (clientID clientSecret : String) (storage : Store) : Gen.AuthorizeClientIDSecret now clientID clientSecret storage = SpecTok.AuthorizeClientIDSecret now clientID clientSecret storage := by
  unfold Gen.AuthorizeClientIDSecret SpecTok.AuthorizeClientIDSecret; ep_shape

/-- frozen normal form of `Gen.AuthorizePrivateJWTKey` (pkg/op/token_request.go:146 `AuthorizePrivateJWTKey`) -/
def AuthorizePrivateJWTKey (now : Int) (clientAssertion : Token) (exchanger : Provider) : Go.R OPClient :=
  (match (VerifyJWTAssertion now clientAssertion ((exchanger).JWTProfileVerifier )) with
  | .error err => (.error err)
  | .ok jwtReq =>
  (match ((((exchanger).Storage)).GetClientByClientID (jwtReq).Issuer) with
  | .error err => (.error err)
  | .ok client =>
  (if (((client).AuthMethod) != Const.AuthMethodPrivateKeyJWT) then
    (.error "ErrInvalidClient")
  else
  (.ok client))))

theorem AuthorizePrivateJWTKey_eq (now : Int) (clientAssertion : Token) (exchanger : Provider) : Gen.AuthorizePrivateJWTKey now clientAssertion exchanger = SpecTok.AuthorizePrivateJWTKey now clientAssertion exchanger := by
  unfold Gen.AuthorizePrivateJWTKey SpecTok.AuthorizePrivateJWTKey; ep_shape

/-- frozen normal form of `Gen.AuthorizeTokenExchangeClient` (pkg/op/token_exchange.go:359 `AuthorizeTokenExchangeClient`) -/
def AuthorizeTokenExchangeClient (now : Int) (clientID clientSecret : String) (exchanger : Provider) : Go.R OPClient :=
  (match (Gen.AuthorizeClientIDSecret now clientID clientSecret ((exchanger).Storage)) with
  | .error err => (.error err)
  | .ok _ =>
  (match ((((exchanger).Storage)).GetClientByClientID clientID) with
    | .error err => (.error "ErrInvalidClient")
    | .ok client =>
    (if ((((client).AuthMethod) == Const.AuthMethodPost) && (!((exchanger).AuthMethodPostSupported))) then
      (.error "ErrInvalidClient")
    else
    (.ok client))))

theorem AuthorizeTokenExchangeClient_eq (now : Int) (clientID clientSecret : String) (exchanger : Provider) : Gen.AuthorizeTokenExchangeClient now clientID clientSecret exchanger = SpecTok.AuthorizeTokenExchangeClient now clientID clientSecret exchanger := by
  unfold Gen.AuthorizeTokenExchangeClient SpecTok.AuthorizeTokenExchangeClient; ep_shape

/-- frozen normal form of `Gen.AuthorizeClientCredentialsClient` (pkg/op/token_client_credentials.go:95 `AuthorizeClientCredentialsClient`) -/
def AuthorizeClientCredentialsClient (now : Int) (request : ClientCredentials) (storage : Store) : Go.R OPClient :=
  (match ((storage).ClientCredentials (request).ClientID (request).ClientSecret) with
  | .error err => (.error "ErrInvalidClient")
  | .ok client =>
  (if (!(Gen.ValidateGrantType now client Const.GrantTypeClientCredentials)) then
    (.error "ErrUnauthorizedClient")
  else
  (.ok client)))

theorem AuthorizeClientCredentialsClient_eq (now : Int) (request : ClientCredentials) (storage : Store) : Gen.AuthorizeClientCredentialsClient now request storage = SpecTok.AuthorizeClientCredentialsClient now request storage := by
  unfold Gen.AuthorizeClientCredentialsClient SpecTok.AuthorizeClientCredentialsClient; ep_shape

/-- frozen normal form of `Gen.LegacyVerifyClient` (pkg/op/server_legacy.go:183 `LegacyServer.VerifyClient`) -/
def LegacyVerifyClient (now : Int) (s : LegacyServer) (r : Request ClientCredentials) : Go.R OPClient :=
  (if ((((r).Form).Get "grant_type") == Const.GrantTypeClientCredentials) then
    let storage := (((s).provider).Storage);
    let ok := ((((s).provider).Storage)).is_ClientCredentialsStorage;
    (if (!ok) then
      (.error "ErrUnsupportedGrantType")
    else
    ((storage).ClientCredentials ((r).Data).ClientID ((r).Data).ClientSecret))
  else
  (if (((r).Data).ClientAssertionType == Const.ClientAssertionTypeJWTAssertion) then
      let jwtExchanger := (s).provider;
      let ok := ((s).provider).is_JWTAuthorizationGrantExchanger;
      (if ((!ok) || (!(((s).provider).AuthMethodPrivateKeyJWTSupported))) then
        (.error "ErrInvalidClient")
      else
      (Gen.AuthorizePrivateJWTKey now ((r).Data).ClientAssertion jwtExchanger))
    else
    (match (((((s).provider).Storage)).GetClientByClientID ((r).Data).ClientID) with
      | .error err => (.error "ErrInvalidClient")
      | .ok client =>
      (if (((client).AuthMethod) == Const.AuthMethodNone) then
        (.ok client)
      else if (((client).AuthMethod) == Const.AuthMethodPrivateKeyJWT) then
        (.error "ErrInvalidClient")
      else if (((client).AuthMethod) == Const.AuthMethodPost) then
        (if (!(((s).provider).AuthMethodPostSupported)) then
          (.error "ErrInvalidClient")
        else
        (match (Gen.AuthorizeClientIDSecret now ((r).Data).ClientID ((r).Data).ClientSecret (((s).provider).Storage)) with
          | .error err => (.error err)
          | .ok _ =>
          (.ok client)))
      else (match (Gen.AuthorizeClientIDSecret now ((r).Data).ClientID ((r).Data).ClientSecret (((s).provider).Storage)) with
          | .error err => (.error err)
          | .ok _ =>
          (.ok client))))))

theorem LegacyVerifyClient_eq (now : Int) (s : LegacyServer) (r : Request ClientCredentials) : Gen.LegacyVerifyClient now s r = SpecTok.LegacyVerifyClient now s r := by
  unfold Gen.LegacyVerifyClient SpecTok.LegacyVerifyClient; ep_shape

/-- frozen normal form of `Gen.AuthorizeRefreshClient` (pkg/op/token_refresh.go:99 `AuthorizeRefreshClient`) -/
def AuthorizeRefreshClient (now : Int) (tokenReq : RefreshTokenRequest) (exchanger : Provider) : Go.R (RefreshReq × OPClient) :=
  (if ((tokenReq).ClientAssertionType == Const.ClientAssertionTypeJWTAssertion) then
    let jwtExchanger := exchanger;
    let ok := (exchanger).is_JWTAuthorizationGrantExchanger;
    (if ((!ok) || (!((exchanger).AuthMethodPrivateKeyJWTSupported))) then
      (.error "error:auth_method private_key_jwt not supported")
    else
    (match (Gen.AuthorizePrivateJWTKey now (tokenReq).ClientAssertion jwtExchanger) with
      | .error err => (.error err)
      | .ok client =>
      (if (!(Gen.ValidateGrantType now client Const.GrantTypeRefreshToken)) then
        (.error "ErrUnauthorizedClient")
      else
      (match (Gen.RefreshTokenRequestByRefreshToken now ((exchanger).Storage) (tokenReq).RefreshToken) with
        | .error err => (.error err)
        | .ok request =>
        (.ok (request, client))))))
  else
  (match ((((exchanger).Storage)).GetClientByClientID (tokenReq).ClientID) with
    | .error err => (.error err)
    | .ok client =>
    (if (!(Gen.ValidateGrantType now client Const.GrantTypeRefreshToken)) then
      (.error "ErrUnauthorizedClient")
    else
    (if (((client).AuthMethod) == Const.AuthMethodPrivateKeyJWT) then
        (.error "ErrInvalidClient")
      else
      (if (((client).AuthMethod) == Const.AuthMethodNone) then
          (match (Gen.RefreshTokenRequestByRefreshToken now ((exchanger).Storage) (tokenReq).RefreshToken) with
          | .error err => (.error err)
          | .ok request =>
          (.ok (request, client)))
        else
        (if ((((client).AuthMethod) == Const.AuthMethodPost) && (!((exchanger).AuthMethodPostSupported))) then
            (.error "ErrInvalidClient")
          else
          (match (Gen.AuthorizeClientIDSecret now (tokenReq).ClientID (tokenReq).ClientSecret ((exchanger).Storage)) with
            | .error err => (.error err)
            | .ok _ =>
            (match (Gen.RefreshTokenRequestByRefreshToken now ((exchanger).Storage) (tokenReq).RefreshToken) with
              | .error err => (.error err)
              | .ok request =>
              (.ok (request, client))))))))))

theorem AuthorizeRefreshClient_eq (now : Int) (tokenReq : RefreshTokenRequest) (exchanger : Provider) : Gen.AuthorizeRefreshClient now tokenReq exchanger = SpecTok.AuthorizeRefreshClient now tokenReq exchanger := by
  unfold Gen.AuthorizeRefreshClient SpecTok.AuthorizeRefreshClient; ep_shape

/-- frozen normal form of `Gen.ValidateRefreshTokenRequest` (pkg/op/token_refresh.go:61 `ValidateRefreshTokenRequest`) -/
def ValidateRefreshTokenRequest (now : Int) (tokenReq : RefreshTokenRequest) (exchanger : Provider) : Go.R (RefreshReq × OPClient) :=
  (if ((tokenReq).RefreshToken == "") then
    (.error "ErrInvalidRequest")
  else
  (match (Gen.AuthorizeRefreshClient now tokenReq exchanger) with
    | .error err => (.error err)
    | .ok (request, client) =>
    (if (((client).GetID) != ((request).GetClientID)) then
      (.error "ErrInvalidGrant")
    else
    (match (Gen.ValidateRefreshTokenScopes now (tokenReq).Scopes request) with
      | .error err => (.error err)
      | .ok request =>
      (.ok (request, client))))))

theorem ValidateRefreshTokenRequest_eq (now : Int) (tokenReq : RefreshTokenRequest) (exchanger : Provider) : Gen.ValidateRefreshTokenRequest now tokenReq exchanger = SpecTok.ValidateRefreshTokenRequest now tokenReq exchanger := by
  unfold Gen.ValidateRefreshTokenRequest SpecTok.ValidateRefreshTokenRequest; ep_shape

/-- frozen normal form of `Gen.LegacyRefreshToken` (pkg/op/server_legacy.go:252 `LegacyServer.RefreshToken`) -/
def LegacyRefreshToken (now : Int) (s : LegacyServer) (r : ClientRequest RefreshTokenRequest) : Go.R IssueFor :=
  (if (!(((s).provider).GrantTypeRefreshTokenSupported)) then
    (.error (Hand.unimplementedGrantError Const.GrantTypeRefreshToken))
  else
  (match (Gen.RefreshTokenRequestByRefreshToken now (((s).provider).Storage) ((r).Data).RefreshToken) with
    | .error err => (.error err)
    | .ok request =>
    (if ((((r).Client).GetID) != ((request).GetClientID)) then
      (.error "ErrInvalidGrant")
    else
    (match (Gen.ValidateRefreshTokenScopes now ((r).Data).Scopes request) with
      | .error err => (.error err)
      | .ok request =>
      (match (Hand.issueForRefresh now request (r).Client (s).provider true "" ((r).Data).RefreshToken) with
        | .error err => (.error err)
        | .ok resp =>
        (.ok (NewResponse now resp)))))))

theorem LegacyRefreshToken_eq (now : Int) (s : LegacyServer) (r : ClientRequest RefreshTokenRequest) : Gen.LegacyRefreshToken now s r = SpecTok.LegacyRefreshToken now s r := by
  unfold Gen.LegacyRefreshToken SpecTok.LegacyRefreshToken; ep_shape

end SpecTok
