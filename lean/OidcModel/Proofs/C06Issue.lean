/-
  C06 (deep): theorems over the REGENERATED issuance functions themselves (Generated/IssueC06.lean, namespace GenC06):
  `removeUserinfoScopes`, the claim hash with the digest object as a value, `CreateIDToken`, `CreateJWT`,
  `CreateAccessToken`, `CreateTokenResponse`, `CreateDeviceTokenResponse`.

  Every statement is for ALL requests, clients (including ALL restriction functions), scope sets, storages (all answers of
  all storage methods, all capability flags), signing keys / signing functions and encryption functions.
-/
import OidcModel.Generated.IssueC06
import OidcModel.Proofs.C06
namespace C06
open Go Hand

/-! ### scope filtering -/

theorem foldl_removeUserinfo (l acc : List String) :
    List.foldl (fun newScopeList scope =>
      if (scope == IssConst.ScopeProfile || scope == IssConst.ScopeEmail || scope == IssConst.ScopeAddress || scope == IssConst.ScopePhone) = true then newScopeList
      else Go.append newScopeList scope) acc l
    = acc ++ l.filter (fun s => !userinfoScopes.contains s) := by
  induction l generalizing acc with
  | nil => simp
  | cons x xs ih =>
    simp only [List.foldl_cons, ih, List.filter_cons]
    by_cases h : (x == IssConst.ScopeProfile || x == IssConst.ScopeEmail || x == IssConst.ScopeAddress || x == IssConst.ScopePhone) = true
    · have hc : x ∈ userinfoScopes := by
        simp only [IssConst.ScopeProfile, IssConst.ScopeEmail, IssConst.ScopeAddress, IssConst.ScopePhone, Bool.or_eq_true, beq_iff_eq] at h
        simp only [userinfoScopes, List.mem_cons, List.not_mem_nil, or_false]
        rcases h with ((h | h) | h) | h <;> simp [h]
      simp [h, hc]
    · have hc : x ∉ userinfoScopes := by
        simp only [IssConst.ScopeProfile, IssConst.ScopeEmail, IssConst.ScopeAddress, IssConst.ScopePhone, Bool.or_eq_true, beq_iff_eq, not_or] at h
        simp only [userinfoScopes, List.mem_cons, List.not_mem_nil, or_false, not_or]
        exact ⟨h.1.1.1, h.1.1.2, h.2, h.1.2⟩
      simp [h, hc, Go.append]

/-- `removeUserinfoScopes` (the regenerated loop) drops exactly profile / email / address / phone and keeps the order of the rest -/
theorem c06_remove_userinfo_scopes (now : Int) (scopes : List String) :
    GenC06.removeUserinfoScopes now scopes = scopes.filter (fun s => !userinfoScopes.contains s) := by
  unfold GenC06.removeUserinfoScopes GoX.foldList
  simpa using foldl_removeUserinfo scopes []

/-! ### the claim hash, the digest object being a VALUE -/

theorem encode_uniform (a : HashAlg) (w : String) (l : List IssDigestByte) (hne : l ≠ []) (hall : ∀ b ∈ l, b.alg = a ∧ b.input = w) :
    IssHasher.encode l = Hand.digestPrefix a l.length w := by
  cases l with
  | nil => exact absurd rfl hne
  | cons b bs =>
    have := hall b (by simp)
    simp [IssHasher.encode, this.1, this.2]

/-- the digest prefix `crypto.HashString` returns is over EVERYTHING written to the digest object so far, and the object it
    leaves behind has the string appended: a second use of the same object hashes the concatenation -/
theorem hashString_spec (now : Int) (h : IssHasher) (s : String) (hn : h.nilp = false) :
    GenC06.HashString now h s true = (Hand.leftHalfHash h.alg (h.written ++ s), h.Write s) := by
  have key : ∀ n : Nat, 0 < n → n ≤ h.alg.size →
      IssHasher.encode (List.take n ((h.Write s).Sum Go.nil)) = Hand.digestPrefix h.alg n (h.written ++ s) := by
    intro n hpos hle
    have hlen : (List.take n ((h.Write s).Sum Go.nil)).length = n := by
      simp [IssHasher.Sum, IssHasher.Write, List.length_take, Nat.min_eq_left hle]
    rw [encode_uniform h.alg (h.written ++ s)]
    · rw [hlen]
    · intro hnil; rw [hnil] at hlen; simp at hlen; omega
    · intro b hb
      have hb' := List.mem_of_mem_take hb
      simp only [IssHasher.Sum, IssHasher.Write, List.mem_map] at hb'
      obtain ⟨i, _, rfl⟩ := hb'
      exact ⟨rfl, rfl⟩
  unfold GenC06.HashString
  simp only [Go.isNil, Go.Nilable.isNil, hn, Bool.false_eq_true, if_false, if_true, GoX.sliceTo, Hand.leftHalfHash]
  cases ha : h.alg <;>
    simp only [IssHasher.Size, IssHasher.Write, ha, HashAlg.size] <;>
    (have := key (h.alg.size / 2) (by rw [ha]; decide) (by rw [ha]; decide)
     simp only [ha, HashAlg.size, IssHasher.Write] at this
     simpa using this)

/-- the regenerated `oidc.ClaimHash` obtains a FRESH digest object and hashes exactly the claim: it is the function the RP-side
    model (`Gen.ClaimHash`, Generated/Hash.lean, used by `rp.VerifyAccessToken`) computes -/
theorem claimHash_fresh (now : Int) (claim alg : String) : GenC06.ClaimHash now claim alg = Gen.ClaimHash now claim alg := by
  unfold GenC06.ClaimHash Gen.ClaimHash GenC06.GetHashAlgorithm Gen.GetHashAlgorithm
  by_cases h1 : (alg == Const.RS256 || alg == Const.ES256 || alg == Const.PS256) = true
  · simp [h1, hashString_spec, IssHasher.fresh, Gen.HashString, Hand.leftHalfHash, HashAlg.size]
  · by_cases h2 : (alg == Const.RS384 || alg == Const.ES384 || alg == Const.PS384) = true
    · simp [h1, h2, hashString_spec, IssHasher.fresh, Gen.HashString, Hand.leftHalfHash, HashAlg.size]
    · by_cases h3 : (alg == Const.RS512 || alg == Const.ES512 || alg == Const.PS512) = true
      · simp [h1, h2, h3, hashString_spec, IssHasher.fresh, Gen.HashString, Hand.leftHalfHash, HashAlg.size]
      · by_cases h4 : (alg == Const.EdDSA) = true
        · simp [h1, h2, h3, h4, hashString_spec, IssHasher.fresh, Gen.HashString, Hand.leftHalfHash, HashAlg.size]
        · simp [h1, h2, h3, h4]

/-- reuse is visible: a digest object that already served one claim yields, for the next one, the hash of the concatenation -/
theorem hasher_reuse_visible (now : Int) (a : HashAlg) (s t : String) :
    (GenC06.HashString now (GenC06.HashString now (IssHasher.fresh a) s true).2 t true).1 = Hand.leftHalfHash a (s ++ t) := by
  rw [hashString_spec now (IssHasher.fresh a) s rfl]
  rw [hashString_spec now _ t rfl]
  simp [IssHasher.fresh, IssHasher.Write]

/-! ### the ID token: which scopes the storage is asked about -/

/-- a storage whose userinfo setters are asked about the scope list `E`, whatever list they are handed -/
def pinUserinfoScopes (st : IssStorage) (E : List String) : IssStorage :=
  { st with SetUserinfoFromScopes := fun u sub cid _ => st.SetUserinfoFromScopes u sub cid E,
            SetUserinfoFromRequest := fun u r _ => st.SetUserinfoFromRequest u r E }

/-- a storage whose userinfo-by-scopes setters are never to be called -/
def noUserinfoByScopes (st : IssStorage) : IssStorage :=
  { st with SetUserinfoFromScopes := fun _ _ _ _ => .error "must-not-be-called",
            SetUserinfoFromRequest := fun _ _ _ => .error "must-not-be-called" }

theorem c06_id_token_scopes (now : Int) (issuer : String) (request : IssRequest) (validity : Int) (accessToken code : String)
    (storage : IssStorage) (client : IssClient) :
    GenC06.CreateIDToken now issuer request validity accessToken code storage client =
    GenC06.CreateIDToken now issuer request validity accessToken code
      (pinUserinfoScopes storage (idTokenScopes (client.RestrictAdditionalIdTokenScopes request.GetScopes) (accessToken != "") client.IDTokenUserinfoClaimsAssertion))
      client := by
  unfold GenC06.CreateIDToken pinUserinfoScopes
  simp only []
  cases hk : storage.SigningKey with
  | error e => simp
  | ok key =>
    simp only []
    by_cases hat : accessToken = ""
    · subst hat; simp [idTokenScopes]
    · cases hh : GenC06.ClaimHash now accessToken key.SignatureAlgorithm with
      | error e => simp [hat]
      | ok h => cases client.IDTokenUserinfoClaimsAssertion <;> simp [hat, idTokenScopes, c06_remove_userinfo_scopes]

/-- the userinfo-by-scopes setters are not consulted at all when the token-exchange storage answers for a token-exchange request,
    or when no scope is left after the restriction -/
theorem c06_id_token_no_userinfo_call (now : Int) (issuer : String) (request : IssRequest) (validity : Int) (accessToken code : String)
    (storage : IssStorage) (client : IssClient)
    (hno : (request.is_TokenExchangeRequest && storage.is_TokenExchangeStorage) = true ∨
      idTokenScopes (client.RestrictAdditionalIdTokenScopes request.GetScopes) (accessToken != "") client.IDTokenUserinfoClaimsAssertion = []) :
    GenC06.CreateIDToken now issuer request validity accessToken code storage client =
    GenC06.CreateIDToken now issuer request validity accessToken code (noUserinfoByScopes storage) client := by
  rw [c06_id_token_scopes now issuer request validity accessToken code storage client,
      c06_id_token_scopes now issuer request validity accessToken code (noUserinfoByScopes storage) client]
  unfold GenC06.CreateIDToken pinUserinfoScopes noUserinfoByScopes
  simp only []
  cases storage.SigningKey with
  | error e => simp
  | ok key =>
    simp only []
    rcases hno with hte | hE
    · simp [hte]
    · by_cases hat : accessToken = ""
      · subst hat
        simp only [idTokenScopes, bne_self_eq_false, Bool.false_and, Bool.false_eq_true, if_false] at hE
        simp [hE, Go.len, Go.HasLen.len]
      · cases hh : GenC06.ClaimHash now accessToken key.SignatureAlgorithm with
        | error e => simp [hat]
        | ok hv =>
          by_cases ha : client.IDTokenUserinfoClaimsAssertion = true
          · simp only [idTokenScopes, ha, Bool.not_true, Bool.and_false, Bool.false_eq_true, if_false] at hE
            simp [hat, ha, hE, Go.len, Go.HasLen.len]
          · simp only [Bool.not_eq_true] at ha
            have hat' : (accessToken != "") = true := by simp [hat]
            simp only [idTokenScopes, ha, hat', Bool.not_false, Bool.and_self, if_true] at hE
            have hE' : GenC06.removeUserinfoScopes now (client.RestrictAdditionalIdTokenScopes request.GetScopes) = [] := by
              rw [c06_remove_userinfo_scopes]; exact hE
            simp [hat, ha, hE', Go.len, Go.HasLen.len]

/-! ### non-vacuity: the restriction cross on a concrete registration -/

/-- (for the `decide`d examples only) -/
instance decEqExcept {ε α : Type} [DecidableEq ε] [DecidableEq α] : DecidableEq (Except ε α) := fun a b =>
  match a, b with
  | .ok x, .ok y => if h : x = y then isTrue (by rw [h]) else isFalse (by intro e; cases e; exact h rfl)
  | .error x, .error y => if h : x = y then isTrue (by rw [h]) else isFalse (by intro e; cases e; exact h rfl)
  | .ok _, .error _ => isFalse (by intro e; cases e)
  | .error _, .ok _ => isFalse (by intro e; cases e)

/-- a storage that writes the scope list it is asked about into the userinfo / the private claims, and a key whose "signature"
    spells out the claim names (so that the examples can be read) -/
def exStorage : IssStorage :=
  { SetUserinfoFromScopes := fun u sub _ sc => .ok { u with Subject := sub, Claims := sc.map (fun s => (s, "v")) },
    GetPrivateClaimsFromScopes := fun _ _ sc => .ok (sc.map (fun s => (s, "v"))),
    SigningKey := .ok { signID := fun c => .ok ("id[" ++ ",".intercalate (c.UserInfo.Claims.map (·.1)) ++ "]at_hash=" ++ c.AccessTokenHash ++ ";c_hash=" ++ c.CodeHash),
                        signAT := fun c => .ok ("at[" ++ ",".intercalate (c.Claims.map (·.1)) ++ "]") } }

/-- custom_scope only into access tokens, custom_scope2 only into ID tokens -/
def exClient : IssClient :=
  { GetID := "rp", RestrictAdditionalIdTokenScopes := fun l => l.filter (· != "custom_scope"),
    RestrictAdditionalAccessTokenScopes := fun l => l.filter (· != "custom_scope2") }

def exRequest : IssRequest :=
  { GetSubject := "u1", GetClientID := "rp", GetScopes := ["openid", "email", "custom_scope", "custom_scope2"], is_AuthRequest := true, GetNonce := "n" }

example : GenC06.CreateIDToken 2000000000000000000 "https://op" exRequest (3600 * Go.second) "AT" "CODE" exStorage exClient
    = .ok "id[openid,custom_scope2]at_hash=H(sha256/2,AT);c_hash=H(sha256/2,CODE)" := by decide
example : GenC06.CreateIDToken 2000000000000000000 "https://op" exRequest (3600 * Go.second) "" "" exStorage exClient
    = .ok "id[openid,email,custom_scope2]at_hash=;c_hash=" := by decide
example : GenC06.CreateJWT 2000000000000000000 "https://op" exRequest 2000000300000000000 "at1" exClient exStorage = .ok "at[openid,custom_scope]" := by decide
example : (GenC06.CreateTokenResponse 2000000000000000000 exRequest { exClient with AccessTokenType := 1 }
      { Storage := { exStorage with CreateAccessToken := fun _ => .ok ("at1", 2000000300000000000) }, IssuerFromContext := "https://op" } true "CODE" "").map
      (fun r => (r.AccessToken, r.ExpiresIn, r.Scope, r.State))
    = .ok ("at[openid,custom_scope]", 300, ["openid", "email", "custom_scope", "custom_scope2"], "") := by decide

/-! ### the ID token: the claims that are signed -/

/-- `t` with another subject -/
def withSubject (t : TokenClaimsGo) (s : String) : TokenClaimsGo := { t with Subject := s }

/-- Whenever `CreateIDToken` returns a token it is the signature (go-jose, an arbitrary function of the key) over claims `c`
    such that: `at_hash` is absent exactly when no access token was handed in and otherwise is `ClaimHash(accessToken)`,
    `c_hash` is absent exactly when no code was handed in and otherwise is `ClaimHash(code)` - each computed by the function
    the RP verifies with (`Gen.ClaimHash`), i.e. from a FRESH digest over exactly that string; the registered claims are those
    of the regenerated `NewIDTokenClaims` for this request (nonce / acr only from an authorization request, expiry
    now + skew + validity), except that the subject may have been replaced by a non-empty subject the storage's userinfo carries -/
theorem c06_id_token_claims (now : Int) (issuer : String) (request : IssRequest) (validity : Int) (accessToken code : String)
    (storage : IssStorage) (client : IssClient) (tok : String)
    (h : GenC06.CreateIDToken now issuer request validity accessToken code storage client = .ok tok) :
    ∃ key c, storage.SigningKey = .ok key ∧ key.signerOK = true ∧ key.signID c = .ok tok ∧
      ((accessToken = "" ∧ c.AccessTokenHash = "") ∨ (accessToken ≠ "" ∧ Gen.ClaimHash now accessToken key.SignatureAlgorithm = .ok c.AccessTokenHash)) ∧
      ((code = "" ∧ c.CodeHash = "") ∨ (code ≠ "" ∧ Gen.ClaimHash now code key.SignatureAlgorithm = .ok c.CodeHash)) ∧
      c.toTokenClaimsGo = withSubject (Gen.NewIDTokenClaims now issuer request.GetSubject request.GetAudience (now + client.ClockSkew + validity) request.GetAuthTime
          (if request.is_AuthRequest then request.GetNonce else "") (if request.is_AuthRequest then request.GetACR else "") request.GetAMR request.GetClientID
          client.ClockSkew).TokenClaims c.Subject ∧
      (c.Subject = request.GetSubject ∨ (c.Subject ≠ "" ∧ c.Subject = c.UserInfo.Subject)) := by
  unfold GenC06.CreateIDToken at h
  simp only [] at h
  split at h
  · simp at h
  rename_i _ key hkey
  split at h
  · simp at h
  rename_i _ claims2 scopes hst1
  split at h
  · simp at h
  rename_i _ claims1 hst2
  split at h
  · simp at h
  rename_i _ claims0 hst3
  split at h
  · simp at h
  rename_i _ signer hsg
  -- stage 1: at_hash
  have e1 : ((accessToken = "" ∧ claims2.AccessTokenHash = "") ∨ (accessToken ≠ "" ∧ GenC06.ClaimHash now accessToken key.SignatureAlgorithm = .ok claims2.AccessTokenHash))
      ∧ claims2.CodeHash = "" ∧ claims2.toTokenClaimsGo = (Gen.NewIDTokenClaims now issuer request.GetSubject request.GetAudience (now + client.ClockSkew + validity) request.GetAuthTime
          (if request.is_AuthRequest then request.GetNonce else "") (if request.is_AuthRequest then request.GetACR else "") request.GetAMR request.GetClientID
          client.ClockSkew).TokenClaims := by
    (repeat' split at hst1) <;> (try (simp at hst1; done))
    all_goals (simp only [Except.ok.injEq, Prod.mk.injEq] at hst1; obtain ⟨rfl, rfl⟩ := hst1; simp_all [Hand.issNewIDTokenClaims, Go.tAdd])
  -- stage 2: userinfo
  have e2 : claims1.AccessTokenHash = claims2.AccessTokenHash ∧ claims1.CodeHash = claims2.CodeHash ∧
      claims1.toTokenClaimsGo = withSubject claims2.toTokenClaimsGo claims1.Subject ∧
      (claims1.Subject = claims2.Subject ∨ claims1.Subject = claims1.UserInfo.Subject) := by
    split at hst2
    · split at hst2
      · simp at hst2
      · simp only [Except.ok.injEq] at hst2; subst hst2; exact ⟨rfl, rfl, rfl, Or.inr rfl⟩
    · split at hst2
      · simp at hst2
      · rename_i _ c hinner
        simp only [Except.ok.injEq] at hst2; subst hst2
        split at hinner
        · split at hinner
          · simp at hinner
          · split at hinner
            · simp at hinner
            · simp only [Except.ok.injEq] at hinner; subst hinner; exact ⟨rfl, rfl, rfl, Or.inr rfl⟩
        · simp only [Except.ok.injEq] at hinner; subst hinner; exact ⟨rfl, rfl, rfl, Or.inl rfl⟩
  -- stage 3: subject default, c_hash
  have e3 : claims0.AccessTokenHash = claims1.AccessTokenHash ∧
      ((code = "" ∧ claims0.CodeHash = claims1.CodeHash) ∨ (code ≠ "" ∧ GenC06.ClaimHash now code key.SignatureAlgorithm = .ok claims0.CodeHash)) ∧
      claims0.toTokenClaimsGo = withSubject claims1.toTokenClaimsGo claims0.Subject ∧ claims0.UserInfo = claims1.UserInfo ∧
      ((claims1.Subject = "" ∧ claims0.Subject = request.GetSubject) ∨ (claims1.Subject ≠ "" ∧ claims0.Subject = claims1.Subject)) := by
    clear hst1 hst2 e1 e2 h hsg hkey
    (repeat' split at hst3) <;> (try (simp at hst3; done))
    all_goals (simp only [Except.ok.injEq] at hst3; subst hst3; simp_all [withSubject])
  have hs : signer.key = key ∧ key.signerOK = true := by
    unfold Hand.issSignerFromKey at hsg
    split at hsg
    · simp only [Except.ok.injEq] at hsg; subst hsg; exact ⟨rfl, by assumption⟩
    · simp at hsg
  refine ⟨key, claims0, hkey, hs.2, ?_, ?_, ?_, ?_, ?_⟩
  · simpa [Hand.issSignID, hs.1] using h
  · rw [← claimHash_fresh, e3.1, e2.1]; exact e1.1
  · rw [← claimHash_fresh]
    rcases e3.2.1 with ⟨hc, he⟩ | hc
    · left; exact ⟨hc, by rw [he, e2.2.1, e1.2.1]⟩
    · right; exact hc
  · rw [e3.2.2.1, e2.2.2.1, e1.2.2]; rfl
  · rcases e3.2.2.2.2 with ⟨_, h0⟩ | ⟨hne, h0⟩
    · left; exact h0
    · rcases e2.2.2.2 with h1 | h1
      · left; rw [h0, h1]
        have := congrArg TokenClaimsGo.Subject e1.2.2
        simpa [Gen.NewIDTokenClaims] using this
      · right; refine ⟨by rw [h0]; exact hne, ?_⟩
        rw [h0, h1, e3.2.2.2.1]


/-! ### the JWT access token -/

/-- a storage whose private-claims getters are asked about the scope list `E`, whatever list they are handed -/
def pinPrivateClaimsScopes (st : IssStorage) (E : List String) : IssStorage :=
  { st with GetPrivateClaimsFromScopes := fun sub cid _ => st.GetPrivateClaimsFromScopes sub cid E,
            GetPrivateClaimsFromRequest := fun r _ => st.GetPrivateClaimsFromRequest r E }

theorem c06_access_token_scopes (now : Int) (issuer : String) (request : IssRequest) (exp : Int) (id : String) (client : IssClient) (storage : IssStorage) :
    GenC06.CreateJWT now issuer request exp id client storage =
    GenC06.CreateJWT now issuer request exp id client
      (pinPrivateClaimsScopes storage (accessTokenScopes (client.RestrictAdditionalAccessTokenScopes request.GetScopes))) := by
  unfold GenC06.CreateJWT pinPrivateClaimsScopes
  simp [accessTokenScopes, c06_remove_userinfo_scopes]

theorem createTokens_spec (now : Int) (request : IssRequest) (storage : IssStorage) (cur : String) (client : IssClient) :
    GenC06.createTokens now request storage cur client =
      if request.needsRefreshToken then storage.CreateAccessAndRefreshTokens request cur
      else match storage.CreateAccessToken request with
        | .error e => .error e
        | .ok (id, exp) => .ok (id, "", exp) := by
  unfold GenC06.createTokens Hand.issNeedsRefreshToken
  simp only []
  split <;> rfl

theorem c06_access_token (now : Int) (request : IssRequest) (tt : Nat) (creator : IssCreator) (client : IssClient) (cur : String)
    (at' rt : String) (validity : Int)
    (h : GenC06.CreateAccessToken now request tt creator client cur = .ok (at', rt, validity)) :
    ∃ id exp, GenC06.createTokens now request creator.Storage cur client = .ok (id, rt, exp) ∧
      validity = exp + (if client.nilp then 0 else client.ClockSkew) - now ∧
      (tt = IssConst.AccessTokenTypeJWT → GenC06.CreateJWT now creator.IssuerFromContext request exp id client creator.Storage = .ok at') ∧
      (tt ≠ IssConst.AccessTokenTypeJWT → creator.Crypto.Encrypt (id ++ ":" ++ request.GetSubject) = .ok at') := by
  unfold GenC06.CreateAccessToken at h
  simp only [] at h
  split at h
  · simp at h
  rename_i _ id rt' exp hct
  split at h
  · rename_i hjwt
    split at h
    · simp at h
    · rename_i _ tok hj
      simp only [Except.ok.injEq, Prod.mk.injEq] at h
      obtain ⟨rfl, rfl, rfl⟩ := h
      refine ⟨id, exp, hct, ?_, ?_, ?_⟩
      · simp only [Go.notNil, Go.Nilable.isNil, Go.tSub, Go.tAdd]; by_cases hn : client.nilp = true <;> simp [hn]
      · intro _; exact hj
      · intro hne; simp at hjwt; exact absurd hjwt hne
  · rename_i hjwt
    split at h
    · simp at h
    · rename_i _ tok hj
      simp only [Except.ok.injEq, Prod.mk.injEq] at h
      obtain ⟨rfl, rfl, rfl⟩ := h
      refine ⟨id, exp, hct, ?_, ?_, ?_⟩
      · simp only [Go.notNil, Go.Nilable.isNil, Go.tSub, Go.tAdd]; by_cases hn : client.nilp = true <;> simp [hn]
      · intro he; simp at hjwt; exact absurd he hjwt
      · intro _; simpa [GenC06.CreateBearerToken, HAdd.hAdd] using hj


/-! ### the token responses -/

theorem c06_response_fields (now : Int) (request : IssRequest) (client : IssClient) (creator : IssCreator) (createAccessToken : Bool)
    (code cur : String) (r : IssTokenResponse)
    (h : GenC06.CreateTokenResponse now request client creator createAccessToken code cur = .ok r) :
    r.Scope = request.GetScopes ∧ r.TokenType = IssConst.BearerToken ∧
    r.State = (if request.is_AuthRequest && code == "" then request.GetState else "") ∧
    (request.is_AuthRequest = true → creator.Storage.DeleteAuthRequest request.GetID = .ok ()) ∧
    GenC06.CreateIDToken now creator.IssuerFromContext request client.IDTokenLifetime r.AccessToken code creator.Storage client = .ok r.IDToken ∧
    (createAccessToken = false → r.AccessToken = "" ∧ r.RefreshToken = "" ∧ r.ExpiresIn = 0) ∧
    (createAccessToken = true → ∃ validity, GenC06.CreateAccessToken now request client.AccessTokenType creator client cur = .ok (r.AccessToken, r.RefreshToken, validity)
        ∧ r.ExpiresIn = validity / Go.second) := by
  unfold GenC06.CreateTokenResponse at h
  simp only [] at h
  split at h
  · simp at h
  rename_i _ at' rt validity hat
  split at h
  · simp at h
  rename_i _ idToken hid
  split at h
  · simp at h
  rename_i _ state hstate
  simp only [Except.ok.injEq] at h
  subst h
  refine ⟨rfl, rfl, ?_, ?_, hid, ?_, ?_⟩
  · split at hstate
    · rename_i har; split at hstate
      · simp at hstate
      · simp only [Except.ok.injEq] at hstate; subst hstate; by_cases hc : code = "" <;> simp [har, hc]
    · rename_i har; simp only [Except.ok.injEq] at hstate; subst hstate; simp [har]
  · intro har
    rw [har] at hstate
    simp only [if_true] at hstate
    split at hstate
    · simp at hstate
    · rename_i u hdel; cases u; exact hdel
  · intro hf; subst hf; simp at hat; obtain ⟨rfl, rfl, rfl⟩ := hat; simp [Go.dSeconds]
  · intro ht; subst ht
    simp only [if_true] at hat
    split at hat
    · simp at hat
    · rename_i _ a b c hc
      simp only [Except.ok.injEq, Prod.mk.injEq] at hat
      obtain ⟨rfl, rfl, rfl⟩ := hat
      exact ⟨_, hc, rfl⟩

theorem c06_device_response (now : Int) (request : IssRequest) (creator : IssCreator) (client : IssClient) (r : IssTokenResponse)
    (h : GenC06.CreateDeviceTokenResponse now request creator client = .ok r) :
    r.Scope = request.GetScopes ∧ r.TokenType = IssConst.BearerToken ∧ r.State = "" ∧
    (∃ validity, GenC06.CreateAccessToken now request client.AccessTokenType creator client "" = .ok (r.AccessToken, r.RefreshToken, validity)
        ∧ r.ExpiresIn = validity / Go.second) ∧
    (if request.is_IDTokenRequest && request.GetScopes.contains IssConst.ScopeOpenID
      then GenC06.CreateIDToken now creator.IssuerFromContext request client.IDTokenLifetime r.AccessToken "" creator.Storage client = .ok r.IDToken
      else r.IDToken = "") := by
  unfold GenC06.CreateDeviceTokenResponse at h
  simp only [] at h
  split at h
  · simp at h
  rename_i _ at' rt validity hat
  split at h
  · simp at h
  rename_i _ resp hresp
  simp only [Except.ok.injEq] at h
  subst h
  split at hresp
  · rename_i hcond
    split at hresp
    · simp at hresp
    · rename_i _ tok hid
      simp only [Except.ok.injEq] at hresp
      subst hresp
      refine ⟨rfl, rfl, rfl, ⟨_, hat, rfl⟩, ?_⟩
      simp only [Go.contains] at hcond
      rw [if_pos hcond]; exact hid
  · rename_i hcond
    simp only [Except.ok.injEq] at hresp
    subst hresp
    refine ⟨rfl, rfl, rfl, ⟨_, hat, rfl⟩, ?_⟩
    simp only [Go.contains] at hcond
    rw [if_neg hcond]


/-! ### corollaries: composition with the RP-side model and with the storage's answers -/

/-- the at_hash of an issued ID token is accepted by the library's own `rp.VerifyAccessToken` for the access token it was issued with -/
theorem c06_hash_binding_issued (now : Int) (issuer : String) (request : IssRequest) (validity : Int) (accessToken code : String)
    (storage : IssStorage) (client : IssClient) (tok : String)
    (h : GenC06.CreateIDToken now issuer request validity accessToken code storage client = .ok tok) :
    ∃ key c, storage.SigningKey = .ok key ∧ key.signID c = .ok tok ∧
      Gen.RPVerifyAccessToken now accessToken c.AccessTokenHash key.SignatureAlgorithm = .ok () := by
  obtain ⟨key, c, hk, _, hs, hat, _⟩ := c06_id_token_claims now issuer request validity accessToken code storage client tok h
  refine ⟨key, c, hk, hs, ?_⟩
  rcases hat with ⟨_, h0⟩ | ⟨_, h1⟩
  · unfold Gen.RPVerifyAccessToken; simp [h0, Go.ok]
  · exact c06_hash_binding now accessToken key.SignatureAlgorithm c.AccessTokenHash h1

theorem withSubject_newIDTokenClaims (now : Int) (iss sub s : String) (aud : List String) (exp authTime : Int) (nonce acr : String)
    (amr : List String) (cid : String) (skew : Int) :
    withSubject (Gen.NewIDTokenClaims now iss sub aud exp authTime nonce acr amr cid skew).TokenClaims s
      = (Gen.NewIDTokenClaims now iss s aud exp authTime nonce acr amr cid skew).TokenClaims := by
  simp [withSubject, Gen.NewIDTokenClaims]

/-- issuance ∘ verification on the regenerated `CreateIDToken`: the claims it signs pass every condition of the library's own RP
    verifier (issuer of the request context, this client, the request's nonce) from issuance until 4 s before the configured
    lifetime ends - for every request, storage, client registration (skew ≥ 0) and signing key -/
theorem c06_issued_id_token_verifies (now now' : Int) (issuer : String) (request : IssRequest) (validity : Int) (accessToken code : String)
    (storage : IssStorage) (client : IssClient) (tok : String)
    (h : GenC06.CreateIDToken now issuer request validity accessToken code storage client = .ok tok)
    (hcid : request.GetClientID ≠ "") (hsub : request.GetSubject ≠ "") (hskew : 0 ≤ client.ClockSkew) (hepoch : Go.second ≤ now - client.ClockSkew)
    (hwin : now ≤ now' ∧ now' + 4 * Go.second ≤ now + validity) :
    ∃ key c, storage.SigningKey = .ok key ∧ key.signID c = .ok tok ∧
      C01.idTokenOKMargin { Issuer := issuer, ClientID := request.GetClientID, Offset := Go.second,
                            Nonce := some (if request.is_AuthRequest then request.GetNonce else "") }
        c.toTokenClaimsGo.toClaims now' = true := by
  obtain ⟨key, c, hk, _, hs, _, _, hc, hsubj⟩ := c06_id_token_claims now issuer request validity accessToken code storage client tok h
  refine ⟨key, c, hk, hs, ?_⟩
  rw [hc, withSubject_newIDTokenClaims]
  have hne : c.Subject ≠ "" := by
    rcases hsubj with h1 | h1
    · rw [h1]; exact hsub
    · exact h1.1
  exact c06_id_token_claims_verify now now' issuer c.Subject request.GetAudience request.GetAuthTime _ _ request.GetAMR request.GetClientID
    client.ClockSkew validity hcid hne hskew hepoch hwin

/-- `expires_in` of a token response is the remaining lifetime of what the STORAGE created: (storage expiry + client clock skew − now),
    in whole seconds; the refresh token is the storage's -/
theorem c06_expires_in (now : Int) (request : IssRequest) (client : IssClient) (creator : IssCreator) (code cur : String) (r : IssTokenResponse)
    (h : GenC06.CreateTokenResponse now request client creator true code cur = .ok r) :
    ∃ id exp, GenC06.createTokens now request creator.Storage cur client = .ok (id, r.RefreshToken, exp) ∧
      r.ExpiresIn = (exp + (if client.nilp then 0 else client.ClockSkew) - now) / Go.second := by
  obtain ⟨_, _, _, _, _, _, hat⟩ := c06_response_fields now request client creator true code cur r h
  obtain ⟨validity, hca, hexp⟩ := hat rfl
  obtain ⟨id, exp, hct, hv, _, _⟩ := c06_access_token now request _ creator client cur _ _ _ hca
  exact ⟨id, exp, hct, by rw [hexp, hv]⟩

end C06
