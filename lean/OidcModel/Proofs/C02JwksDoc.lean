/-
  C02 (round 5): the relying party's parser of the downloaded JWKS document is the tie between what the provider PUBLISHES and the
  key list `FindMatchingKey` sees.  `GenC02J.jsonWebKeySetUnmarshalJSON` is regenerated from `jsonWebKeySet.UnmarshalJSON`
  (pkg/client/rp/jwks.go); encoding/json on the top level and go-jose's per-key parser are oracles (Model/JwksDocC02.lean).

  Layer 1 (the only place the regenerated term is unfolded, shape-independent): `foldList_parsed`, `jsonWebKeySetUnmarshalJSON_char`.
  Layer 2: every key of the resulting set is the oracle's parse of ONE raw entry of the document, handed over unchanged, once, into
  a fresh key object — nothing is re-read, no member dropped; hence (oracle faithful to the declared members) its use, key id, type
  and material are the PUBLISHED ones, the key `FindMatchingKey` selects for a signature was published with use `sig` or none, and what
  the RP's ID-token verifier believes satisfies `C02.monitor` for the published key set of the document.
-/
import OidcModel.Generated.JwksDocC02
import OidcModel.Proofs.C02Remote

namespace C02
open Hand

/-- one round of the loop in the statement's words: the raw entry goes to go-jose's parser as it is, into a fresh key object; an
    accepted key is appended, a refused entry is skipped -/
def jwksStep (o : C02JOracle) (k : C02JKeySet) (r : C02JRaw) : C02JKeySet :=
  match o.parseJWK default r with
  | .ok w => { k with Keys := k.Keys ++ [w] }
  | .error _ => k

/-- ANY loop body that does per raw entry what `jwksStep` does yields the accepted parses, in document order, behind what was there -/
theorem foldList_parsed (o : C02JOracle) (f : C02JKeySet → C02JRaw → C02JKeySet) (hf : ∀ k r, f k r = jwksStep o k r)
    (l : List C02JRaw) (k : C02JKeySet) :
    GoX.foldList l k f = { k with Keys := k.Keys ++ c02jParsed o l } := by
  unfold GoX.foldList
  induction l generalizing k with
  | nil => simp [c02jParsed]
  | cons r rest ih =>
    simp only [List.foldl_cons, hf, ih]
    unfold jwksStep c02jParsed
    cases h : o.parseJWK default r <;> simp [h]

/-- **characterisation** of the regenerated parser: the top level of the document is read once by encoding/json (its error is the
    function's error); then the key set is extended by exactly the accepted per-key parses of the raw entries, in document order -/
theorem jsonWebKeySetUnmarshalJSON_char (now : Int) (o : C02JOracle) (k : C02JKeySet) (data : C02JDoc) :
    GenC02J.jsonWebKeySetUnmarshalJSON now o k data =
      match o.jsonUnmarshal data default with
      | .error e => .error e
      | .ok raw => .ok { k with Keys := k.Keys ++ c02jParsed o raw.Keys } := by
  unfold GenC02J.jsonWebKeySetUnmarshalJSON
  simp only []
  cases h : o.jsonUnmarshal data default with
  | error e => simp only [h]
  | ok raw =>
    simp only [h]
    rw [foldList_parsed o _ (by intro k r; simp only [jwksStep, Go.append]; go_leaf)]

/-! ## layer 2 -/

/-- the parser run on a FRESH key set (`keySet := new(jsonWebKeySet)` in `fetchRemoteKeys`) -/
def parseDocument (now : Int) (o : C02JOracle) (data : C02JDoc) : Go.R C02JKeySet :=
  GenC02J.jsonWebKeySetUnmarshalJSON now o default data

theorem default_keys : (default : C02JKeySet).Keys = [] := rfl

theorem parseDocument_eq (now : Int) (o : C02JOracle) (data : C02JDoc) :
    parseDocument now o data =
      match o.jsonUnmarshal data default with
      | .error e => .error e
      | .ok raw => .ok { Keys := c02jParsed o raw.Keys } := by
  unfold parseDocument
  rw [jsonWebKeySetUnmarshalJSON_char]
  cases o.jsonUnmarshal data default <;> simp [default_keys]

theorem mem_c02jParsed {o : C02JOracle} {l : List C02JRaw} {key : JWK} :
    key ∈ c02jParsed o l ↔ ∃ r ∈ l, o.parseJWK default r = .ok key := by
  unfold c02jParsed
  simp only [List.mem_filterMap]
  constructor
  · rintro ⟨r, hr, h⟩
    refine ⟨r, hr, ?_⟩
    cases hp : o.parseJWK default r with
    | ok k => rw [hp] at h; simp at h; rw [h]
    | error e => rw [hp] at h; simp at h
  · rintro ⟨r, hr, h⟩
    exact ⟨r, hr, by rw [h]⟩

/-- **nothing re-read, no member dropped.**  A document the parser accepts was readable at its top level, and the key list is, in
    document order, go-jose's parse of the raw entries — every key of the set is the parse of ONE raw entry of the document, handed
    over as it stands, once, into a fresh key object; an entry go-jose refuses contributes nothing. -/
theorem c02_jwks_key_origin {now : Int} {o : C02JOracle} {data : C02JDoc} {ks : C02JKeySet}
    (h : parseDocument now o data = .ok ks) :
    ∃ raw, o.jsonUnmarshal data default = .ok raw ∧ ks.Keys = c02jParsed o raw.Keys ∧
      (∀ key ∈ ks.Keys, ∃ r ∈ raw.Keys, o.parseJWK default r = .ok key) ∧
      (∀ r ∈ raw.Keys, ∀ key, o.parseJWK default r = .ok key → key ∈ ks.Keys) := by
  rw [parseDocument_eq] at h
  cases hr : o.jsonUnmarshal data default with
  | error e => rw [hr] at h; cases h
  | ok raw =>
    rw [hr] at h
    simp only [Except.ok.injEq] at h
    subst h
    refine ⟨raw, rfl, rfl, ?_, ?_⟩
    · intro key hk; exact mem_c02jParsed.1 hk
    · intro r hr key hp; exact mem_c02jParsed.2 ⟨r, hr, hp⟩

/-- a document whose top level encoding/json refuses yields no key set at all -/
theorem c02_jwks_unreadable {now : Int} {o : C02JOracle} {data : C02JDoc} {e : String}
    (h : o.jsonUnmarshal data default = .error e) : parseDocument now o data = .error e := by
  rw [parseDocument_eq, h]

/-- with a per-key parser that is faithful to the declared members, what is parsed IS what is published -/
theorem c02jParsed_eq_published {o : C02JOracle} (hf : o.faithful) (l : List C02JRaw) : c02jParsed o l = c02jPublished o l := by
  unfold c02jParsed c02jPublished
  induction l with
  | nil => rfl
  | cons r rest ih =>
    simp only [List.filterMap_cons, ih]
    cases hp : o.parseJWK default r with
    | ok k => simp [hf _ _ _ hp]
    | error e => rfl

/-- **the key list `FindMatchingKey` sees is the published one**: every key of the set carries the key id, use, type and material one
    entry of the document declares (and every accepted entry is there with its declared use) -/
theorem c02_jwks_published {now : Int} {o : C02JOracle} (hf : o.faithful) {data : C02JDoc} {ks : C02JKeySet}
    (h : parseDocument now o data = .ok ks) :
    ∃ raw, o.jsonUnmarshal data default = .ok raw ∧ ks.Keys = c02jPublished o raw.Keys ∧
      ∀ key ∈ ks.Keys, ∃ r ∈ raw.Keys, r.pub = some key := by
  obtain ⟨raw, hr, hk, hall, _⟩ := c02_jwks_key_origin h
  refine ⟨raw, hr, by rw [hk, c02jParsed_eq_published hf], ?_⟩
  intro key hkey
  obtain ⟨r, hr, hp⟩ := hall key hkey
  exact ⟨r, hr, hf _ _ _ hp⟩

/-- **declared use permits signatures.**  The key the REGENERATED `FindMatchingKey` selects for a signature from the parsed document is
    an entry of the document that go-jose accepts and whose DECLARED use is `sig` or absent — a key published with `use: enc` (or any
    other use) is never selected, whatever else its JWK carries. -/
theorem c02_jwks_selected_use {now : Int} {o : C02JOracle} (hf : o.faithful) {data : C02JDoc} {ks : C02JKeySet}
    (h : parseDocument now o data = .ok ks) {kid alg : String} {key : JWK}
    (hsel : GenC02.FindMatchingKey now kid Const.KeyUseSignature alg ks.Keys = .ok key) :
    ∃ raw r, o.jsonUnmarshal data default = .ok raw ∧ r ∈ raw.Keys ∧ r.pub = some key ∧ o.parseJWK default r = .ok key ∧
      (key.Use = "sig" ∨ key.Use = "") := by
  rw [findMatchingKey_bridge] at hsel
  obtain ⟨hmem, huse, _, _⟩ := findMatchingKey_ok hsel
  obtain ⟨raw, hr, _, hall, _⟩ := c02_jwks_key_origin h
  obtain ⟨r, hrm, hp⟩ := hall key hmem
  exact ⟨raw, r, hr, hrm, hf _ _ _ hp, hp, huse⟩

theorem c02_jwks_enc_never_selected {now : Int} {o : C02JOracle} (hf : o.faithful) {data : C02JDoc} {ks : C02JKeySet}
    (h : parseDocument now o data = .ok ks) {kid alg : String} {key : JWK}
    (hsel : GenC02.FindMatchingKey now kid Const.KeyUseSignature alg ks.Keys = .ok key) :
    ∀ raw, o.jsonUnmarshal data default = .ok raw → ∃ r ∈ raw.Keys, r.pub = some key ∧ ∀ d, r.pub = some d → d.Use ≠ "enc" := by
  intro raw hraw
  obtain ⟨raw', r, hr', hrm, hpub, _, huse⟩ := c02_jwks_selected_use hf h hsel
  rw [hraw] at hr'
  cases hr'
  refine ⟨r, hrm, hpub, ?_⟩
  intro d hd
  rw [hpub] at hd
  cases hd
  rcases huse with hu | hu <;> rw [hu] <;> decide

/-- **C02 for the RP's ID-token verifier over a downloaded document**: with the key set the regenerated parser makes of the document,
    whatever `VerifyIDToken` believes satisfies the monitor for the PUBLISHED key set of that document (the entries go-jose accepts,
    with their declared key id / use / type / material) -/
theorem c02_rp_document (now : Int) {o : C02JOracle} (hf : o.faithful) {data : C02JDoc} {ks : C02JKeySet}
    (h : parseDocument now o data = .ok ks) (t : Token) (v : Verifier) :
    ∃ raw, o.jsonUnmarshal data default = .ok raw ∧
      monitor v.SupportedSignAlgs { kind := .published, keys := c02jPublished o raw.Keys } t
        (Gen.VerifyIDToken now t { v with KeySet := { kind := .published, keys := ks.Keys } }).toOption = none := by
  obtain ⟨raw, hr, hk, _⟩ := c02_jwks_published hf h
  refine ⟨raw, hr, ?_⟩
  rw [← hk]
  exact c02_rp now t { v with KeySet := { kind := .published, keys := ks.Keys } }

/-! ## the download: `fetchRemoteKeys` hands the response body to this parser on a fresh key set and returns what it left there -/

/-- the download in the statement's words: the keys of a successful download (none: it failed) -/
def fetchSpec (now : Int) (o : C02JOracle) (w : C02JHttp) (r : C02JRemote) : Option (List JWK) :=
  if w.urlOK r.jwksURL then
    match w.respond { method := "GET", url := r.jwksURL } with
    | .transport _ => none
    | .answer status body =>
      if status = 200 then
        match parseDocument now o body with
        | .ok ks => some ks.Keys
        | .error _ => none
      else none
  else none

/-- **characterisation** of the regenerated `fetchRemoteKeys` (error texts aside): the request is a GET for the configured URL, the
    body of a 200 answer goes to the parser on a FRESH key set, and the keys returned are what the parser left in it -/
theorem fetchRemoteKeys_char (now : Int) (o : C02JOracle) (w : C02JHttp) (r : C02JRemote) :
    (GenC02J.fetchRemoteKeys now o w r).toOption = fetchSpec now o w r := by
  unfold GenC02J.fetchRemoteKeys fetchSpec Hand.c02jNewRequest Hand.c02jHttpRequest parseDocument Except.toOption
  go_leaf

/-- it succeeds exactly when the request could be built for the configured URL, the endpoint answered that GET request with status
    200, and the parser accepts the body on a fresh key set; the keys it returns (the keys `updateKeys` caches) are the parser's -/
theorem fetchRemoteKeys_ok (now : Int) (o : C02JOracle) (w : C02JHttp) (r : C02JRemote) (keys : List JWK) :
    GenC02J.fetchRemoteKeys now o w r = .ok keys ↔
      w.urlOK r.jwksURL = true ∧ ∃ body ks, w.respond { method := "GET", url := r.jwksURL } = .answer 200 body ∧
        parseDocument now o body = .ok ks ∧ ks.Keys = keys := by
  have hc := fetchRemoteKeys_char now o w r
  have hiff : GenC02J.fetchRemoteKeys now o w r = .ok keys ↔ fetchSpec now o w r = some keys := by
    rw [← hc]
    cases GenC02J.fetchRemoteKeys now o w r <;> simp [Except.toOption]
  rw [hiff]
  unfold fetchSpec
  constructor
  · intro h
    by_cases hu : w.urlOK r.jwksURL = true
    · simp only [hu, if_true] at h
      refine ⟨hu, ?_⟩
      cases hr : w.respond { method := "GET", url := r.jwksURL } with
      | transport e => simp [hr] at h
      | answer status body =>
        simp only [hr] at h
        by_cases hs : status = 200
        · subst hs
          cases hp : parseDocument now o body with
          | error e => simp [hp] at h
          | ok ks => simp [hp] at h; exact ⟨body, ks, rfl, hp, h⟩
        · simp [hs] at h
    · simp [hu] at h
  · rintro ⟨hu, body, ks, hr, hp, rfl⟩
    simp [hu, hr, hp]

/-- **what enters the cache is what the document publishes**: the keys a successful download returns are, in document order, the
    entries of the served body that go-jose accepts, with their DECLARED key id / use / type / material -/
theorem c02_download_published {now : Int} {o : C02JOracle} (hf : o.faithful) {w : C02JHttp} {r : C02JRemote} {keys : List JWK}
    (h : GenC02J.fetchRemoteKeys now o w r = .ok keys) :
    ∃ body raw, w.respond { method := "GET", url := r.jwksURL } = .answer 200 body ∧ o.jsonUnmarshal body default = .ok raw ∧
      keys = c02jPublished o raw.Keys := by
  obtain ⟨_, body, ks, hr, hp, rfl⟩ := (fetchRemoteKeys_ok now o w r keys).1 h
  obtain ⟨raw, hraw, hk, _⟩ := c02_jwks_published hf hp
  exact ⟨body, raw, hr, hraw, hk⟩

/-- a key the downloaded document declares for encryption only is never the key a signature is checked with -/
theorem c02_download_selected_use {now : Int} {o : C02JOracle} (hf : o.faithful) {w : C02JHttp} {r : C02JRemote} {keys : List JWK}
    (h : GenC02J.fetchRemoteKeys now o w r = .ok keys) {kid alg : String} {key : JWK}
    (hsel : GenC02.FindMatchingKey now kid Const.KeyUseSignature alg keys = .ok key) :
    ∃ body raw e, w.respond { method := "GET", url := r.jwksURL } = .answer 200 body ∧ o.jsonUnmarshal body default = .ok raw ∧
      e ∈ raw.Keys ∧ e.pub = some key ∧ (key.Use = "sig" ∨ key.Use = "") := by
  obtain ⟨_, body, ks, hr, hp, rfl⟩ := (fetchRemoteKeys_ok now o w r keys).1 h
  obtain ⟨raw, e, hraw, he, hpub, _, huse⟩ := c02_jwks_selected_use hf hp hsel
  exact ⟨body, raw, e, hr, hraw, he, hpub, huse⟩

/-! ## histories: one long-lived remote key set, a document downloaded whenever the cache does not settle the matter -/

theorem mem_c02jPublished {o : C02JOracle} {l : List C02JRaw} {key : JWK} (h : key ∈ c02jPublished o l) :
    ∃ e ∈ l, e.pub = some key ∧ ∃ k, o.parseJWK default e = .ok k := by
  unfold c02jPublished at h
  simp only [List.mem_filterMap] at h
  obtain ⟨e, he, h⟩ := h
  refine ⟨e, he, ?_⟩
  cases hp : o.parseJWK default e with
  | ok k => rw [hp] at h; exact ⟨h, k, rfl⟩
  | error x => rw [hp] at h; cases h

/-- what a call leaves as "served last" is what it was before or what this call was served -/
theorem remoteCall_lastServed (cfg : Jwks.JwksSet) (st : RemoteSt) (served : List JWK) (j : JWS) :
    (remoteCall cfg st served j).2.lastServed = st.lastServed ∨ (remoteCall cfg st served j).2.lastServed = served := by
  unfold remoteCall
  split
  · exact Or.inr rfl
  · exact Or.inl rfl

theorem remoteRun_lastServed (cfg : Jwks.JwksSet) (steps : List (List JWK × JWS)) (st : RemoteSt) :
    ∀ x ∈ remoteRun cfg st steps, x.2.2.lastServed = st.lastServed ∨ ∃ s ∈ steps, x.2.2.lastServed = s.1 := by
  induction steps generalizing st with
  | nil => intro x hx; simp [remoteRun] at hx
  | cons a rest ih =>
    obtain ⟨served, j⟩ := a
    intro x hx
    simp only [remoteRun, List.mem_cons] at hx
    rcases hx with rfl | hx
    · rcases remoteCall_lastServed cfg st served j with h | h
      · exact Or.inl h
      · exact Or.inr ⟨(served, j), by simp, h⟩
    · rcases ih _ x hx with h | ⟨s, hs, h⟩
      · rcases remoteCall_lastServed cfg st served j with h' | h'
        · exact Or.inl (h.trans h')
        · exact Or.inr ⟨(served, j), by simp, h.trans h'⟩
      · exact Or.inr ⟨s, by simp [hs], h⟩

/-- **document rotation.**  One remote key set, used sequentially; before each call the endpoint may publish another DOCUMENT (any
    bytes; the download of each succeeds).  Whatever a call believes is its own payload, genuinely signed by a consistently selected
    key of the key list the LAST download produced — and that list is the published content of one of the served documents: the key is
    an entry of that document which go-jose accepts as it stands and whose DECLARED use is `sig` or absent.  No key that any served
    document declares for encryption only, and no entry go-jose refuses, is ever believed, at any point of any history. -/
theorem c02_remote_document_rotation (cfg : Jwks.JwksSet) (hd : cfg.defaultAlg = "") (now : Int) {o : C02JOracle} (hf : o.faithful)
    (r : C02JRemote) (steps : List (C02JHttp × JWS)) (keysOf : C02JHttp → List JWK)
    (hok : ∀ s ∈ steps, GenC02J.fetchRemoteKeys now o s.1 r = .ok (keysOf s.1)) :
    ∀ x ∈ remoteRun cfg {} (steps.map fun s => (keysOf s.1, s.2)), ∀ p, x.2.1.1 = some p →
      p = x.1.payload ∧ ∃ sg k, x.1.Signatures = [sg] ∧
        justifies { kind := .published, keys := x.2.2.lastServed } x.1 sg k = true ∧ (k.Use = "sig" ∨ k.Use = "") ∧
        ∃ s ∈ steps, ∃ body raw e, s.1.respond { method := "GET", url := r.jwksURL } = .answer 200 body ∧
          o.jsonUnmarshal body default = .ok raw ∧ x.2.2.lastServed = c02jPublished o raw.Keys ∧ e ∈ raw.Keys ∧ e.pub = some k := by
  intro x hx p hp
  obtain ⟨hpay, sg, k, hsig, hj⟩ := c02_remote_rotation cfg hd _ {} rfl x hx p hp
  refine ⟨hpay, sg, k, hsig, hj, ?_⟩
  have hj' := hj
  simp only [justifies, selectedOK, publishedOK, Bool.and_eq_true, List.contains_eq_mem, decide_eq_true_eq, Bool.or_eq_true,
    beq_iff_eq] at hj'
  obtain ⟨⟨hmem, _⟩, huse, _⟩ := hj'
  refine ⟨huse, ?_⟩
  rcases remoteRun_lastServed cfg _ {} x hx with h0 | ⟨s', hs', hl⟩
  · rw [h0] at hmem; cases hmem
  · simp only [List.mem_map] at hs'
    obtain ⟨s, hs, rfl⟩ := hs'
    obtain ⟨body, raw, hr, hraw, hk⟩ := c02_download_published hf (hok s hs)
    have hl' : x.2.2.lastServed = c02jPublished o raw.Keys := by rw [hl]; exact hk
    rw [hl'] at hmem
    obtain ⟨e, he, hpub, _⟩ := mem_c02jPublished hmem
    exact ⟨s, hs, body, raw, e, hr, hraw, hl', he, hpub⟩

/-! ## non-vacuity -/
section examples
def jdSig : JWK := { KeyID := "s", Use := "sig", kty := .rsa, keyNo := 1 }
def jdEnc : JWK := { KeyID := "e", Use := "enc", kty := .rsa, keyNo := 2 }
def jdEncBad : JWK := { KeyID := "x", Use := "enc", kty := .rsa, keyNo := 3 }
/-- three entries: a signing key, an encryption key, an encryption key whose `x5t` is in padded standard base64 (bytes 12) -/
def jdRaw : List C02JRaw := [{ bytes := 10, pub := some jdSig }, { bytes := 11, pub := some jdEnc }, { bytes := 12, pub := some jdEncBad }]
/-- go-jose: refuses entry 12, reads the others as declared -/
def jdOracle : C02JOracle :=
  { jsonUnmarshal := fun d _ => if d.bytes == 1 then .ok { Keys := jdRaw } else .error "invalid character",
    parseJWK := fun _ r => if r.bytes == 12 then .error "go-jose/go-jose: invalid JWK, x5t header has invalid encoding" else
      match r.pub with | some k => .ok k | none => .error "go-jose/go-jose: unknown json web key type" }

theorem jdOracle_faithful : jdOracle.faithful := by
  intro w r k h
  unfold jdOracle at h
  simp only at h
  split at h
  · cases h
  · cases hp : r.pub with
    | none => rw [hp] at h; cases h
    | some d => rw [hp] at h; cases h; rfl

example : ((parseDocument 0 jdOracle { bytes := 1 }).map (·.Keys)).toOption = some [jdSig, jdEnc] := by decide
example : (parseDocument 0 jdOracle { bytes := 2 }).toBool = false := by decide
/-- the refused encryption key is not in the set: a token naming it finds no key; the accepted encryption key is not selected either -/
example : (GenC02.FindMatchingKey 0 "x" "sig" "RS256" [jdSig, jdEnc]).toBool = false := by decide
example : (GenC02.FindMatchingKey 0 "e" "sig" "RS256" [jdSig, jdEnc]).toBool = false := by decide
example : (GenC02.FindMatchingKey 0 "s" "sig" "RS256" [jdSig, jdEnc]).toOption = some jdSig := by decide
/-- a per-key parser that, when go-jose refuses an entry, re-reads it from a subset of its members that leaves `use` out is NOT
    faithful: it yields a key whose use is not the declared one (and `FindMatchingKey` would select it for signatures) -/
def jdLenient : C02JOracle :=
  { jdOracle with parseJWK := fun w r => match jdOracle.parseJWK w r with
      | .ok k => .ok k
      | .error e => match r.pub with | some k => .ok { k with Use := "" } | none => .error e }
example : ¬ jdLenient.faithful := by
  intro h
  have := h default { bytes := 12, pub := some jdEncBad } { jdEncBad with Use := "" } rfl
  revert this; decide
example : (GenC02.FindMatchingKey 0 "x" "sig" "RS256" (c02jParsed jdLenient jdRaw)).toBool = true := by decide
/-- the download: status 200 with document 1 yields the two accepted keys; another status, a transport error, an unreadable
    document or a URL no request can be built for yield none -/
def jdWorld (resp : C02JResponse) : C02JHttp := { urlOK := fun u => u != "", respond := fun _ => resp }
example : (GenC02J.fetchRemoteKeys 0 jdOracle (jdWorld (.answer 200 { bytes := 1 })) { jwksURL := "https://op/keys" }).toOption = some [jdSig, jdEnc] := by decide
example : (GenC02J.fetchRemoteKeys 0 jdOracle (jdWorld (.answer 404 { bytes := 1 })) { jwksURL := "https://op/keys" }).toOption = none := by decide
example : (GenC02J.fetchRemoteKeys 0 jdOracle (jdWorld (.answer 200 { bytes := 2 })) { jwksURL := "https://op/keys" }).toOption = none := by decide
example : (GenC02J.fetchRemoteKeys 0 jdOracle (jdWorld (.transport "dial tcp")) { jwksURL := "https://op/keys" }).toOption = none := by decide
example : (GenC02J.fetchRemoteKeys 0 jdOracle (jdWorld (.answer 200 { bytes := 1 })) { jwksURL := "" }).toOption = none := by decide
end examples

end C02
