/-
  C18 at the level of HISTORIES: a sequence of end_session requests (with / without hint, with client_id, with state, on
  either router, addressed to varying issuers, at varying instants) against ONE provider and ONE storage whose set of
  live sessions persists between the requests, with storage faults at `TerminateSession` / `TerminateSessionFromRequest`
  and at the client lookup (`GetClientByClientID`) injected per request.

  * `handle_asks_only`        — the answer depends on the storage's willingness to terminate only AT the session the
                                regenerated `ValidateEndSessionRequest` names: the storage is asked for that session and no other
  * `c18_step`                — one request: a redirect ⇒ no fault hit, the storage terminated exactly the session of the
                                hint's subject and the proven client, every clause of the monitor holds; anything else ⇒ the
                                storage is as it was
  * `c18_history_journal`     — induction over the history: the storage's journal after ANY history is the list of
                                (hint subject, proven client) of exactly the redirected requests, in order
  * `c18_history_no_collateral` — a session that was alive before the history and is not alive after it is the session
                                of the subject and client some redirected request of the history PROVED; nobody else's
  * `c18_history_faults`      — a request during which the storage fails to terminate, or fails the lookup of a proven
                                client, is answered with an error and changes nothing
  * `c18_history_monitor`     — every request of every history satisfies the monitor (redirect: all clauses, for the
                                journal entry it caused; rejection: it was not a request that had to be accepted, unless
                                the storage failed), under key-selection completeness for the rejection clause
  Only layer 1 (Proofs/C18Char.lean) and the theorems of Proofs/C18.lean are used; no regenerated definition is unfolded.
-/
import OidcModel.Proofs.C18
namespace C18
open Go Gen Hand

/-- the same provider on a storage that fails the client lookup where `f` says so -/
def withLookup (e : SessionEnder) (f : String → Bool) : SessionEnder := { e with store := { e.store with lookupOK := f } }

theorem configured_withLookup {cfg : Cfg} {e : SessionEnder} (f : String → Bool) (hc : Configured cfg e) :
    Configured cfg (withLookup e f) := ⟨hc.clients, hc.dflt, hc.issuer, hc.keys, hc.algs⟩

/-- one end_session request of a history -/
structure Ev where
  rt : Sess.Router
  now : Int
  issuer : String                -- the issuer this request is addressed to (per-host issuers: varies within a history)
  rq : Go.R EndSessionReq
  termFault : Bool := false      -- the storage fails at TerminateSession / TerminateSessionFromRequest while this request is served
  lookupFault : Bool := false    -- the storage fails at GetClientByClientID while this request is served

/-- what stays fixed during a history -/
structure World where
  cfg : Cfg                      -- registrations, default URI, own keys, hint key set, allow-list (`issuer` is per request)
  opts : List Sess.KeyOpt        -- the key-set options the provider was constructed with
  fromReq : Bool                 -- the storage implements CanTerminateSessionFromRequest
  o : SessOracles

namespace World

def cfgAt (w : World) (ev : Ev) : Cfg := { w.cfg with issuer := ev.issuer }

/-- the provider while it serves `ev`, on a storage that terminates where `termOK` says so -/
def provider (w : World) (ev : Ev) (termOK : String → String → Bool) : SessionEnder :=
  withLookup (providerOf ev.now (w.cfgAt ev) w.opts termOK w.fromReq) (fun _ => !ev.lookupFault)

theorem provider_configured (w : World) (hopts : HintOpts w.cfg w.opts) (ev : Ev) (termOK : String → String → Bool) :
    Configured (w.cfgAt ev) (w.provider ev termOK) :=
  configured_withLookup _ (c18_provider_configured ev.now (w.cfgAt ev) w.opts hopts termOK w.fromReq)

/-- the session the storage is asked to terminate while `ev` is served (none: it is not asked at all) -/
def asked (w : World) (ev : Ev) : Option (String × String) :=
  match ev.rq with
  | .ok r =>
    (match ValidateEndSessionRequest ev.now w.o r (w.provider ev (fun _ _ => true)) with
     | .ok s => some (s.UserID, s.ClientID)
     | .error _ => none)
  | .error _ => none

/-- the answer to `ev` -/
def answer (w : World) (ev : Ev) : SessCanon :=
  Sess.handle ev.rt ev.now w.o ev.rq (w.provider ev (fun _ _ => !ev.termFault))

end World

/-- validation never consults the storage's willingness to terminate -/
theorem validate_termOK_indep (w : World) (ev : Ev) (r : EndSessionReq) (t1 t2 : String → String → Bool) :
    ValidateEndSessionRequest ev.now w.o r (w.provider ev t1) = ValidateEndSessionRequest ev.now w.o r (w.provider ev t2) := by
  rw [validate_eq_ref, validate_eq_ref]
  rfl

/-- the storage is asked for exactly one session, the one `ValidateEndSessionRequest` names: a storage that refuses
    every OTHER termination gives the same answer -/
theorem handle_asks_only (w : World) (ev : Ev) (termOK : String → String → Bool) :
    Sess.handle ev.rt ev.now w.o ev.rq (w.provider ev termOK) =
      Sess.handle ev.rt ev.now w.o ev.rq (w.provider ev (fun u c => termOK u c && w.asked ev == some (u, c))) := by
  rw [handle_eq, handle_eq]
  cases hrq : ev.rq with
  | error x => rfl
  | ok r =>
    simp only
    rw [validate_termOK_indep w ev r termOK (fun _ _ => true),
      validate_termOK_indep w ev r (fun u c => termOK u c && w.asked ev == some (u, c)) (fun _ _ => true)]
    cases hv : ValidateEndSessionRequest ev.now w.o r (w.provider ev (fun _ _ => true)) with
    | error err => rfl
    | ok s =>
      have ha : w.asked ev = some (s.UserID, s.ClientID) := by simp only [World.asked, hrq, hv]
      have : (w.provider ev (fun u c => termOK u c && w.asked ev == some (u, c))).store.termOK s.UserID s.ClientID
          = (w.provider ev termOK).store.termOK s.UserID s.ClientID := by
        show (termOK s.UserID s.ClientID && w.asked ev == some (s.UserID, s.ClientID)) = termOK s.UserID s.ClientID
        rw [ha]; simp
      simp only [this]

/-- the identity the statement speaks of: (subject of the proven hint or "", proven client or "") -/
def identityOf (cfg : Cfg) (rq : Req) : String × String :=
  (((proven cfg rq).map (·.sub)).getD "", provenClientID rq (proven cfg rq))

/-- the storage: live sessions and the journal of terminations, both persisting between requests -/
structure HSt where
  active : List (String × String)
  journal : List (String × String)

namespace World

/-- one request: the storage terminates the session it was asked for iff no fault was injected, i.e. iff the user is redirected -/
def step (w : World) (st : HSt) (ev : Ev) : HSt :=
  match w.answer ev, w.asked ev with
  | .redirect _, some uc => { active := st.active.filter (· != uc), journal := st.journal ++ [uc] }
  | _, _ => st

def run (w : World) (st : HSt) (evs : List Ev) : HSt := evs.foldl w.step st

/-- the request the monitor judges, with what the storage reported -/
def monReqEv (w : World) (ev : Ev) : Req :=
  { monReq w.o ev.rq with termRefused := ev.termFault, lookupRefused := ev.lookupFault }

/-- SPEC-level: the session a request is entitled to terminate — named only when the user was redirected -/
def terminatedBy (w : World) (ev : Ev) : Option (String × String) :=
  match w.answer ev with
  | .redirect _ => some (identityOf (w.cfgAt ev) (monReq w.o ev.rq))
  | .error _ _ => none

end World

theorem monitor_redirect_flags (cfg : Cfg) (o : Orc) (rq : Req) (a b : Bool) (loc : String) (dec : Go.R SessURL) (t : List (String × String)) :
    monitor cfg o { rq with termRefused := a, lookupRefused := b } (.redirect loc dec t) = monitor cfg o rq (.redirect loc dec t) := rfl

/-- a redirecting answer: what it guarantees about the request, the storage call and the monitor -/
theorem answer_redirect (w : World) (hopts : HintOpts w.cfg w.opts) (ev : Ev) {loc : String} (h : w.answer ev = .redirect loc) :
    ev.termFault = false ∧
    w.asked ev = some (identityOf (w.cfgAt ev) (monReq w.o ev.rq)) ∧
    (ev.lookupFault = true → (identityOf (w.cfgAt ev) (monReq w.o ev.rq)).2 = "") ∧
    ∃ dec, ((monReq w.o ev.rq).state ≠ "" → Rendered loc dec) ∧
      monitor (w.cfgAt ev) (orcOf w.o) (w.monReqEv ev) (.redirect loc dec [identityOf (w.cfgAt ev) (monReq w.o ev.rq)]) = none := by
  have hc := w.provider_configured hopts ev (fun _ _ => !ev.termFault)
  obtain ⟨r, s, hrq, hv, ht, hloc⟩ := handle_redirect h
  have htf : ev.termFault = false := by
    have : (!ev.termFault) = true := ht
    simpa using this
  obtain ⟨_, _, hu, hcid, _⟩ := validate_facts hc hv
  have hid : (s.UserID, s.ClientID) = identityOf (w.cfgAt ev) (monReq w.o ev.rq) := by
    simp only [identityOf, hrq, monReq, ← hu, ← hcid]
  have hask : w.asked ev = some (s.UserID, s.ClientID) := by
    simp only [World.asked, hrq]
    rw [validate_termOK_indep w ev r (fun _ _ => true) (fun _ _ => !ev.termFault), hv]
  refine ⟨htf, by rw [hask, hid], ?_, ?_⟩
  · -- a lookup fault: the request can only have gone through without a client
    intro hlf
    rw [← hid]
    show s.ClientID = ""
    rw [validate_eq_ref] at hv
    unfold refValidate at hv
    cases hI : refIdentify ev.now w.o r (w.provider ev (fun _ _ => !ev.termFault)) with
    | error e => simp [hI] at hv
    | ok x =>
      obtain ⟨uid, cid, cl⟩ := x
      simp only [hI] at hv
      by_cases hc0 : cid = ""
      · subst hc0
        simp only [refTarget, bne_self_eq_false, Bool.false_eq_true, if_false] at hv
        cases hS : refState ev.now w.o r (w.provider ev (fun _ _ => !ev.termFault)).defaultLogoutURI with
        | error e => simp [hS] at hv
        | ok l => simp only [hS, Except.ok.injEq] at hv; rw [← hv]
      · have hb : (cid != "") = true := by simpa using hc0
        have hg : (w.provider ev (fun _ _ => !ev.termFault)).store.GetClientByClientID cid = .error "storage: lookup failed" := by
          show (if (!ev.lookupFault) = true then _ else _) = _
          simp [hlf]
        simp [refTarget, hb, hg] at hv
  · obtain ⟨u, c, dec, _, hr, hm⟩ := c18_redirect_sound_configured ev.rt hc h
    -- the session of the monitor's verdict is the asked one
    obtain ⟨dec', hr', hm'⟩ := validate_monitor hc hv
    refine ⟨dec', ?_, ?_⟩
    · intro hs; rw [hloc]; exact hr' (by simpa [hrq, monReq, reqOf] using hs)
    · rw [World.monReqEv, monitor_redirect_flags, ← hid, hrq, hloc]
      exact hm'

/-- ONE request of a history -/
theorem c18_step (w : World) (hopts : HintOpts w.cfg w.opts) (st : HSt) (ev : Ev) :
    (∀ loc, w.answer ev = .redirect loc →
        ev.termFault = false ∧
        (w.step st ev).journal = st.journal ++ [identityOf (w.cfgAt ev) (monReq w.o ev.rq)] ∧
        (w.step st ev).active = st.active.filter (· != identityOf (w.cfgAt ev) (monReq w.o ev.rq))) ∧
    (∀ code msg, w.answer ev = .error code msg → w.step st ev = st) := by
  constructor
  · intro loc h
    obtain ⟨htf, hask, _, _⟩ := answer_redirect w hopts ev h
    refine ⟨htf, ?_, ?_⟩ <;> simp only [World.step, h, hask]
  · intro code msg h
    simp only [World.step, h]

/-- the journal after ANY history: the proven identities of exactly the redirected requests, in order -/
theorem c18_history_journal (w : World) (hopts : HintOpts w.cfg w.opts) (evs : List Ev) (st : HSt) :
    (w.run st evs).journal = st.journal ++ evs.filterMap w.terminatedBy ∧
    (w.run st evs).active = (evs.filterMap w.terminatedBy).foldl (fun a uc => a.filter (· != uc)) st.active := by
  induction evs generalizing st with
  | nil => simp [World.run]
  | cons ev rest ih =>
    have hs := c18_step w hopts st ev
    simp only [World.run, List.foldl_cons] at ih ⊢
    obtain ⟨ih1, ih2⟩ := ih (w.step st ev)
    rw [ih1, ih2]
    cases ha : w.answer ev with
    | redirect loc =>
      obtain ⟨_, hj, hact⟩ := hs.1 loc ha
      have ht : w.terminatedBy ev = some (identityOf (w.cfgAt ev) (monReq w.o ev.rq)) := by simp only [World.terminatedBy, ha]
      simp only [List.filterMap_cons, ht, hj, hact, List.foldl_cons, List.append_assoc, List.singleton_append, and_self]
    | error code msg =>
      have ht : w.terminatedBy ev = none := by simp only [World.terminatedBy, ha]
      rw [hs.2 code msg ha]
      simp only [List.filterMap_cons, ht, and_self]

theorem foldl_filter_mem {α : Type} [BEq α] [LawfulBEq α] (l : List α) (a : List α) (x : α) :
    x ∈ l.foldl (fun a uc => a.filter (· != uc)) a ↔ x ∈ a ∧ x ∉ l := by
  induction l generalizing a with
  | nil => simp
  | cons y ys ih =>
    simp only [List.foldl_cons, ih, List.mem_filter, List.mem_cons, not_or, bne_iff_ne, ne_eq]
    constructor
    · rintro ⟨⟨h1, h2⟩, h3⟩; exact ⟨h1, h2, h3⟩
    · rintro ⟨h1, h2, h3⟩; exact ⟨⟨h1, h2⟩, h3⟩

/-- no collateral logout, for every history: a session alive before and gone after is the session of the subject and
    client that some redirected request of the history PROVED (by a validly signed hint / by client_id) -/
theorem c18_history_no_collateral (w : World) (hopts : HintOpts w.cfg w.opts) (evs : List Ev) (st : HSt) (uc : String × String)
    (h0 : uc ∈ st.active) (h1 : uc ∉ (w.run st evs).active) :
    ∃ ev ∈ evs, ∃ loc, w.answer ev = .redirect loc ∧ uc = identityOf (w.cfgAt ev) (monReq w.o ev.rq) := by
  rw [(c18_history_journal w hopts evs st).2, foldl_filter_mem] at h1
  have : uc ∈ evs.filterMap w.terminatedBy := by
    apply Classical.byContradiction
    intro hn; exact h1 ⟨h0, hn⟩
  obtain ⟨ev, hev, ht⟩ := List.mem_filterMap.mp this
  refine ⟨ev, hev, ?_⟩
  unfold World.terminatedBy at ht
  cases ha : w.answer ev with
  | redirect loc => rw [ha] at ht; simp only [Option.some.injEq] at ht; exact ⟨loc, rfl, ht.symm⟩
  | error c m => rw [ha] at ht; simp at ht

/-- … and sessions that stay are untouched: the live sessions only ever shrink -/
theorem c18_history_shrinks (w : World) (hopts : HintOpts w.cfg w.opts) (evs : List Ev) (st : HSt) (uc : String × String)
    (h : uc ∈ (w.run st evs).active) : uc ∈ st.active := by
  rw [(c18_history_journal w hopts evs st).2, foldl_filter_mem] at h
  exact h.1

/-- storage faults: a request during which the storage fails to terminate is answered with an error and changes
    nothing; so is one during which the client lookup fails, unless no client had to be looked up -/
theorem c18_history_faults (w : World) (hopts : HintOpts w.cfg w.opts) (st : HSt) (ev : Ev) :
    (ev.termFault = true → (∃ code msg, w.answer ev = .error code msg) ∧ w.step st ev = st) ∧
    (ev.lookupFault = true → (identityOf (w.cfgAt ev) (monReq w.o ev.rq)).2 ≠ "" →
        (∃ code msg, w.answer ev = .error code msg) ∧ w.step st ev = st) := by
  constructor
  · intro htf
    cases ha : w.answer ev with
    | redirect loc => have := (answer_redirect w hopts ev ha).1; rw [htf] at this; simp at this
    | error code msg => exact ⟨⟨code, msg, rfl⟩, (c18_step w hopts st ev).2 code msg ha⟩
  · intro hlf hne
    cases ha : w.answer ev with
    | redirect loc => exact absurd ((answer_redirect w hopts ev ha).2.2.1 hlf) hne
    | error code msg => exact ⟨⟨code, msg, rfl⟩, (c18_step w hopts st ev).2 code msg ha⟩

/-- what the storage journal shows for one request -/
def World.delta (w : World) (ev : Ev) : List (String × String) := (w.terminatedBy ev).toList

/-- EVERY request of EVERY history satisfies the monitor, judged on what the storage journal shows for it -/
theorem c18_history_monitor (w : World) (hopts : HintOpts w.cfg w.opts)
    (hcomp : ∀ ev : Ev, HintComplete (w.cfgAt ev) (w.provider ev (fun _ _ => !ev.termFault)).hintVerifier)
    (evs : List Ev) : ∀ ev ∈ evs,
      match w.answer ev with
      | .redirect loc => ∃ dec, ((monReq w.o ev.rq).state ≠ "" → Rendered loc dec) ∧
          monitor (w.cfgAt ev) (orcOf w.o) (w.monReqEv ev) (.redirect loc dec (w.delta ev)) = none
      | .error _ _ => monitor (w.cfgAt ev) (orcOf w.o) (w.monReqEv ev) (.rejected (w.delta ev)) = none := by
  intro ev _
  cases ha : w.answer ev with
  | redirect loc =>
    obtain ⟨_, _, _, dec, hr, hm⟩ := answer_redirect w hopts ev ha
    refine ⟨dec, hr, ?_⟩
    simp only [World.delta, World.terminatedBy, ha, Option.toList]
    exact hm
  | error code msg =>
    simp only [World.delta, World.terminatedBy, ha, Option.toList]
    by_cases hf : ev.termFault = true ∨ ev.lookupFault = true
    · rcases hf with hf | hf <;> simp [monitor, World.monReqEv, hf]
    · have htf : ev.termFault = false := by cases h : ev.termFault <;> simp_all
      have hlf : ev.lookupFault = false := by cases h : ev.lookupFault <;> simp_all
      have hc := w.provider_configured hopts ev (fun _ _ => !ev.termFault)
      have hm := c18_rejected_configured ev.rt hc (hcomp ev) (fun _ _ => by show (!ev.termFault) = true; simp [htf])
        (fun _ => by show (!ev.lookupFault) = true; simp [hlf]) ha
      have hma : mustAccept (w.cfgAt ev) (orcOf w.o) (w.monReqEv ev) = mustAccept (w.cfgAt ev) (orcOf w.o) (monReq w.o ev.rq) := rfl
      simp only [monitor, List.isEmpty_nil, Bool.not_true, Bool.false_eq_true, if_false] at hm ⊢
      rw [hma]
      split at hm
      · simp at hm
      · rename_i hcond
        have : mustAccept (w.cfgAt ev) (orcOf w.o) (monReq w.o ev.rq) = false := by
          cases hmq : mustAccept (w.cfgAt ev) (orcOf w.o) (monReq w.o ev.rq) with
          | false => rfl
          | true =>
            exfalso; apply hcond
            have ht : (monReq w.o ev.rq).termRefused = false := by cases ev.rq <;> rfl
            have hl : (monReq w.o ev.rq).lookupRefused = false := by cases ev.rq <;> rfl
            simp [hmq, ht, hl]
        simp [this]

/-! ### non-vacuity: a history on the example provider of Proofs/C18.lean -/
section examples
def hW : World := { cfg := xCfg, opts := [], fromReq := false, o := xOrc }
def hEv (r : EndSessionReq) : Ev := { rt := .provider, now := xNow, issuer := "https://op.example", rq := .ok r }

/-- expired hint of (user1, web); a wrong-key hint; client_id only; the same hint while the storage fails; the same hint
    while the lookup fails; the hint addressed to another issuer of a per-host deployment -/
def hHistory : List Ev :=
  [ hEv { IdTokenHint := "expired", PostLogoutRedirectURI := "https://rp.example/out", State := "s1" },
    hEv { IdTokenHint := "wrongkey" },
    { hEv { ClientID := "glob" } with rt := .legacy },
    { hEv { IdTokenHint := "expired" } with termFault := true },
    { hEv { IdTokenHint := "expired" } with lookupFault := true },
    { hEv { IdTokenHint := "expired" } with issuer := "https://tenant-b.example" } ]

example : hHistory.map hW.asked = [some ("user1", "web"), none, some ("", "glob"), some ("user1", "web"), none, none] := by decide
example : (hW.run { active := [("user1", "web"), ("user2", "web"), ("user1", "glob"), ("", "glob")], journal := [] } hHistory).journal
    = [("user1", "web"), ("", "glob")] := by decide
example : (hW.run { active := [("user1", "web"), ("user2", "web"), ("user1", "glob"), ("", "glob")], journal := [] } hHistory).active
    = [("user2", "web"), ("user1", "glob")] := by decide
end examples

end C18
