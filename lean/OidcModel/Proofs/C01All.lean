/- C01: every proof module of the slice (the check builds and audits this root) -/
import OidcModel.Proofs.C01
import OidcModel.Proofs.C01Construct
import OidcModel.Proofs.C01Time
