/-
  C03 proofs, layer 2.  Everything is about the definitions REGENERATED from pkg/op (Generated/Authorize.lean,
  Generated/AuthorizeShell.lean, Generated/AuthzTables.lean) plus the hand-modelled shell of `op.Authorize`
  (Model/AuthzFlow.lean) - but only THROUGH the characterisation lemmas of Proofs/C03Char.lean (layer 1): no proof in
  this file unfolds a regenerated definition; what is unfolded here are the hand-written spec functions of layer 1.
-/
import OidcModel.Proofs.C03Char

namespace C03
open Go Gen Hand Authz

deriving instance DecidableEq for Except

/-! ### the range-loop combinator -/

theorem forRange_some {α β : Type} {l : List α} {f : α → Option β} {r : β} (h : Go.forRange l f = some r) :
    ∃ x, x ∈ l ∧ f x = some r := by
  induction l with
  | nil => simp [Go.forRange] at h
  | cons x xs ih =>
    unfold Go.forRange at h
    split at h
    · rename_i r' hx
      simp at h; subst h
      exact ⟨x, by simp, hx⟩
    · obtain ⟨y, hy, hfy⟩ := ih h
      exact ⟨y, by simp [hy], hfy⟩

/-! ### redirect-URI validation -/

/-- `checkURIAgainstRedirects` lets a URI through only if it is registered literally or matches an opted-in glob -/
theorem checkURI_ok {now : Int} {o : UriOracle} {c : OPClient} {uri : String}
    (h : checkURIAgainstRedirects now o c uri = .ok ()) :
    c.redirectURIs.contains uri = true ∨ ∃ gs, c.globs = some gs ∧ gs.any (fun g => globMatches o g uri) = true := by
  rw [checkURI_eq] at h
  unfold checkSpec at h
  by_cases h1 : c.redirectURIs.contains uri = true
  · exact Or.inl h1
  · right
    rw [if_neg h1] at h
    cases hgs : c.globs with
    | none => rw [hgs] at h; simp [E] at h
    | some gs =>
      rw [hgs] at h
      refine ⟨gs, rfl, ?_⟩
      simp only at h
      split at h
      · rename_i r hr
        subst h
        obtain ⟨g, hg, hfg⟩ := forRange_some hr
        rw [List.any_eq_true]
        refine ⟨g, hg, ?_⟩
        unfold globMatches
        cases hm : o.globMatch g uri with
        | error e => rw [hm] at hfg; simp [E] at hfg
        | ok b =>
          rw [hm] at hfg
          cases b with
          | true => rfl
          | false => simp at hfg
      · simp [E] at h

theorem checkURI_matches {now : Int} {o : UriOracle} {c : OPClient} {uri : String} (strict : Bool)
    (h : checkURIAgainstRedirects now o c uri = .ok ()) : matchesRegistration strict o c uri = true := by
  unfold matchesRegistration
  rcases checkURI_ok h with h1 | ⟨gs, hgs, hany⟩
  · rw [h1]; simp
  · rw [hgs]; simp only [hany]; simp

theorem checkURI_err {now : Int} {o : UriOracle} {c : OPClient} {uri e : String}
    (h : checkURIAgainstRedirects now o c uri = .error e) : e = "ErrInvalidRequestRedirectURI" := by
  rw [checkURI_eq] at h
  unfold checkSpec at h
  split at h
  · simp at h
  · split at h
    · simp [E] at h; exact h.symm
    · split at h
      · rename_i r hr
        obtain ⟨g, _, hfg⟩ := forRange_some hr
        subst h
        split at hfg
        · simp [E] at hfg; exact hfg.symm
        · split at hfg <;> simp at hfg
      · simp [E] at h; exact h.symm

/-- `HTTPLoopbackOrLocalhost` answers exactly the monitor's question "http(s) URL on a loopback host?" -/
theorem loopback_spec (now : Int) (o : UriOracle) (u : String) :
    (HTTPLoopbackOrLocalhost now o u).2 = (loopbackHTTP o u).isSome ∧
    ((HTTPLoopbackOrLocalhost now o u).2 = true → loopbackHTTP o u = some (HTTPLoopbackOrLocalhost now o u).1) := by
  rw [loopback_eq]
  unfold loopSpec loopbackHTTP
  cases hp : o.urlParse u with
  | error e => simp
  | ok p =>
    simp only
    by_cases hs : (p.Scheme == "http" || p.Scheme == "https") = true
    · rw [if_pos hs]
      by_cases hl : (p.Hostname == "localhost" || (o.parseIP p.Hostname).IsLoopback) = true
      · simp [hs, hl]
      · simp [hs, hl]
    · rw [if_neg hs]
      simp [hs]

theorem schemeAllowed_https {o : UriOracle} {c : OPClient} {uri rt : String} (h : Go.hasPrefix uri "https://" = true) :
    schemeAllowed false o c uri rt = true := by
  simp [schemeAllowed, schemeOf, prefixScheme, h]

/-- the native branch accepts only registered URIs (weak reading) -/
theorem native_ok {now : Int} {o : UriOracle} {c : OPClient} {uri rt : String}
    (hn : isNative c = true) (hne : uri ≠ "")
    (h : validateAuthReqRedirectURINative now o c uri = .ok ()) : Registered false o c uri rt = true := by
  rw [native_eq] at h
  unfold nativeSpec at h
  have hlb := loopback_spec now o uri
  obtain ⟨hlb1, hlb2⟩ := hlb
  unfold Registered
  have hne' : (uri != "") = true := by simp [hne]
  rw [hne']
  cases hchk : checkURIAgainstRedirects now o c uri with
  | ok u =>
    cases u
    rw [hchk] at h
    simp only at h
    rw [checkURI_matches false hchk]
    simp only [Bool.true_and]
    by_cases h1 : Go.hasPrefix uri "https://" = true
    · exact schemeAllowed_https h1
    · by_cases h2 : Go.hasPrefix uri "http://" = true
      · by_cases hd : c.devMode = true
        · simp [schemeAllowed, schemeOf, prefixScheme, h1, h2, hd]
        · have hl : (HTTPLoopbackOrLocalhost now o uri).2 = true := by
            cases hx : (HTTPLoopbackOrLocalhost now o uri).2 with
            | true => rfl
            | false => simp [h1, h2, hd, hx, E] at h
          rw [hl] at hlb1
          simp [schemeAllowed, schemeOf, prefixScheme, h1, h2, hn, ← hlb1]
      · simp [schemeAllowed, schemeOf, prefixScheme, h1, h2, hn]
  | error e =>
    rw [hchk] at h
    simp only at h
    cases hl : (HTTPLoopbackOrLocalhost now o uri).2 with
    | false => simp [hl, E] at h
    | true =>
      simp only [hl, Bool.not_true, Bool.false_eq_true, if_false] at h
      have hp := hlb2 hl
      split at h
      · rename_i r hr
        obtain ⟨reg, hreg, hbody⟩ := forRange_some hr
        have hlbr := loopback_spec now o reg
        by_cases hc : ((HTTPLoopbackOrLocalhost now o reg).2 &&
            equalURI now (HTTPLoopbackOrLocalhost now o uri).1 (HTTPLoopbackOrLocalhost now o reg).1) = true
        · simp only [Bool.and_eq_true] at hc
          obtain ⟨hok, heq⟩ := hc
          have hpr := hlbr.2 hok
          have hvar : loopbackVariant false o uri reg = true := by
            unfold loopbackVariant
            rw [hp, hpr]
            rw [equalURI_eq] at heq
            simpa using heq
          have hm : matchesRegistration false o c uri = true := by
            unfold matchesRegistration
            rw [hn]
            have : c.redirectURIs.any (fun reg => loopbackVariant false o uri reg) = true :=
              List.any_eq_true.2 ⟨reg, hreg, hvar⟩
            simp [this]
          rw [hm]
          simp only [Bool.true_and]
          unfold schemeAllowed schemeOf prefixScheme
          simp only [Bool.false_eq_true, if_false, hn, Bool.true_and, hp, Option.isSome_some, Bool.or_true, Bool.true_or]
          by_cases h1 : Go.hasPrefix uri "https://" = true
          · simp [h1]
          · by_cases h2 : Go.hasPrefix uri "http://" = true
            · simp [h1, h2]
            · simp [h1, h2]
        · simp [hc] at hbody
      · simp [E] at h

theorem native_err {now : Int} {o : UriOracle} {c : OPClient} {uri e : String}
    (h : validateAuthReqRedirectURINative now o c uri = .error e) : e = "ErrInvalidRequestRedirectURI" := by
  rw [native_eq] at h
  unfold nativeSpec at h
  repeat' split at h
  all_goals first
    | (simp at h; done)
    | (simp [E] at h; exact h.symm)
    | (rename_i r hr
       obtain ⟨reg, _, hbody⟩ := forRange_some hr
       subst h
       split at hbody <;> simp at hbody)

/-- **the validation lemma**: `ValidateAuthReqRedirectURI` accepts only registered URIs (weak reading),
    for every client registration, URI string, response type and all library behaviours -/
theorem validateRedirectURI_ok {now : Int} {o : UriOracle} {c : OPClient} {uri rt : String}
    (h : ValidateAuthReqRedirectURI now o c uri rt = .ok ()) : Registered false o c uri rt = true := by
  rw [validateRedirectURI_eq] at h
  unfold validateURISpec at h
  by_cases he : (uri == "") = true
  · rw [if_pos he] at h; simp at h
  rw [if_neg he] at h
  have hne : uri ≠ "" := by simpa using he
  by_cases hn : isNative c = true
  · rw [if_pos hn] at h
    exact native_ok hn hne h
  rw [if_neg hn] at h
  have hnn : isNative c = false := by simpa using hn
  unfold Registered
  have hne' : (uri != "") = true := by simp [hne]
  rw [hne']
  cases hchk : checkURIAgainstRedirects now o c uri with
  | error e => rw [hchk] at h; simp at h
  | ok u =>
    cases u
    rw [hchk] at h
    simp only at h
    rw [checkURI_matches false hchk]
    by_cases h1 : Go.hasPrefix uri "https://" = true
    · simp [schemeAllowed_https h1]
    rw [if_neg h1] at h
    by_cases h2 : Go.hasPrefix uri "http://" = true
    · rw [if_pos h2] at h
      by_cases hcc : (c.devMode || (rt == Const.ResponseTypeCode && IsConfidentialType now c)) = true
      · rw [isConfidentialType_eq] at hcc
        simp only [Bool.or_eq_true, Bool.and_eq_true] at hcc
        rcases hcc with hd | ⟨hrt, hconf⟩
        · simp [schemeAllowed, schemeOf, prefixScheme, h1, h2, hd]
        · simp [schemeAllowed, schemeOf, prefixScheme, h1, h2, hconf, hrt]
      · rw [if_neg hcc] at h; simp at h
    · rw [if_neg h2] at h; simp at h

theorem validateRedirectURI_err {now : Int} {o : UriOracle} {c : OPClient} {uri rt e : String}
    (h : ValidateAuthReqRedirectURI now o c uri rt = .error e) : e = "ErrInvalidRequestRedirectURI" := by
  rw [validateRedirectURI_eq] at h
  unfold validateURISpec at h
  split at h
  · simp [E] at h; exact h.symm
  split at h
  · exact native_err h
  cases hchk : checkURIAgainstRedirects now o c uri with
  | error e' => rw [hchk] at h; simp at h; subst h; exact checkURI_err hchk
  | ok u =>
    rw [hchk] at h
    simp only at h
    repeat' split at h
    all_goals first
      | (simp at h; done)
      | (simp [E] at h; exact h.symm)

/-- non-vacuity: an exactly registered https URI of a web client is accepted … -/
example : ValidateAuthReqRedirectURI 0 ⟨fun _ => .error "x", fun _ => {}, fun _ _ => .ok false⟩
    { id := "web", redirectURIs := ["https://rp.example/cb"] } "https://rp.example/cb" "code" = .ok () := by decide
/-- … and a near miss is rejected with the redirect-disabled error -/
example : ValidateAuthReqRedirectURI 0 ⟨fun _ => .error "x", fun _ => {}, fun _ _ => .ok false⟩
    { id := "web", redirectURIs := ["https://rp.example/cb"] } "https://rp.example/cb/" "code" = .error "ErrInvalidRequestRedirectURI" := by decide

/-! ### error and response redirects -/

theorem urlParse_raw {o : UriOracle} {s : String} {pu : URL} (hp : o.urlParse s = .ok pu) : pu.raw = s := by
  unfold UriOracle.urlParse at hp
  split at hp
  · simp at hp; rw [← hp]
  · simp at hp

/-- every response URL is built on the redirect URI it was given -/
theorem authResponseURL_base {now : Int} {o : UriOracle} {uri rt mode : String} {p : RespParams} {enc : Encoder} {u : OutURL}
    (h : AuthResponseURL now o uri rt mode p enc = .ok u) : ∃ f q, u = .response uri f q := by
  obtain ⟨pu, hp, _, hu⟩ := authResponseURL_iff.1 h
  exact ⟨_, _, by rw [hu, urlParse_raw hp]⟩

/-- what `AuthRequestError` may write: a direct page, or a redirect built on the request's own redirect URI -/
def ErrWriteOK (a : ErrReq) (w : Write) : Prop :=
  (∃ s, w = .page s) ∨ (a.nilp = false ∧ ∃ f q, w = .redirect (.response a.redirectURI f q))

theorem authRequestError_writes {now : Int} {o : UriOracle} {a : ErrReq} {err : String} {p : AzProvider} {w : Write}
    (hw : w ∈ AuthRequestError now o a err p) : ErrWriteOK a w := by
  rw [authRequestError_eq] at hw
  unfold errSpec at hw
  split at hw
  · simp at hw; exact Or.inl ⟨_, hw⟩
  rename_i hnil
  split at hw
  · simp at hw; exact Or.inl ⟨_, hw⟩
  split at hw
  · simp at hw; exact Or.inl ⟨_, hw⟩
  · rename_i u hu
    obtain ⟨f, q, rfl⟩ := authResponseURL_base hu
    simp at hw
    exact Or.inr ⟨by simpa using hnil, f, q, hw⟩

/-- an error whose constructor disables redirects is never sent anywhere -/
theorem authRequestError_disabled {now : Int} {o : UriOracle} {a : ErrReq} {err : String} {p : AzProvider} {w : Write}
    (hd : (DefaultToServerError now err err).redirectDisabled = true)
    (hw : w ∈ AuthRequestError now o a err p) : ∃ s, w = .page s := by
  rw [authRequestError_eq] at hw
  unfold errSpec at hw
  simp only [hd, Bool.or_true, if_true] at hw
  split at hw <;> (simp at hw; exact ⟨_, hw⟩)

/-- a request without a request value (`nil`) is never redirected -/
theorem authRequestError_nil {now : Int} {o : UriOracle} {err : String} {p : AzProvider} {w : Write}
    (hw : w ∈ AuthRequestError now o Go.nil err p) : ∃ s, w = .page s := by
  rcases authRequestError_writes hw with h | ⟨h, _⟩
  · exact h
  · simp [Go.nil, HasNil.nilv] at h

/-! ### a failed redirect-URI validation always yields the redirect-disabled error -/

theorem redirectURI_error_disabled (now : Int) (d : String) :
    (DefaultToServerError now "ErrInvalidRequestRedirectURI" d).redirectDisabled = true := by
  unfold DefaultToServerError
  decide

/-- `ValidateAuthRequestClient` succeeds only for a registered redirect URI … -/
theorem validateClient_ok {now : Int} {o : UriOracle} {d : AuthDeps} {a : AuthRequestData} {c : OPClient} {sub : String}
    (h : ValidateAuthRequestClient now o d a c () = .ok sub) : Registered false o c a.RedirectURI a.ResponseType = true :=
  validateRedirectURI_ok (validateClient_ok_char h)

/-- … and whenever it fails, either the URI was already validated, or the error is redirect-disabled:
    nothing that can be redirected is raised before the redirect URI has been checked -/
theorem validateClient_err {now : Int} {o : UriOracle} {d : AuthDeps} {a : AuthRequestData} {c : OPClient} {e : String}
    (h : ValidateAuthRequestClient now o d a c () = .error e) :
    Registered false o c a.RedirectURI a.ResponseType = true ∨ (DefaultToServerError now e e).redirectDisabled = true := by
  rcases validateClient_err_char h with hv | hv
  · right
    rw [validateRedirectURI_err hv]
    exact redirectURI_error_disabled now _
  · left; exact validateRedirectURI_ok hv

/-! ### the callback path: everything goes to the stored request's redirect URI -/

/-- what the callback may write for a stored request with redirect URI `uri`: a direct page, a 302 built on `uri`, or the
    form_post page html/template renders for `uri` -/
def RespWriteOK (tm : AzFormTemplate) (uri : String) (w : Write) : Prop :=
  (∃ s, w = .page s) ∨ (∃ f q, w = .redirect (.response uri f q)) ∨
  (∃ ps page, tm.Execute ⟨uri, ps⟩ = .ok page ∧ w = .formPost page.action)

theorem errWrite_stored {tm : AzFormTemplate} {a : AzStored} {w : Write} (h : ErrWriteOK (↑a : ErrReq) w) : RespWriteOK tm a.redirectURI w := by
  rcases h with h | ⟨_, f, q, h⟩
  · exact Or.inl h
  · exact Or.inr (Or.inl ⟨f, q, h⟩)

theorem formPost_writes {now : Int} {tm : AzFormTemplate} {uri : String} {p : RespParams} {enc : Encoder} {ws : List Write} {w : Write}
    (h : Hand.runFormPost (AuthResponseFormPost now tm) uri p enc = .ok ws) (hw : w ∈ ws) :
    ∃ page, tm.Execute ⟨uri, p⟩ = .ok page ∧ w = .formPost page.action := by
  rw [formPost_eq] at h
  unfold formPostSpec at h
  split at h
  · simp at h
  · split at h
    · simp at h
    · rename_i page hpage
      simp at h; subst h
      exact ⟨page, hpage, by simpa using hw⟩

theorem respSpec_writes {now : Int} {o : UriOracle} {d : AuthDeps} {a : AzStored} {p : AzProvider} {ps : RespParams} {w : Write}
    (hw : w ∈ respSpec now o d a p ps) : RespWriteOK d.FormTemplate a.redirectURI w := by
  unfold respSpec at hw
  split at hw
  · split at hw
    · exact errWrite_stored (authRequestError_writes hw)
    · rename_i ws hws
      obtain ⟨page, hpage, hwp⟩ := formPost_writes hws hw
      exact Or.inr (Or.inr ⟨ps, page, hpage, hwp⟩)
  · split at hw
    · exact errWrite_stored (authRequestError_writes hw)
    · rename_i u hu
      obtain ⟨f, q, rfl⟩ := authResponseURL_base hu
      simp at hw
      exact Or.inr (Or.inl ⟨f, q, hw⟩)

theorem authResponseCode_writes {now : Int} {o : UriOracle} {d : AuthDeps} {a : AzStored} {p : AzProvider} {w : Write}
    (hw : w ∈ AuthResponseCode now o d a p) : RespWriteOK d.FormTemplate a.redirectURI w := by
  rw [authResponseCode_eq] at hw
  split at hw
  · exact errWrite_stored (authRequestError_writes hw)
  · exact respSpec_writes hw

theorem authResponseToken_writes {now : Int} {o : UriOracle} {d : AuthDeps} {a : AzStored} {p : AzProvider} {c : OPClient} {w : Write}
    (hw : w ∈ AuthResponseToken now o d a p c) : RespWriteOK d.FormTemplate a.redirectURI w := by
  rw [authResponseToken_eq] at hw
  split at hw
  · exact errWrite_stored (authRequestError_writes hw)
  · exact respSpec_writes hw

theorem authResponse_writes {now : Int} {o : UriOracle} {d : AuthDeps} {a : AzStored} {p : AzProvider} {w : Write}
    (hw : w ∈ AuthResponse now o d a p) : RespWriteOK d.FormTemplate a.redirectURI w := by
  rw [authResponse_eq] at hw
  split at hw
  · exact errWrite_stored (authRequestError_writes hw)
  · split at hw
    · exact authResponseCode_writes hw
    · exact authResponseToken_writes hw

/-- the callback answers with a direct page, or acts on the request stored under the given id -/
theorem authorizeCallback_writes {now : Int} {o : UriOracle} {d : AuthDeps} {r : AzHttpReq} {p : AzProvider} {w : Write}
    (hw : w ∈ AuthorizeCallback now o d r p) :
    (∃ s, w = .page s) ∨ ∃ a, p.Storage.AuthRequestByID (r.Form.Get "id") = .ok a ∧ RespWriteOK d.FormTemplate a.redirectURI w := by
  rw [authorizeCallback_eq] at hw
  cases hid : ParseAuthorizeCallbackRequest now r with
  | error e => rw [hid] at hw; exact Or.inl (authRequestError_nil hw)
  | ok id =>
    have hidv : id = r.Form.Get "id" := (parseCallback_iff.1 hid).2.1
    rw [hid] at hw
    simp only at hw
    cases ha : p.Storage.AuthRequestByID id with
    | error e => rw [ha] at hw; exact Or.inl (authRequestError_nil hw)
    | ok a =>
      rw [ha] at hw
      simp only at hw
      right
      refine ⟨a, hidv ▸ ha, ?_⟩
      split at hw
      · exact authResponse_writes hw
      · exact errWrite_stored (authRequestError_writes hw)

/-! ### the authorization endpoint on both routers -/

/-- what `/authorize` may write for the (effective) request `e` -/
def AuthorizeWriteOK (o : UriOracle) (clients : List OPClient) (e : AuthRequestData) (w : Write) : Prop :=
  (∃ s, w = .page s) ∨
  ∃ c, clients.find? (·.id == e.ClientID) = some c ∧ Registered false o c e.RedirectURI e.ResponseType = true ∧
    ((∃ req, w = .redirect (.login c.id req) ∧ req.clientID = e.ClientID ∧ req.redirectURI = e.RedirectURI ∧
        req.responseType = e.ResponseType) ∨
     ∃ f q, w = .redirect (.response e.RedirectURI f q))

theorem mkStorage_client {cfg : Cfg} {st : St} {fx : Faults} {nid id : String} {c : OPClient}
    (h : (mkStorage cfg st fx nid).GetClientByClientID id = .ok c) : cfg.clients.find? (·.id == id) = some c := by
  unfold mkStorage at h
  simp only at h
  split at h
  · simp at h
  · split at h
    · simp at h; subst h; assumption
    · simp at h

theorem mkStorage_create {cfg : Cfg} {st : St} {fx : Faults} {nid u : String} {data : AuthRequestData} {req : AzStored}
    (h : (mkStorage cfg st fx nid).CreateAuthRequest data u = .ok req) :
    req.clientID = data.ClientID ∧ req.redirectURI = data.RedirectURI ∧ req.responseType = data.ResponseType := by
  unfold mkStorage at h
  simp only at h
  split at h
  · simp at h
  · simp at h; subst h; exact ⟨rfl, rfl, rfl⟩

theorem errWrite_request {o : UriOracle} {clients : List OPClient} {e : AuthRequestData} {c : OPClient} {w : Write}
    (hc : clients.find? (·.id == e.ClientID) = some c) (hr : Registered false o c e.RedirectURI e.ResponseType = true)
    (h : ErrWriteOK (↑e : ErrReq) w) : AuthorizeWriteOK o clients e w := by
  rcases h with h | ⟨_, f, q, h⟩
  · exact Or.inl h
  · exact Or.inr ⟨c, hc, hr, Or.inr ⟨f, q, h⟩⟩

theorem find_id {clients : List OPClient} {id : String} {c : OPClient}
    (h : clients.find? (·.id == id) = some c) : c.id = id := by
  have := List.find?_some h
  simpa using this

theorem providerCore_writes {now : Int} {o : UriOracle} {d : AuthDeps} {cfg : Cfg} {st : St} {fx : Faults} {nid : String}
    {e : AuthRequestData} {w : Write}
    {dec : AzDecoder} (hw : w ∈ providerAuthorizeCore now o d (mkProvider cfg st fx nid dec) e) : AuthorizeWriteOK o cfg.clients e w := by
  unfold providerAuthorizeCore at hw
  simp only [mkProvider] at hw
  split at hw
  · exact Or.inl (authRequestError_nil hw)
  split at hw
  · exact Or.inl (authRequestError_nil hw)
  cases hcl : (mkStorage cfg st fx nid).GetClientByClientID e.ClientID with
  | error x =>
    rw [hcl] at hw
    exact Or.inl (authRequestError_disabled (redirectURI_error_disabled now _) hw)
  | ok c =>
    rw [hcl] at hw
    simp only at hw
    have hc := mkStorage_client hcl
    cases hv : ValidateAuthRequestClient now o d e c () with
    | error x =>
      rw [hv] at hw
      simp only at hw
      rcases validateClient_err hv with hr | hd
      · exact errWrite_request hc hr (authRequestError_writes hw)
      · exact Or.inl (authRequestError_disabled hd hw)
    | ok sub =>
      rw [hv] at hw
      simp only at hw
      have hr := validateClient_ok hv
      split at hw
      · exact errWrite_request hc hr (authRequestError_writes hw)
      · cases hcr : (mkStorage cfg st fx nid).CreateAuthRequest e sub with
        | error x =>
          rw [hcr] at hw
          exact errWrite_request hc hr (authRequestError_writes hw)
        | ok req =>
          rw [hcr] at hw
          simp only [redirectToLogin_eq, AzStored.GetID, List.mem_singleton] at hw
          obtain ⟨h1, h2, h3⟩ := mkStorage_create hcr
          exact Or.inr ⟨c, hc, hr, Or.inl ⟨req, hw, h1, h2, h3⟩⟩

/-- what `/authorize` may write for the raw request `r`: a direct page, or - when the request decodes - what
    `AuthorizeWriteOK` allows for the effective (request-object processed) request -/
def AuthorizeRawOK (o : UriOracle) (cfg : Cfg) (d : AuthDeps) (stg : AzStorage) (r : AzHttpReq) (dec : AzDecoder) (w : Write) : Prop :=
  (∃ s, w = .page s) ∨ ∃ a, decodedReq r dec = .ok a ∧ AuthorizeWriteOK o cfg.clients (effective cfg.requestObjects d stg a) w

/-- Provider router (`op.Authorize`) -/
theorem providerAuthorize_writes {now : Int} {o : UriOracle} {d : AuthDeps} {cfg : Cfg} {st : St} {fx : Faults} {nid : String}
    {r : AzHttpReq} {dec : AzDecoder} {w : Write}
    (hw : w ∈ providerAuthorize now o d (mkProvider cfg st fx nid dec) r) :
    AuthorizeRawOK o cfg d (mkStorage cfg st fx nid) r dec w := by
  unfold providerAuthorize at hw
  have hdec : (mkProvider cfg st fx nid dec).Decoder = dec := rfl
  rw [hdec] at hw
  cases hpa : GenAz.ParseAuthorizeRequest now r dec with
  | error e => rw [hpa] at hw; exact Or.inl (authRequestError_nil hw)
  | ok a =>
    rw [hpa] at hw
    simp only at hw
    refine Or.inr ⟨a, parseAuthorizeRequest_ok.1 hpa, ?_⟩
    unfold effective
    have hp : (mkProvider cfg st fx nid dec).RequestObjectSupported = cfg.requestObjects := rfl
    have hs : (mkProvider cfg st fx nid dec).Storage = mkStorage cfg st fx nid := rfl
    rw [hp, hs] at hw
    by_cases hcond : (a.RequestParam != "" && cfg.requestObjects) = true
    · rw [if_pos hcond] at hw ⊢
      cases hro : d.ParseRequestObject a (mkStorage cfg st fx nid) "" with
      | error x => rw [hro] at hw; exact Or.inl (authRequestError_nil hw)
      | ok e => rw [hro] at hw; exact providerCore_writes hw
    · rw [if_neg hcond] at hw ⊢
      exact providerCore_writes hw

theorem tryErrorRedirect_ok {now : Int} {o : UriOracle} {a : ErrReq} {parent : String} {enc : Encoder} {lg : Unit} {red : Redirect}
    (h : TryErrorRedirect now o a parent enc lg = .ok red) : ∃ f q, red.URL = .response a.redirectURI f q := by
  rw [tryErrorRedirect_eq] at h
  unfold tryErrSpec at h
  split at h
  · simp at h
  split at h
  · simp at h
  split at h
  · simp at h
  · rename_i u hu
    obtain ⟨f, q, rfl⟩ := authResponseURL_base hu
    simp at h; subst h
    exact ⟨f, q, rfl⟩

/-- a verified request: the effective (request-object processed) request with the client the storage holds for its client id -/
theorem legacyVerify_ok {now : Int} {d : AuthDeps} {s : AzLegacyServer} {form : FormVals} {a : AuthRequestData}
    {cr : ClientRequest AuthRequestData}
    (h : LegacyVerifyAuthRequest now d s { Form := form, Data := a } = .ok cr) :
    cr.Data = effective s.provider.RequestObjectSupported d s.provider.Storage a ∧
    s.provider.Storage.GetClientByClientID cr.Data.ClientID = .ok cr.Client := by
  rw [legacyVerify_eq] at h
  unfold verifySpec at h
  unfold effective
  split at h
  · simp at h
  rename_i hsup
  by_cases hrp : (a.RequestParam != "") = true
  · have hs : s.provider.RequestObjectSupported = true := by
      cases hx : s.provider.RequestObjectSupported with
      | true => rfl
      | false => simp [hrp, hx] at hsup
    simp only [hrp, hs, Bool.and_self, if_true] at h ⊢
    cases hro : d.ParseRequestObject a s.provider.Storage "" with
    | error x => rw [hro] at h; simp at h
    | ok e =>
      rw [hro] at h
      simp only at h
      split at h
      · simp at h
      · split at h
        · simp at h
        · rename_i c hc
          simp at h; subst h
          exact ⟨rfl, hc⟩
  · have : (a.RequestParam != "" && s.provider.RequestObjectSupported) = false := by
      simp at hrp; simp [hrp]
    simp only [this, Bool.false_eq_true, if_false]
    rw [if_neg hrp] at h
    simp only at h
    split at h
    · simp at h
    · split at h
      · simp at h
      · rename_i c hc
        simp at h; subst h
        exact ⟨rfl, hc⟩

theorem legacyAuthorize_ok {now : Int} {o : UriOracle} {d : AuthDeps} {s : AzLegacyServer} {cr : ClientRequest AuthRequestData} {red : Redirect}
    (h : LegacyAuthorize now o d s cr = .ok red) :
    (∃ u req, s.provider.Storage.CreateAuthRequest cr.Data u = .ok req ∧ red.URL = .login cr.Client.id req) ∨
    ∃ f q, red.URL = .response cr.Data.RedirectURI f q := by
  rw [legacyAuthorize_eq] at h
  unfold legacyAuthorizeSpec at h
  split at h
  · simp at h
  · rename_i u _
    split at h
    · right; exact tryErrorRedirect_ok h
    · rename_i req hreq
      left
      simp at h
      subst h
      exact ⟨u, req, hreq, rfl⟩

theorem webAuthorize_ok {now : Int} {o : UriOracle} {d : AuthDeps} {s : AzWebServer} {form : FormVals} {a : AuthRequestData} {red : Redirect}
    (h : WebAuthorize now o d s { Form := form, Data := a } = .ok red) :
    ∃ c, s.server.provider.Storage.GetClientByClientID
          (effective s.server.provider.RequestObjectSupported d s.server.provider.Storage a).ClientID = .ok c ∧
      Registered false o c (effective s.server.provider.RequestObjectSupported d s.server.provider.Storage a).RedirectURI
        (effective s.server.provider.RequestObjectSupported d s.server.provider.Storage a).ResponseType = true ∧
      ((∃ u req, s.server.provider.Storage.CreateAuthRequest
            (effective s.server.provider.RequestObjectSupported d s.server.provider.Storage a) u = .ok req ∧
            red.URL = .login c.id req) ∨
       ∃ f q, red.URL = .response (effective s.server.provider.RequestObjectSupported d s.server.provider.Storage a).RedirectURI f q) := by
  obtain ⟨cr, hv, hr, hla⟩ := webAuthorize_ok_char h
  obtain ⟨hdata, hclient⟩ := legacyVerify_ok hv
  rw [← hdata]
  exact ⟨cr.Client, hclient, validateRedirectURI_ok hr, legacyAuthorize_ok hla⟩

/-- `webServer.authorizeHandler`: a JSON error document (`WriteError`: never a Location), or a 302 to exactly the URL
    `webServer.authorize` returned for the decoded request (`Redirect.writeOut`) -/
theorem webAuthorizeHandler_writes {now : Int} {o : UriOracle} {d : AuthDeps} {s : AzWebServer} {r : AzHttpReq} {w : Write}
    (hw : w ∈ GenAz.WebAuthorizeHandler now o d s r) :
    (∃ st, w = .page st) ∨ ∃ a red, decodedReq r s.decoder = .ok a ∧
      WebAuthorize now o d s { Form := r.Form, Data := a } = .ok red ∧ w = .redirect red.URL := by
  rw [webAuthorizeHandler_eq] at hw
  cases hdq : GenAz.decodeRequest now s.decoder r false with
  | error e => rw [hdq] at hw; simp at hw; exact Or.inl ⟨_, hw⟩
  | ok a =>
    rw [hdq] at hw
    simp only at hw
    cases hwa : WebAuthorize now o d s { Form := r.Form, Data := a } with
    | error e => rw [hwa] at hw; simp at hw; exact Or.inl ⟨_, hw⟩
    | ok red =>
      rw [hwa] at hw
      simp only [List.mem_singleton] at hw
      exact Or.inr ⟨a, red, decodeRequest_ok.1 hdq, hwa, hw⟩

/-- LegacyServer router (`webServer.authorizeHandler`) -/
theorem legacyAuthorize_writes {now : Int} {o : UriOracle} {d : AuthDeps} {cfg : Cfg} {st : St} {fx : Faults} {nid : String}
    {r : AzHttpReq} {dec : AzDecoder} {w : Write}
    (hw : w ∈ legacyAuthorize now o d { server := ⟨mkProvider cfg st fx nid dec⟩, decoder := dec } r) :
    AuthorizeRawOK o cfg d (mkStorage cfg st fx nid) r dec w := by
  unfold legacyAuthorize at hw
  rcases webAuthorizeHandler_writes hw with h | ⟨a, red, hdec, hwa, hwr⟩
  · exact Or.inl h
  · refine Or.inr ⟨a, hdec, ?_⟩
    obtain ⟨c, hc, hr, hurl⟩ := webAuthorize_ok hwa
    have hc' := mkStorage_client hc
    refine Or.inr ⟨c, hc', hr, ?_⟩
    rcases hurl with ⟨u, req, hreq, hu⟩ | ⟨f, q, hu⟩
    · obtain ⟨h1, h2, h3⟩ := mkStorage_create hreq
      exact Or.inl ⟨req, by rw [hwr, hu], h1, h2, h3⟩
    · exact Or.inr ⟨f, q, by rw [hwr, hu]; rfl⟩

/-! ### histories: the model never violates the monitor -/

/-- what a write of the model does with the user agent (the observer's view of it) -/
def sentOf (o : UriOracle) : Write → Sent
  | .page _ => .nowhere
  | .redirect (.login _ a) => .login a.id
  | .redirect (.response base _ _) => .to (destOf o base)
  | .formPost action => .to (destOf o action)

def toAccepted (a : AzStored) : Accepted := ⟨a.id, a.clientID, a.redirectURI, a.responseType⟩

/-- the observer state that belongs to a model state -/
def observer (cfg : Cfg) (st : St) : MonState := { clients := cfg.clients, accepted := st.stored.map toAccepted }

/-- verdicts of the MONITOR (weak reading) on the model's own response to one operation -/
def verdicts (now : Int) (o : UriOracle) (cfg : Cfg) (st : St) (op : Op) : List (Option String) :=
  match op with
  | .authorize rt r dec d fx nid =>
    (step now o cfg st (.authorize rt r dec d fx nid)).2.map fun w =>
      match decodedReq r dec with
      | .ok a =>
        let e := effective cfg.requestObjects d (mkStorage cfg st fx nid) a
        monitorAuthorize false (observer cfg st) o e.ClientID e.RedirectURI e.ResponseType (sentOf o w)
      | .error _ => if sentOf o w = .nowhere then none else some "redirect-without-a-request"
  | .login _ => []
  | .callback r d fx =>
    (step now o cfg st (.callback r d fx)).2.map fun w =>
      monitorCallback false (observer cfg st) o (r.Form.Get "id") (sentOf o w)

def run (now : Int) (o : UriOracle) (cfg : Cfg) : St → List Op → St
  | st, [] => st
  | st, op :: ops => run now o cfg (step now o cfg st op).1 ops

/-- invariant: every stored authorization request carries a redirect URI registered for its client -/
def Inv (o : UriOracle) (cfg : Cfg) (st : St) : Prop :=
  ∀ a ∈ st.stored, registeredFor false (observer cfg st) o a.clientID a.redirectURI a.responseType = true

theorem registeredFor_clients {m m' : MonState} (h : m.clients = m'.clients) (o : UriOracle) (c u r : String) :
    registeredFor false m o c u r = registeredFor false m' o c u r := by
  unfold registeredFor; rw [h]

theorem authorize_writes {now : Int} {o : UriOracle} {cfg : Cfg} {st : St} {rt : Router} {r : AzHttpReq} {dec : AzDecoder} {d : AuthDeps}
    {fx : Faults} {nid : String} {w : Write}
    (hw : w ∈ (step now o cfg st (.authorize rt r dec d fx nid)).2) :
    AuthorizeRawOK o cfg d (mkStorage cfg st fx nid) r dec w := by
  simp only [step] at hw
  cases rt with
  | provider =>
    rw [authorize_eq _ _ _ _ _ rfl] at hw
    exact providerAuthorize_writes hw
  | legacy => exact legacyAuthorize_writes hw

theorem authorizeOK_registered {o : UriOracle} {cfg : Cfg} {st : St} {e : AuthRequestData} {w : Write}
    (h : AuthorizeWriteOK o cfg.clients e w) :
    (∃ s, w = .page s) ∨ registeredFor false (observer cfg st) o e.ClientID e.RedirectURI e.ResponseType = true := by
  rcases h with h | ⟨c, hc, hr, _⟩
  · exact Or.inl h
  · right; unfold registeredFor observer; simp only; rw [hc]; exact hr

theorem step_inv {now : Int} {o : UriOracle} {cfg : Cfg} {st : St} (op : Op) (hi : Inv o cfg st) :
    Inv o cfg (step now o cfg st op).1 := by
  cases op with
  | login id =>
    intro a ha
    simp only [step, List.mem_map] at ha
    obtain ⟨b, hb, hab⟩ := ha
    have := hi b hb
    rw [registeredFor_clients (m := observer cfg (step now o cfg st (.login id)).1) (m' := observer cfg st) rfl]
    split at hab <;> (subst hab; exact this)
  | callback r d fx => exact hi
  | authorize rt r dec d fx nid =>
    intro a ha
    rw [registeredFor_clients (m := observer cfg (step now o cfg st (.authorize rt r dec d fx nid)).1) (m' := observer cfg st) rfl]
    simp only [step, List.mem_append] at ha
    rcases ha with ha | ha
    · exact hi a ha
    · unfold storedBy at ha
      simp only [List.mem_filterMap] at ha
      obtain ⟨w, hw, hwa⟩ := ha
      have hok := authorize_writes (rt := rt) (r := r) (dec := dec) (d := d) (fx := fx) (nid := nid) (now := now) (o := o) (cfg := cfg) (st := st)
        (w := w) (by simp only [step]; exact hw)
      rcases hok with ⟨s, rfl⟩ | ⟨q, _, ⟨s, rfl⟩ | ⟨c, hc, hr, hl | ⟨f, qq, rfl⟩⟩⟩
      · simp at hwa
      · simp at hwa
      · obtain ⟨req, rfl, h1, h2, h3⟩ := hl
        simp at hwa; subst hwa
        unfold registeredFor observer; simp only
        rw [h1, h2, h3, hc]; exact hr
      · simp at hwa

/-- html/template renders the redirect URI it is given into the form's `action` attribute UNCHANGED.  This is a hypothesis about
    the template engine: html/template's contextual URL filter replaces URLs whose scheme is not http / https / mailto by
    `#ZgotmplZ` (finding F-C03d, `formpost_template_witness` below). -/
def TemplateOK (d : AuthDeps) : Prop :=
  ∀ ps page, d.FormTemplate.Execute ps = .ok page → page.action = ps.RedirectURI

/-- the one assumption of the full theorem, per operation: callbacks render form_post pages with a faithful template -/
def OpOK : Op → Prop
  | .callback _ d _ => TemplateOK d
  | _ => True

/-- the stored request the reference storage finds is the one the observer recorded under this id -/
theorem byID_find {cfg : Cfg} {st : St} {fx : Faults} {nid id : String} {dec : AzDecoder} {a : AzStored}
    (ha : (mkProvider cfg st fx nid dec).Storage.AuthRequestByID id = .ok a) : st.stored.find? (·.id == id) = some a := by
  simp only [mkProvider, mkStorage] at ha
  split at ha
  · simp at ha
  · split at ha
    · simp at ha; subst ha; assumption
    · simp at ha

/-- one step, without any assumption: the only thing the monitor can ever object to is a form_post page whose action the
    template engine changed (and then only the target clause - never a clause about unregistered URIs) -/
theorem step_verdicts_any {now : Int} {o : UriOracle} {cfg : Cfg} {st : St} (op : Op) (hi : Inv o cfg st) :
    ∀ v ∈ verdicts now o cfg st op, v = none ∨ (¬ OpOK op ∧ v = some "redirect-target-is-not-the-redirect-uri") := by
  intro v hv
  cases op with
  | login id => simp [verdicts] at hv
  | authorize rt r dec d fx nid =>
    left
    simp only [verdicts, List.mem_map] at hv
    obtain ⟨w, hw, rfl⟩ := hv
    rcases authorize_writes hw with ⟨s, rfl⟩ | ⟨a, hdec, hok⟩
    · cases decodedReq r dec <;> simp [sentOf, monitorAuthorize, judge]
    · rw [hdec]
      simp only
      unfold monitorAuthorize
      generalize effective cfg.requestObjects d (mkStorage cfg st fx nid) a = e at hok ⊢
      rcases hok with ⟨s, rfl⟩ | ⟨c, hc, hr, hl | ⟨f, q, rfl⟩⟩
      · simp [sentOf, judge]
      · obtain ⟨req, rfl, _, _, _⟩ := hl
        have hreg : registeredFor false (observer cfg st) o e.ClientID e.RedirectURI e.ResponseType = true := by
          unfold registeredFor observer; simp only; rw [hc]; exact hr
        simp [sentOf, judge, hreg]
      · have hreg : registeredFor false (observer cfg st) o e.ClientID e.RedirectURI e.ResponseType = true := by
          unfold registeredFor observer; simp only; rw [hc]; exact hr
        simp [sentOf, judge, hreg]
  | callback r d fx =>
    simp only [verdicts, List.mem_map] at hv
    obtain ⟨w, hw, rfl⟩ := hv
    simp only [step] at hw
    unfold monitorCallback
    rcases authorizeCallback_writes hw with ⟨s, rfl⟩ | ⟨a, ha, hwa⟩
    · left; simp only [sentOf]; split <;> simp [judge]
    · have hfind := byID_find ha
      have hacc : (observer cfg st).accepted.find? (·.id == r.Form.Get "id") = some (toAccepted a) := by
        unfold observer; simp only
        rw [List.find?_map]
        have : ((fun x : Accepted => x.id == r.Form.Get "id") ∘ toAccepted) = (fun x : AzStored => x.id == r.Form.Get "id") := by
          funext x; rfl
        rw [this, hfind]; rfl
      rw [hacc]
      have hreg := hi a (List.mem_of_find?_eq_some hfind)
      simp only [toAccepted]
      rcases hwa with ⟨s, rfl⟩ | ⟨f, q, rfl⟩ | ⟨ps, page, hpage, rfl⟩
      · left; simp [sentOf, judge]
      · left; simp [sentOf, judge, hreg]
      · by_cases hdest : destOf o page.action = destOf o a.redirectURI
        · left; simp [sentOf, judge, hreg, hdest]
        · right
          refine ⟨fun ht => hdest (by rw [ht _ _ hpage]), ?_⟩
          simp [sentOf, judge, hreg, hdest]

theorem step_verdicts {now : Int} {o : UriOracle} {cfg : Cfg} {st : St} (op : Op) (hi : Inv o cfg st) (hop : OpOK op) :
    ∀ v ∈ verdicts now o cfg st op, v = none := by
  intro v hv
  rcases step_verdicts_any op hi v hv with h | ⟨h, _⟩
  · exact h
  · exact absurd hop h

theorem run_inv {now : Int} {o : UriOracle} {cfg : Cfg} (ops : List Op) : ∀ st, Inv o cfg st → Inv o cfg (run now o cfg st ops) := by
  induction ops with
  | nil => intro st h; exact h
  | cons op ops ih => intro st h; exact ih _ (step_inv op h)

theorem inv_init (o : UriOracle) (cfg : Cfg) : Inv o cfg {} := by intro a ha; simp at ha

/-- **C03 (weak reading), all histories.**  For every set of client registrations, every behaviour of net/url,
    net.ParseIP and doublestar, every sequence of authorize / login / callback operations on either router with
    arbitrary raw requests and decoder behaviour, arbitrary storage failures, arbitrary outcomes of the prompt / scope /
    id_token_hint / request-object / token-creation steps and arbitrary encoder failures: the monitor finds nothing to object to in
    any response of the model to the next operation - provided the template engine leaves the redirect URI alone when that
    operation is a callback (`OpOK`; nothing is assumed about the operations before it). -/
theorem c03_no_unregistered_redirect (now : Int) (o : UriOracle) (cfg : Cfg) (ops : List Op) (op : Op) (hop : OpOK op) :
    ∀ v ∈ verdicts now o cfg (run now o cfg {} ops) op, v = none :=
  step_verdicts op (run_inv ops {} (inv_init o cfg)) hop

/-- **without any assumption** (F-C03d kept visible): whatever the template engine does, no response is ever sent anywhere for an
    unregistered URI and no login page is shown for one; the only possible objection is the target of a form_post page -/
theorem c03_never_for_unregistered (now : Int) (o : UriOracle) (cfg : Cfg) (ops : List Op) (op : Op) :
    ∀ v ∈ verdicts now o cfg (run now o cfg {} ops) op, v = none ∨ v = some "redirect-target-is-not-the-redirect-uri" := by
  intro v hv
  rcases step_verdicts_any op (run_inv ops {} (inv_init o cfg)) v hv with h | ⟨_, h⟩
  · exact Or.inl h
  · exact Or.inr h

/-! ### whole histories: every response along the way, faults at every index, repeated and foreign callbacks -/

/-- the monitor's verdicts on EVERY response of a history (not only the last one) -/
def runVerdicts (now : Int) (o : UriOracle) (cfg : Cfg) : St → List Op → List (Option String)
  | _, [] => []
  | st, op :: ops => verdicts now o cfg st op ++ runVerdicts now o cfg (step now o cfg st op).1 ops

theorem runVerdicts_inv {now : Int} {o : UriOracle} {cfg : Cfg} (ops : List Op) (hops : ∀ op ∈ ops, OpOK op) :
    ∀ st, Inv o cfg st → ∀ v ∈ runVerdicts now o cfg st ops, v = none := by
  induction ops with
  | nil => intro st _ v hv; simp [runVerdicts] at hv
  | cons op ops ih =>
    intro st hi v hv
    simp only [runVerdicts, List.mem_append] at hv
    rcases hv with hv | hv
    · exact step_verdicts op hi (hops op (by simp)) v hv
    · exact ih (fun x hx => hops x (by simp [hx])) _ (step_inv op hi) v hv

/-- **C03 over whole histories** (induction over the operation list, invariant `Inv`): along ANY sequence authorize → login →
    callback → repeated callback → callback with a foreign / unknown / missing id → … in any order and any number, on either router,
    the monitor accepts every single response. -/
theorem c03_history (now : Int) (o : UriOracle) (cfg : Cfg) (ops : List Op) (hops : ∀ op ∈ ops, OpOK op) :
    ∀ v ∈ runVerdicts now o cfg {} ops, v = none :=
  runVerdicts_inv ops hops {} (inv_init o cfg)

/-- replace the storage faults of one operation -/
def opWithFaults (fx : Faults) : Op → Op
  | .authorize rt r dec d _ nid => .authorize rt r dec d fx nid
  | .login id => .login id
  | .callback r d _ => .callback r d fx

/-- inject the storage faults `fx` into the `i`-th operation of a history -/
def faultAt (i : Nat) (fx : Faults) (ops : List Op) : List Op :=
  ops.mapIdx fun j op => if j = i then opWithFaults fx op else op

theorem withFaults_ok {fx : Faults} {op : Op} (h : OpOK op) : OpOK (opWithFaults fx op) := by
  cases op <;> exact h

/-- **storage faults at every index**: take any history and make the storage calls of its `i`-th request fail in any way
    (`GetClientByClientID`, `CreateAuthRequest`, `AuthRequestByID`; plain errors, oidc errors, redirect-disabled ones - `Faults`
    are arbitrary functions): still every response of the history is accepted, at the faulty step and at all later ones. -/
theorem c03_history_faults (now : Int) (o : UriOracle) (cfg : Cfg) (ops : List Op) (hops : ∀ op ∈ ops, OpOK op) (i : Nat) (fx : Faults) :
    ∀ v ∈ runVerdicts now o cfg {} (faultAt i fx ops), v = none := by
  apply c03_history
  intro op hop
  unfold faultAt at hop
  rw [List.mem_mapIdx] at hop
  obtain ⟨j, hj, rfl⟩ := hop
  split
  · exact withFaults_ok (hops _ (List.getElem_mem hj))
  · exact hops _ (List.getElem_mem hj)

/-- a callback does not change what is stored: it can be repeated any number of times -/
theorem callback_keeps_state (now : Int) (o : UriOracle) (cfg : Cfg) (st : St) (r : AzHttpReq) (d : AuthDeps) (fx : Faults) :
    (step now o cfg st (.callback r d fx)).1 = st := rfl

/-- **callback with an id nobody was given** (unknown, missing, made up): a direct page, whatever the storage and the encoders do -/
theorem callback_unknown_id {now : Int} {o : UriOracle} {cfg : Cfg} {st : St} {r : AzHttpReq} {d : AuthDeps} {fx : Faults} {w : Write}
    (hid : st.stored.find? (·.id == r.Form.Get "id") = none)
    (hw : w ∈ (step now o cfg st (.callback r d fx)).2) : ∃ s, w = .page s := by
  simp only [step] at hw
  rcases authorizeCallback_writes hw with h | ⟨a, ha, _⟩
  · exact h
  · rw [byID_find ha] at hid; simp at hid

/-- **callback with a foreign id** (the id of a request another client started): whatever is sent goes to the redirect URI stored
    with THAT request - the caller cannot steer it anywhere else -/
theorem callback_foreign_id {now : Int} {o : UriOracle} {cfg : Cfg} {st : St} {r : AzHttpReq} {d : AuthDeps} {fx : Faults} {w : Write}
    {a : AzStored} (hid : st.stored.find? (·.id == r.Form.Get "id") = some a)
    (hw : w ∈ (step now o cfg st (.callback r d fx)).2) : RespWriteOK d.FormTemplate a.redirectURI w := by
  simp only [step] at hw
  rcases authorizeCallback_writes hw with h | ⟨b, hb, hwb⟩
  · exact Or.inl h
  · have := byID_find hb
    rw [hid] at this
    cases this
    exact hwb

/-- **requests with a missing, unknown-client or non-matching redirect URI are answered directly**: if the effective request's
    redirect URI is not registered for the client the storage holds under its client id (or there is no such client), every write
    of `/authorize` is a direct page - on both routers, whatever fails before or after the validation -/
theorem authorize_unregistered_direct {now : Int} {o : UriOracle} {cfg : Cfg} {st : St} {rt : Router} {r : AzHttpReq} {dec : AzDecoder}
    {d : AuthDeps} {fx : Faults} {nid : String} {a : AuthRequestData} {w : Write}
    (hdec : decodedReq r dec = .ok a)
    (hun : ∀ c, cfg.clients.find? (·.id == (effective cfg.requestObjects d (mkStorage cfg st fx nid) a).ClientID) = some c →
      Registered false o c (effective cfg.requestObjects d (mkStorage cfg st fx nid) a).RedirectURI
        (effective cfg.requestObjects d (mkStorage cfg st fx nid) a).ResponseType = false)
    (hw : w ∈ (step now o cfg st (.authorize rt r dec d fx nid)).2) : ∃ s, w = .page s := by
  rcases authorize_writes hw with h | ⟨a', hdec', h | ⟨c, hc, hr, _⟩⟩
  · exact h
  · exact h
  · rw [hdec] at hdec'
    cases hdec'
    rw [hun c hc] at hr
    cases hr

/-- an undecodable request (malformed query, schema-decoder error) is answered directly -/
theorem authorize_undecodable_direct {now : Int} {o : UriOracle} {cfg : Cfg} {st : St} {rt : Router} {r : AzHttpReq} {dec : AzDecoder}
    {d : AuthDeps} {fx : Faults} {nid e : String} {w : Write}
    (hdec : decodedReq r dec = .error e)
    (hw : w ∈ (step now o cfg st (.authorize rt r dec d fx nid)).2) : ∃ s, w = .page s := by
  rcases authorize_writes hw with h | ⟨a', hdec', _⟩
  · exact h
  · rw [hdec] at hdec'; cases hdec'

/-! ### tables -/

/-- the redirect-disabled constructors are exactly the redirect-URI error -/
theorem redirectDisabled_table : Gen.redirectDisabledErrors = ["ErrInvalidRequestRedirectURI"] := rfl

/-! ### the strict reading: where the code (hence the model) deviates — known findings, with witnesses -/

/-- a concrete URL parser for the witnesses: three strings, everything else unparseable -/
def witnessOracle : UriOracle :=
  { parse := fun s =>
      if s == "http://localhost/cb" then .ok { Scheme := "http", Host := "localhost", Hostname := "localhost", Path := "/cb", EscapedPath := "/cb" }
      else if s == "http://user:pw@127.0.0.1/cb" then
        .ok { Scheme := "http", Host := "127.0.0.1", Hostname := "127.0.0.1", Path := "/cb", EscapedPath := "/cb", User := "user:pw" }
      else if s == "https://[::1]:1/cb#frag" then
        .ok { Scheme := "https", Host := "[::1]:1", Hostname := "::1", Path := "/cb", EscapedPath := "/cb", Fragment := "frag" }
      else if s == "HTTP://rp.example/cb" then
        .ok { Scheme := "http", Host := "rp.example", Hostname := "rp.example", Path := "/cb", EscapedPath := "/cb" }
      else .error "parse",
    parseIP := fun h => ⟨h == "127.0.0.1" || h == "::1"⟩,
    globMatch := fun _ _ => .ok false }

def witnessNative : OPClient := { id := "native", app := Const.ApplicationTypeNative, auth := "none", redirectURIs := ["http://localhost/cb"] }

/-- F-C03b: the native loopback comparison (`equalURI`: decoded path and raw query only) accepts a requested URI that
    differs from the registered loopback URI in its USERINFO; the strict reading of the statement does not -/
theorem loopback_userinfo_witness :
    ValidateAuthReqRedirectURI 0 witnessOracle witnessNative "http://user:pw@127.0.0.1/cb" "code" = .ok () ∧
    Registered true witnessOracle witnessNative "http://user:pw@127.0.0.1/cb" "code" = false ∧
    Registered false witnessOracle witnessNative "http://user:pw@127.0.0.1/cb" "code" = true := by decide

/-- F-C03b: … or in its FRAGMENT -/
theorem loopback_fragment_witness :
    ValidateAuthReqRedirectURI 0 witnessOracle witnessNative "https://[::1]:1/cb#frag" "code" = .ok () ∧
    Registered true witnessOracle witnessNative "https://[::1]:1/cb#frag" "code" = false := by decide

/-- F-C03c: schemes are classified by the literal prefixes `http://` / `https://`; a native, non-dev-mode client that
    registered `HTTP://rp.example/cb` gets its responses sent to a plain-http, non-loopback target -/
theorem scheme_case_witness :
    ValidateAuthReqRedirectURI 0 witnessOracle { witnessNative with redirectURIs := ["HTTP://rp.example/cb"] } "HTTP://rp.example/cb" "code" = .ok () ∧
    Registered true witnessOracle { witnessNative with redirectURIs := ["HTTP://rp.example/cb"] } "HTTP://rp.example/cb" "code" = false := by decide

/-- and the legitimate loopback variants (scheme, host spelling, port) satisfy the strict reading too -/
example : ValidateAuthReqRedirectURI 0 witnessOracle witnessNative "http://localhost/cb" "code" = .ok () ∧
    Registered true witnessOracle witnessNative "http://localhost/cb" "code" = true := by decide

/-! ### the gap between the two readings, exactly -/

/-- the URL parser and the literal prefixes agree about http / https for this URI -/
def SchemeLiteral (o : UriOracle) (uri : String) : Prop :=
  ∀ p, o.urlParse uri = .ok p → (p.Scheme == "https") = (prefixScheme uri == "https") ∧ (p.Scheme == "http") = (prefixScheme uri == "http")

/-- as a loopback URL the string has no userinfo, no fragment and a path without escaped octets -/
def PlainLoopback (o : UriOracle) (u : String) : Prop :=
  ∀ p, loopbackHTTP o u = some p → p.User = "" ∧ p.Fragment = "" ∧ p.EscapedPath = p.Path

/-- For URIs whose scheme is spelled literally and whose loopback forms carry no userinfo / fragment / escaped path, the weak
    reading established by the theorems IS the strict reading of the statement: F-C03b and F-C03c are the whole gap. -/
theorem registered_strict_of_weak {o : UriOracle} {c : OPClient} {uri rt : String}
    (hS : SchemeLiteral o uri) (hU : PlainLoopback o uri) (hR : ∀ reg ∈ c.redirectURIs, PlainLoopback o reg)
    (h : Registered false o c uri rt = true) : Registered true o c uri rt = true := by
  unfold Registered at h ⊢
  simp only [Bool.and_eq_true] at h ⊢
  obtain ⟨⟨hne, hm⟩, hs⟩ := h
  refine ⟨⟨hne, ?_⟩, ?_⟩
  · -- registration match
    unfold matchesRegistration at hm ⊢
    simp only [Bool.or_eq_true] at hm ⊢
    rcases hm with (h1 | h2) | h3
    · exact Or.inl (Or.inl h1)
    · exact Or.inl (Or.inr h2)
    · right
      simp only [Bool.and_eq_true, List.any_eq_true] at h3 ⊢
      obtain ⟨hn, reg, hreg, hv⟩ := h3
      refine ⟨hn, reg, hreg, ?_⟩
      unfold loopbackVariant at hv ⊢
      cases ha : loopbackHTTP o uri with
      | none => simp [ha] at hv
      | some a =>
        cases hb : loopbackHTTP o reg with
        | none => simp [ha, hb] at hv
        | some b =>
          simp only [ha, hb, Bool.not_false, Bool.true_or, Bool.and_true, Bool.and_eq_true, beq_iff_eq] at hv
          obtain ⟨au, af, ap⟩ := hU a ha
          obtain ⟨bu, bf, bp⟩ := hR reg hreg b hb
          simp [au, af, ap, bu, bf, bp, hv.1, hv.2]
  · -- scheme rule
    unfold schemeAllowed schemeOf at hs ⊢
    simp only [Bool.false_eq_true, if_false, if_true] at hs ⊢
    cases hp : o.urlParse uri with
    | error e => simpa [hp] using hs
    | ok p =>
      simp only
      obtain ⟨h1, h2⟩ := hS p hp
      rw [h1, h2]
      exact hs

/-! ### non-vacuity of the history theorem: a concrete flow that reaches every kind of response -/

def demoOracle : UriOracle :=
  { parse := fun s => if s == "https://rp.example/cb" then .ok { Scheme := "https", Host := "rp.example", Hostname := "rp.example", Path := "/cb", EscapedPath := "/cb" } else .error "parse",
    parseIP := fun _ => {}, globMatch := fun _ _ => .ok false }
def demoDeps : AuthDeps :=
  { ValidateAuthReqPrompt := fun _ m => .ok m, ValidateAuthReqScopes := fun _ s => if s.isEmpty then .error "ErrInvalidRequest" else .ok s,
    ValidateAuthReqIDTokenHint := fun _ _ => .ok "", ParseRequestObject := fun a _ _ => .ok a,
    CreateTokenResponse := fun _ _ _ _ _ _ => .ok { kind := "token" }, CreateAuthRequestCode := fun _ _ _ => .ok "code1" }
def demoCfg : Cfg := { clients := [{ id := "web", redirectURIs := ["https://rp.example/cb"], respTypes := ["code"] }] }
def demoReq (uri : String) (scopes : List String) : AuthRequestData :=
  { ClientID := "web", RedirectURI := uri, ResponseType := "code", Scopes := scopes, State := "s" }
/-- a raw request whose form the schema decoder turns into `a` -/
def demoRaw (a : AuthRequestData) : AzDecoder := { Decode := fun _ => .ok a }
def demoStored : AzStored := { id := "ar1", clientID := "web", redirectURI := "https://rp.example/cb", responseType := "code", state := "s" }

/-- registered URI: the request is stored and the user agent goes to the login page -/
example : step 0 demoOracle demoCfg {} (.authorize .provider {} (demoRaw (demoReq "https://rp.example/cb" ["openid"])) demoDeps {} "ar1")
    = ({ stored := [demoStored] }, [.redirect (.login "web" demoStored)]) := by decide
/-- unregistered URI (even together with a scope error): a direct page, on both routers -/
example : (step 0 demoOracle demoCfg {} (.authorize .provider {} (demoRaw (demoReq "https://evil.example/cb" [])) demoDeps {} "ar1")).2 = [.page 400] := by decide
example : (step 0 demoOracle demoCfg {} (.authorize .legacy {} (demoRaw (demoReq "https://evil.example/cb" [])) demoDeps {} "ar1")).2 = [.page 400] := by decide
/-- registered URI with a scope error: the error IS redirected (Provider router) — to the registered URI -/
example : (step 0 demoOracle demoCfg {} (.authorize .provider {} (demoRaw (demoReq "https://rp.example/cb" [])) demoDeps {} "ar1")).2
    = [.redirect (.response "https://rp.example/cb" false { kind := "error", err := "ErrInvalidRequest" })] := by decide
/-- callback after login: the code goes to the stored URI; before login: the error goes there -/
example : (step 0 demoOracle demoCfg { stored := [{ demoStored with done := true }] } (.callback { Form := { kv := [("id", "ar1")] } } demoDeps {})).2
    = [.redirect (.response "https://rp.example/cb" false { kind := "code" })] := by decide
example : (step 0 demoOracle demoCfg { stored := [demoStored] } (.callback { Form := { kv := [("id", "ar1")] } } demoDeps {})).2
    = [.redirect (.response "https://rp.example/cb" false { kind := "error", err := "ErrInteractionRequired" })] := by decide

/-! ### F-C03d: the template engine is the one assumption of the full theorem — witness -/

/-- html/template's URL filter as far as it matters here: an `action` whose scheme is not http(s) is replaced by `#ZgotmplZ` -/
def goTemplate : AzFormTemplate :=
  { Execute := fun ps => .ok ⟨if Go.hasPrefix ps.RedirectURI "http://" || Go.hasPrefix ps.RedirectURI "https://" then ps.RedirectURI else "#ZgotmplZ"⟩ }

def fpOracle : UriOracle :=
  { parse := fun s =>
      if s == "myapp://cb" then .ok { Scheme := "myapp", Host := "cb", Hostname := "cb" }
      else if s == "#ZgotmplZ" then .ok { Fragment := "ZgotmplZ" }
      else .error "parse",
    parseIP := fun _ => {}, globMatch := fun _ _ => .ok false }
def fpCfg : Cfg := { clients := [{ id := "app", app := Const.ApplicationTypeNative, auth := "none", redirectURIs := ["myapp://cb"], respTypes := ["code"] }] }
def fpStored : AzStored :=
  { id := "ar1", clientID := "app", redirectURI := "myapp://cb", responseType := "code", responseMode := "form_post", done := true }
def fpDeps : AuthDeps := { demoDeps with FormTemplate := goTemplate }

/-- F-C03d: a native client with a registered custom-scheme URI asks for `response_mode=form_post`; the page the callback answers with
    auto-submits the code to `#ZgotmplZ` (= the provider's own callback URL), not to the registered URI: the monitor objects with the
    TARGET clause (and with nothing else), and the template is not `TemplateOK` -/
theorem formpost_template_witness :
    (step 0 fpOracle fpCfg { stored := [fpStored] } (.callback { Form := { kv := [("id", "ar1")] } } fpDeps {})).2 = [.formPost "#ZgotmplZ"] ∧
    verdicts 0 fpOracle fpCfg { stored := [fpStored] } (.callback { Form := { kv := [("id", "ar1")] } } fpDeps {})
      = [some "redirect-target-is-not-the-redirect-uri"] ∧
    ¬ TemplateOK fpDeps := by
  refine ⟨by decide, by decide, ?_⟩
  intro h
  have := h ⟨"myapp://cb", {}⟩ ⟨"#ZgotmplZ"⟩ (by decide)
  simp at this

/-- with a template that leaves the URI alone the same callback is accepted: the form goes to the registered URI -/
example : verdicts 0 fpOracle fpCfg { stored := [fpStored] } (.callback { Form := { kv := [("id", "ar1")] } } demoDeps {}) = [none] := by decide
example : TemplateOK demoDeps := by intro ps page h; simp [demoDeps] at h; rw [← h]

/-! ### request objects: the regenerated `ParseRequestObject` / `CopyRequestObjectToAuthRequest` as the request-object step -/

/-- the effective redirect URI after a request object was accepted is the OBJECT's redirect URI when it has one, else the form's;
    client id and response type are those of the form (the object must agree with them): validation therefore judges the URI the
    response will be sent to -/
theorem requestObject_override {now : Int} {ro : AzRoOracle} {a a' : AuthRequestData} {stg : AzStorage} {iss : String}
    (h : GenAz.ParseRequestObject now ro a stg iss = .ok a') :
    ∃ claims : AzRequestObject, a'.RedirectURI = (if claims.RedirectURI != "" then claims.RedirectURI else a.RedirectURI) ∧
      a'.ClientID = a.ClientID ∧ a'.ResponseType = a.ResponseType ∧ a'.RequestParam = "" := by
  obtain ⟨_, _, claims', _, _, _, _, _, _, rfl⟩ := parseRequestObject_ok h
  obtain ⟨h1, _, _, h4, h5, h6⟩ := copyRequestObject_spec now a claims'
  exact ⟨claims', h1, h4, h5, h6⟩

/-- a provider whose request-object step is the regenerated `ParseRequestObject` -/
def withRequestObjects (ro : AzRoOracle) (d : AuthDeps) : AuthDeps :=
  { d with ParseRequestObject := fun a stg iss => GenAz.ParseRequestObject 0 ro a stg iss }

def demoRo : AzRoOracle :=
  { ParseToken := fun _ => .ok ("p", { Issuer := "web", ClientID := "web", Audience := [""], RedirectURI := "https://evil.example/cb" }),
    CheckSignature := fun _ _ c _ _ => .ok c }

/-- non-vacuity: a signed request object that swaps in an unregistered redirect URI is answered with a direct page on both routers,
    although the form's own redirect_uri is registered -/
example : (step 0 demoOracle { demoCfg with requestObjects := true } {}
    (.authorize .provider {} (demoRaw { demoReq "https://rp.example/cb" ["openid"] with RequestParam := "x.y.z" }) (withRequestObjects demoRo demoDeps) {} "ar1")).2
    = [.page 400] := by decide
example : (step 0 demoOracle { demoCfg with requestObjects := true } {}
    (.authorize .legacy {} (demoRaw { demoReq "https://rp.example/cb" ["openid"] with RequestParam := "x.y.z" }) (withRequestObjects demoRo demoDeps) {} "ar1")).2
    = [.page 400] := by decide

/-- non-vacuity of the history theorems: a history with a fault injected at index 0 -/
example : faultAt 0 { getClient := fun _ => some "boom" }
    [.authorize .provider {} (demoRaw (demoReq "https://rp.example/cb" ["openid"])) demoDeps {} "ar1", .login "ar1"]
    = [.authorize .provider {} (demoRaw (demoReq "https://rp.example/cb" ["openid"])) demoDeps { getClient := fun _ => some "boom" } "ar1", .login "ar1"] := rfl
example : (step 0 demoOracle demoCfg {} (.authorize .provider {} (demoRaw (demoReq "https://rp.example/cb" ["openid"])) demoDeps
    { getClient := fun _ => some "boom" } "ar1")).2 = [.page 400] := by decide
/-- callback for an id nobody was given: a direct page -/
example : (step 0 demoOracle demoCfg { stored := [demoStored] } (.callback { Form := { kv := [("id", "ar999")] } } demoDeps {})).2 = [.page 400] := by decide

end C03
