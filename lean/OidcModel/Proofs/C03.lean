/-
  C03 proofs.  Everything is about the definitions REGENERATED from pkg/op (Generated/Authorize.lean,
  Generated/AuthzTables.lean) plus the two hand-modelled handler shells of Model/AuthzFlow.lean.
-/
import OidcModel.Spec.C03
import OidcModel.Model.AuthzFlow

namespace C03
open Go Gen Hand Authz

deriving instance DecidableEq for Except

/-! ### the range-loop combinator -/

theorem forRange_some {α β : Type} {l : List α} {f : α → Option β} {r : β} (h : Go.forRange l f = some r) :
    ∃ x, x ∈ l ∧ f x = some r := by
  induction l with
  | nil => simp [Go.forRange] at h
  | cons x xs ih =>
    unfold Go.forRange at h
    split at h
    · rename_i r' hx
      simp at h; subst h
      exact ⟨x, by simp, hx⟩
    · obtain ⟨y, hy, hfy⟩ := ih h
      exact ⟨y, by simp [hy], hfy⟩

/-! ### redirect-URI validation -/

/-- `checkURIAgainstRedirects` lets a URI through only if it is registered literally or matches an opted-in glob -/
theorem checkURI_ok {now : Int} {o : UriOracle} {c : OPClient} {uri : String}
    (h : checkURIAgainstRedirects now o c uri = .ok ()) :
    c.redirectURIs.contains uri = true ∨ ∃ gs, c.globs = some gs ∧ gs.any (fun g => globMatches o g uri) = true := by
  unfold checkURIAgainstRedirects at h
  by_cases h1 : Go.contains c.RedirectURIs uri = true
  · left; exact h1
  · right
    rw [if_neg h1] at h
    cases hgs : c.globs with
    | none =>
      simp only [OPClient.RedirectURIGlobs, hgs, Option.getD_none, Go.forRange] at h
      split at h <;> simp at h
    | some gs =>
      refine ⟨gs, rfl, ?_⟩
      simp only [OPClient.is_HasRedirectGlobs, OPClient.RedirectURIGlobs, hgs, Option.isSome_some, Bool.true_or, if_true, Option.getD_some] at h
      split at h
      · rename_i r hr
        subst h
        obtain ⟨g, hg, hfg⟩ := forRange_some hr
        rw [List.any_eq_true]
        refine ⟨g, hg, ?_⟩
        unfold globMatches
        cases hm : o.globMatch g uri with
        | error e => rw [hm] at hfg; simp at hfg
        | ok b =>
          rw [hm] at hfg
          cases b with
          | true => rfl
          | false => simp at hfg
      · simp at h

theorem checkURI_matches {now : Int} {o : UriOracle} {c : OPClient} {uri : String} (strict : Bool)
    (h : checkURIAgainstRedirects now o c uri = .ok ()) : matchesRegistration strict o c uri = true := by
  unfold matchesRegistration
  rcases checkURI_ok h with h1 | ⟨gs, hgs, hany⟩
  · rw [h1]; simp
  · rw [hgs]; simp only [hany]; simp

/-- `HTTPLoopbackOrLocalhost` answers exactly the monitor's question "http(s) URL on a loopback host?" -/
theorem loopback_spec (now : Int) (o : UriOracle) (u : String) :
    (HTTPLoopbackOrLocalhost now o u).2 = (loopbackHTTP o u).isSome ∧
    ((HTTPLoopbackOrLocalhost now o u).2 = true → loopbackHTTP o u = some (HTTPLoopbackOrLocalhost now o u).1) := by
  unfold HTTPLoopbackOrLocalhost loopbackHTTP
  cases hp : o.urlParse u with
  | error e => simp
  | ok p =>
    simp only
    by_cases hs : (p.Scheme == "http" || p.Scheme == "https") = true
    · rw [if_pos hs]
      by_cases hl : (p.Hostname == "localhost" || (o.parseIP p.Hostname).IsLoopback) = true
      · simp [hs, hl]
      · simp [hs, hl]
    · rw [if_neg hs]
      simp [hs]

/-- the native branch accepts only registered URIs (weak reading) -/
theorem native_ok {now : Int} {o : UriOracle} {c : OPClient} {uri rt : String}
    (hn : isNative c = true) (hne : uri ≠ "")
    (h : validateAuthReqRedirectURINative now o c uri = .ok ()) : Registered false o c uri rt = true := by
  unfold validateAuthReqRedirectURINative at h
  have hlb := loopback_spec now o uri
  generalize HTTPLoopbackOrLocalhost now o uri = r at h hlb
  obtain ⟨parsedURL, isLoopback⟩ := r
  simp only at h hlb
  obtain ⟨hlb1, hlb2⟩ := hlb
  unfold Registered
  have hne' : (uri != "") = true := by simp [hne]
  rw [hne']
  cases hchk : checkURIAgainstRedirects now o c uri with
  | ok u =>
    cases u
    rw [hchk] at h
    simp only at h
    rw [checkURI_matches false hchk]
    simp only [Bool.true_and]
    unfold schemeAllowed schemeOf prefixScheme
    simp only [Bool.false_eq_true, if_false, hn, Bool.true_and]
    by_cases hd : c.DevMode = true
    · have hd' : c.devMode = true := hd
      by_cases h1 : Go.hasPrefix uri "https://" = true
      · simp [h1]
      · by_cases h2 : Go.hasPrefix uri "http://" = true
        · simp [h1, h2, hd']
        · simp [h1, h2]
    · rw [if_neg hd] at h
      by_cases h1 : Go.hasPrefix uri "https://" = true
      · simp [h1]
      · by_cases h2 : Go.hasPrefix uri "http://" = true
        · have : isLoopback = true := by
            cases isLoopback with
            | true => rfl
            | false => simp [h1, h2] at h
          rw [this] at hlb1
          simp [h1, h2, ← hlb1]
        · simp [h1, h2]
  | error e =>
    rw [hchk] at h
    simp only at h
    cases isLoopback with
    | false => simp at h
    | true =>
      simp only [Bool.not_true, Bool.false_eq_true, if_false] at h
      have hp := hlb2 rfl
      split at h
      · rename_i r hr
        obtain ⟨reg, hreg, hbody⟩ := forRange_some hr
        have hlbr := loopback_spec now o reg
        generalize HTTPLoopbackOrLocalhost now o reg = rr at hbody hlbr
        obtain ⟨redirectURI, ok⟩ := rr
        simp only at hbody hlbr
        by_cases hc : (ok && equalURI now parsedURL redirectURI) = true
        · simp only [Bool.and_eq_true] at hc
          obtain ⟨hok, heq⟩ := hc
          have hpr := hlbr.2 hok
          have hvar : loopbackVariant false o uri reg = true := by
            unfold loopbackVariant
            rw [hp, hpr]
            unfold equalURI at heq
            simpa using heq
          have hm : matchesRegistration false o c uri = true := by
            unfold matchesRegistration
            rw [hn]
            have : c.redirectURIs.any (fun reg => loopbackVariant false o uri reg) = true :=
              List.any_eq_true.2 ⟨reg, hreg, hvar⟩
            simp [this]
          rw [hm]
          simp only [Bool.true_and]
          unfold schemeAllowed schemeOf prefixScheme
          simp only [Bool.false_eq_true, if_false, hn, Bool.true_and, hp, Option.isSome_some, Bool.or_true, Bool.true_or]
          by_cases h1 : Go.hasPrefix uri "https://" = true
          · simp [h1]
          · by_cases h2 : Go.hasPrefix uri "http://" = true
            · simp [h1, h2]
            · simp [h1, h2]
        · simp [hc] at hbody
      · simp at h

/-- **the validation lemma**: `ValidateAuthReqRedirectURI` accepts only registered URIs (weak reading),
    for every client registration, URI string, response type and all library behaviours -/
theorem validateRedirectURI_ok {now : Int} {o : UriOracle} {c : OPClient} {uri rt : String}
    (h : ValidateAuthReqRedirectURI now o c uri rt = .ok ()) : Registered false o c uri rt = true := by
  unfold ValidateAuthReqRedirectURI at h
  by_cases he : (uri == "") = true
  · rw [if_pos he] at h; simp at h
  rw [if_neg he] at h
  have hne : uri ≠ "" := by simpa using he
  by_cases hn : (c.ApplicationType == Const.ApplicationTypeNative) = true
  · rw [if_pos hn] at h
    exact native_ok hn hne h
  rw [if_neg hn] at h
  have hnn : isNative c = false := by
    unfold isNative; simpa [OPClient.ApplicationType] using hn
  unfold Registered
  have hne' : (uri != "") = true := by simp [hne]
  rw [hne']
  by_cases h1 : Go.hasPrefix uri "https://" = true
  · rw [if_pos h1] at h
    rw [checkURI_matches false h]
    simp [schemeAllowed, schemeOf, prefixScheme, h1]
  rw [if_neg h1] at h
  cases hchk : checkURIAgainstRedirects now o c uri with
  | error e => rw [hchk] at h; simp at h
  | ok u =>
    cases u
    rw [hchk] at h
    simp only at h
    rw [checkURI_matches false hchk]
    by_cases h2 : Go.hasPrefix uri "http://" = true
    · rw [if_pos h2] at h
      by_cases hd : c.DevMode = true
      · have hd' : c.devMode = true := hd
        simp [schemeAllowed, schemeOf, prefixScheme, h1, h2, hd']
      · rw [if_neg hd] at h
        by_cases hcc : (rt == Const.ResponseTypeCode && IsConfidentialType now c) = true
        · simp only [Bool.and_eq_true] at hcc
          have hconf : confidential c = true := by
            unfold confidential; simpa [IsConfidentialType, OPClient.ApplicationType] using hcc.2
          have hrt : (rt == Const.ResponseTypeCode) = true := hcc.1
          simp [schemeAllowed, schemeOf, prefixScheme, h1, h2, hconf, hrt]
        · rw [if_neg hcc] at h; simp at h
    · rw [if_neg h2] at h; simp at h

/-- non-vacuity: an exactly registered https URI of a web client is accepted … -/
example : ValidateAuthReqRedirectURI 0 ⟨fun _ => .error "x", fun _ => {}, fun _ _ => .ok false⟩
    { id := "web", redirectURIs := ["https://rp.example/cb"] } "https://rp.example/cb" "code" = .ok () := by decide
/-- … and a near miss is rejected with the redirect-disabled error -/
example : ValidateAuthReqRedirectURI 0 ⟨fun _ => .error "x", fun _ => {}, fun _ _ => .ok false⟩
    { id := "web", redirectURIs := ["https://rp.example/cb"] } "https://rp.example/cb/" "code" = .error "ErrInvalidRequestRedirectURI" := by decide

/-! ### error and response redirects -/

/-- every response URL is built on the redirect URI it was given -/
theorem authResponseURL_base {now : Int} {o : UriOracle} {uri rt mode : String} {p : RespParams} {enc : Encoder} {u : OutURL}
    (h : AuthResponseURL now o uri rt mode p enc = .ok u) : ∃ f q, u = .response uri f q := by
  unfold AuthResponseURL at h
  cases hp : o.urlParse uri with
  | error e => rw [hp] at h; simp at h
  | ok pu =>
    have hraw : pu.raw = uri := by
      unfold UriOracle.urlParse at hp
      split at hp
      · simp at hp; rw [← hp]
      · simp at hp
    rw [hp] at h
    simp only at h
    cases he : URLEncodeParams now p enc with
    | error e => rw [he] at h; simp at h
    | ok params =>
      rw [he] at h
      simp only [mergeQueryParams, setFragment, hraw] at h
      repeat' split at h
      all_goals (simp at h; exact ⟨_, _, h.symm⟩)

/-- what `AuthRequestError` may write: a direct page, or a redirect built on the request's own redirect URI -/
def ErrWriteOK (a : ErrReq) (w : Write) : Prop :=
  (∃ s, w = .page s) ∨ (a.nilp = false ∧ ∃ f q, w = .redirect (.response a.redirectURI f q))

theorem authRequestError_writes {now : Int} {o : UriOracle} {a : ErrReq} {err : String} {p : AzProvider} {w : Write}
    (hw : w ∈ AuthRequestError now o a err p) : ErrWriteOK a w := by
  unfold AuthRequestError at hw
  simp only [Hand.httpError, Hand.httpRedirect, List.append_nil, ErrReq.GetRedirectURI] at hw
  by_cases hnil : Go.isNil a = true
  · rw [if_pos hnil] at hw
    simp at hw; exact Or.inl ⟨_, hw⟩
  rw [if_neg hnil] at hw
  have hnn : a.nilp = false := by
    simpa [Go.isNil, Nilable.isNil] using hnil
  split at hw
  · simp at hw; exact Or.inl ⟨_, hw⟩
  · repeat' split at hw
    all_goals first
      | (simp at hw; exact Or.inl ⟨_, hw⟩)
      | (rename_i u hu
         obtain ⟨f, q, rfl⟩ := authResponseURL_base hu
         simp at hw
         exact Or.inr ⟨hnn, f, q, hw⟩)

/-- an error whose constructor disables redirects is never sent anywhere -/
theorem authRequestError_disabled {now : Int} {o : UriOracle} {a : ErrReq} {err : String} {p : AzProvider} {w : Write}
    (hd : (DefaultToServerError now err err).redirectDisabled = true)
    (hw : w ∈ AuthRequestError now o a err p) : ∃ s, w = .page s := by
  unfold AuthRequestError at hw
  simp only [Hand.httpError, Hand.httpRedirect, List.append_nil, OidcError.IsRedirectDisabled, hd, Bool.or_true, if_true] at hw
  split at hw <;> (simp at hw; exact ⟨_, hw⟩)

/-- a request without a request value (`nil`) is never redirected -/
theorem authRequestError_nil {now : Int} {o : UriOracle} {err : String} {p : AzProvider} {w : Write}
    (hw : w ∈ AuthRequestError now o Go.nil err p) : ∃ s, w = .page s := by
  rcases authRequestError_writes hw with h | ⟨h, _⟩
  · exact h
  · simp [Go.nil, HasNil.nilv] at h

/-! ### a failed redirect-URI validation always yields the redirect-disabled error -/

theorem redirectURI_error_disabled (now : Int) (d : String) :
    (DefaultToServerError now "ErrInvalidRequestRedirectURI" d).redirectDisabled = true := by
  unfold DefaultToServerError
  decide

theorem checkURI_err {now : Int} {o : UriOracle} {c : OPClient} {uri e : String}
    (h : checkURIAgainstRedirects now o c uri = .error e) : e = "ErrInvalidRequestRedirectURI" := by
  unfold checkURIAgainstRedirects at h
  by_cases h1 : Go.contains c.RedirectURIs uri = true
  · rw [if_pos h1] at h; simp [Go.ok] at h
  rw [if_neg h1] at h
  simp only at h
  split at h
  · split at h
    · rename_i r hr
      obtain ⟨g, _, hfg⟩ := forRange_some hr
      subst h
      split at hfg
      · simp at hfg; exact hfg.symm ▸ rfl
      · split at hfg <;> simp [Go.ok] at hfg
    · simp at h; exact h.symm
  · simp at h; exact h.symm

theorem native_err {now : Int} {o : UriOracle} {c : OPClient} {uri e : String}
    (h : validateAuthReqRedirectURINative now o c uri = .error e) : e = "ErrInvalidRequestRedirectURI" := by
  unfold validateAuthReqRedirectURINative at h
  generalize HTTPLoopbackOrLocalhost now o uri = r at h
  obtain ⟨parsedURL, isLoopback⟩ := r
  simp only at h
  repeat' split at h
  all_goals first
    | (simp [Go.ok] at h; done)
    | (simp at h; exact h.symm)
    | (rename_i r hr
       obtain ⟨reg, _, hbody⟩ := forRange_some hr
       subst h
       generalize HTTPLoopbackOrLocalhost now o reg = rr at hbody
       obtain ⟨x, ok⟩ := rr
       simp only at hbody
       split at hbody <;> simp [Go.ok] at hbody)

theorem validateRedirectURI_err {now : Int} {o : UriOracle} {c : OPClient} {uri rt e : String}
    (h : ValidateAuthReqRedirectURI now o c uri rt = .error e) : e = "ErrInvalidRequestRedirectURI" := by
  unfold ValidateAuthReqRedirectURI at h
  by_cases he : (uri == "") = true
  · rw [if_pos he] at h; simp at h; exact h.symm
  rw [if_neg he] at h
  by_cases hn : (c.ApplicationType == Const.ApplicationTypeNative) = true
  · rw [if_pos hn] at h; exact native_err h
  rw [if_neg hn] at h
  by_cases h1 : Go.hasPrefix uri "https://" = true
  · rw [if_pos h1] at h; exact checkURI_err h
  rw [if_neg h1] at h
  cases hchk : checkURIAgainstRedirects now o c uri with
  | error e' => rw [hchk] at h; simp at h; subst h; exact checkURI_err hchk
  | ok u =>
    rw [hchk] at h
    simp only at h
    repeat' split at h
    all_goals first
      | (simp [Go.ok] at h; done)
      | (simp at h; exact h.symm)

/-- `ValidateAuthRequestClient` succeeds only for a registered redirect URI … -/
theorem validateClient_ok {now : Int} {o : UriOracle} {d : AuthDeps} {a : AuthRequestData} {c : OPClient} {sub : String}
    (h : ValidateAuthRequestClient now o d a c () = .ok sub) : Registered false o c a.RedirectURI a.ResponseType = true := by
  unfold ValidateAuthRequestClient at h
  cases hv : ValidateAuthReqRedirectURI now o c a.RedirectURI a.ResponseType with
  | error e => rw [hv] at h; simp at h
  | ok u => cases u; exact validateRedirectURI_ok hv

/-- … and whenever it fails, either the URI was already validated, or the error is redirect-disabled:
    nothing that can be redirected is raised before the redirect URI has been checked -/
theorem validateClient_err {now : Int} {o : UriOracle} {d : AuthDeps} {a : AuthRequestData} {c : OPClient} {e : String}
    (h : ValidateAuthRequestClient now o d a c () = .error e) :
    Registered false o c a.RedirectURI a.ResponseType = true ∨ (DefaultToServerError now e e).redirectDisabled = true := by
  unfold ValidateAuthRequestClient at h
  cases hv : ValidateAuthReqRedirectURI now o c a.RedirectURI a.ResponseType with
  | error e' =>
    rw [hv] at h
    simp at h; subst h
    right
    rw [validateRedirectURI_err hv]
    exact redirectURI_error_disabled now _
  | ok u => cases u; left; exact validateRedirectURI_ok hv

/-! ### the callback path: everything goes to the stored request's redirect URI -/

/-- what the callback may write for a stored request with redirect URI `uri` -/
def RespWriteOK (uri : String) (w : Write) : Prop :=
  (∃ s, w = .page s) ∨ (∃ f q, w = .redirect (.response uri f q)) ∨ w = .formPost uri

theorem errWrite_stored {a : AzStored} {w : Write} (h : ErrWriteOK (↑a : ErrReq) w) : RespWriteOK a.redirectURI w := by
  rcases h with h | ⟨_, f, q, h⟩
  · exact Or.inl h
  · exact Or.inr (Or.inl ⟨f, q, h⟩)

theorem formPost_writes {now : Int} {uri : String} {p : RespParams} {enc : Encoder} {ws : List Write} {w : Write}
    (h : Hand.AuthResponseFormPost now uri p enc = .ok ws) (hw : w ∈ ws) : w = .formPost uri := by
  unfold Hand.AuthResponseFormPost at h
  split at h
  · simp at h
  · simp at h; subst h; simpa using hw

theorem authResponseCode_writes {now : Int} {o : UriOracle} {d : AuthDeps} {a : AzStored} {p : AzProvider} {w : Write}
    (hw : w ∈ AuthResponseCode now o d a p) : RespWriteOK a.redirectURI w := by
  unfold AuthResponseCode at hw
  simp only [List.append_nil, Hand.httpRedirect, AzStored.GetRedirectURI] at hw
  repeat' split at hw
  all_goals first
    | exact errWrite_stored (authRequestError_writes hw)
    | (rename_i ws hws
       exact Or.inr (Or.inr (formPost_writes hws hw)))
    | (rename_i u hu
       obtain ⟨f, q, rfl⟩ := authResponseURL_base hu
       simp at hw
       exact Or.inr (Or.inl ⟨f, q, hw⟩))

theorem authResponseToken_writes {now : Int} {o : UriOracle} {d : AuthDeps} {a : AzStored} {p : AzProvider} {c : OPClient} {w : Write}
    (hw : w ∈ AuthResponseToken now o d a p c) : RespWriteOK a.redirectURI w := by
  unfold AuthResponseToken at hw
  simp only [List.append_nil, Hand.httpRedirect, AzStored.GetRedirectURI] at hw
  repeat' split at hw
  all_goals first
    | exact errWrite_stored (authRequestError_writes hw)
    | (rename_i ws hws
       exact Or.inr (Or.inr (formPost_writes hws hw)))
    | (rename_i u hu
       obtain ⟨f, q, rfl⟩ := authResponseURL_base hu
       simp at hw
       exact Or.inr (Or.inl ⟨f, q, hw⟩))

theorem authResponse_writes {now : Int} {o : UriOracle} {d : AuthDeps} {a : AzStored} {p : AzProvider} {w : Write}
    (hw : w ∈ AuthResponse now o d a p) : RespWriteOK a.redirectURI w := by
  unfold AuthResponse at hw
  simp only [List.append_nil] at hw
  repeat' split at hw
  · exact errWrite_stored (authRequestError_writes hw)
  · exact authResponseCode_writes hw
  · exact authResponseToken_writes hw

/-- the callback answers with a direct page, or acts on the request stored under the given id -/
theorem authorizeCallback_writes {now : Int} {o : UriOracle} {d : AuthDeps} {r : AzHttpReq} {p : AzProvider} {w : Write}
    (hw : w ∈ AuthorizeCallback now o d r p) :
    (∃ s, w = .page s) ∨ ∃ a, p.Storage.AuthRequestByID (r.Form.Get "id") = .ok a ∧ RespWriteOK a.redirectURI w := by
  unfold AuthorizeCallback at hw
  simp only [List.append_nil] at hw
  cases hid : ParseAuthorizeCallbackRequest now r with
  | error e => rw [hid] at hw; exact Or.inl (authRequestError_nil hw)
  | ok id =>
    have hidv : id = r.Form.Get "id" := by
      unfold ParseAuthorizeCallbackRequest at hid
      split at hid
      · simp at hid
      · simp only at hid
        split at hid
        · simp at hid
        · simp at hid; exact hid.symm
    rw [hid] at hw
    simp only at hw
    cases ha : p.Storage.AuthRequestByID id with
    | error e => rw [ha] at hw; exact Or.inl (authRequestError_nil hw)
    | ok a =>
      rw [ha] at hw
      simp only at hw
      right
      refine ⟨a, hidv ▸ ha, ?_⟩
      split at hw
      · exact errWrite_stored (authRequestError_writes hw)
      · exact authResponse_writes hw

/-! ### the authorization endpoint on both routers -/

/-- the request after request-object processing (same condition on both routers) -/
def effective (requestObjects : Bool) (d : AuthDeps) (stg : AzStorage) (a : AuthRequestData) : AuthRequestData :=
  if a.RequestParam != "" && requestObjects then
    match d.ParseRequestObject a stg "" with
    | .ok a' => a'
    | .error _ => a
  else a

/-- what `/authorize` may write for the (effective) request `e` -/
def AuthorizeWriteOK (o : UriOracle) (clients : List OPClient) (e : AuthRequestData) (w : Write) : Prop :=
  (∃ s, w = .page s) ∨
  ∃ c, clients.find? (·.id == e.ClientID) = some c ∧ Registered false o c e.RedirectURI e.ResponseType = true ∧
    ((∃ req, w = .redirect (.login c.id req) ∧ req.clientID = e.ClientID ∧ req.redirectURI = e.RedirectURI ∧
        req.responseType = e.ResponseType) ∨
     ∃ f q, w = .redirect (.response e.RedirectURI f q))

theorem mkStorage_client {cfg : Cfg} {st : St} {fx : Faults} {nid id : String} {c : OPClient}
    (h : (mkStorage cfg st fx nid).GetClientByClientID id = .ok c) : cfg.clients.find? (·.id == id) = some c := by
  unfold mkStorage at h
  simp only at h
  split at h
  · simp at h
  · split at h
    · simp at h; subst h; assumption
    · simp at h

theorem mkStorage_create {cfg : Cfg} {st : St} {fx : Faults} {nid u : String} {data : AuthRequestData} {req : AzStored}
    (h : (mkStorage cfg st fx nid).CreateAuthRequest data u = .ok req) :
    req.clientID = data.ClientID ∧ req.redirectURI = data.RedirectURI ∧ req.responseType = data.ResponseType := by
  unfold mkStorage at h
  simp only at h
  split at h
  · simp at h
  · simp at h; subst h; exact ⟨rfl, rfl, rfl⟩

theorem errWrite_request {o : UriOracle} {clients : List OPClient} {e : AuthRequestData} {c : OPClient} {w : Write}
    (hc : clients.find? (·.id == e.ClientID) = some c) (hr : Registered false o c e.RedirectURI e.ResponseType = true)
    (h : ErrWriteOK (↑e : ErrReq) w) : AuthorizeWriteOK o clients e w := by
  rcases h with h | ⟨_, f, q, h⟩
  · exact Or.inl h
  · exact Or.inr ⟨c, hc, hr, Or.inr ⟨f, q, h⟩⟩

theorem find_id {clients : List OPClient} {id : String} {c : OPClient}
    (h : clients.find? (·.id == id) = some c) : c.id = id := by
  have := List.find?_some h
  simpa using this

theorem providerCore_writes {now : Int} {o : UriOracle} {d : AuthDeps} {cfg : Cfg} {st : St} {fx : Faults} {nid : String}
    {e : AuthRequestData} {w : Write}
    (hw : w ∈ providerAuthorizeCore now o d (mkProvider cfg st fx nid) e) : AuthorizeWriteOK o cfg.clients e w := by
  unfold providerAuthorizeCore at hw
  simp only [mkProvider] at hw
  split at hw
  · exact Or.inl (authRequestError_nil hw)
  split at hw
  · exact Or.inl (authRequestError_nil hw)
  cases hcl : (mkStorage cfg st fx nid).GetClientByClientID e.ClientID with
  | error x =>
    rw [hcl] at hw
    exact Or.inl (authRequestError_disabled (redirectURI_error_disabled now _) hw)
  | ok c =>
    rw [hcl] at hw
    simp only at hw
    have hc := mkStorage_client hcl
    cases hv : ValidateAuthRequestClient now o d e c () with
    | error x =>
      rw [hv] at hw
      simp only at hw
      rcases validateClient_err hv with hr | hd
      · exact errWrite_request hc hr (authRequestError_writes hw)
      · exact Or.inl (authRequestError_disabled hd hw)
    | ok sub =>
      rw [hv] at hw
      simp only at hw
      have hr := validateClient_ok hv
      split at hw
      · exact errWrite_request hc hr (authRequestError_writes hw)
      · cases hcr : (mkStorage cfg st fx nid).CreateAuthRequest e sub with
        | error x =>
          rw [hcr] at hw
          exact errWrite_request hc hr (authRequestError_writes hw)
        | ok req =>
          rw [hcr] at hw
          simp only [RedirectToLogin, Hand.httpRedirect, List.append_nil, OPClient.LoginURL, AzStored.GetID, List.mem_singleton] at hw
          obtain ⟨h1, h2, h3⟩ := mkStorage_create hcr
          exact Or.inr ⟨c, hc, hr, Or.inl ⟨req, hw, h1, h2, h3⟩⟩

/-- Provider router (`op.Authorize`) -/
theorem providerAuthorize_writes {now : Int} {o : UriOracle} {d : AuthDeps} {cfg : Cfg} {st : St} {fx : Faults} {nid : String}
    {parsed : Go.R AuthRequestData} {w : Write}
    (hw : w ∈ providerAuthorize now o d (mkProvider cfg st fx nid) parsed) :
    match parsed with
    | .error _ => ∃ s, w = .page s
    | .ok a => AuthorizeWriteOK o cfg.clients (effective cfg.requestObjects d (mkStorage cfg st fx nid) a) w := by
  unfold providerAuthorize at hw
  cases parsed with
  | error e => exact authRequestError_nil hw
  | ok a =>
    simp only at hw ⊢
    unfold effective
    have hp : (mkProvider cfg st fx nid).RequestObjectSupported = cfg.requestObjects := rfl
    have hs : (mkProvider cfg st fx nid).Storage = mkStorage cfg st fx nid := rfl
    rw [hp, hs] at hw
    by_cases hcond : (a.RequestParam != "" && cfg.requestObjects) = true
    · rw [if_pos hcond] at hw ⊢
      cases hro : d.ParseRequestObject a (mkStorage cfg st fx nid) "" with
      | error x => rw [hro] at hw; exact Or.inl (authRequestError_nil hw)
      | ok e => rw [hro] at hw; exact providerCore_writes hw
    · rw [if_neg hcond] at hw ⊢
      exact providerCore_writes hw

theorem tryErrorRedirect_ok {now : Int} {o : UriOracle} {a : ErrReq} {parent : String} {enc : Encoder} {lg : Unit} {red : Redirect}
    (h : TryErrorRedirect now o a parent enc lg = .ok red) : ∃ f q, red.URL = .response a.redirectURI f q := by
  unfold TryErrorRedirect at h
  simp only [NewRedirect] at h
  by_cases hnil : Go.isNil a = true
  · rw [if_pos hnil] at h; simp at h
  rw [if_neg hnil] at h
  by_cases hdis : (a.GetRedirectURI == "" || (DefaultToServerError now parent parent).IsRedirectDisabled) = true
  · rw [if_pos hdis] at h; simp at h
  rw [if_neg hdis] at h
  repeat' split at h
  all_goals first
    | (simp at h; done)
    | (rename_i u hu
       obtain ⟨f, q, rfl⟩ := authResponseURL_base hu
       simp at h; subst h
       exact ⟨f, q, rfl⟩)

theorem legacyVerify_ok {now : Int} {d : AuthDeps} {s : AzLegacyServer} {form : FormVals} {a : AuthRequestData}
    {cr : ClientRequest AuthRequestData}
    (h : LegacyVerifyAuthRequest now d s { Form := form, Data := a } = .ok cr) :
    cr.Data = effective s.provider.RequestObjectSupported d s.provider.Storage a ∧
    s.provider.Storage.GetClientByClientID cr.Data.ClientID = .ok cr.Client := by
  unfold LegacyVerifyAuthRequest at h
  unfold effective
  simp only [mkClientRequest] at h
  by_cases hrp : (a.RequestParam != "") = true
  · rw [if_pos hrp] at h
    by_cases hsup : s.provider.RequestObjectSupported = true
    · simp only [hsup, Bool.not_true, Bool.false_eq_true, if_false] at h
      simp only [hrp, hsup, Bool.and_self, if_true]
      cases hro : d.ParseRequestObject a s.provider.Storage "" with
      | error x => rw [hro] at h; simp at h
      | ok e =>
        rw [hro] at h
        simp only at h
        split at h
        · simp at h
        · split at h
          · simp at h
          · rename_i c hc
            simp at h; subst h
            exact ⟨rfl, hc⟩
    · simp [hsup] at h
  · rw [if_neg hrp] at h
    have : (a.RequestParam != "" && s.provider.RequestObjectSupported) = false := by
      simp at hrp; simp [hrp]
    simp only [this, Bool.false_eq_true, if_false]
    split at h
    · simp at h
    · split at h
      · simp at h
      · rename_i c hc
        simp at h; subst h
        exact ⟨rfl, hc⟩

theorem legacyAuthorize_ok {now : Int} {o : UriOracle} {d : AuthDeps} {s : AzLegacyServer} {cr : ClientRequest AuthRequestData} {red : Redirect}
    (h : LegacyAuthorize now o d s cr = .ok red) :
    (∃ u req, s.provider.Storage.CreateAuthRequest cr.Data u = .ok req ∧ red.URL = .login cr.Client.id req) ∨
    ∃ f q, red.URL = .response cr.Data.RedirectURI f q := by
  unfold LegacyAuthorize at h
  split at h
  · simp at h
  · rename_i u _
    split at h
    · right; exact tryErrorRedirect_ok h
    · rename_i req hreq
      left
      simp [NewRedirect, OPClient.LoginURL, AzStored.GetID] at h
      subst h
      exact ⟨u, req, hreq, rfl⟩

theorem webAuthorize_ok {now : Int} {o : UriOracle} {d : AuthDeps} {s : AzWebServer} {form : FormVals} {a : AuthRequestData} {red : Redirect}
    (h : WebAuthorize now o d s { Form := form, Data := a } = .ok red) :
    ∃ c, s.server.provider.Storage.GetClientByClientID
          (effective s.server.provider.RequestObjectSupported d s.server.provider.Storage a).ClientID = .ok c ∧
      Registered false o c (effective s.server.provider.RequestObjectSupported d s.server.provider.Storage a).RedirectURI
        (effective s.server.provider.RequestObjectSupported d s.server.provider.Storage a).ResponseType = true ∧
      ((∃ u req, s.server.provider.Storage.CreateAuthRequest
            (effective s.server.provider.RequestObjectSupported d s.server.provider.Storage a) u = .ok req ∧
            red.URL = .login c.id req) ∨
       ∃ f q, red.URL = .response (effective s.server.provider.RequestObjectSupported d s.server.provider.Storage a).RedirectURI f q) := by
  unfold WebAuthorize at h
  cases hv : LegacyVerifyAuthRequest now d s.server { Form := form, Data := a } with
  | error x => rw [hv] at h; simp at h
  | ok cr =>
    rw [hv] at h
    simp only at h
    obtain ⟨hdata, hclient⟩ := legacyVerify_ok hv
    rw [← hdata]
    refine ⟨cr.Client, hclient, ?_⟩
    split at h
    · simp at h
    split at h
    · simp at h
    split at h
    · simp at h
    cases hr : ValidateAuthReqRedirectURI now o cr.Client cr.Data.RedirectURI cr.Data.ResponseType with
    | error x => simp [hr] at h
    | ok u =>
      cases u
      simp only [hr] at h
      refine ⟨validateRedirectURI_ok hr, ?_⟩
      split at h
      · simp at h
      · exact legacyAuthorize_ok h

/-- LegacyServer router (`webServer.authorizeHandler`) -/
theorem legacyAuthorize_writes {now : Int} {o : UriOracle} {d : AuthDeps} {cfg : Cfg} {st : St} {fx : Faults} {nid : String}
    {decoded : Go.R AuthRequestData} {w : Write}
    (hw : w ∈ legacyAuthorize now o d ⟨⟨mkProvider cfg st fx nid⟩⟩ decoded) :
    match decoded with
    | .error _ => ∃ s, w = .page s
    | .ok a => AuthorizeWriteOK o cfg.clients (effective cfg.requestObjects d (mkStorage cfg st fx nid) a) w := by
  unfold legacyAuthorize at hw
  cases decoded with
  | error e => simp at hw; exact ⟨_, hw⟩
  | ok a =>
    simp only at hw ⊢
    cases hwa : WebAuthorize now o d ⟨⟨mkProvider cfg st fx nid⟩⟩ { Data := a } with
    | error x => rw [hwa] at hw; simp at hw; exact Or.inl ⟨_, hw⟩
    | ok red =>
      rw [hwa] at hw
      simp only [List.mem_singleton] at hw
      obtain ⟨c, hc, hr, hurl⟩ := webAuthorize_ok hwa
      have hc' := mkStorage_client hc
      refine Or.inr ⟨c, hc', hr, ?_⟩
      rcases hurl with ⟨u, req, hreq, hu⟩ | ⟨f, q, hu⟩
      · obtain ⟨h1, h2, h3⟩ := mkStorage_create hreq
        exact Or.inl ⟨req, by rw [hw, hu], h1, h2, h3⟩
      · exact Or.inr ⟨f, q, by rw [hw, hu]; rfl⟩

/-! ### histories: the model never violates the monitor -/

/-- what a write of the model does with the user agent (the observer's view of it) -/
def sentOf (o : UriOracle) : Write → Sent
  | .page _ => .nowhere
  | .redirect (.login _ a) => .login a.id
  | .redirect (.response base _ _) => .to (destOf o base)
  | .formPost action => .to (destOf o action)

def toAccepted (a : AzStored) : Accepted := ⟨a.id, a.clientID, a.redirectURI, a.responseType⟩

/-- the observer state that belongs to a model state -/
def observer (cfg : Cfg) (st : St) : MonState := { clients := cfg.clients, accepted := st.stored.map toAccepted }

/-- verdicts of the MONITOR (weak reading) on the model's own response to one operation -/
def verdicts (now : Int) (o : UriOracle) (cfg : Cfg) (st : St) (op : Op) : List (Option String) :=
  match op with
  | .authorize rt (.ok a) d fx nid =>
    let e := effective cfg.requestObjects d (mkStorage cfg st fx nid) a
    (step now o cfg st (.authorize rt (.ok a) d fx nid)).2.map fun w =>
      monitorAuthorize false (observer cfg st) o e.ClientID e.RedirectURI e.ResponseType (sentOf o w)
  | .authorize rt (.error x) d fx nid =>
    (step now o cfg st (.authorize rt (.error x) d fx nid)).2.map fun w =>
      if sentOf o w = .nowhere then none else some "redirect-without-a-request"
  | .login _ => []
  | .callback r d fx =>
    (step now o cfg st (.callback r d fx)).2.map fun w =>
      monitorCallback false (observer cfg st) o (r.Form.Get "id") (sentOf o w)

def run (now : Int) (o : UriOracle) (cfg : Cfg) : St → List Op → St
  | st, [] => st
  | st, op :: ops => run now o cfg (step now o cfg st op).1 ops

/-- invariant: every stored authorization request carries a redirect URI registered for its client -/
def Inv (o : UriOracle) (cfg : Cfg) (st : St) : Prop :=
  ∀ a ∈ st.stored, registeredFor false (observer cfg st) o a.clientID a.redirectURI a.responseType = true

theorem registeredFor_clients {m m' : MonState} (h : m.clients = m'.clients) (o : UriOracle) (c u r : String) :
    registeredFor false m o c u r = registeredFor false m' o c u r := by
  unfold registeredFor; rw [h]

theorem authorize_writes {now : Int} {o : UriOracle} {cfg : Cfg} {st : St} {rt : Router} {a : AuthRequestData} {d : AuthDeps}
    {fx : Faults} {nid : String} {w : Write}
    (hw : w ∈ (step now o cfg st (.authorize rt (.ok a) d fx nid)).2) :
    AuthorizeWriteOK o cfg.clients (effective cfg.requestObjects d (mkStorage cfg st fx nid) a) w := by
  simp only [step] at hw
  cases rt with
  | provider => exact providerAuthorize_writes (parsed := .ok a) hw
  | legacy => exact legacyAuthorize_writes (decoded := .ok a) hw

theorem authorizeOK_registered {o : UriOracle} {cfg : Cfg} {st : St} {e : AuthRequestData} {w : Write}
    (h : AuthorizeWriteOK o cfg.clients e w) :
    (∃ s, w = .page s) ∨ registeredFor false (observer cfg st) o e.ClientID e.RedirectURI e.ResponseType = true := by
  rcases h with h | ⟨c, hc, hr, _⟩
  · exact Or.inl h
  · right; unfold registeredFor observer; simp only; rw [hc]; exact hr

theorem step_inv {now : Int} {o : UriOracle} {cfg : Cfg} {st : St} (op : Op) (hi : Inv o cfg st) :
    Inv o cfg (step now o cfg st op).1 := by
  cases op with
  | login id =>
    intro a ha
    simp only [step, List.mem_map] at ha
    obtain ⟨b, hb, hab⟩ := ha
    have := hi b hb
    rw [registeredFor_clients (m := observer cfg (step now o cfg st (.login id)).1) (m' := observer cfg st) rfl]
    split at hab <;> (subst hab; exact this)
  | callback r d fx => exact hi
  | authorize rt parsed d fx nid =>
    intro a ha
    rw [registeredFor_clients (m := observer cfg (step now o cfg st (.authorize rt parsed d fx nid)).1) (m' := observer cfg st) rfl]
    simp only [step, List.mem_append] at ha
    rcases ha with ha | ha
    · exact hi a ha
    · unfold storedBy at ha
      simp only [List.mem_filterMap] at ha
      obtain ⟨w, hw, hwa⟩ := ha
      cases parsed with
      | error x =>
        have : ∃ s, w = .page s := by
          cases rt with
          | provider => exact providerAuthorize_writes (parsed := .error x) hw
          | legacy => exact legacyAuthorize_writes (decoded := .error x) hw
        obtain ⟨s, rfl⟩ := this
        simp at hwa
      | ok q =>
        have hok := authorize_writes (rt := rt) (a := q) (d := d) (fx := fx) (nid := nid) (now := now) (o := o) (cfg := cfg) (st := st)
          (w := w) (by simp only [step]; exact hw)
        rcases hok with ⟨s, rfl⟩ | ⟨c, hc, hr, hl | ⟨f, qq, rfl⟩⟩
        · simp at hwa
        · obtain ⟨req, rfl, h1, h2, h3⟩ := hl
          simp at hwa; subst hwa
          unfold registeredFor observer; simp only
          rw [h1, h2, h3, hc]; exact hr
        · simp at hwa

theorem step_verdicts {now : Int} {o : UriOracle} {cfg : Cfg} {st : St} (op : Op) (hi : Inv o cfg st) :
    ∀ v ∈ verdicts now o cfg st op, v = none := by
  intro v hv
  cases op with
  | login id => simp [verdicts] at hv
  | authorize rt parsed d fx nid =>
    cases parsed with
    | error x =>
      simp only [verdicts, List.mem_map] at hv
      obtain ⟨w, hw, rfl⟩ := hv
      have : ∃ s, w = .page s := by
        simp only [step] at hw
        cases rt with
        | provider => exact providerAuthorize_writes (parsed := .error x) hw
        | legacy => exact legacyAuthorize_writes (decoded := .error x) hw
      obtain ⟨s, rfl⟩ := this
      simp [sentOf]
    | ok a =>
      simp only [verdicts, List.mem_map] at hv
      obtain ⟨w, hw, rfl⟩ := hv
      have hok := authorize_writes hw
      unfold monitorAuthorize
      generalize effective cfg.requestObjects d (mkStorage cfg st fx nid) a = e at hok ⊢
      rcases hok with ⟨s, rfl⟩ | ⟨c, hc, hr, hl | ⟨f, q, rfl⟩⟩
      · simp [sentOf, judge]
      · obtain ⟨req, rfl, _, _, _⟩ := hl
        have hreg : registeredFor false (observer cfg st) o e.ClientID e.RedirectURI e.ResponseType = true := by
          unfold registeredFor observer; simp only; rw [hc]; exact hr
        simp [sentOf, judge, hreg]
      · have hreg : registeredFor false (observer cfg st) o e.ClientID e.RedirectURI e.ResponseType = true := by
          unfold registeredFor observer; simp only; rw [hc]; exact hr
        simp [sentOf, judge, hreg]
  | callback r d fx =>
    simp only [verdicts, List.mem_map] at hv
    obtain ⟨w, hw, rfl⟩ := hv
    simp only [step] at hw
    unfold monitorCallback
    rcases authorizeCallback_writes hw with ⟨s, rfl⟩ | ⟨a, ha, hwa⟩
    · simp only [sentOf]; split <;> simp [judge]
    · -- the stored request found by the storage is the one the observer recorded under this id
      have hfind : st.stored.find? (·.id == r.Form.Get "id") = some a := by
        simp only [mkProvider, mkStorage] at ha
        split at ha
        · simp at ha
        · split at ha
          · simp at ha; subst ha; assumption
          · simp at ha
      have hacc : (observer cfg st).accepted.find? (·.id == r.Form.Get "id") = some (toAccepted a) := by
        unfold observer; simp only
        rw [List.find?_map]
        have : ((fun x : Accepted => x.id == r.Form.Get "id") ∘ toAccepted) = (fun x : AzStored => x.id == r.Form.Get "id") := by
          funext x; rfl
        rw [this, hfind]; rfl
      rw [hacc]
      have hreg := hi a (List.mem_of_find?_eq_some hfind)
      simp only [toAccepted]
      rcases hwa with ⟨s, rfl⟩ | ⟨f, q, rfl⟩ | rfl
      · simp [sentOf, judge]
      · simp [sentOf, judge, hreg]
      · simp [sentOf, judge, hreg]

theorem run_inv {now : Int} {o : UriOracle} {cfg : Cfg} (ops : List Op) : ∀ st, Inv o cfg st → Inv o cfg (run now o cfg st ops) := by
  induction ops with
  | nil => intro st h; exact h
  | cons op ops ih => intro st h; exact ih _ (step_inv op h)

/-- **C03 (weak reading), all histories.**  For every set of client registrations, every behaviour of net/url,
    net.ParseIP and doublestar, every sequence of authorize / login / callback operations on either router with
    arbitrary request contents, arbitrary storage failures, arbitrary outcomes of the prompt / scope / id_token_hint /
    request-object / token-creation steps and arbitrary encoder failures: the monitor finds nothing to object to in
    any response of the model. -/
theorem c03_no_unregistered_redirect (now : Int) (o : UriOracle) (cfg : Cfg) (ops : List Op) (op : Op) :
    ∀ v ∈ verdicts now o cfg (run now o cfg {} ops) op, v = none :=
  step_verdicts op (run_inv ops {} (by intro a ha; simp at ha))

/-! ### the hand-modelled handler shells are pinned to the source they were written for -/

/-- `op.Authorize` (pkg/op/auth_request.go) still has the statement sequence `providerAuthorize` models -/
theorem authorize_skeleton_pinned : Gen.Authorize_skeleton = [
  "authReq, err := ParseAuthorizeRequest(r, authorizer.Decoder())",
  "if err != nil {",
  "AuthRequestError(w, r, nil, err, authorizer)",
  "return",
  "}",
  "if authReq.RequestParam != \"\" && authorizer.RequestObjectSupported() {",
  "err = ParseRequestObject(ctx, authReq, authorizer.Storage(), IssuerFromContext(ctx))",
  "if err != nil {",
  "AuthRequestError(w, r, nil, err, authorizer)",
  "return",
  "}",
  "}",
  "if authReq.ClientID == \"\" {",
  "AuthRequestError(w, r, nil, fmt.Errorf(\"auth request is missing client_id\"), authorizer)",
  "return",
  "}",
  "if authReq.RedirectURI == \"\" {",
  "AuthRequestError(w, r, nil, fmt.Errorf(\"auth request is missing redirect_uri\"), authorizer)",
  "return",
  "}",
  "var client Client",
  "validation := func(ctx context.Context, authReq *oidc.AuthRequest, storage Storage, verifier *IDTokenHintVerifier) (sub string, err error) { client, err = authorizer.Storage().GetClientByClientID(ctx, authReq.ClientID) if err != nil { return \"\", oidc.ErrInvalidRequestRedirectURI().WithDescription(\"unable to retrieve client by id\").WithParent(err) } return ValidateAuthRequestClient(ctx, authReq, client, verifier) }",
  "if validator, ok := authorizer.(AuthorizeValidator); ok {",
  "validation = validator.ValidateAuthRequest",
  "}",
  "userID, err := validation(ctx, authReq, authorizer.Storage(), authorizer.IDTokenHintVerifier(ctx))",
  "if err != nil {",
  "AuthRequestError(w, r, authReq, err, authorizer)",
  "return",
  "}",
  "if authReq.RequestParam != \"\" {",
  "AuthRequestError(w, r, authReq, oidc.ErrRequestNotSupported(), authorizer)",
  "return",
  "}",
  -- `client` is still nil only behind a custom `AuthorizeValidator`; the default validation closure above (the one
  -- `providerAuthorizeCore` inlines) assigns it whenever it returns without an error, so for the Provider this branch
  -- is not taken.  Its error is the redirect-DISABLED `ErrInvalidRequestRedirectURI`, as in the closure.
  "if client == nil {",
  "client, err = authorizer.Storage().GetClientByClientID(ctx, authReq.ClientID)",
  "if err != nil {",
  "AuthRequestError(w, r, authReq, oidc.ErrInvalidRequestRedirectURI().WithDescription(\"unable to retrieve client by id\").WithParent(err), authorizer)",
  "return",
  "}",
  "}",
  "req, err := authorizer.Storage().CreateAuthRequest(ctx, authReq, userID)",
  "if err != nil {",
  "AuthRequestError(w, r, authReq, oidc.DefaultToServerError(err, \"unable to save auth request\"), authorizer)",
  "return",
  "}",
  "RedirectToLogin(req.GetID(), client, w, r)"
] := rfl

/-- `webServer.authorizeHandler`, `Redirect.writeOut`, `WriteError`, `writeError`: decode, `authorize`, then either a
    JSON error document or a 302 to exactly the URL `authorize` returned -/
theorem authorizeHandler_skeleton_pinned :
    Gen.authorizeHandler_skeleton = [
      "request, err := decodeRequest[oidc.AuthRequest](s.decoder, r, false)",
      "if err != nil {",
      "WriteError(w, r, err, s.getLogger(r.Context()))",
      "return",
      "}",
      "redirect, err := s.authorize(r.Context(), newRequest(r, request))",
      "if err != nil {",
      "WriteError(w, r, err, s.getLogger(r.Context()))",
      "return",
      "}",
      "redirect.writeOut(w, r)"] ∧
    Gen.redirectWriteOut_skeleton = [
      "gu.MapMerge(red.Header, w.Header())",
      "http.Redirect(w, r, red.URL, http.StatusFound)"] ∧
    Gen.WriteError_skeleton = [
      "var statusError StatusError",
      "if errors.As(err, &statusError) {",
      "writeError(w, r, oidc.DefaultToServerError(statusError.parent, statusError.parent.Error()), statusError.statusCode, logger, )",
      "return",
      "}",
      "statusCode := http.StatusBadRequest",
      "e := oidc.DefaultToServerError(err, err.Error())",
      "if e.ErrorType == oidc.ServerError {",
      "statusCode = http.StatusInternalServerError",
      "}",
      "writeError(w, r, e, statusCode, logger)"] ∧
    Gen.writeError_skeleton = ["httphelper.MarshalJSONWithStatus(w, err, statusCode)"] :=
  ⟨rfl, rfl, rfl, rfl⟩

/-- the redirect-disabled constructors are exactly the redirect-URI error -/
theorem redirectDisabled_table : Gen.redirectDisabledErrors = ["ErrInvalidRequestRedirectURI"] := rfl

/-! ### the strict reading: where the code (hence the model) deviates — known findings, with witnesses -/

/-- a concrete URL parser for the witnesses: three strings, everything else unparseable -/
def witnessOracle : UriOracle :=
  { parse := fun s =>
      if s == "http://localhost/cb" then .ok { Scheme := "http", Host := "localhost", Hostname := "localhost", Path := "/cb", EscapedPath := "/cb" }
      else if s == "http://user:pw@127.0.0.1/cb" then
        .ok { Scheme := "http", Host := "127.0.0.1", Hostname := "127.0.0.1", Path := "/cb", EscapedPath := "/cb", User := "user:pw" }
      else if s == "https://[::1]:1/cb#frag" then
        .ok { Scheme := "https", Host := "[::1]:1", Hostname := "::1", Path := "/cb", EscapedPath := "/cb", Fragment := "frag" }
      else if s == "HTTP://rp.example/cb" then
        .ok { Scheme := "http", Host := "rp.example", Hostname := "rp.example", Path := "/cb", EscapedPath := "/cb" }
      else .error "parse",
    parseIP := fun h => ⟨h == "127.0.0.1" || h == "::1"⟩,
    globMatch := fun _ _ => .ok false }

def witnessNative : OPClient := { id := "native", app := Const.ApplicationTypeNative, auth := "none", redirectURIs := ["http://localhost/cb"] }

/-- F-C03b: the native loopback comparison (`equalURI`: decoded path and raw query only) accepts a requested URI that
    differs from the registered loopback URI in its USERINFO; the strict reading of the statement does not -/
theorem loopback_userinfo_witness :
    ValidateAuthReqRedirectURI 0 witnessOracle witnessNative "http://user:pw@127.0.0.1/cb" "code" = .ok () ∧
    Registered true witnessOracle witnessNative "http://user:pw@127.0.0.1/cb" "code" = false ∧
    Registered false witnessOracle witnessNative "http://user:pw@127.0.0.1/cb" "code" = true := by decide

/-- F-C03b: … or in its FRAGMENT -/
theorem loopback_fragment_witness :
    ValidateAuthReqRedirectURI 0 witnessOracle witnessNative "https://[::1]:1/cb#frag" "code" = .ok () ∧
    Registered true witnessOracle witnessNative "https://[::1]:1/cb#frag" "code" = false := by decide

/-- F-C03c: schemes are classified by the literal prefixes `http://` / `https://`; a native, non-dev-mode client that
    registered `HTTP://rp.example/cb` gets its responses sent to a plain-http, non-loopback target -/
theorem scheme_case_witness :
    ValidateAuthReqRedirectURI 0 witnessOracle { witnessNative with redirectURIs := ["HTTP://rp.example/cb"] } "HTTP://rp.example/cb" "code" = .ok () ∧
    Registered true witnessOracle { witnessNative with redirectURIs := ["HTTP://rp.example/cb"] } "HTTP://rp.example/cb" "code" = false := by decide

/-- and the legitimate loopback variants (scheme, host spelling, port) satisfy the strict reading too -/
example : ValidateAuthReqRedirectURI 0 witnessOracle witnessNative "http://localhost/cb" "code" = .ok () ∧
    Registered true witnessOracle witnessNative "http://localhost/cb" "code" = true := by decide

/-! ### the gap between the two readings, exactly -/

/-- the URL parser and the literal prefixes agree about http / https for this URI -/
def SchemeLiteral (o : UriOracle) (uri : String) : Prop :=
  ∀ p, o.urlParse uri = .ok p → (p.Scheme == "https") = (prefixScheme uri == "https") ∧ (p.Scheme == "http") = (prefixScheme uri == "http")

/-- as a loopback URL the string has no userinfo, no fragment and a path without escaped octets -/
def PlainLoopback (o : UriOracle) (u : String) : Prop :=
  ∀ p, loopbackHTTP o u = some p → p.User = "" ∧ p.Fragment = "" ∧ p.EscapedPath = p.Path

/-- For URIs whose scheme is spelled literally and whose loopback forms carry no userinfo / fragment / escaped path, the weak
    reading established by the theorems IS the strict reading of the statement: F-C03b and F-C03c are the whole gap. -/
theorem registered_strict_of_weak {o : UriOracle} {c : OPClient} {uri rt : String}
    (hS : SchemeLiteral o uri) (hU : PlainLoopback o uri) (hR : ∀ reg ∈ c.redirectURIs, PlainLoopback o reg)
    (h : Registered false o c uri rt = true) : Registered true o c uri rt = true := by
  unfold Registered at h ⊢
  simp only [Bool.and_eq_true] at h ⊢
  obtain ⟨⟨hne, hm⟩, hs⟩ := h
  refine ⟨⟨hne, ?_⟩, ?_⟩
  · -- registration match
    unfold matchesRegistration at hm ⊢
    simp only [Bool.or_eq_true] at hm ⊢
    rcases hm with (h1 | h2) | h3
    · exact Or.inl (Or.inl h1)
    · exact Or.inl (Or.inr h2)
    · right
      simp only [Bool.and_eq_true, List.any_eq_true] at h3 ⊢
      obtain ⟨hn, reg, hreg, hv⟩ := h3
      refine ⟨hn, reg, hreg, ?_⟩
      unfold loopbackVariant at hv ⊢
      cases ha : loopbackHTTP o uri with
      | none => simp [ha] at hv
      | some a =>
        cases hb : loopbackHTTP o reg with
        | none => simp [ha, hb] at hv
        | some b =>
          simp only [ha, hb, Bool.not_false, Bool.true_or, Bool.and_true, Bool.and_eq_true, beq_iff_eq] at hv
          obtain ⟨au, af, ap⟩ := hU a ha
          obtain ⟨bu, bf, bp⟩ := hR reg hreg b hb
          simp [au, af, ap, bu, bf, bp, hv.1, hv.2]
  · -- scheme rule
    unfold schemeAllowed schemeOf at hs ⊢
    simp only [Bool.false_eq_true, if_false, if_true] at hs ⊢
    cases hp : o.urlParse uri with
    | error e => simpa [hp] using hs
    | ok p =>
      simp only
      obtain ⟨h1, h2⟩ := hS p hp
      rw [h1, h2]
      exact hs

/-! ### non-vacuity of the history theorem: a concrete flow that reaches every kind of response -/

def demoOracle : UriOracle :=
  { parse := fun s => if s == "https://rp.example/cb" then .ok { Scheme := "https", Host := "rp.example", Hostname := "rp.example", Path := "/cb", EscapedPath := "/cb" } else .error "parse",
    parseIP := fun _ => {}, globMatch := fun _ _ => .ok false }
def demoDeps : AuthDeps :=
  { ValidateAuthReqPrompt := fun _ m => .ok m, ValidateAuthReqScopes := fun _ s => if s.isEmpty then .error "ErrInvalidRequest" else .ok s,
    ValidateAuthReqIDTokenHint := fun _ _ => .ok "", ParseRequestObject := fun a _ _ => .ok a,
    CreateTokenResponse := fun _ _ _ _ _ _ => .ok { kind := "token" }, CreateAuthRequestCode := fun _ _ _ => .ok "code1" }
def demoCfg : Cfg := { clients := [{ id := "web", redirectURIs := ["https://rp.example/cb"], respTypes := ["code"] }] }
def demoReq (uri : String) (scopes : List String) : AuthRequestData :=
  { ClientID := "web", RedirectURI := uri, ResponseType := "code", Scopes := scopes, State := "s" }
def demoStored : AzStored := { id := "ar1", clientID := "web", redirectURI := "https://rp.example/cb", responseType := "code", state := "s" }

/-- registered URI: the request is stored and the user agent goes to the login page -/
example : step 0 demoOracle demoCfg {} (.authorize .provider (.ok (demoReq "https://rp.example/cb" ["openid"])) demoDeps {} "ar1")
    = ({ stored := [demoStored] }, [.redirect (.login "web" demoStored)]) := by decide
/-- unregistered URI (even together with a scope error): a direct page, on both routers -/
example : (step 0 demoOracle demoCfg {} (.authorize .provider (.ok (demoReq "https://evil.example/cb" [])) demoDeps {} "ar1")).2 = [.page 400] := by decide
example : (step 0 demoOracle demoCfg {} (.authorize .legacy (.ok (demoReq "https://evil.example/cb" [])) demoDeps {} "ar1")).2 = [.page 400] := by decide
/-- registered URI with a scope error: the error IS redirected (Provider router) — to the registered URI -/
example : (step 0 demoOracle demoCfg {} (.authorize .provider (.ok (demoReq "https://rp.example/cb" [])) demoDeps {} "ar1")).2
    = [.redirect (.response "https://rp.example/cb" false { kind := "error", err := "ErrInvalidRequest" })] := by decide
/-- callback after login: the code goes to the stored URI; before login: the error goes there -/
example : (step 0 demoOracle demoCfg { stored := [{ demoStored with done := true }] } (.callback { Form := { kv := [("id", "ar1")] } } demoDeps {})).2
    = [.redirect (.response "https://rp.example/cb" false { kind := "code" })] := by decide
example : (step 0 demoOracle demoCfg { stored := [demoStored] } (.callback { Form := { kv := [("id", "ar1")] } } demoDeps {})).2
    = [.redirect (.response "https://rp.example/cb" false { kind := "error", err := "ErrInteractionRequired" })] := by decide

end C03
