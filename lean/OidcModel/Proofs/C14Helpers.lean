/-
  C14 (deep 3), Part 2 — "assertions produced by the library's own client helpers are accepted by the provider" as a theorem
  about helper ∘ verifier.  Top proof module of the property (imports Parts 0/1: Proofs/C14, C14Endpoints, C14Reuse, C14Deep).

  The helpers are regenerated from the Go source (`Generated/AssertionHelpers.lean`, namespace `GenC14`):
  `crypto.BytesToPrivateKey`, `client.NewSignerFromPrivateKeyByte`, `crypto.Sign` / `SignPayload`,
  `client.SignedJWTProfileAssertion`, `oidc.NewJWTProfileAssertion`, `oidc.GenerateJWTProfileToken`,
  `oidc.NewJWTProfileGrantRequest`, `profile.NewJWTProfileTokenSource`, `profile.WithStaticTokenEndpoint`,
  `jwtProfileTokenSource.TokenCtx`, `client.ClientAssertionFormAuthorization`, `client.ClientAssertionCodeOptions`.

  Layer 1 — one characterisation lemma per translated helper, an EQUATION with a hand-readable spec function, proved with the
  shape-independent `go_leaf` (`bytesToPrivateKey_eq`, `newSigner_eq`, `signPayload_eq`, `signedAssertion_eq`,
  `generateToken_eq`, `newAssertion_eq`, `tokenSource_eq`, `tokenCtx_eq`, `formAuthorization_*`, `codeOptions_eq`).
  Layer 2 — everything else uses only those lemmas and the characterisation lemma of the verifier (`verifyJWTAssertion_ok`):

  * `c14_minted_accepted`               — a token signed by key n under key id k for claims c is accepted by EVERY verifier (storage-backed
                                          key set, default subject check) whose storage holds the public half under k for c.iss, whose issuer
                                          is in c.aud, with c inside the verifier's time window and sub = iss;
  * `c14_helper_assertion_accepted_partial` — NewSignerFromPrivateKeyByte ∘ SignedJWTProfileAssertion ∘ VerifyJWTAssertion: accepted with
                                          identity = clientID whenever the key is registered for the client, the audience contains the
                                          verifier's issuer and the presentation instant lies in
                                          [now, now + min(expiration - offset - 1s, maxAge - 0.5s)] - for RSA and EC keys;
  * `c14_helper_eddsa_witness`          — F-C14: for an Ed25519 key the very same composition is REJECTED (witness of why the theorem above is
                                          `_partial`); `c14_helper_eddsa_rejected` - for every Ed25519 key;
  * `c14_helper_p384_no_assertion`      — observation: for an EC key on another curve than P-256 the helper produces NO assertion (ES256 is
                                          chosen for every ECDSA key);
  * `c14_generated_assertion_accepted_partial` — the same for oidc.NewJWTProfileAssertion ∘ GenerateJWTProfileToken (one hour, iss = sub = userID);
  * `c14_helper_accepted_at_endpoint_partial`, `c14_token_source_accepted_partial` — at the provider: the per-request verifier of the issuer
                                          the request is addressed to (1 h / 1 s) accepts what `SignedJWTProfileAssertion(…, [issuer], 1h, …)` and
                                          the jwt-bearer token source (audience = [issuer]) send, for 59 minutes; `ClientJWTAuth` answers clientID;
  * `c14_form_authorization_reaches_provider`, `c14_code_options_reach_provider` — the two form parameters the client helpers set are the ones
                                          the provider's decoders read, with the assertion type the provider's revocation parser asks for.
-/
import OidcModel.Proofs.C14Deep
import OidcModel.Proofs.C14Time
import OidcModel.Proofs.C14TimeEp
import OidcModel.Generated.AssertionHelpers
namespace C14
open Go Gen Hand

/-- nil tests in one normal form, whichever way round the Go text asks (`x == nil` / `x != nil`); never fails -/
macro "go_nil" : tactic =>
  `(tactic| try simp only [Go.isNil, Go.notNil, Go.Nilable.isNil, instNilableHlpSigner, instNilableOptionHlpBlock, Bool.not_eq_true', Option.isNone_iff_eq_none])

/-! ## Layer 1: what each regenerated helper computes -/

/-- which private key and algorithm the helpers take from key bytes (spec): PKCS#1 → RS256; PKCS#8 RSA → RS256,
    Ed25519 → EdDSA, ECDSA (ANY curve) → ES256 -/
def keyAlg (b : HlpKeyBytes) : Go.R (HlpPrivateKey × String) :=
  match b.block with
  | none => .error "ErrPEMDecode"
  | some _ =>
    match b.pkcs1 with
    | .ok k => .ok (k, "RS256")
    | .error _ =>
      match b.pkcs8 with
      | .error _ => .error "ErrUnsupportedFormat"
      | .ok (.rsa k) => .ok (k, "RS256")
      | .ok (.ed25519 k) => .ok (k, "EdDSA")
      | .ok (.ecdsa k) => .ok (k, "ES256")
      | .ok .other => .error "ErrUnsupportedPrivateKey"

theorem bytesToPrivateKey_eq (now : Int) (b : HlpKeyBytes) : GenC14.BytesToPrivateKey now b = keyAlg b := by
  unfold GenC14.BytesToPrivateKey keyAlg Hand.hlpPemDecode Hand.hlpParsePKCS1 Hand.hlpParsePKCS8 Const.RS256 Const.EdDSA Const.ES256
  go_nil
  go_leaf

/-- the signer the helpers build (spec): the key and algorithm of `keyAlg`, the caller's key id, no signer options -/
def signerOf (b : HlpKeyBytes) (kid : String) : Go.R HlpSigner :=
  match keyAlg b with
  | .error e => .error e
  | .ok (k, alg) => if algFits k.kty alg then .ok { key := { Algorithm := alg, Key := { Key := k, KeyID := kid } } } else .error "ErrUnsupportedAlgorithm"

theorem newSigner_eq (now : Int) (b : HlpKeyBytes) (kid : String) : GenC14.NewSignerFromPrivateKeyByte now b kid = signerOf b kid := by
  unfold GenC14.NewSignerFromPrivateKeyByte signerOf Hand.hlpNewSigner
  simp only [bytesToPrivateKey_eq]
  go_leaf

/-- the token a signer makes of claims `c` whose JSON encoding is the byte string `bytes` (spec): three segments, the payload
    in the middle, ONE signature by key `keyNo` over exactly these bytes with protected header {alg, kid} -/
def mintedToken (bytes : Nat) (c : Claims) (alg kid : String) (keyNo : Nat) : Token :=
  let p : Payload := { bytes := bytes, claims := some c }
  let hdr : JHeader := { Algorithm := alg, KeyID := kid }
  { segs := 3, middle := some p,
    jws := some { Signatures := [{ Header := hdr, signer := some keyNo, signedAlg := alg, signedBytes := bytes, signedHdr := hdr }], payload := p } }

/-- signing claims `c` with a signer (spec): needs a signer, and an ES256 signer needs a P-256 key -/
def signClaims (cd : HlpCodec) (c : Claims) (s : HlpSigner) : Go.R Token :=
  if s.isNil then .error "error:missing signer"
  else if s.key.Key.Key.kty == .ec && s.key.Algorithm == "ES256" && s.key.Key.Key.curveBits != 256 then .error "go-jose: expected 256 bit key"
  else .ok (mintedToken (cd.bytesOf c) c s.key.Algorithm s.key.Key.KeyID s.key.Key.Key.keyNo)

theorem signPayload_eq (now : Int) (b : Nat) (c : Claims) (s : HlpSigner) :
    GenC14.SignPayload now { bytes := b, claims := some c } s = (if s.isNil then .error "error:missing signer"
      else if s.key.Key.Key.kty == .ec && s.key.Algorithm == "ES256" && s.key.Key.Key.curveBits != 256 then .error "go-jose: expected 256 bit key"
      else .ok (mintedToken b c s.key.Algorithm s.key.Key.KeyID s.key.Key.Key.keyNo)) := by
  unfold GenC14.SignPayload Hand.hlpSign Hand.hlpCompactSerialize mintedToken
  go_nil
  go_leaf

/-- the claims `client.SignedJWTProfileAssertion` signs: iss = sub = clientID, the caller's audience, iat = now, exp = now + expiration
    (whole seconds) -/
def helperClaims (now : Int) (clientID : String) (audience : List String) (expiration : Int) : Claims :=
  { iss := clientID, sub := clientID, aud := audience, exp := Go.fromTime (now + expiration), iat := Go.fromTime now }

theorem signedAssertion_eq (now : Int) (cd : HlpCodec) (id : String) (aud : List String) (exp : Int) (s : HlpSigner) :
    GenC14.SignedJWTProfileAssertion now cd id aud exp s = signClaims cd (helperClaims now id aud exp) s := by
  unfold GenC14.SignedJWTProfileAssertion GenC14.SignRequest Hand.hlpMarshalRequest signClaims helperClaims
  simp only [signPayload_eq, HlpTokenRequest.toClaims, Go.tAdd]

/-- `oidc.NewJWTProfileAssertion` without options: iss = sub = userID, one hour -/
theorem newAssertion_eq (now : Int) (userID keyID : String) (audience : List String) (key : HlpKeyBytes) :
    (GenC14.NewJWTProfileAssertion now userID keyID audience key []).toClaims = helperClaims now userID audience (3600 * Go.second) ∧
    (GenC14.NewJWTProfileAssertion now userID keyID audience key []).PrivateKey = key ∧
    (GenC14.NewJWTProfileAssertion now userID keyID audience key []).PrivateKeyID = keyID := by
  unfold GenC14.NewJWTProfileAssertion HlpAssertionClaims.toClaims helperClaims GoX.foldList Go.tAdd
  simp [List.foldl]

/-- `oidc.GenerateJWTProfileToken`: the signer of the key bytes and key id INSIDE the claims object signs the object's claims -/
theorem generateToken_eq (now : Int) (cd : HlpCodec) (a : HlpAssertionClaims) :
    GenC14.GenerateJWTProfileToken now cd a =
      (match signerOf a.PrivateKey a.PrivateKeyID with
       | .error e => .error e
       | .ok s => signClaims cd a.toClaims s) := by
  unfold GenC14.GenerateJWTProfileToken signerOf Hand.hlpNewSigner Hand.hlpMarshalAssertion Hand.hlpSign Hand.hlpCompactSerialize signClaims mintedToken
  simp only [bytesToPrivateKey_eq]
  go_leaf

/-- `profile.NewJWTProfileTokenSource` with options that only set the token endpoint: the source signs as `clientID`, for the
    audience [issuer], with the signer of the key bytes -/
theorem tokenSource_eq (now : Int) (disc : Go.R String) (issuer clientID keyID ep : String) (key : HlpKeyBytes) (scopes : List String) :
    GenC14.NewJWTProfileTokenSource now disc issuer clientID keyID key scopes [GenC14.WithStaticTokenEndpoint now issuer ep] =
      (match signerOf key keyID with
       | .error e => .error e
       | .ok s =>
         if ep == "" then
           (match disc with
            | .error e => .error e
            | .ok d => .ok { clientID := clientID, audience := [issuer], signer := s, scopes := scopes, tokenEndpoint := d })
         else .ok { clientID := clientID, audience := [issuer], signer := s, scopes := scopes, tokenEndpoint := ep }) := by
  unfold GenC14.NewJWTProfileTokenSource GenC14.WithStaticTokenEndpoint GoX.foldList Hand.hlpDiscover
  simp only [newSigner_eq, List.foldl]
  go_leaf

/-- `TokenCtx`: a jwt-bearer grant request carrying `SignedJWTProfileAssertion(clientID, audience, 1h, signer)` and the scopes -/
theorem tokenCtx_eq (now : Int) (cd : HlpCodec) (j : HlpTokenSource) :
    GenC14.TokenSourceTokenCtx now cd j =
      (match signClaims cd (helperClaims now j.clientID j.audience (3600 * Go.second)) j.signer with
       | .error e => .error e
       | .ok t => .ok { Assertion := t, Scope := j.scopes, GrantType := Const.GrantTypeBearer }) := by
  unfold GenC14.TokenSourceTokenCtx GenC14.NewJWTProfileGrantRequest Hand.hlpExchange
  simp only [signedAssertion_eq]
  go_leaf

theorem values_get_set_same (vs : HlpValues) (k v : String) : (vs.Set k v).Get k = v := by
  unfold HlpValues.Set HlpValues.Get
  have hnone : List.find? (fun x => x.1 == k) (List.filter (fun x => x.1 != k) vs.kv) = none := by
    rw [List.find?_eq_none]
    intro x hx
    simp only [List.mem_filter] at hx
    simpa using hx.2
  simp [List.find?_append, hnone]

theorem find_filter_other (k k' : String) (h : k ≠ k') (l : List (String × String)) :
    List.find? (fun x => x.1 == k) (List.filter (fun x => x.1 != k') l) = List.find? (fun x => x.1 == k) l := by
  induction l with
  | nil => rfl
  | cons a l ih =>
    by_cases ha : a.1 = k'
    · have hak : (k' == k) = false := by simp; exact fun e => h e.symm
      simp [ha, hak, ih]
    · have hne : (a.1 != k') = true := by simp [ha]
      simp only [List.filter_cons, hne, if_true, List.find?_cons, ih]

theorem values_get_set_other (vs : HlpValues) (k k' v : String) (h : k ≠ k') : (vs.Set k' v).Get k = vs.Get k := by
  unfold HlpValues.Set HlpValues.Get
  have hkk : (k' == k) = false := by simp; exact fun e => h e.symm
  simp only [List.find?_append, find_filter_other k k' h]
  cases List.find? (fun x => x.1 == k) vs.kv with
  | some x => simp
  | none => simp [List.find?, hkk]

theorem formAuthorization_assertion (now : Int) (a : String) (vs : HlpValues) :
    (GenC14.ClientAssertionFormAuthorization now a vs).Get "client_assertion" = a ∧
    (GenC14.ClientAssertionFormAuthorization now a vs).Get "client_assertion_type" = Const.ClientAssertionTypeJWTAssertion := by
  unfold GenC14.ClientAssertionFormAuthorization
  simp only []
  exact ⟨by rw [values_get_set_other _ _ _ _ (by decide), values_get_set_same], values_get_set_same _ _ _⟩

theorem codeOptions_eq (now : Int) (a : String) :
    GenC14.ClientAssertionCodeOptions now a = [("client_assertion", a), ("client_assertion_type", Const.ClientAssertionTypeJWTAssertion)] := by
  unfold GenC14.ClientAssertionCodeOptions Hand.hlpSetAuthURLParam; rfl

/-! ## Layer 2: helper ∘ verifier -/

/-- a token minted by key `keyNo` under key id `kid` for claims `c` is accepted by every verifier (storage-backed key set, default
    subject check) whose storage hands out the public half for `kid` and the client `c` names as issuer, provided the algorithm is
    admitted and fits the key, the verifier's issuer is in the audience, sub = iss and `c` lies in the verifier's time window -/
theorem c14_minted_accepted {now' : Int} {v : JWTProfileVerifier} {bytes : Nat} {c : Claims} {alg kid : String} {keyNo : Nat} {jwk : JWK}
    (hks : v.keySet.kind = .nilSet) (hcs : v.CheckSubject = none)
    (halg : Gen.defaultSigAlgs.contains alg = true)
    (hfind : (clientKeys v.Storage c.iss).keys.find? (fun k => k.KeyID == kid) = some jwk)
    (hno : jwk.keyNo = keyNo) (hfit : algFits jwk.kty alg = true)
    (haud : v.Issuer ∈ c.aud) (hsub : c.iss = c.sub)
    (hexp : now' + v.Offset < Go.asTime c.exp) (hiat0 : Go.asTime c.iat ≠ Go.zeroTime)
    (hiat1 : Go.asTime c.iat ≤ Go.tRound (now' + v.Offset) Go.second)
    (hiat2 : v.MaxAgeIAT = 0 ∨ Go.asTime c.iat ≥ Go.tRound (now' - v.MaxAgeIAT) Go.second) :
    VerifyJWTAssertion now' (mintedToken bytes c alg kid keyNo) v = .ok (c.SetSignatureAlgorithm alg) := by
  have hn : Go.isNil v.keySet = true := by simp [Go.isNil, Nilable.isNil, hks]
  refine verifyJWTAssertion_ok.2 ⟨{ bytes := bytes, claims := some c }, c, ?_, C01.checkAudience_ok.2 haud, C01.checkExpiration_ok.2 hexp,
    C01.checkIssuedAt_ok.2 ⟨hiat0, hiat1, hiat2⟩, ?_, ?_⟩
  · unfold ParseToken mintedToken; simp
  · simp only [hcs, applySubjectCheck]; exact subjectIsIssuer_ok.2 hsub
  · simp only [assertionKeys, hn, if_true, clientKeys_eq]
    have := checkSignature_genuine (now := now') (t := mintedToken bytes c alg kid keyNo) (p := { bytes := bytes, claims := some c })
      (j := { Signatures := [{ Header := { Algorithm := alg, KeyID := kid }, signer := some keyNo, signedAlg := alg, signedBytes := bytes,
                               signedHdr := { Algorithm := alg, KeyID := kid } }], payload := { bytes := bytes, claims := some c } })
      (c0 := c) (reg := v.Storage) (k := jwk) rfl rfl halg rfl hfind (by simp [C02.genuine, hno, hfit])
    simpa using this

/-- TIME WINDOW of a helper-made assertion (iat = ⌊now⌋, exp = ⌊now + expiration⌋ in whole seconds) against a verifier with
    offset `off ≥ 0` and max age `maxAge`, presented at `now' ≥ now`: accepted as long as
    `now' + off + 1s ≤ now + expiration` and (`maxAge = 0` or `now' + 0.5s ≤ now + maxAge`) -/
theorem helper_window {now now' expiration off maxAge : Int}
    (h0 : Go.second ≤ now) (h1 : now ≤ now') (hoff : 0 ≤ off) (hexp : now' + off + Go.second ≤ now + expiration)
    (hage : maxAge = 0 ∨ now' + halfSecond ≤ now + maxAge) :
    now' + off < Go.asTime (Go.fromTime (now + expiration)) ∧ Go.asTime (Go.fromTime now) ≠ Go.zeroTime ∧
    Go.asTime (Go.fromTime now) ≤ Go.tRound (now' + off) Go.second ∧
    (maxAge = 0 ∨ Go.asTime (Go.fromTime now) ≥ Go.tRound (now' - maxAge) Go.second) := by
  have r1 := C01.tRound_second_bounds (now' + off)
  have r2 := C01.tRound_second_bounds (now' - maxAge)
  have z1 : Go.tIsZero now = false := by simp only [Go.tIsZero, Go.zeroTime, Go.second] at *; simp; omega
  have z2 : Go.tIsZero (now + expiration) = false := by simp only [Go.tIsZero, Go.zeroTime, Go.second] at *; simp; omega
  have d1 : (now / Go.second == 0) = false := by simp only [Go.second] at *; simp; omega
  have d2 : ((now + expiration) / Go.second == 0) = false := by simp only [Go.second] at *; simp; omega
  simp only [Go.fromTime, Go.asTime, z1, z2, Go.tToUnix, Go.tUnix, d1, d2, Bool.false_eq_true, if_false]
  simp only [C01.halfSecond, halfSecond, Go.second, Go.zeroTime] at *
  refine ⟨by omega, by omega, by omega, ?_⟩
  rcases hage with h | h
  · left; exact h
  · right; omega

/-- what a successful `NewSignerFromPrivateKeyByte` tells about the signer: its algorithm is one of RS256 / EdDSA / ES256 and fits
    the type of its key, its key id is the caller's, it is not nil -/
theorem signerOf_ok {b : HlpKeyBytes} {kid : String} {s : HlpSigner} (h : signerOf b kid = .ok s) :
    s.isNil = false ∧ s.key.Key.KeyID = kid ∧ algFits s.key.Key.Key.kty s.key.Algorithm = true ∧
    (s.key.Algorithm = "RS256" ∨ s.key.Algorithm = "EdDSA" ∨ s.key.Algorithm = "ES256") := by
  unfold signerOf at h
  cases hk : keyAlg b with
  | error e => simp [hk] at h
  | ok ka =>
    obtain ⟨k, alg⟩ := ka
    simp only [hk] at h
    have halgs : alg = "RS256" ∨ alg = "EdDSA" ∨ alg = "ES256" := by
      unfold keyAlg at hk
      revert hk
      go_leaf
    by_cases hf : algFits k.kty alg = true
    · simp only [hf, if_true] at h
      cases h
      exact ⟨rfl, rfl, hf, halgs⟩
    · simp [hf] at h

/-- an admitted algorithm unless the key is an Ed25519 key -/
theorem alg_admitted {kty : KeyType} {alg : String} (hfit : algFits kty alg = true) (h : alg = "RS256" ∨ alg = "EdDSA" ∨ alg = "ES256")
    (hk : kty ≠ .okp) : Gen.defaultSigAlgs.contains alg = true := by
  rcases h with rfl | rfl | rfl
  · decide
  · exfalso; cases kty <;> simp_all [algFits, Go.hasPrefix]
  · decide

/-- C14, helper ∘ verifier (RSA and EC keys; Ed25519: see the witness below, F-C14): an assertion that
    `client.NewSignerFromPrivateKeyByte(key, kid)` + `client.SignedJWTProfileAssertion(clientID, audience, expiration, signer)`
    make at `now` is accepted - as client `clientID` - by every verifier (storage-backed key set, default subject check,
    offset ≥ 0) whose storage holds the public half of the key for `clientID` under `kid` and whose issuer is in `audience`,
    when presented at any `now'` with `now ≤ now'`, `now' + offset + 1s ≤ now + expiration`, and `now' + 0.5s ≤ now + maxAge`
    (or no max age) -/
theorem c14_helper_assertion_accepted_partial {now0 now now' : Int} {cd : HlpCodec} {key : HlpKeyBytes} {kid clientID : String}
    {audience : List String} {expiration : Int} {signer : HlpSigner} {tok : Token} {v : JWTProfileVerifier} {jwk : JWK}
    (hs : GenC14.NewSignerFromPrivateKeyByte now0 key kid = .ok signer)
    (ht : GenC14.SignedJWTProfileAssertion now cd clientID audience expiration signer = .ok tok)
    (hks : v.keySet.kind = .nilSet) (hcs : v.CheckSubject = none)
    (hreg : (clientKeys v.Storage clientID).keys.find? (fun k => k.KeyID == kid) = some jwk)
    (hpub : jwk.keyNo = signer.key.Key.Key.keyNo ∧ jwk.kty = signer.key.Key.Key.kty)
    (hnotEd : signer.key.Key.Key.kty ≠ .okp)
    (haud : v.Issuer ∈ audience)
    (h0 : Go.second ≤ now) (h1 : now ≤ now') (hoff : 0 ≤ v.Offset) (hexp : now' + v.Offset + Go.second ≤ now + expiration)
    (hage : v.MaxAgeIAT = 0 ∨ now' + halfSecond ≤ now + v.MaxAgeIAT) :
    ∃ c, VerifyJWTAssertion now' tok v = .ok c ∧ c.iss = clientID ∧ c.sub = clientID := by
  rw [newSigner_eq] at hs
  obtain ⟨hnil, hkid, hfit, halgs⟩ := signerOf_ok hs
  rw [signedAssertion_eq] at ht
  unfold signClaims at ht
  simp only [hnil, Bool.false_eq_true, if_false] at ht
  split at ht; · simp at ht
  simp only [Except.ok.injEq] at ht
  subst ht
  obtain ⟨w1, w2, w3, w4⟩ := helper_window h0 h1 hoff hexp hage
  refine ⟨_, c14_minted_accepted (c := helperClaims now clientID audience expiration) hks hcs
    (alg_admitted hfit halgs hnotEd) (by rw [hkid]; exact hreg) hpub.1 (by rw [hpub.2]; exact hfit) haud rfl w1 w2 w3 w4, rfl, rfl⟩

/-- F-C14 in general form: for an Ed25519 key the helper's assertion is rejected by EVERY verifier (the algorithm `EdDSA` that
    `BytesToPrivateKey` picks is not among the verifier's admitted algorithms, and `VerifyJWTAssertion` cannot be told to admit it) -/
theorem c14_helper_eddsa_rejected {now0 now now' : Int} {cd : HlpCodec} {key : HlpKeyBytes} {kid clientID : String}
    {audience : List String} {expiration : Int} {signer : HlpSigner} {tok : Token} {v : JWTProfileVerifier}
    (hs : GenC14.NewSignerFromPrivateKeyByte now0 key kid = .ok signer)
    (ht : GenC14.SignedJWTProfileAssertion now cd clientID audience expiration signer = .ok tok)
    (hEd : signer.key.Key.Key.kty = .okp) :
    ∀ c, VerifyJWTAssertion now' tok v ≠ .ok c := by
  intro c hc
  rw [newSigner_eq] at hs
  obtain ⟨hnil, _, hfit, halgs⟩ := signerOf_ok hs
  have halg : signer.key.Algorithm = "EdDSA" := by
    rw [hEd] at hfit
    rcases halgs with h | h | h <;> simp_all [algFits, Go.hasPrefix]
  rw [signedAssertion_eq] at ht
  unfold signClaims at ht
  simp only [hnil, Bool.false_eq_true, if_false] at ht
  split at ht; · simp at ht
  simp only [Except.ok.injEq] at ht
  subst ht
  obtain ⟨p, c0, _, _, _, _, _, hsig⟩ := verifyJWTAssertion_ok.1 hc
  obtain ⟨j, s, hj, hs1, _⟩ := C01.checkSignature_ok hsig
  unfold joseParseSigned toJoseSignatureAlgorithms mintedToken at hj
  simp only [halg] at hj
  revert hj
  simp [Gen.defaultSigAlgs]

/-- the error a call ended with (none: it succeeded) -/
def errOf {α : Type} (r : Go.R α) : Option String := match r with | .error e => some e | .ok _ => none

namespace HelperDemo
def rsaKey : HlpKeyBytes := { block := some {}, pkcs8 := .ok (.rsa { keyNo := 1, kty := .rsa }) }
def edKey : HlpKeyBytes := { block := some {}, pkcs8 := .ok (.ed25519 { keyNo := 5, kty := .okp }) }
def p384Key : HlpKeyBytes := { block := some {}, pkcs8 := .ok (.ecdsa { keyNo := 4, kty := .ec, curveBits := 384 }) }
def registry : List (String × JWK) :=
  [("client-A", { KeyID := "a1", Use := "sig", kty := .rsa, keyNo := 1 }), ("client-E", { KeyID := "e1", Use := "sig", kty := .okp, keyNo := 5 }),
   ("client-D", { KeyID := "d1", Use := "sig", kty := .ec, keyNo := 4 })]
def v : JWTProfileVerifier := { Issuer := "https://op.example", MaxAgeIAT := 3600 * Go.second, Offset := Go.second, Storage := registry }
def now : Int := 1700000000 * Go.second + 250000000
/-- helper ∘ verifier on concrete inputs: the identity the verifier returns (none: rejected / no assertion) -/
def run (key : HlpKeyBytes) (kid clientID : String) (now' : Int) : Option String :=
  match GenC14.NewSignerFromPrivateKeyByte now key kid with
  | .error _ => none
  | .ok s =>
    match GenC14.SignedJWTProfileAssertion now {} clientID ["https://op.example"] (3600 * Go.second) s with
    | .error _ => none
    | .ok t => (VerifyJWTAssertion now' t v).toOption.map (·.iss)
end HelperDemo

/-- non-vacuity of the accepting theorem: an RSA key registered for client-A, presented at once and 59 minutes later -/
example : HelperDemo.run HelperDemo.rsaKey "a1" "client-A" HelperDemo.now = some "client-A" := by decide
example : HelperDemo.run HelperDemo.rsaKey "a1" "client-A" (HelperDemo.now + 3540 * Go.second) = some "client-A" := by decide
/-- … not for another client's name, not under another key id, not after an hour -/
example : HelperDemo.run HelperDemo.rsaKey "a1" "client-E" HelperDemo.now = none := by decide
example : HelperDemo.run HelperDemo.rsaKey "zz" "client-A" HelperDemo.now = none := by decide
example : HelperDemo.run HelperDemo.rsaKey "a1" "client-A" (HelperDemo.now + 3600 * Go.second) = none := by decide

/-- F-C14 (witness): a helper-made assertion with an Ed25519 key that the storage holds for the client is REJECTED -/
theorem c14_helper_eddsa_witness :
    ∃ (key : HlpKeyBytes) (kid clientID : String) (signer : HlpSigner) (tok : Token) (jwk : JWK),
      GenC14.NewSignerFromPrivateKeyByte HelperDemo.now key kid = .ok signer ∧
      GenC14.SignedJWTProfileAssertion HelperDemo.now {} clientID ["https://op.example"] (3600 * Go.second) signer = .ok tok ∧
      (clientKeys HelperDemo.v.Storage clientID).keys.find? (fun k => k.KeyID == kid) = some jwk ∧
      jwk.keyNo = signer.key.Key.Key.keyNo ∧ jwk.kty = signer.key.Key.Key.kty ∧
      errOf (VerifyJWTAssertion HelperDemo.now tok HelperDemo.v) = some "ErrSignatureUnsupportedAlg" :=
  ⟨HelperDemo.edKey, "e1", "client-E", _, _, _, rfl, rfl, rfl, rfl, rfl, by decide⟩

/-- observation (not a violation: no assertion is produced): for an ECDSA key on another curve than P-256 the helper picks ES256
    all the same and go-jose refuses to sign -/
theorem c14_helper_p384_no_assertion :
    ∃ s, GenC14.NewSignerFromPrivateKeyByte HelperDemo.now HelperDemo.p384Key "d1" = .ok s ∧
      errOf (GenC14.SignedJWTProfileAssertion HelperDemo.now {} "client-D" ["https://op.example"] (3600 * Go.second) s) = some "go-jose: expected 256 bit key" :=
  ⟨_, rfl, by decide⟩

/-- C14, the second helper family (RSA and EC keys): `oidc.GenerateJWTProfileToken(oidc.NewJWTProfileAssertion(userID, keyID, audience, key))`
    made at `now` is accepted as `userID` under the same conditions, with the helper's fixed expiration of one hour -/
theorem c14_generated_assertion_accepted_partial {now now' : Int} {cd : HlpCodec} {key : HlpKeyBytes} {kid userID : String}
    {audience : List String} {tok : Token} {v : JWTProfileVerifier} {jwk : JWK} {signer : HlpSigner}
    (ht : GenC14.GenerateJWTProfileToken now cd (GenC14.NewJWTProfileAssertion now userID kid audience key []) = .ok tok)
    (hs : signerOf key kid = .ok signer)
    (hks : v.keySet.kind = .nilSet) (hcs : v.CheckSubject = none)
    (hreg : (clientKeys v.Storage userID).keys.find? (fun k => k.KeyID == kid) = some jwk)
    (hpub : jwk.keyNo = signer.key.Key.Key.keyNo ∧ jwk.kty = signer.key.Key.Key.kty)
    (hnotEd : signer.key.Key.Key.kty ≠ .okp)
    (haud : v.Issuer ∈ audience)
    (h0 : Go.second ≤ now) (h1 : now ≤ now') (hoff : 0 ≤ v.Offset) (hexp : now' + v.Offset + Go.second ≤ now + 3600 * Go.second)
    (hage : v.MaxAgeIAT = 0 ∨ now' + halfSecond ≤ now + v.MaxAgeIAT) :
    ∃ c, VerifyJWTAssertion now' tok v = .ok c ∧ c.iss = userID ∧ c.sub = userID := by
  obtain ⟨e1, e2, e3⟩ := newAssertion_eq now userID kid audience key
  rw [generateToken_eq, e1, e2, e3, hs] at ht
  obtain ⟨hnil, hkid, hfit, halgs⟩ := signerOf_ok hs
  simp only [] at ht
  unfold signClaims at ht
  simp only [hnil, Bool.false_eq_true, if_false] at ht
  split at ht; · simp at ht
  simp only [Except.ok.injEq] at ht
  subst ht
  obtain ⟨w1, w2, w3, w4⟩ := helper_window h0 h1 hoff hexp hage
  refine ⟨_, c14_minted_accepted (c := helperClaims now userID audience (3600 * Go.second)) hks hcs
    (alg_admitted hfit halgs hnotEd) (by rw [hkid]; exact hreg) hpub.1 (by rw [hpub.2]; exact hfit) haud rfl w1 w2 w3 w4, rfl, rfl⟩

/-! ### at the provider -/

/-- C14 at the endpoints (RSA and EC keys): what `SignedJWTProfileAssertion(clientID, [reqIssuer], 1h, signer)` makes at `now` is
    accepted by the per-request verifier of a request ADDRESSED TO `reqIssuer` (one hour, one second) for the next 59 minutes
    and 58 seconds, and `ClientJWTAuth` answers `clientID` -/
theorem c14_helper_accepted_at_endpoint_partial {now0 now now' : Int} {cd : HlpCodec} {key : HlpKeyBytes} {kid clientID reqIssuer : String}
    {signer : HlpSigner} {tok : Token} {p : AsrtProvider} {ca : AsrtAssertionParams} {jwk : JWK}
    (hs : GenC14.NewSignerFromPrivateKeyByte now0 key kid = .ok signer)
    (ht : GenC14.SignedJWTProfileAssertion now cd clientID [reqIssuer] (3600 * Go.second) signer = .ok tok)
    (hreg : (clientKeys p.storage.keyRegistry clientID).keys.find? (fun k => k.KeyID == kid) = some jwk)
    (hpub : jwk.keyNo = signer.key.Key.Key.keyNo ∧ jwk.kty = signer.key.Key.Key.kty)
    (hnotEd : signer.key.Key.Key.kty ≠ .okp)
    (h0 : Go.second ≤ now) (h1 : now ≤ now') (hwin : now' + 2 * Go.second ≤ now + 3600 * Go.second)
    (hca : ca.ClientAssertion ≠ "") (htok : p.tokenOf ca.ClientAssertion = tok) (hstock : p.customVerifier = none) :
    GenC14.ClientJWTAuth now' reqIssuer ca p = .ok clientID := by
  obtain ⟨e1, e2, e3, e4, e5, e6⟩ := c14_audience_is_request_issuer now' reqIssuer p
  have hv := c14_helper_assertion_accepted_partial (v := { (GenC14.ProviderJWTProfileVerifier now' reqIssuer p).flat with CheckSubject := none })
    (now' := now') hs ht e5 rfl (by simpa [e4] using hreg) hpub hnotEd (by simp [e1])
    h0 h1 (by simp [e3, providerOffset, Go.second]) (by simp only [e3, providerOffset, Go.second] at *; omega)
    (by right; simp only [e2, providerMaxAgeIAT, halfSecond, Go.second] at *; omega)
  obtain ⟨c, hc, hi, _⟩ := hv
  rw [← verify_default_subject e6] at hc
  exact clientJWTAuth_ok.2 ⟨hca, c, by rw [verifierAt_stock hstock, htok]; exact hc, hi⟩

/-- C14 at the token endpoint (RSA and EC keys): the jwt-bearer token source `profile.NewJWTProfileTokenSource(issuer, clientID, keyID, key, scopes,
    WithStaticTokenEndpoint(..))` sends a grant of type jwt-bearer whose assertion the provider's verifier for `issuer` accepts -/
theorem c14_token_source_accepted_partial {now0 now now' : Int} {cd : HlpCodec} {disc : Go.R String} {key : HlpKeyBytes}
    {issuer clientID kid ep : String} {scopes : List String} {src : HlpTokenSource} {rq : HlpGrantRequest} {p : AsrtProvider} {jwk : JWK}
    (hsrc : GenC14.NewJWTProfileTokenSource now0 disc issuer clientID kid key scopes [GenC14.WithStaticTokenEndpoint now0 issuer ep] = .ok src)
    (hrq : GenC14.TokenSourceTokenCtx now cd src = .ok rq)
    (hreg : (clientKeys p.storage.keyRegistry clientID).keys.find? (fun k => k.KeyID == kid) = some jwk)
    (hpub : jwk.keyNo = src.signer.key.Key.Key.keyNo ∧ jwk.kty = src.signer.key.Key.Key.kty)
    (hnotEd : src.signer.key.Key.Key.kty ≠ .okp)
    (h0 : Go.second ≤ now) (h1 : now ≤ now') (hwin : now' + 2 * Go.second ≤ now + 3600 * Go.second) :
    rq.GrantType = Const.GrantTypeBearer ∧ rq.Scope = scopes ∧
    ∃ c, VerifyJWTAssertion now' rq.Assertion (GenC14.ProviderJWTProfileVerifier now' issuer p).flat = .ok c ∧ c.iss = clientID ∧ c.sub = clientID := by
  rw [tokenSource_eq] at hsrc
  cases hso : signerOf key kid with
  | error e => simp [hso] at hsrc
  | ok s =>
    simp only [hso] at hsrc
    have hfields : src.clientID = clientID ∧ src.audience = [issuer] ∧ src.signer = s ∧ src.scopes = scopes := by
      revert hsrc; go_leaf
    obtain ⟨f1, f2, f3, f4⟩ := hfields
    rw [tokenCtx_eq, f1, f2, f3, f4] at hrq
    cases hsg : signClaims cd (helperClaims now clientID [issuer] (3600 * Go.second)) s with
    | error e => simp [hsg] at hrq
    | ok t =>
      simp only [hsg, Except.ok.injEq] at hrq
      subst hrq
      refine ⟨rfl, rfl, ?_⟩
      obtain ⟨e1, e2, e3, e4, e5, e6⟩ := c14_audience_is_request_issuer now' issuer p
      have hv := c14_helper_assertion_accepted_partial (now0 := now0) (cd := cd) (key := key) (kid := kid) (clientID := clientID)
        (audience := [issuer]) (expiration := 3600 * Go.second) (signer := s) (tok := t)
        (v := { (GenC14.ProviderJWTProfileVerifier now' issuer p).flat with CheckSubject := none })
        (now := now) (now' := now') (by rw [newSigner_eq]; exact hso) (by rw [signedAssertion_eq]; exact hsg) e5 rfl (by simpa [e4] using hreg)
        (by rw [← f3]; exact hpub) (by rw [← f3]; exact hnotEd) (by simp [e1])
        h0 h1 (by simp [e3, providerOffset, Go.second]) (by simp only [e3, providerOffset, Go.second] at *; omega)
        (by right; simp only [e2, providerMaxAgeIAT, halfSecond, Go.second] at *; omega)
      obtain ⟨c, hc, hi, hsb⟩ := hv
      rw [← verify_default_subject e6] at hc
      exact ⟨c, hc, hi, hsb⟩

/-! ### on the wire -/

/-- the form a provider decodes from the values the client helper wrote -/
def formOf (vs : HlpValues) : AsrtForm :=
  { ClientID := vs.Get "client_id", ClientSecret := vs.Get "client_secret", ClientAssertion := vs.Get "client_assertion",
    ClientAssertionType := vs.Get "client_assertion_type", Token := vs.Get "token", TokenTypeHint := vs.Get "token_type_hint" }

/-- `client.ClientAssertionFormAuthorization(a)` writes exactly the two parameters the provider's decoders read, with the assertion
    type the provider asks for: the request reaches the ASSERTION branch of `ClientIDFromRequest` (introspection, device
    authorization, device grant) - it is judged by `ClientJWTAuth` + `checkPrivateKeyJWTClient` and by nothing else -/
theorem c14_form_authorization_reaches_provider (now now' : Int) (a reqIssuer : String) (vs : HlpValues) (p : AsrtProvider) (ha : a ≠ "")
    (hdec : p.decoder.decoded = fun f => .ok f) :
    (formOf (GenC14.ClientAssertionFormAuthorization now a vs)).ClientAssertion = a ∧
    (formOf (GenC14.ClientAssertionFormAuthorization now a vs)).ClientAssertionType = Const.ClientAssertionTypeJWTAssertion ∧
    GenC14.ClientIDFromRequest now' reqIssuer { Form := formOf (GenC14.ClientAssertionFormAuthorization now a vs) } p =
      (match GenC14.ClientJWTAuth now' reqIssuer { ClientAssertion := a, ClientAssertionType := Const.ClientAssertionTypeJWTAssertion } p with
       | .error e => .error e
       | .ok id => match GenC14.checkPrivateKeyJWTClient now' id p.storage with
         | .error e => .error e
         | .ok _ => .ok (id, true)) := by
  obtain ⟨h1, h2⟩ := formAuthorization_assertion now a vs
  refine ⟨by simp [formOf, h1], by simp [formOf, h2], ?_⟩
  unfold GenC14.ClientIDFromRequest
  simp only [AsrtProvider.Decoder, AsrtDecoder.Decode, hdec, AsrtProvider.is_ClientJWTProfile, AsrtForm.ClientAssertionParams, formOf, h1, h2,
    AsrtProvider.Storage]
  go_leaf

/-- `client.ClientAssertionCodeOptions(a)`: the same two parameters for the code exchange of the oauth2 client -/
theorem c14_code_options_reach_provider (now : Int) (a : String) :
    (GenC14.ClientAssertionCodeOptions now a).lookup "client_assertion" = some a ∧
    (GenC14.ClientAssertionCodeOptions now a).lookup "client_assertion_type" = some Const.ClientAssertionTypeJWTAssertion := by
  rw [codeOptions_eq]; exact ⟨by simp [List.lookup], by simp [List.lookup]⟩

end C14
