/-
  C04 proofs (function level): what the REGENERATED AuthorizeCodeClient / ValidateAccessTokenRequest /
  LegacyServer.CodeExchange establish whenever they let a code exchange through.
-/
import OidcModel.Spec.C04
import OidcModel.Model.Flow
namespace C04
open Go Gen Hand Flow

/-- the model-level meaning of "authenticated as / identifies as client c" -/
def Authenticated (now : Int) (p : Provider) (req : AccessTokenRequest) (c : OPClient) : Prop :=
  (req.ClientAssertionType = Const.ClientAssertionTypeJWTAssertion ∧ p.pkjwtSupported = true ∧
      p.is_JWTAuthorizationGrantExchanger = true ∧
      ∃ j, VerifyJWTAssertion now req.ClientAssertion p.JWTProfileVerifier = .ok j ∧
        p.store.GetClientByClientID j.iss = .ok c ∧ c.auth = Const.AuthMethodPrivateKeyJWT)
  ∨ (req.ClientAssertionType ≠ Const.ClientAssertionTypeJWTAssertion ∧ p.store.GetClientByClientID req.ClientID = .ok c ∧
      (c.auth = Const.AuthMethodNone ∨
        (c.auth ≠ Const.AuthMethodPrivateKeyJWT ∧ (c.auth = Const.AuthMethodPost → p.postSupported = true) ∧
          p.store.AuthorizeClientIDSecret req.ClientID req.ClientSecret = .ok ())))

theorem authorizeCodeChallenge_ok {now v ch} (h : AuthorizeCodeChallenge now v ch = .ok ()) :
    v ≠ "" ∧ VerifyCodeChallenge now ch v = true := by
  unfold AuthorizeCodeChallenge at h
  split at h; · simp at h
  split at h; · simp at h
  simp_all

theorem isNil_eq_not {α : Type} (x : Option α) : Go.isNil x = !Go.notNil x := by
  cases x <;> rfl

theorem match_arbc {s : Store} {code : String} {a : AuthReq}
    (h : (match s.AuthRequestByCode code with | .error _ => (.error "ErrInvalidGrant" : Go.R AuthReq) | .ok x => .ok x) = .ok a) :
    s.AuthRequestByCode code = .ok a := by
  split at h <;> simp_all

theorem match_secret {s : Store} {id sec : String} {u : Unit}
    (h : (match s.AuthorizeClientIDSecret id sec with | .error _ => (.error "ErrInvalidClient" : Go.R Unit) | .ok _ => Go.ok) = .ok u) :
    s.AuthorizeClientIDSecret id sec = .ok () := by
  split at h <;> simp_all

theorem match_pkjwt {now : Int} {p : Provider} {t : Token} {c : OPClient}
    (h : (match VerifyJWTAssertion now t p.JWTProfileVerifier with
      | .error err => (.error err : Go.R OPClient)
      | .ok jwtReq =>
        match p.store.GetClientByClientID jwtReq.iss with
        | .error err => .error err
        | .ok client => if client.auth = Const.AuthMethodPrivateKeyJWT then .ok client else .error "ErrInvalidClient") = .ok c) :
    ∃ j, VerifyJWTAssertion now t p.JWTProfileVerifier = .ok j ∧ p.store.GetClientByClientID j.iss = .ok c ∧ c.auth = Const.AuthMethodPrivateKeyJWT := by
  split at h; · simp at h
  rename_i j hj
  split at h; · simp at h
  rename_i c' hc
  split at h
  · simp at h; subst h; exact ⟨j, hj, hc, by assumption⟩
  · simp at h

theorem authorizeCodeClient_ok {now req p a c} (h : AuthorizeCodeClient now req p = .ok (a, c)) :
    p.store.AuthRequestByCode req.Code = .ok a ∧
    (a.challenge ≠ none → req.CodeVerifier ≠ "" ∧ VerifyCodeChallenge now a.challenge req.CodeVerifier = true) ∧
    (c.auth = Const.AuthMethodNone → a.challenge ≠ none) ∧
    Authenticated now p req c := by
  unfold AuthorizeCodeClient AuthRequestByCode AuthorizePrivateJWTKey AuthorizeClientIDSecret at h
  simp only [Provider.Storage, AuthReq.GetCodeChallenge, Provider.AuthMethodPrivateKeyJWTSupported,
    Provider.AuthMethodPostSupported, OPClient.AuthMethod, Claims.Issuer, isNil_eq_not] at h
  repeat' (split at h <;> try (simp at h))
  all_goals (
    have hauth : Authenticated now p req c := by
      rw [← h.2]
      unfold Authenticated
      first
        | (left; exact ⟨by assumption, by simp_all, by simp_all, match_pkjwt (by assumption)⟩)
        | (right; refine ⟨by assumption, by assumption, ?_⟩; first | (left; assumption) | (right; exact ⟨by assumption, by simp_all, match_secret (by assumption)⟩))
    obtain ⟨rfl, rfl⟩ := h
    refine ⟨match_arbc (by assumption), ?_, ?_, hauth⟩
    · intro hne
      first
        | exact authorizeCodeChallenge_ok (by assumption)
        | (exfalso; simp_all [Go.notNil, Nilable.isNil])
    · intro hnone
      rcases hauth with ⟨_, _, _, _, _, _, hpk⟩ | _
      · rw [hnone] at hpk; exact absurd hpk (by decide)
      · simp_all [Go.notNil, Nilable.isNil, Const.AuthMethodNone, Const.AuthMethodPrivateKeyJWT]
        try (intro hc; simp_all))

theorem validateGrantType_iff {now c g} : ValidateGrantType now c g = true ↔ g ∈ c.grants := by
  unfold ValidateGrantType Go.any OPClient.GrantTypes
  simp [Go.isNil, Nilable.isNil]

/-- what a successful validation of a code-grant request establishes (Provider router) -/
theorem validateAccessTokenRequest_ok {now req p a c} (h : ValidateAccessTokenRequest now req p = .ok (a, c)) :
    p.store.AuthRequestByCode req.Code = .ok a ∧ c.id = a.clientID ∧ Const.GrantTypeCode ∈ c.grants ∧
    req.RedirectURI = a.redirectURI ∧
    (a.challenge ≠ none → req.CodeVerifier ≠ "" ∧ VerifyCodeChallenge now a.challenge req.CodeVerifier = true) ∧
    (c.auth = Const.AuthMethodNone → a.challenge ≠ none) ∧ Authenticated now p req c := by
  unfold ValidateAccessTokenRequest at h
  split at h; · simp at h
  rename_i a' c' hacc
  simp only [OPClient.GetID, AuthReq.GetClientID, AuthReq.GetRedirectURI] at h
  by_cases hid : (c'.id != a'.clientID) = true
  · simp [hid] at h
  by_cases hgrant : (!ValidateGrantType now c' Const.GrantTypeCode) = true
  · simp [hid, hgrant] at h
  by_cases hred : (req.RedirectURI != a'.redirectURI) = true
  · simp [hid, hgrant, hred] at h
  simp [hid, hgrant, hred] at h
  obtain ⟨rfl, rfl⟩ := h
  obtain ⟨h1, h2, h3, h4⟩ := authorizeCodeClient_ok hacc
  exact ⟨h1, by simpa using hid, validateGrantType_iff.1 (by simpa using hgrant), by simpa using hred, h2, h3, h4⟩

/-- the same for the LegacyServer's own code-exchange path (client already verified by withClient) -/
theorem legacyCodeExchange_ok {now s r i} (h : LegacyCodeExchange now s r = .ok i) :
    ∃ a, i = .code a r.Client r.Data.Code ∧ s.provider.store.AuthRequestByCode r.Data.Code = .ok a ∧
      r.Client.id = a.clientID ∧ r.Data.RedirectURI = a.redirectURI ∧
      (a.challenge ≠ none → r.Data.CodeVerifier ≠ "" ∧ VerifyCodeChallenge now a.challenge r.Data.CodeVerifier = true) ∧
      (r.Client.auth = Const.AuthMethodNone → a.challenge ≠ none) := by
  unfold LegacyCodeExchange AuthRequestByCode issueForCode NewResponse at h
  simp only [Provider.Storage, OPClient.GetID, AuthReq.GetClientID, AuthReq.GetRedirectURI, AuthReq.GetCodeChallenge,
    OPClient.AuthMethod] at h
  repeat' (split at h <;> try (simp at h))
  all_goals (
    subst h
    refine ⟨_, rfl, match_arbc (by assumption), by simp_all, by simp_all, ?_, ?_⟩
    · intro hne
      first
        | exact authorizeCodeChallenge_ok (by assumption)
        | (exfalso; simp_all [Go.notNil, Nilable.isNil])
    · intro hnone
      simp_all [Go.notNil, Nilable.isNil]
      try (intro hc; simp_all [AuthorizeCodeChallenge, VerifyCodeChallenge, Go.isNil, Nilable.isNil])
      try (rename_i hch _ ; first | (split at hch <;> simp at hch) | skip)
      try (rename_i hch ; first | (split at hch <;> simp at hch) | skip))

end C04
