/-
  C04 proofs (function level): what the REGENERATED AuthorizeCodeClient / ValidateAccessTokenRequest /
  LegacyServer.CodeExchange / AuthorizeCodeChallenge / VerifyCodeChallenge compute.

  Two layers (robustness against harmless rewrites of the Go text):
    1. per regenerated function ONE characterisation lemma - an equation with a hand-readable spec function
       (`authorizeCodeClient_eq`, `validateAccessTokenRequest_eq`, `legacyCodeExchange_eq`) or an iff
       (`authorizeCodeChallenge_iff`, `verifyCodeChallenge_iff`, `validateGrantType_iff`) - proved with the
       shape-independent tactics `go_leaf` / `go_eq`; these are the only places where a regenerated definition is unfolded;
    2. everything else (`…_ok`: what a successful validation establishes; used by the history proofs) is proved from the
       spec functions, which are hand-written and do not move when the Go text is rearranged.
-/
import OidcModel.Spec.C04
import OidcModel.Model.Flow
import OidcModel.GoTacEq
set_option linter.unusedSimpArgs false
namespace C04
open Go Gen Hand Flow

/-- the model-level meaning of "authenticated as / identifies as client c" -/
def Authenticated (now : Int) (p : Provider) (req : AccessTokenRequest) (c : OPClient) : Prop :=
  (req.ClientAssertionType = Const.ClientAssertionTypeJWTAssertion ∧ p.pkjwtSupported = true ∧
      p.is_JWTAuthorizationGrantExchanger = true ∧
      ∃ j, VerifyJWTAssertion now req.ClientAssertion p.JWTProfileVerifier = .ok j ∧
        p.store.GetClientByClientID j.iss = .ok c ∧ c.auth = Const.AuthMethodPrivateKeyJWT)
  ∨ (req.ClientAssertionType ≠ Const.ClientAssertionTypeJWTAssertion ∧ p.store.GetClientByClientID req.ClientID = .ok c ∧
      (c.auth = Const.AuthMethodNone ∨
        (c.auth ≠ Const.AuthMethodPrivateKeyJWT ∧ (c.auth = Const.AuthMethodPost → p.postSupported = true) ∧
          p.store.AuthorizeClientIDSecret req.ClientID req.ClientSecret = .ok ())))

/-! ## Layer 1: characterisation lemmas (the only unfoldings of regenerated definitions) -/

/-- PKCE, `oidc.VerifyCodeChallenge`: a challenge exists and equals the verifier - transformed by SHA-256 exactly when the
    method is `S256`; EVERY other method string (`plain`, the empty string of a request that sent a challenge without
    `code_challenge_method`, anything else the storage kept) compares the verifier itself -/
theorem verifyCodeChallenge_iff {now ch v} :
    VerifyCodeChallenge now ch v = true ↔
      ∃ c, ch = some c ∧ c.Challenge = (if c.Method = Const.CodeChallengeMethodS256 then NewSHACodeChallenge now v else v) := by
  unfold VerifyCodeChallenge
  cases ch <;> simp only [Go.isNil, Go.getOpt, Nilable.isNil, Option.isNone, Option.getD] <;> go_leaf

/-- `AuthorizeCodeChallenge`: a non-empty verifier that verifies -/
theorem authorizeCodeChallenge_iff {now v ch} :
    AuthorizeCodeChallenge now v ch = .ok () ↔ v ≠ "" ∧ VerifyCodeChallenge now ch v = true := by
  unfold AuthorizeCodeChallenge
  simp only [Go.ok]
  go_leaf

/-- ... and its two refusals: no verifier - `invalid_request`; a verifier that does not match - `invalid_grant` -/
theorem authorizeCodeChallenge_err {now v ch e} (h : AuthorizeCodeChallenge now v ch = .error e) :
    (v = "" ∧ e = "ErrInvalidRequest") ∨ (v ≠ "" ∧ VerifyCodeChallenge now ch v = false ∧ e = "ErrInvalidGrant") := by
  unfold AuthorizeCodeChallenge at h
  simp only [Go.ok] at h
  revert h
  go_leaf

theorem validateGrantType_iff {now c g} : ValidateGrantType now c g = true ↔ g ∈ c.grants := by
  unfold ValidateGrantType
  simp only [Go.any, OPClient.GrantTypes, Go.isNil]
  go_leaf [Nilable.isNil, Go.contains]

theorem validateGrantType_eq {now c g} : ValidateGrantType now c g = decide (g ∈ c.grants) := by
  have h := validateGrantType_iff (now := now) (c := c) (g := g)
  cases hv : ValidateGrantType now c g <;> simp_all

/-- client authentication of the code grant on the Provider router, as a readable function (`hasChallenge`: the
    authorization request carried a PKCE challenge) -/
def authClientSpec (now : Int) (req : AccessTokenRequest) (p : Provider) (hasChallenge : Bool) : Go.R OPClient :=
  if req.ClientAssertionType = Const.ClientAssertionTypeJWTAssertion then
    if p.is_JWTAuthorizationGrantExchanger = true ∧ p.pkjwtSupported = true then AuthorizePrivateJWTKey now req.ClientAssertion p
    else .error "ErrInvalidClient"
  else
    match p.store.GetClientByClientID req.ClientID with
    | .error _ => .error "ErrInvalidClient"
    | .ok c =>
      if c.auth = Const.AuthMethodPrivateKeyJWT then .error "ErrInvalidClient"
      else if c.auth = Const.AuthMethodNone then (if hasChallenge then .ok c else .error "ErrInvalidRequest")
      else if c.auth = Const.AuthMethodPost ∧ p.postSupported = false then .error "ErrInvalidClient"
      else match p.store.AuthorizeClientIDSecret req.ClientID req.ClientSecret with
        | .error _ => .error "ErrInvalidClient"
        | .ok _ => .ok c

/-- `AuthorizeCodeClient`, as a readable function: the code resolves; PKCE is verified whenever the request carried a
    challenge - BEFORE and independently of how the client authenticates; then the client authenticates -/
def authorizeCodeClientSpec (now : Int) (req : AccessTokenRequest) (p : Provider) : Go.R (AuthReq × OPClient) :=
  match p.store.AuthRequestByCode req.Code with
  | .error _ => .error "ErrInvalidGrant"
  | .ok a =>
    match (if a.challenge.isSome then AuthorizeCodeChallenge now req.CodeVerifier a.challenge else .ok ()) with
    | .error e => .error e
    | .ok _ =>
      match authClientSpec now req p a.challenge.isSome with
      | .error e => .error e
      | .ok c => .ok (a, c)

theorem authorizeCodeClient_eq {now req p} : AuthorizeCodeClient now req p = authorizeCodeClientSpec now req p := by
  unfold AuthorizeCodeClient authorizeCodeClientSpec authClientSpec
  simp only [AuthRequestByCode, AuthorizeClientIDSecret, Provider.Storage, AuthReq.GetCodeChallenge,
    Provider.AuthMethodPrivateKeyJWTSupported, Provider.AuthMethodPostSupported, OPClient.AuthMethod, Go.notNil, Go.isNil, Go.ok]
  go_eq [Nilable.isNil, Const.AuthMethodNone, Const.AuthMethodPrivateKeyJWT, Const.AuthMethodPost]

/-- `ValidateAccessTokenRequest`, as a readable function -/
def validateAccessTokenRequestSpec (now : Int) (req : AccessTokenRequest) (p : Provider) : Go.R (AuthReq × OPClient) :=
  match AuthorizeCodeClient now req p with
  | .error e => .error e
  | .ok (a, c) =>
    if c.id ≠ a.clientID then .error "ErrInvalidGrant"
    else if Const.GrantTypeCode ∉ c.grants then .error "ErrUnauthorizedClient"
    else if req.RedirectURI ≠ a.redirectURI then .error "ErrInvalidGrant"
    else .ok (a, c)

theorem validateAccessTokenRequest_eq {now req p} : ValidateAccessTokenRequest now req p = validateAccessTokenRequestSpec now req p := by
  unfold ValidateAccessTokenRequest validateAccessTokenRequestSpec
  simp only [OPClient.GetID, AuthReq.GetClientID, AuthReq.GetRedirectURI]
  go_eq [validateGrantType_eq]

/-- `LegacyServer.CodeExchange` (the client was authenticated by `withClient` before), as a readable function -/
def legacyCodeExchangeSpec (now : Int) (s : LegacyServer) (r : ClientRequest AccessTokenRequest) : Go.R IssueFor :=
  match s.provider.store.AuthRequestByCode r.Data.Code with
  | .error _ => .error "ErrInvalidGrant"
  | .ok a =>
    if r.Client.id ≠ a.clientID then .error "ErrInvalidGrant"
    else
      match (if r.Client.auth = Const.AuthMethodNone ∨ a.challenge.isSome ∨ r.Data.CodeVerifier ≠ ""
             then AuthorizeCodeChallenge now r.Data.CodeVerifier a.challenge else .ok ()) with
      | .error e => .error e
      | .ok _ =>
        if r.Data.RedirectURI ≠ a.redirectURI then .error "ErrInvalidGrant"
        else .ok (.code a r.Client r.Data.Code)

theorem legacyCodeExchange_eq {now s r} : LegacyCodeExchange now s r = legacyCodeExchangeSpec now s r := by
  unfold LegacyCodeExchange legacyCodeExchangeSpec
  simp only [AuthRequestByCode, issueForCode, NewResponse, Provider.Storage, OPClient.GetID, AuthReq.GetClientID,
    AuthReq.GetRedirectURI, AuthReq.GetCodeChallenge, OPClient.AuthMethod, Go.notNil, Go.isNil]
  go_eq [Nilable.isNil]

/-! ## Layer 2: consequences, proved from the spec functions only -/

theorem authorizeCodeChallenge_ok {now v ch} (h : AuthorizeCodeChallenge now v ch = .ok ()) :
    v ≠ "" ∧ VerifyCodeChallenge now ch v = true := authorizeCodeChallenge_iff.1 h

theorem isNil_eq_not {α : Type} (x : Option α) : Go.isNil x = !Go.notNil x := by
  cases x <;> rfl

theorem match_arbc {s : Store} {code : String} {a : AuthReq}
    (h : (match s.AuthRequestByCode code with | .error _ => (.error "ErrInvalidGrant" : Go.R AuthReq) | .ok x => .ok x) = .ok a) :
    s.AuthRequestByCode code = .ok a := by
  split at h <;> simp_all

theorem match_secret {s : Store} {id sec : String} {u : Unit}
    (h : (match s.AuthorizeClientIDSecret id sec with | .error _ => (.error "ErrInvalidClient" : Go.R Unit) | .ok _ => Go.ok) = .ok u) :
    s.AuthorizeClientIDSecret id sec = .ok () := by
  split at h <;> simp_all

theorem match_pkjwt {now : Int} {p : Provider} {t : Token} {c : OPClient}
    (h : (match VerifyJWTAssertion now t p.JWTProfileVerifier with
      | .error err => (.error err : Go.R OPClient)
      | .ok jwtReq =>
        match p.store.GetClientByClientID jwtReq.iss with
        | .error err => .error err
        | .ok client => if client.auth = Const.AuthMethodPrivateKeyJWT then .ok client else .error "ErrInvalidClient") = .ok c) :
    ∃ j, VerifyJWTAssertion now t p.JWTProfileVerifier = .ok j ∧ p.store.GetClientByClientID j.iss = .ok c ∧ c.auth = Const.AuthMethodPrivateKeyJWT := by
  split at h; · simp at h
  rename_i j hj
  split at h; · simp at h
  rename_i c' hc
  split at h
  · simp at h; subst h; exact ⟨j, hj, hc, by assumption⟩
  · simp at h

/-- `AuthorizePrivateJWTKey`: the assertion verifies, its issuer is a registered client, and that client's method is
    private_key_jwt -/
theorem authorizePrivateJWTKey_ok {now : Int} {t : Token} {p : Provider} {c : OPClient} (h : AuthorizePrivateJWTKey now t p = .ok c) :
    ∃ j, VerifyJWTAssertion now t p.JWTProfileVerifier = .ok j ∧ p.store.GetClientByClientID j.iss = .ok c ∧ c.auth = Const.AuthMethodPrivateKeyJWT := by
  unfold AuthorizePrivateJWTKey at h
  simp only [Provider.Storage, OPClient.AuthMethod, Claims.Issuer] at h
  revert h
  go_leaf

theorem authClientSpec_ok {now req p hc c} (h : authClientSpec now req p hc = .ok c) :
    Authenticated now p req c ∧ (c.auth = Const.AuthMethodNone → hc = true) := by
  unfold authClientSpec at h
  by_cases hty : req.ClientAssertionType = Const.ClientAssertionTypeJWTAssertion
  · simp only [hty, if_true] at h
    split at h
    · rename_i hcfg
      obtain ⟨j, hj, hget, hauth⟩ := authorizePrivateJWTKey_ok h
      refine ⟨Or.inl ⟨hty, hcfg.2, hcfg.1, j, hj, hget, hauth⟩, ?_⟩
      intro hn; rw [hn] at hauth; exact absurd hauth (by decide)
    · simp at h
  · simp only [hty, if_false] at h
    split at h
    · simp at h
    · rename_i c' hget
      split at h
      · simp at h
      · rename_i hnpk
        split at h
        · rename_i hnone
          split at h
          · rename_i hch
            simp only [Except.ok.injEq] at h; subst h
            exact ⟨Or.inr ⟨hty, hget, Or.inl hnone⟩, fun _ => hch⟩
          · simp at h
        · rename_i hnn
          split at h
          · simp at h
          · rename_i hpost
            split at h
            · simp at h
            · rename_i u hsec
              simp only [Except.ok.injEq] at h; subst h
              refine ⟨Or.inr ⟨hty, hget, Or.inr ⟨hnpk, ?_, by cases u; exact hsec⟩⟩, fun hn => absurd hn hnn⟩
              intro hp
              cases hps : p.postSupported
              · exact absurd ⟨hp, hps⟩ hpost
              · rfl

theorem authorizeCodeClient_ok {now req p a c} (h : AuthorizeCodeClient now req p = .ok (a, c)) :
    p.store.AuthRequestByCode req.Code = .ok a ∧
    (a.challenge ≠ none → req.CodeVerifier ≠ "" ∧ VerifyCodeChallenge now a.challenge req.CodeVerifier = true) ∧
    (c.auth = Const.AuthMethodNone → a.challenge ≠ none) ∧
    Authenticated now p req c := by
  rw [authorizeCodeClient_eq] at h
  unfold authorizeCodeClientSpec at h
  split at h
  · simp at h
  · rename_i a' hcode
    split at h
    · simp at h
    · rename_i u hpk
      split at h
      · simp at h
      · rename_i c' hcl
        simp only [Except.ok.injEq, Prod.mk.injEq] at h
        obtain ⟨rfl, rfl⟩ := h
        obtain ⟨hauth, hnone⟩ := authClientSpec_ok hcl
        refine ⟨hcode, ?_, ?_, hauth⟩
        · intro hne
          have hs : a'.challenge.isSome = true := by cases hch : a'.challenge <;> simp_all
          simp only [hs, if_true] at hpk
          cases u; exact authorizeCodeChallenge_iff.1 hpk
        · intro hn hch
          have := hnone hn
          simp [hch] at this

/-- what a successful validation of a code-grant request establishes (Provider router) -/
theorem validateAccessTokenRequest_ok {now req p a c} (h : ValidateAccessTokenRequest now req p = .ok (a, c)) :
    p.store.AuthRequestByCode req.Code = .ok a ∧ c.id = a.clientID ∧ Const.GrantTypeCode ∈ c.grants ∧
    req.RedirectURI = a.redirectURI ∧
    (a.challenge ≠ none → req.CodeVerifier ≠ "" ∧ VerifyCodeChallenge now a.challenge req.CodeVerifier = true) ∧
    (c.auth = Const.AuthMethodNone → a.challenge ≠ none) ∧ Authenticated now p req c := by
  rw [validateAccessTokenRequest_eq] at h
  unfold validateAccessTokenRequestSpec at h
  split at h
  · simp at h
  · rename_i a' c' hacc
    split at h; · simp at h
    rename_i hid
    split at h; · simp at h
    rename_i hgrant
    split at h; · simp at h
    rename_i hred
    simp only [Except.ok.injEq, Prod.mk.injEq] at h
    obtain ⟨rfl, rfl⟩ := h
    obtain ⟨h1, h2, h3, h4⟩ := authorizeCodeClient_ok hacc
    exact ⟨h1, by simpa using hid, by simpa using hgrant, by simpa using hred, h2, h3, h4⟩

/-- the same for the LegacyServer's own code-exchange path (client already verified by withClient) -/
theorem legacyCodeExchange_ok {now s r i} (h : LegacyCodeExchange now s r = .ok i) :
    ∃ a, i = .code a r.Client r.Data.Code ∧ s.provider.store.AuthRequestByCode r.Data.Code = .ok a ∧
      r.Client.id = a.clientID ∧ r.Data.RedirectURI = a.redirectURI ∧
      (a.challenge ≠ none → r.Data.CodeVerifier ≠ "" ∧ VerifyCodeChallenge now a.challenge r.Data.CodeVerifier = true) ∧
      (r.Client.auth = Const.AuthMethodNone → a.challenge ≠ none) := by
  rw [legacyCodeExchange_eq] at h
  unfold legacyCodeExchangeSpec at h
  split at h
  · simp at h
  · rename_i a hcode
    split at h; · simp at h
    rename_i hid
    split at h
    · simp at h
    · rename_i u hpk
      split at h; · simp at h
      rename_i hred
      simp only [Except.ok.injEq] at h
      refine ⟨a, h.symm, hcode, by simpa using hid, by simpa using hred, ?_, ?_⟩
      · intro hne
        have hs : a.challenge.isSome = true := by cases hch : a.challenge <;> simp_all
        simp only [hs, true_or, or_true, if_true] at hpk
        cases u; exact authorizeCodeChallenge_iff.1 hpk
      · intro hn hch
        simp only [hn, true_or, if_true] at hpk
        cases u
        have := (authorizeCodeChallenge_iff.1 hpk).2
        rw [hch] at this
        obtain ⟨c, hc, _⟩ := verifyCodeChallenge_iff.1 this
        simp at hc

/-! ## Completeness and the refusals (from the spec functions): nothing but the listed conditions is demanded -/

/-- Provider router, completeness: a code that resolves, a caller that authenticates as the request's client (registered for
    the code grant), the request's redirect_uri byte for byte, and - iff the request carried a challenge - a non-empty
    verifier that verifies: the exchange is let through, for exactly this request and client -/
theorem validateAccessTokenRequest_complete {now req p a c}
    (hcode : p.store.AuthRequestByCode req.Code = .ok a)
    (hpk : a.challenge = none ∨ (req.CodeVerifier ≠ "" ∧ VerifyCodeChallenge now a.challenge req.CodeVerifier = true))
    (hcl : authClientSpec now req p a.challenge.isSome = .ok c)
    (hid : c.id = a.clientID) (hgrant : Const.GrantTypeCode ∈ c.grants) (hred : req.RedirectURI = a.redirectURI) :
    ValidateAccessTokenRequest now req p = .ok (a, c) := by
  have hacc : AuthorizeCodeClient now req p = .ok (a, c) := by
    rw [authorizeCodeClient_eq]
    unfold authorizeCodeClientSpec
    rw [hcode]
    simp only []
    rcases hpk with hnone | ⟨hv, hver⟩
    · simp [hnone] at hcl ⊢
      rw [hcl]
    · have hs : a.challenge.isSome = true := by
        obtain ⟨c', hc', _⟩ := verifyCodeChallenge_iff.1 hver
        simp [hc']
      rw [hs] at hcl
      simp only [hs, if_true, authorizeCodeChallenge_iff.2 ⟨hv, hver⟩, hcl]
  rw [validateAccessTokenRequest_eq]
  unfold validateAccessTokenRequestSpec
  rw [hacc]
  simp [hid, hgrant, hred]

/-- redirect_uri is compared as a string, byte for byte: ANY other string (a trailing slash, another case of scheme or host,
    a percent-encoded spelling of the same path, an added query) in the token request refuses the exchange with
    `invalid_grant` - on the Provider router ... -/
theorem validateAccessTokenRequest_redirect_exact {now req p a c} (hacc : AuthorizeCodeClient now req p = .ok (a, c))
    (hid : c.id = a.clientID) (hgrant : Const.GrantTypeCode ∈ c.grants) (hred : req.RedirectURI ≠ a.redirectURI) :
    ValidateAccessTokenRequest now req p = .error "ErrInvalidGrant" := by
  rw [validateAccessTokenRequest_eq]
  unfold validateAccessTokenRequestSpec
  rw [hacc]
  simp [hid, hgrant, hred]

/-- ... and on the Server router -/
theorem legacyCodeExchange_redirect_exact {now s r a} (hcode : s.provider.store.AuthRequestByCode r.Data.Code = .ok a)
    (hred : r.Data.RedirectURI ≠ a.redirectURI) : ∃ e, LegacyCodeExchange now s r = .error e := by
  rw [legacyCodeExchange_eq]
  unfold legacyCodeExchangeSpec
  rw [hcode]
  simp only [hred]
  split
  · exact ⟨_, rfl⟩
  · split
    · exact ⟨_, rfl⟩
    · simp

example : ("https://rp.example/cb/" : String) ≠ "https://rp.example/cb" ∧ ("HTTPS://rp.example/cb" : String) ≠ "https://rp.example/cb" ∧
    ("https://rp.example/c%62" : String) ≠ "https://rp.example/cb" ∧ ("https://RP.example/cb" : String) ≠ "https://rp.example/cb" := by decide

/-! ## PKCE edge cases, from `verifyCodeChallenge_iff` -/

/-- a `plain` challenge - or a challenge whose method is the empty string (request sent `code_challenge` without
    `code_challenge_method`) or any string other than `S256` - is verified by the verifier itself -/
theorem pkce_plain {now : Int} {ch : CodeChallenge} {v : String} (hm : ch.Method ≠ Const.CodeChallengeMethodS256) :
    VerifyCodeChallenge now (some ch) v = true ↔ ch.Challenge = v := by
  rw [verifyCodeChallenge_iff]
  constructor
  · rintro ⟨c, hc, h⟩
    cases hc
    simpa [hm] using h
  · intro h
    exact ⟨ch, rfl, by simp [hm, h]⟩

/-- an `S256` challenge is verified by exactly the verifiers whose SHA-256 transform it is (symbolic hash: injective) -/
theorem pkce_s256 {now : Int} {ch : CodeChallenge} {v : String} (hm : ch.Method = Const.CodeChallengeMethodS256) :
    VerifyCodeChallenge now (some ch) v = true ↔ ch.Challenge = NewSHACodeChallenge now v := by
  rw [verifyCodeChallenge_iff]
  constructor
  · rintro ⟨c, hc, h⟩
    cases hc
    simpa [hm] using h
  · intro h
    exact ⟨ch, rfl, by simp [hm, h]⟩

/-- no length or character-set rule is applied to the verifier: whatever non-empty string matches is accepted; the EMPTY
    verifier never is, even against an empty `plain` challenge -/
theorem pkce_empty_verifier {now : Int} {ch : Option CodeChallenge} : AuthorizeCodeChallenge now "" ch = .error "ErrInvalidRequest" := by
  cases h : AuthorizeCodeChallenge now "" ch with
  | ok u => cases u; exact absurd rfl (authorizeCodeChallenge_iff.1 h).1
  | error e =>
    rcases authorizeCodeChallenge_err h with ⟨_, he⟩ | ⟨hne, _⟩
    · rw [he]
    · exact absurd rfl hne

/-- a request WITHOUT a challenge: any verifier sent along is refused on the Server router (`invalid_grant`: there is nothing
    it could match), and ignored on the Provider router (`authorizeCodeClientSpec`: PKCE is only looked at when the request
    carried a challenge) - the two routers differ here, neither hands out tokens the property forbids -/
theorem pkce_no_challenge {now : Int} {v : String} : VerifyCodeChallenge now none v = false := by
  cases h : VerifyCodeChallenge now none v
  · rfl
  · obtain ⟨c, hc, _⟩ := verifyCodeChallenge_iff.1 h
    cases hc

example : VerifyCodeChallenge 0 (some { Challenge := "v", Method := "" }) "v" = true := by decide
example : VerifyCodeChallenge 0 (some { Challenge := "v", Method := "plain" }) "V" = false := by decide
example : VerifyCodeChallenge 0 (some { Challenge := "S256(v)", Method := "S256" }) "v" = true := by decide
example : VerifyCodeChallenge 0 (some { Challenge := "S256(v)", Method := "s256" }) "v" = false := by decide
example : AuthorizeCodeChallenge 0 "" (some { Challenge := "", Method := "plain" }) = .error "ErrInvalidRequest" := pkce_empty_verifier

end C04
