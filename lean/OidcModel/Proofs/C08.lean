/-
  C08 proofs over the hand-written resource-endpoint model: honoured => live (for any plaintext a
  presented string decrypts to), deadness is an invariant of every operation, hence revocation and
  logout stick over ALL later histories; inactive introspection is a constant answer.
-/
import OidcModel.Model.Resource
namespace Res

theorem liveTok_some {s : St} {id : String} {t : Tok} (h : liveTok s id = some t) :
    t ∈ s.toks ∧ t.id = id ∧ t.live = true := by
  unfold liveTok lookup at h
  cases hf : s.toks.find? (·.id == id) with
  | none => simp [hf] at h
  | some t' =>
    simp [hf, Option.filter] at h
    obtain ⟨hl, rfl⟩ := h
    exact ⟨List.mem_of_find?_eq_some hf, by simpa using List.find?_some hf, hl⟩

/-- C08 (1): whatever is honoured - userinfo claims, active:true, an accepted exchange subject - belongs
    to a token the storage knows and that is neither expired nor revoked; this holds for ANY plaintext a
    presented string may decrypt to -/
theorem honoured_implies_live (s : St) (op : Op) (id : String) (h : (step s op).2 = some id) :
    ∃ t, t ∈ s.toks ∧ t.id = id ∧ t.live = true := by
  cases op with
  | issue t => simp only [step] at h; split at h <;> simp at h
  | expire i => simp [step] at h
  | revoke c p => simp [step] at h
  | endSession a b => simp [step] at h
  | userinfo p =>
    simp only [step, userinfo] at h
    cases hr : resolve p with
    | none => simp [hr] at h
    | some pr =>
      obtain ⟨i, sub⟩ := pr
      simp only [hr] at h
      cases hl : liveTok s i with
      | none => simp [hl] at h
      | some t =>
        simp [hl] at h; subst h
        exact ⟨t, liveTok_some hl⟩
  | introspect c p =>
    simp only [step, introspect] at h
    cases c with
    | none => simp at h
    | some cid =>
      cases hr : resolve p with
      | none => simp [hr] at h
      | some pr =>
        obtain ⟨i, sub⟩ := pr
        simp only [hr] at h
        cases hl : liveTok s i with
        | none => simp [hl] at h
        | some t =>
          simp only [hl] at h
          by_cases ha : cid ∈ t.audience
          · simp [ha] at h
            obtain ⟨h1, h2, h3⟩ := liveTok_some hl
            exact ⟨t, h1, h, h3⟩
          · simp [ha] at h
  | exchange p =>
    simp only [step, exchangeAccepts] at h
    cases hr : resolve p with
    | none => simp [hr] at h
    | some pr =>
      obtain ⟨i, sub⟩ := pr
      simp only [hr] at h
      cases hl : liveTok s i with
      | none => simp [hl] at h
      | some t =>
        simp [hl] at h; subst h
        exact ⟨t, liveTok_some hl⟩


/-- every token with this id is dead (expired or revoked) -/
def Dead (s : St) (id : String) : Prop := ∀ t, t ∈ s.toks → t.id = id → t.live = false

theorem map_dead {toks : List Tok} {f : Tok → Tok} {id : String}
    (hid : ∀ t, (f t).id = t.id) (hlive : ∀ t, t.live = false → (f t).live = false)
    (h : ∀ t, t ∈ toks → t.id = id → t.live = false) :
    ∀ t, t ∈ toks.map f → t.id = id → t.live = false := by
  intro t ht hti
  simp only [List.mem_map] at ht
  obtain ⟨t0, ht0, rfl⟩ := ht
  exact hlive t0 (h t0 ht0 (by rw [← hid t0]; exact hti))

theorem find_map_isSome (toks : List Tok) (f : Tok → Tok) (id : String) (hid : ∀ t, (f t).id = t.id) :
    ((toks.map f).find? (·.id == id)).isSome = (toks.find? (·.id == id)).isSome := by
  induction toks with
  | nil => rfl
  | cons x xs ih =>
    simp only [List.map_cons, List.find?_cons, hid x]
    cases hx : x.id == id
    · simp only [Bool.false_eq_true, if_false]; exact ih
    · simp

/-- no operation brings a dead token back: deadness is an invariant of every step -/
theorem dead_step (s : St) (op : Op) (id : String) (h : Dead s id) (hknown : (lookup s id).isSome) :
    Dead (step s op).1 id ∧ (lookup (step s op).1 id).isSome := by
  cases op with
  | userinfo p => exact ⟨h, hknown⟩
  | introspect c p => exact ⟨h, hknown⟩
  | exchange p => exact ⟨h, hknown⟩
  | issue t =>
    simp only [step]
    split
    · exact ⟨h, hknown⟩
    · rename_i hnew
      constructor
      · intro x hx hxi
        simp only [List.mem_append, List.mem_singleton] at hx
        rcases hx with hx | rfl
        · exact h x hx hxi
        · -- the new token would have to carry the id of a known token: impossible, ids are unique
          exfalso
          simp only [] at hxi
          rw [hxi] at hnew
          exact hnew hknown
      · unfold lookup at *
        simp only [List.find?_append]
        cases hf : List.find? (fun x => x.id == id) s.toks with
        | none => simp [hf] at hknown
        | some x => simp
  | expire i =>
    simp only [step]
    constructor
    · exact map_dead (fun t => by split <;> rfl) (fun t ht => by split <;> simp_all [Tok.live]) h
    · unfold lookup at *
      simp only []
      rw [find_map_isSome _ _ _ (fun t => by split <;> rfl)]; exact hknown
  | endSession sub cl =>
    simp only [step, terminate]
    constructor
    · exact map_dead (fun t => by split <;> rfl) (fun t ht => by split <;> simp_all [Tok.live]) h
    · unfold lookup at *
      simp only []
      rw [find_map_isSome _ _ _ (fun t => by split <;> rfl)]; exact hknown
  | revoke c p =>
    simp only [step, revoke]
    cases c with
    | none => exact ⟨h, hknown⟩
    | some cid =>
      simp only []
      cases hr : resolve p with
      | none => exact ⟨h, hknown⟩
      | some pr =>
        obtain ⟨i, sub⟩ := pr
        simp only []
        cases hl : lookup s i with
        | none => exact ⟨h, hknown⟩
        | some t =>
          simp only []
          split
          · exact ⟨h, hknown⟩
          · constructor
            · exact map_dead (fun t => by split <;> rfl) (fun t ht => by split <;> simp_all [Tok.live]) h
            · unfold lookup at *
              simp only []
              rw [find_map_isSome _ _ _ (fun t => by split <;> rfl)]; exact hknown

/-- a dead token is never honoured -/
theorem dead_not_honoured (s : St) (op : Op) (id : String) (h : Dead s id) : (step s op).2 ≠ some id := by
  intro hh
  obtain ⟨t, ht, hid, hlive⟩ := honoured_implies_live s op id hh
  have := h t ht hid
  rw [this] at hlive
  cases hlive

/-- C08 (2): revocation and logout take effect everywhere and for good - once a known token is dead,
    NO later history of operations (any length, any order) gets it honoured again -/
theorem revocation_sticks (ops : List Op) (s : St) (id : String) (h : Dead s id) (hknown : (lookup s id).isSome) :
    ∀ o, o ∈ (run s ops).2 → o ≠ some id := by
  induction ops generalizing s with
  | nil => intro o ho; simp [run] at ho
  | cons op rest ih =>
    intro o ho
    simp only [run, List.mem_cons] at ho
    rcases ho with rfl | ho
    · exact dead_not_honoured s op id h
    · obtain ⟨h1, h2⟩ := dead_step s op id h hknown
      exact ih (step s op).1 h1 h2 o ho

/-- a successful revocation by the owning client kills the token -/
theorem revoke_kills (s : St) (cid : String) (p : Presented) (id sub : String) (t : Tok)
    (hr : resolve p = some (id, sub)) (hl : lookup s id = some t) (hown : t.client = cid) :
    (revoke s (some cid) p).2 = .ok ∧ Dead (revoke s (some cid) p).1 id := by
  simp only [revoke, hr, hl, hown, bne_self_eq_false, Bool.false_eq_true, if_false, true_and]
  intro x hx hxi
  simp only [List.mem_map] at hx
  obtain ⟨x0, _, rfl⟩ := hx
  split at hxi <;> split <;> simp_all [Tok.live]

/-- revocation by another client is refused and changes nothing -/
theorem foreign_revoke_refused (s : St) (cid : String) (p : Presented) (id sub : String) (t : Tok)
    (hr : resolve p = some (id, sub)) (hl : lookup s id = some t) (hforeign : t.client ≠ cid) :
    revoke s (some cid) p = (s, .refused) := by
  simp [revoke, hr, hl, hforeign]

/-- unknown or garbage tokens are answered 200 without effect -/
theorem unknown_revoke_ok (s : St) (cid : String) (p : Presented)
    (h : resolve p = none ∨ ∃ id sub, resolve p = some (id, sub) ∧ lookup s id = none) :
    revoke s (some cid) p = (s, .ok) := by
  rcases h with h | ⟨id, sub, h1, h2⟩ <;> simp [revoke, *]

/-- C08 (3): an inactive introspection answer is the constant `inactive` - it carries no field of any token -/
theorem inactive_discloses_nothing (s : St) (c : Option String) (p : Presented) :
    (∃ t, introspect s c p = .active t ∧ t.live = true ∧ (∃ cid, c = some cid ∧ t.audience.contains cid = true))
      ∨ introspect s c p = .inactive ∨ introspect s c p = .unauthorized := by
  unfold introspect
  cases c with
  | none => right; right; rfl
  | some cid =>
    simp only []
    cases hr : resolve p with
    | none => right; left; rfl
    | some pr =>
      obtain ⟨i, sub⟩ := pr
      simp only []
      cases hl : liveTok s i with
      | none => right; left; rfl
      | some t =>
        simp only []
        by_cases ha : cid ∈ t.audience
        · left; exact ⟨t, by simp [ha], (liveTok_some hl).2.2, cid, rfl, by simpa using ha⟩
        · right; left; simp [ha]

/-! non-vacuity -/
def exTok : Tok := { id := "at1", client := "web", subject := "u1", audience := ["web"] }
def exSt : St := { toks := [exTok] }
example : (step exSt (.userinfo (.decrypts "at1:u1"))).2 = some "at1" := by decide
example : (run exSt [.revoke (some "web") (.decrypts "at1:u1"), .userinfo (.decrypts "at1:u1"), .introspect (some "web") (.jwt "at1" "u1")]).2
    = [none, none, none] := by decide
example : (run exSt [.revoke (some "evil") (.decrypts "at1:u1"), .userinfo (.decrypts "at1:u1")]).2 = [none, some "at1"] := by decide

end Res
