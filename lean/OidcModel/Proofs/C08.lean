/-
  C08 proofs.  Everything is about the definitions REGENERATED from pkg/op/userinfo.go, token_intospection.go,
  token_revocation.go, token_exchange.go (getTokenIDAndClaims), op.go (Provider.AccessTokenVerifier) and the LegacyServer
  twins in server_legacy.go (Generated/Resource.lean, namespace `GenRes`), dispatched by Model/ResourceFlow.lean:

  * bridges (`getTokenIDAndSubject_eq`, …, `Userinfo_eq`, `Introspect_eq`, `Revoke_eq`, `LegacyRevocation_eq`): each regenerated function
    IS its hand-readable reference (`resolve`, `refUserinfo`, `refIntrospect`, `refRevoke`) - both routers denote the same function;
  * `honoured_visible` / `honoured_implies_live` — whatever is honoured (userinfo claims, active:true, accepted exchange subject, refresh
                                     grant) is a token the storage knows, unexpired, unrevoked, and shows to calls made under the issuer of the
                                     request - for ANY oracle (any plaintext, any parser);
  * `dead_step` / `revocation_sticks` — deadness of access AND refresh tokens is an invariant of every operation: over ALL histories;
  * `revoke_kills_at` / `revoke_kills_rt` — revocation by the owner kills access and refresh tokens for EVERY token_type_hint (the hint is not
                                     evaluated: a string the storage knows as a refresh token is revoked as one; RFC 7009 §2.1);
  * `foreign_revoke_refused_*`, `unknown_revoke_ok`, `inactive_discloses_nothing`;
  * `c08_issuer_bound`             — a JWT access token is honoured only at the issuer named in it (and only validly signed, unexpired),
                                     for all issuers / hosts;
  * `c08_issuer_bound_stored`      — with a storage that keeps the tenants of a multi-issuer provider apart (records tagged with
                                     `op.IssuerFromContext(ctx)`), a stored token - opaque or JWT access token, refresh token - is honoured only
                                     under the issuer it was created under (`resolve_opaque_ignores_issuer` is a remark: the library's reader of
                                     opaque tokens does not look at the issuer; the binding is the storage's part of the contract);
  * `parseIntrospection_ok`, `parseRevocation_ok` — who may ask.
-/
import OidcModel.Model.ResourceFlow
import OidcModel.Proofs.C01
import OidcModel.Proofs.C02
set_option linter.unusedSimpArgs false
namespace Res
open Go Hand

/-! ### the storage tables -/

theorem lookup_some {s : St} {iss id : String} {t : Tok} (h : s.lookup iss id = some t) :
    t ∈ s.toks ∧ t.id = id ∧ t.gone = false ∧ s.sees iss t.issuer = true := by
  unfold St.lookup at h
  have h1 := List.mem_of_find?_eq_some h
  have h2 := List.find?_some h
  simp only [Bool.and_eq_true, beq_iff_eq, Bool.not_eq_true'] at h2
  exact ⟨h1, h2.1.1, h2.1.2, h2.2⟩

theorem liveTok_some {s : St} {iss id : String} {t : Tok} (h : s.liveTok iss id = some t) :
    t ∈ s.toks ∧ t.id = id ∧ t.live = true ∧ s.sees iss t.issuer = true := by
  unfold St.liveTok at h
  cases hf : s.lookup iss id with
  | none => simp [hf] at h
  | some t' =>
    simp [hf, Option.filter] at h
    obtain ⟨hl, rfl⟩ := h
    exact ⟨(lookup_some hf).1, (lookup_some hf).2.1, hl, (lookup_some hf).2.2.2⟩

theorem lookupR_some {s : St} {iss tok : String} {r : RTok} (h : s.lookupR iss tok = some r) :
    r ∈ s.rtoks ∧ r.token = tok ∧ r.gone = false ∧ s.sees iss r.issuer = true := by
  unfold St.lookupR at h
  have h1 := List.mem_of_find?_eq_some h
  have h2 := List.find?_some h
  simp only [Bool.and_eq_true, beq_iff_eq, Bool.not_eq_true'] at h2
  exact ⟨h1, h2.1.1, h2.1.2, h2.2⟩

theorem liveR_some {s : St} {iss tok : String} {r : RTok} (h : s.liveR iss tok = some r) :
    r ∈ s.rtoks ∧ r.token = tok ∧ r.live = true ∧ s.sees iss r.issuer = true := by
  unfold St.liveR at h
  cases hf : s.lookupR iss tok with
  | none => simp [hf] at h
  | some t' =>
    simp [hf, Option.filter] at h
    obtain ⟨hl, rfl⟩ := h
    exact ⟨(lookupR_some hf).1, (lookupR_some hf).2.1, hl, (lookupR_some hf).2.2.2⟩

/-- a partitioning storage shows a call made under issuer `iss` only the records created under `iss` -/
theorem sees_partitioned {s : St} {iss r : String} (hp : s.partitioned = true) (h : s.sees iss r = true) : r = iss := by
  simpa [St.sees, hp] using h

/-- the token is known to the storage and neither expired, revoked nor removed -/
def Live (s : St) : Ref → Prop
  | .at id => ∃ t, t ∈ s.toks ∧ t.id = id ∧ t.live = true
  | .rt tok => ∃ r, r ∈ s.rtoks ∧ r.token = tok ∧ r.live = true

theorem setUserinfo_ok {s : St} {iss id sub : String} {u : ResUserInfo} (h : s.SetUserinfoFromToken iss id sub = .ok u) :
    ∃ t, s.liveTok iss id = some t ∧ u = { Subject := if t.openid then t.subject else "", tokenID := t.id } := by
  unfold St.SetUserinfoFromToken at h
  split at h
  · rename_i t ht; simp at h; exact ⟨t, ht, h.symm⟩
  · simp at h

theorem setIntrospection_ok {s : St} {resp r : ResIntrospection} {iss id sub cid : String} (h : s.SetIntrospectionFromToken iss resp id sub cid = .ok r) :
    ∃ t, s.liveTok iss id = some t ∧ t.audience.contains cid = true ∧
      r = { resp with Active := true, Subject := t.subject, ClientID := t.client, Audience := t.audience, tokenID := t.id } := by
  unfold St.SetIntrospectionFromToken at h
  split at h
  · rename_i t ht
    split at h
    · rename_i ha; simp at h; exact ⟨t, ht, ha, h.symm⟩
    · simp at h
  · simp at h

/-! ### bridges: the regenerated functions are their reference readings -/

/-- what the regenerated `VerifyAccessToken` demands of a token it accepts -/
theorem opVerifyAccessToken_ok {now : Int} {t : Token} {v : Verifier} {c : Claims} (h : Gen.OPVerifyAccessToken now t v = .ok c) :
    ∃ p c0, ParseToken now t = .ok (p, c0) ∧ c0.iss = v.Issuer ∧ Gen.CheckSignature now t p c0 v.SupportedSignAlgs v.KeySet = .ok c ∧
      Gen.CheckExpiration now c v.Offset = .ok () := by
  unfold Gen.OPVerifyAccessToken Gen.DecryptToken at h
  simp only [] at h
  repeat' (split at h <;> try (simp at h))
  subst h
  exact ⟨_, _, by assumption, C01.checkIssuer_ok.mp (by assumption), by assumption, by assumption⟩

/-- hand-readable meaning of the three regenerated readers of a presented access-token string: an opaque token is whatever
    `Decrypt` makes of it, split on ':' into exactly two parts; otherwise a JWT the request's verifier accepts -/
def resolve (now : Int) (p : ResProvider) (tok : String) : Option (String × String) :=
  match p.decrypt tok with
  | .ok plain =>
    match Hand.resSplit plain ":" with
    | [a, b] => some (a, b)
    | _ => none
  | .error _ =>
    match Gen.OPVerifyAccessToken now (p.tokenOf tok) p.verifier with
    | .ok c => some (p.jtiOf tok, c.sub)
    | .error _ => none

def resolved : Option (String × String) → String × String × Bool
  | some (a, b) => (a, b, true)
  | none => ("", "", false)

theorem split_cases (l : List String) : (∃ a b, l = [a, b]) ∨ ((Go.len l != (2 : Int)) = true ∧ ∀ a b, l ≠ [a, b]) := by
  match l with
  | [] => right; simp [Go.len, HasLen.len]
  | [a] => right; simp [Go.len, HasLen.len]
  | [a, b] => left; exact ⟨a, b, rfl⟩
  | a :: b :: c :: r => right; simp [Go.len, HasLen.len]; omega

theorem getTokenIDAndSubject_eq (now : Int) (p : ResProvider) (tok : String) :
    GenRes.getTokenIDAndSubject now p tok = resolved (resolve now p tok) := by
  unfold GenRes.getTokenIDAndSubject resolve ResProvider.Crypto ResProvider.AccessTokenVerifier Hand.resVerifyAccessToken
  simp only []
  cases hd : p.decrypt tok with
  | ok plain =>
    simp only []
    rcases split_cases (Hand.resSplit plain ":") with ⟨a, b, h⟩ | ⟨h1, h2⟩
    · simp [h, Go.len, HasLen.len, Go.index, resolved]
    · -- (either shape of the guard: `if len != 2 then refuse else …` or `if len == 2 then … else refuse`)
      have h1' : (Go.len (Hand.resSplit plain ":") == (2 : Int)) = false := by simpa [bne] using h1
      first | rw [if_pos h1] | rw [if_neg (by rw [h1']; exact Bool.false_ne_true)]
      split <;> simp_all [resolved]
  | error e =>
    simp only []
    cases hv : Gen.OPVerifyAccessToken now (p.tokenOf tok) p.verifier <;> simp [resolved]

/-- the regenerated `revocationKeySet.verifier`: the provider's verifier for the request comes back with ALL its settings (issuer,
    supported signing algorithms, offsets) and a key set that verifies as its own -/
theorem revocationKeySetVerifier_eq (now : Int) (k : ResRevocationKeys) (v : Verifier) : GenRes.revocationKeySetVerifier now k v = v := by
  unfold GenRes.revocationKeySetVerifier; cases v; rfl

theorem getTokenIDAndSubjectForRevocation_eq (now : Int) (p : ResProvider) (tok : String) :
    GenRes.getTokenIDAndSubjectForRevocation now p tok = .ok (resolved (resolve now p tok)) := by
  unfold GenRes.getTokenIDAndSubjectForRevocation resolve ResProvider.Crypto ResProvider.AccessTokenVerifier Hand.resVerifyAccessToken
  simp only []
  cases hd : p.decrypt tok with
  | ok plain =>
    simp only []
    rcases split_cases (Hand.resSplit plain ":") with ⟨a, b, h⟩ | ⟨h1, h2⟩
    · simp [h, Go.len, HasLen.len, Go.index, resolved]
    · -- (either shape of the guard: `if len != 2 then refuse else …` or `if len == 2 then … else refuse`)
      have h1' : (Go.len (Hand.resSplit plain ":") == (2 : Int)) = false := by simpa [bne] using h1
      first | rw [if_pos h1] | rw [if_neg (by rw [h1']; exact Bool.false_ne_true)]
      split <;> simp_all [resolved]
  | error e =>
    -- the key-set recorder of the revocation reader hands the verifier on unchanged and never holds an error in this model
    simp only [revocationKeySetVerifier_eq]
    cases hv : Gen.OPVerifyAccessToken now (p.tokenOf tok) p.verifier <;>
      simp [resolved, Go.notNil, Go.Nilable.isNil, show (default : ResRevocationKeys).err.isSet = false from rfl]

/-- `getTokenIDAndClaims` (token exchange): the same decision, plus the claims of a JWT -/
theorem getTokenIDAndClaims_eq (now : Int) (p : ResProvider) (tok : String) :
    ((GenRes.getTokenIDAndClaims now p tok).1, (GenRes.getTokenIDAndClaims now p tok).2.1, (GenRes.getTokenIDAndClaims now p tok).2.2.2)
      = resolved (resolve now p tok) := by
  unfold GenRes.getTokenIDAndClaims resolve ResProvider.Crypto ResProvider.AccessTokenVerifier Hand.resVerifyAccessToken
  simp only []
  cases hd : p.decrypt tok with
  | ok plain =>
    simp only []
    rcases split_cases (Hand.resSplit plain ":") with ⟨a, b, h⟩ | ⟨h1, h2⟩
    · simp [h, Go.len, HasLen.len, Go.index, resolved]
    · -- (either shape of the guard: `if len != 2 then refuse else …` or `if len == 2 then … else refuse`)
      have h1' : (Go.len (Hand.resSplit plain ":") == (2 : Int)) = false := by simpa [bne] using h1
      first | rw [if_pos h1] | rw [if_neg (by rw [h1']; exact Bool.false_ne_true)]
      split <;> simp_all [resolved]
  | error e =>
    simp only []
    cases hv : Gen.OPVerifyAccessToken now (p.tokenOf tok) p.verifier <;> simp [resolved]

/-- reference reading of `op.Userinfo` -/
def refUserinfo (now : Int) (p : ResProvider) (rq : Go.R String) : ResResp :=
  match rq with
  | .error _ => .httpError "access token missing" 401
  | .ok tok =>
    match resolve now p tok with
    | none => .httpError "access token invalid" 401
    | some (id, sub) =>
      match p.store.SetUserinfoFromToken p.ctxIssuer id sub with
      | .error err => .jsonError err 403
      | .ok info => .userinfo info

theorem Userinfo_eq (now : Int) (rq : Go.R String) (p : ResProvider) : GenRes.Userinfo now rq p = refUserinfo now p rq := by
  unfold GenRes.Userinfo refUserinfo Hand.resParseUserinfoRequest ResProvider.Storage View.SetUserinfoFromToken
  cases rq with
  | error e => rfl
  | ok tok =>
    simp only [getTokenIDAndSubject_eq]
    cases resolve now p tok with
    | none => simp [resolved]
    | some pr => obtain ⟨id, sub⟩ := pr; simp only [resolved]; cases p.store.SetUserinfoFromToken p.ctxIssuer id sub <;> simp

/-- reference reading of `LegacyServer.UserInfo` -/
def refLegacyUserInfo (now : Int) (p : ResProvider) (tok : String) : Go.R ResUserInfo :=
  match resolve now p tok with
  | none => .error "401:ErrAccessDenied"
  | some (id, sub) =>
    match p.store.SetUserinfoFromToken p.ctxIssuer id sub with
    | .error err => .error ("403:" ++ err)
    | .ok info => .ok info

theorem LegacyUserInfo_eq (now : Int) (p : ResProvider) (r : ResRequest) :
    GenRes.LegacyUserInfo now ⟨p⟩ r = refLegacyUserInfo now p r.Data.AccessToken := by
  unfold GenRes.LegacyUserInfo refLegacyUserInfo ResProvider.Storage View.SetUserinfoFromToken Hand.NewResponse Hand.resNewStatusError
  simp only [getTokenIDAndSubject_eq]
  cases resolve now p r.Data.AccessToken with
  | none => simp [resolved]
  | some pr => obtain ⟨id, sub⟩ := pr; simp only [resolved]; cases p.store.SetUserinfoFromToken p.ctxIssuer id sub <;> simp

/-- reference reading of `op.Introspect` / `LegacyServer.Introspect`: the response stays zero-valued unless the storage confirms -/
def refIntrospect (now : Int) (p : ResProvider) (tok cid : String) : ResIntrospection :=
  match resolve now p tok with
  | none => default
  | some (id, sub) =>
    match p.store.SetIntrospectionFromToken p.ctxIssuer default id sub cid with
    | .error _ => default
    | .ok r => { r with Active := true }

theorem Introspect_eq (now : Int) (rq : Go.R (String × String)) (p : ResProvider) :
    GenRes.Introspect now rq p = match rq with
      | .error err => .httpError err 401
      | .ok (tok, cid) => .introspection (refIntrospect now p tok cid) := by
  unfold GenRes.Introspect refIntrospect Hand.resParseTokenIntrospectionRequest ResProvider.Storage View.SetIntrospectionFromToken
  cases rq with
  | error e => rfl
  | ok pr =>
    obtain ⟨tok, cid⟩ := pr
    simp only [getTokenIDAndSubject_eq]
    cases resolve now p tok with
    | none => simp [resolved]
    | some pr => obtain ⟨id, sub⟩ := pr; simp only [resolved]; cases p.store.SetIntrospectionFromToken p.ctxIssuer default id sub cid <;> simp

theorem LegacyIntrospect_eq (now : Int) (p : ResProvider) (r : ResRequest) :
    GenRes.LegacyIntrospect now ⟨p⟩ r = match r.Data.ClientCredentials with
      | .error err => .error err
      | .ok cid => .ok (refIntrospect now p r.Data.Token cid) := by
  unfold GenRes.LegacyIntrospect refIntrospect Hand.resAuthenticateResourceClient ResProvider.Storage View.SetIntrospectionFromToken Hand.NewResponse
  cases r.Data.ClientCredentials with
  | error e => rfl
  | ok cid =>
    simp only [getTokenIDAndSubject_eq]
    cases resolve now p r.Data.Token with
    | none => simp [resolved]
    | some pr => obtain ⟨id, sub⟩ := pr; simp only [resolved]; cases p.store.SetIntrospectionFromToken p.ctxIssuer default id sub cid <;> simp

/-- what the revocation handlers make of the submitted string when they treat it as an ACCESS token: its id and subject if it
    decrypts / verifies, else the raw string itself, so that the storage can still find a refresh token (RFC 7009 §2.1: a wrong
    hint must not stop the search) -/
def asAccess (now : Int) (p : ResProvider) (tok : String) : String × String :=
  match resolve now p tok with
  | some (id, sub) => (id, sub)
  | none => (tok, "")

/-- the (token, subject) pair handed to `Storage.RevokeToken` (error: the refresh-token lookup failed for another reason).  The
    token_type_hint plays no part (RFC 7009 §2.1): a string the storage knows as a refresh token is revoked as one, anything else as the
    access token it resolves to, else as the raw string -/
def revokeTarget (now : Int) (p : ResProvider) (w : ResWorld) (tok cid : String) : Go.R (String × String) :=
  match w.GetRefreshTokenInfo cid tok with
  | .ok (uid, tid) => .ok (tid, uid)
  | .error err => if !(Hand.resErrorsIs err "ErrInvalidRefreshToken") then .error "ErrServerError" else .ok (asAccess now p tok)

/-- reference reading of both revocation handlers -/
def refRevoke (now : Int) (p : ResProvider) (w : ResWorld) (tok cid : String) : ResWorld × Go.R Unit :=
  match revokeTarget now p w tok cid with
  | .error e => (w, .error e)
  | .ok (t, sub) => w.RevokeToken t sub cid

theorem Revoke_eq (now : Int) (rq : Go.R (String × String × String)) (w : ResWorld) (p : ResProvider) :
    GenRes.Revoke now rq w p = match rq with
      | .error err => Hand.resRevocationRequestError w err
      | .ok (tok, _hint, cid) =>
        match refRevoke now p w tok cid with
        | (w', .error err) => Hand.resRevocationRequestError w' err
        | (w', .ok _) => Hand.resMarshalJSON w' .empty := by
  unfold GenRes.Revoke refRevoke revokeTarget asAccess Hand.resParseTokenRevocationRequest
  cases rq with
  | error e => rfl
  | ok pr =>
    obtain ⟨tok, hint, cid⟩ := pr
    simp only [getTokenIDAndSubjectForRevocation_eq]
    cases hg : w.GetRefreshTokenInfo cid tok with
    | error err =>
      simp only []
      by_cases he : (!(Hand.resErrorsIs err "ErrInvalidRefreshToken")) = true
      · simp [he]
      · simp only [he, if_false, if_true]
        cases hr : resolve now p tok with
        | none => simp only [resolved]; cases hk : w.RevokeToken tok "" cid with | mk w' r => cases r <;> simp [hk]
        | some pr => obtain ⟨id, sub⟩ := pr; simp only [resolved]; cases hk : w.RevokeToken id sub cid with | mk w' r => cases r <;> simp [hk]
    | ok pr =>
      obtain ⟨uid, tid⟩ := pr
      simp only []
      cases hk : w.RevokeToken tid uid cid with | mk w' r => cases r <;> simp [hk]

theorem LegacyRevocation_eq (now : Int) (w : ResWorld) (p : ResProvider) (r : ResClientRequest) :
    GenRes.LegacyRevocation now w ⟨p⟩ r =
      match refRevoke now p w r.Data.Token r.Client.id with
      | (w', .error err) => (w', .error err)
      | (w', .ok _) => (w', .ok .empty) := by
  unfold GenRes.LegacyRevocation refRevoke revokeTarget asAccess Hand.resRevocationError Hand.NewResponse OPClient.GetID
  simp only [getTokenIDAndSubjectForRevocation_eq]
  cases hg : w.GetRefreshTokenInfo r.Client.id r.Data.Token with
  | error err =>
    simp only []
    by_cases he : (!(Hand.resErrorsIs err "ErrInvalidRefreshToken")) = true
    · simp [he]
    · simp only [he, if_false, if_true]
      cases hr : resolve now p r.Data.Token with
      | none => simp only [resolved]; cases hk : w.RevokeToken r.Data.Token "" r.Client.id with | mk w' x => cases x <;> simp [hk]
      | some pr => obtain ⟨id, sub⟩ := pr; simp only [resolved]; cases hk : w.RevokeToken id sub r.Client.id with | mk w' x => cases x <;> simp [hk]
  | ok pr =>
    obtain ⟨uid, tid⟩ := pr
    simp only []
    cases hk : w.RevokeToken tid uid r.Client.id with | mk w' x => cases x <;> simp [hk]

/-! ### the endpoints of BOTH routers, read through the bridges -/

theorem userinfo_spec (rt : Router) (atp : ResATProvider) (e : Env) (s : St) (tok : String) :
    userinfo rt atp e s tok =
      match resolve e.now (provider atp e s) tok with
      | none => .refused 401
      | some (id, sub) =>
        match s.SetUserinfoFromToken e.issuer id sub with
        | .ok u => .claims u
        | .error _ => .refused 403 := by
  cases rt with
  | provider =>
    simp only [userinfo, Userinfo_eq, refUserinfo]
    cases resolve e.now (provider atp e s) tok with
    | none => rfl
    | some pr => obtain ⟨id, sub⟩ := pr; simp only [provider]; cases s.SetUserinfoFromToken e.issuer id sub <;> rfl
  | legacy =>
    simp only [userinfo, LegacyUserInfo_eq, refLegacyUserInfo]
    cases resolve e.now (provider atp e s) tok with
    | none => simp [Go.hasPrefix]
    | some pr =>
      obtain ⟨id, sub⟩ := pr; simp only [provider]
      cases s.SetUserinfoFromToken e.issuer id sub with
      | ok u => rfl
      | error err =>
        simp only [Go.hasPrefix]
        have : ("401:".toList.isPrefixOf ("403:" ++ err).toList) = false := by
          simp [String.toList_append, List.isPrefixOf]
        simp [this]

theorem introspect_spec (rt : Router) (atp : ResATProvider) (e : Env) (s : St) (caller : Option String) (tok : String) :
    introspect rt atp e s caller tok =
      match caller with
      | none => .unauthorized
      | some c => .answer (refIntrospect e.now (provider atp e s) tok c) := by
  cases rt <;> cases caller <;> simp [introspect, Introspect_eq, LegacyIntrospect_eq, callerR, Except.map]

theorem revokeToken_out (w : ResWorld) (a b c : String) : (w.RevokeToken a b c).1.out = w.out := by
  unfold ResWorld.RevokeToken; split <;> rfl

/-- the world a revocation request of `e` runs in: the storage, seen under the issuer of the request -/
def worldOf (e : Env) (s : St) : ResWorld := { store := s, ctxIssuer := e.issuer, faults := e.faults }

theorem revoke_spec (rt : Router) (atp : ResATProvider) (e : Env) (s : St) (caller : Option String) (hint tok : String) :
    revoke rt atp e s caller hint tok =
      match caller with
      | none => (s, .refused)
      | some c =>
        match refRevoke e.now (provider atp e s) (worldOf e s) tok c with
        | (w, .ok _) => (w.store, .ok)
        | (w, .error _) => (w.store, .refused) := by
  have hout : ∀ c, (refRevoke e.now (provider atp e s) (worldOf e s) tok c).1.out = [] := by
    intro c
    unfold refRevoke
    split
    · rfl
    · rw [revokeToken_out]; rfl
  cases rt with
  | provider =>
    cases caller with
    | none => simp [revoke, Revoke_eq, callerR, Except.map, Hand.resRevocationRequestError]
    | some c =>
      simp only [revoke, Revoke_eq, callerR, Except.map]
      have := hout c
      unfold worldOf at this ⊢
      cases hr : refRevoke e.now (provider atp e s) { store := s, ctxIssuer := e.issuer, faults := e.faults } tok c with
      | mk w x =>
        rw [hr] at this
        cases x <;> simp_all [Hand.resRevocationRequestError, Hand.resMarshalJSON]
  | legacy =>
    cases caller with
    | none => rfl
    | some c =>
      simp only [revoke, LegacyRevocation_eq, worldOf]
      cases hr : refRevoke e.now (provider atp e s) { store := s, ctxIssuer := e.issuer, faults := e.faults } tok c with
      | mk w x => cases x <;> simp

/-- the two shapes of an introspection answer: the zero value, or the fields of a LIVE token whose audience contains the caller -/
theorem refIntrospect_cases (now : Int) (p : ResProvider) (tok cid : String) :
    refIntrospect now p tok cid = default ∨
      ∃ id sub t, resolve now p tok = some (id, sub) ∧ p.store.liveTok p.ctxIssuer id = some t ∧ t.audience.contains cid = true ∧
        refIntrospect now p tok cid = { Active := true, Subject := t.subject, ClientID := t.client, Audience := t.audience, tokenID := t.id } := by
  unfold refIntrospect
  cases hr : resolve now p tok with
  | none => left; rfl
  | some pr =>
    obtain ⟨id, sub⟩ := pr
    simp only []
    cases hs : p.store.SetIntrospectionFromToken p.ctxIssuer default id sub cid with
    | error err => left; rfl
    | ok r =>
      right
      obtain ⟨t, ht, ha, rfl⟩ := setIntrospection_ok hs
      exact ⟨id, sub, t, rfl, ht, ha, rfl⟩

/-! ### (1) honoured ⇒ live, and created under the issuer of the request -/

/-- the issuer a request that may honour a token is addressed to -/
def requestIssuer : Op → Option String
  | .userinfo _ e _ => some e.issuer
  | .introspect _ e _ _ => some e.issuer
  | .exchange e _ _ => some e.issuer
  | .refresh e _ => some e.issuer
  | _ => none

/-- the token is live and the storage shows it to calls made under issuer `iss` -/
def VisibleLive (s : St) (iss : String) : Ref → Prop
  | .at id => ∃ t, t ∈ s.toks ∧ t.id = id ∧ t.live = true ∧ s.sees iss t.issuer = true
  | .rt tok => ∃ r, r ∈ s.rtoks ∧ r.token = tok ∧ r.live = true ∧ s.sees iss r.issuer = true

/-- the refresh-token lookup of a request answers only for a live token the storage shows under the request's issuer - and not
    at all while the storage call fails -/
theorem tokenRequest_ok {e : Env} {s : St} {tok : String} {r : RTok} (h : tokenRequestByRefreshToken e s tok = .ok r) :
    s.liveR e.issuer tok = some r := by
  unfold tokenRequestByRefreshToken St.TokenRequestByRefreshToken at h
  split at h
  · simp at h
  · cases hl : s.liveR e.issuer tok with
    | none => simp [hl] at h
    | some r' => simp [hl] at h; rw [h]

theorem honoured_visible (atp : ResATProvider) (s : St) (op : Op) (x : Ref) (h : (step atp s op).2 = some x) :
    ∃ iss, requestIssuer op = some iss ∧ VisibleLive s iss x := by
  cases op with
  | issue t r => simp only [step] at h; split at h <;> simp at h
  | expire y => cases y <;> simp [step] at h
  | revoke rt e c hint tok => simp [step] at h
  | endSession i a b => simp [step] at h
  | userinfo rt e tok =>
    refine ⟨e.issuer, rfl, ?_⟩
    simp only [step, userinfo_spec] at h
    cases hr : resolve e.now (provider atp e s) tok with
    | none => simp [hr] at h
    | some pr =>
      obtain ⟨id, sub⟩ := pr
      cases hs : s.SetUserinfoFromToken e.issuer id sub with
      | error err => simp [hr, hs] at h
      | ok u =>
        simp [hr, hs] at h; subst h
        obtain ⟨t, ht, rfl⟩ := setUserinfo_ok hs
        exact ⟨t, (liveTok_some ht).1, rfl, (liveTok_some ht).2.2.1, (liveTok_some ht).2.2.2⟩
  | introspect rt e c tok =>
    refine ⟨e.issuer, rfl, ?_⟩
    simp only [step, introspect_spec] at h
    cases c with
    | none => simp at h
    | some cid =>
      simp only [] at h
      rcases refIntrospect_cases e.now (provider atp e s) tok cid with h0 | ⟨id, sub, t, _, ht, _, h1⟩
      · rw [h0] at h; have hd : (default : ResIntrospection).Active = false := rfl
        simp [hd] at h
      · rw [h1] at h; simp at h; subst h
        have ht' : s.liveTok e.issuer id = some t := ht
        exact ⟨t, (liveTok_some ht').1, rfl, (liveTok_some ht').2.2.1, (liveTok_some ht').2.2.2⟩
  | exchange e asRefresh tok =>
    refine ⟨e.issuer, rfl, ?_⟩
    simp only [step, exchange] at h
    split at h
    · cases hq : tokenRequestByRefreshToken e s tok with
      | error err => simp [hq] at h
      | ok r =>
        simp [hq] at h; subst h
        have hl := tokenRequest_ok hq
        exact ⟨r, (liveR_some hl).1, rfl, (liveR_some hl).2.2.1, (liveR_some hl).2.2.2⟩
    · split at h
      · rename_i id _ _ _
        cases hl : s.liveTok e.issuer id with
        | none => simp [hl] at h
        | some t => simp [hl] at h; subst h; exact ⟨t, (liveTok_some hl).1, rfl, (liveTok_some hl).2.2.1, (liveTok_some hl).2.2.2⟩
      · simp at h
  | refresh e tok =>
    refine ⟨e.issuer, rfl, ?_⟩
    simp only [step] at h
    cases hq : tokenRequestByRefreshToken e s tok with
    | error err => simp [hq] at h
    | ok r =>
      simp [hq] at h; subst h
      have hl := tokenRequest_ok hq
      exact ⟨r, (liveR_some hl).1, rfl, (liveR_some hl).2.2.1, (liveR_some hl).2.2.2⟩

/-- C08 (1): whatever is honoured - userinfo claims, active:true, an accepted exchange subject (access or refresh token), a
    refresh grant - belongs to a token the storage knows that is neither expired, revoked nor removed; on both routers, for ANY
    oracle behaviour (any plaintext a presented string decrypts to, any parser outcome) -/
theorem honoured_implies_live (atp : ResATProvider) (s : St) (op : Op) (x : Ref) (h : (step atp s op).2 = some x) : Live s x := by
  obtain ⟨iss, _, hv⟩ := honoured_visible atp s op x h
  cases x with
  | «at» id => obtain ⟨t, h1, h2, h3, _⟩ := hv; exact ⟨t, h1, h2, h3⟩
  | rt tok => obtain ⟨t, h1, h2, h3, _⟩ := hv; exact ⟨t, h1, h2, h3⟩

/-- the live record of the token was created under issuer `iss` -/
def CreatedUnder (s : St) (iss : String) : Ref → Prop
  | .at id => ∃ t, t ∈ s.toks ∧ t.id = id ∧ t.live = true ∧ t.issuer = iss
  | .rt tok => ∃ r, r ∈ s.rtoks ∧ r.token = tok ∧ r.live = true ∧ r.issuer = iss

/-- C08 (1b): with a storage that keeps the tenants of a multi-issuer provider apart, a STORED token (opaque or JWT access token,
    refresh token) is honoured - at userinfo, introspection, token exchange, the refresh grant, on either router - only under the issuer
    it was created under: for all issuers, all oracles, all states -/
theorem c08_issuer_bound_stored (atp : ResATProvider) (s : St) (op : Op) (x : Ref) (iss : String) (hp : s.partitioned = true)
    (hi : requestIssuer op = some iss) (h : (step atp s op).2 = some x) : CreatedUnder s iss x := by
  obtain ⟨iss', hi', hv⟩ := honoured_visible atp s op x h
  rw [hi] at hi'; cases hi'
  cases x with
  | «at» id => obtain ⟨t, h1, h2, h3, h4⟩ := hv; exact ⟨t, h1, h2, h3, sees_partitioned hp h4⟩
  | rt tok => obtain ⟨t, h1, h2, h3, h4⟩ := hv; exact ⟨t, h1, h2, h3, sees_partitioned hp h4⟩

/-! ### (2) deadness is an invariant of every operation -/

/-- every record with this id / token string is dead (expired, revoked or removed) -/
def Dead (s : St) : Ref → Prop
  | .at id => ∀ t, t ∈ s.toks → t.id = id → t.live = false
  | .rt tok => ∀ r, r ∈ s.rtoks → r.token = tok → r.live = false

/-- the storage has handed out this id / token string at some time -/
def Known (s : St) : Ref → Prop
  | .at id => ∃ t, t ∈ s.toks ∧ t.id = id
  | .rt tok => ∃ r, r ∈ s.rtoks ∧ r.token = tok

/-- `s'` arises from `s` by rewriting records in place without changing their names and without reviving any -/
structure Rewrites (s s' : St) : Prop where
  toks : ∃ f : Tok → Tok, s'.toks = s.toks.map f ∧ (∀ t, (f t).id = t.id) ∧ (∀ t, t.live = false → (f t).live = false)
  rtoks : ∃ g : RTok → RTok, s'.rtoks = s.rtoks.map g ∧ (∀ r, (g r).token = r.token) ∧ (∀ r, r.live = false → (g r).live = false)

theorem Rewrites.refl (s : St) : Rewrites s s :=
  ⟨⟨id, by simp, fun _ => rfl, fun _ h => h⟩, ⟨id, by simp, fun _ => rfl, fun _ h => h⟩⟩

theorem Rewrites.dead {s s' : St} (h : Rewrites s s') (x : Ref) (hd : Dead s x) (hk : Known s x) : Dead s' x ∧ Known s' x := by
  obtain ⟨⟨f, hf, hfid, hflive⟩, ⟨g, hg, hgid, hglive⟩⟩ := h
  cases x with
  | «at» id =>
    constructor
    · intro t ht hti
      rw [hf, List.mem_map] at ht
      obtain ⟨t0, ht0, rfl⟩ := ht
      exact hflive t0 (hd t0 ht0 (by rw [← hfid t0]; exact hti))
    · obtain ⟨t, ht, hti⟩ := hk
      exact ⟨f t, by rw [hf]; exact List.mem_map_of_mem ht, by rw [hfid]; exact hti⟩
  | rt tok =>
    constructor
    · intro r hr hri
      rw [hg, List.mem_map] at hr
      obtain ⟨r0, hr0, rfl⟩ := hr
      exact hglive r0 (hd r0 hr0 (by rw [← hgid r0]; exact hri))
    · obtain ⟨r, hr, hri⟩ := hk
      exact ⟨g r, by rw [hg]; exact List.mem_map_of_mem hr, by rw [hgid]; exact hri⟩

theorem killTok_id (i : String) (t : Tok) : (killTok i t).id = t.id := by unfold killTok; split <;> rfl
theorem killTok_live (i : String) (t : Tok) (h : t.live = false) : (killTok i t).live = false := by
  unfold killTok; split <;> simp_all [Tok.live]
theorem dropR_token (i : String) (r : RTok) : (dropR i r).token = r.token := by unfold dropR; split <;> rfl
theorem dropR_live (i : String) (r : RTok) (h : r.live = false) : (dropR i r).live = false := by
  unfold dropR; split <;> simp_all [RTok.live]

theorem revokeToken_rewrites (s : St) (i a b c : String) : Rewrites s (s.RevokeToken i a b c).1 := by
  unfold St.RevokeToken
  split
  · split
    · exact Rewrites.refl s
    · exact ⟨⟨killTok a, rfl, killTok_id a, killTok_live a⟩, ⟨id, by simp, fun _ => rfl, fun _ h => h⟩⟩
  · split
    · exact Rewrites.refl s
    · split
      · exact Rewrites.refl s
      · rename_i r _ _
        exact ⟨⟨killTok r.access, rfl, killTok_id _, killTok_live _⟩, ⟨dropR a, rfl, dropR_token a, dropR_live a⟩⟩

theorem refRevoke_rewrites (now : Int) (p : ResProvider) (e : Env) (s : St) (tok cid : String) :
    Rewrites s (refRevoke now p (worldOf e s) tok cid).1.store := by
  unfold refRevoke
  split
  · exact Rewrites.refl s
  · rename_i t sub _
    unfold ResWorld.RevokeToken worldOf
    split
    · exact Rewrites.refl s
    · exact revokeToken_rewrites s e.issuer t sub cid

theorem revoke_rewrites (rt : Router) (atp : ResATProvider) (e : Env) (s : St) (c : Option String) (hint tok : String) :
    Rewrites s (revoke rt atp e s c hint tok).1 := by
  rw [revoke_spec]
  cases c with
  | none => exact Rewrites.refl s
  | some cid =>
    simp only []
    have := refRevoke_rewrites e.now (provider atp e s) e s tok cid
    cases hr : refRevoke e.now (provider atp e s) (worldOf e s) tok cid with
    | mk w x => rw [hr] at this; cases x <;> exact this

theorem terminate_rewrites (s : St) (i sub cl : String) : Rewrites s (s.TerminateSession i sub cl) :=
  ⟨⟨_, rfl, fun t => by split <;> rfl, fun t h => by split <;> simp_all [Tok.live]⟩,
   ⟨_, rfl, fun r => by split <;> rfl, fun r h => by split <;> simp_all [RTok.live]⟩⟩

theorem rotate_rewrites (s : St) (i tok : String) : Rewrites s (s.rotate i tok) := by
  unfold St.rotate
  split
  · exact Rewrites.refl s
  · exact ⟨⟨_, rfl, fun t => by split <;> rfl, fun t h => by split <;> simp_all [Tok.live]⟩, ⟨dropR tok, rfl, dropR_token tok, dropR_live tok⟩⟩

/-- no operation brings a dead token back: deadness (of access and refresh tokens alike) is an invariant of every step -/
theorem dead_step (atp : ResATProvider) (s : St) (op : Op) (x : Ref) (h : Dead s x) (hk : Known s x) :
    Dead (step atp s op).1 x ∧ Known (step atp s op).1 x := by
  cases op with
  | userinfo rt e tok => exact ⟨h, hk⟩
  | introspect rt e c tok => exact ⟨h, hk⟩
  | exchange e a tok => exact ⟨h, hk⟩
  | revoke rt e c hint tok => exact (revoke_rewrites rt atp e s c hint tok).dead x h hk
  | endSession i sub cl => exact (terminate_rewrites s i sub cl).dead x h hk
  | refresh e tok =>
    simp only [step]
    split
    · exact (rotate_rewrites s e.issuer tok).dead x h hk
    · exact ⟨h, hk⟩
  | expire y =>
    cases y with
    | «at» i =>
      exact (show Rewrites s _ from ⟨⟨_, rfl, fun t => by split <;> rfl, fun t h => by split <;> simp_all [Tok.live]⟩,
        ⟨id, by simp [step], fun _ => rfl, fun _ h => h⟩⟩).dead x h hk
    | rt i =>
      exact (show Rewrites s _ from ⟨⟨id, by simp [step], fun _ => rfl, fun _ h => h⟩,
        ⟨_, rfl, fun t => by split <;> rfl, fun t h => by split <;> simp_all [RTok.live]⟩⟩).dead x h hk
  | issue t r =>
    simp only [step]
    split
    · rename_i hfresh
      simp only [freshIDs, Bool.and_eq_true, Bool.not_eq_true', List.any_eq_false, beq_iff_eq] at hfresh
      -- a new record would have to carry the name of a known one: impossible, names are fresh
      cases x with
      | «at» i =>
        obtain ⟨t0, ht0, hti⟩ := hk
        refine ⟨?_, ⟨t0, by simp [ht0], hti⟩⟩
        intro y hy hyi
        simp only [List.mem_append, List.mem_singleton] at hy
        rcases hy with hy | rfl
        · exact h y hy hyi
        · exfalso; simp only [] at hyi; exact hfresh.1 t0 ht0 (by rw [hti, hyi])
      | rt i =>
        obtain ⟨r0, hr0, hri⟩ := hk
        refine ⟨?_, ⟨r0, by simp [hr0], hri⟩⟩
        intro y hy hyi
        simp only [List.mem_append] at hy
        rcases hy with hy | hy
        · exact h y hy hyi
        · exfalso
          cases r with
          | none => simp at hy
          | some r1 =>
            simp only [List.mem_singleton] at hy; subst hy
            simp only [List.any_eq_false, beq_iff_eq, Bool.not_eq_true'] at hfresh
            exact hfresh.2 r0 hr0 (by rw [hri, ← hyi])
    · exact ⟨h, hk⟩

/-- a dead token is never honoured -/
theorem dead_not_honoured (atp : ResATProvider) (s : St) (op : Op) (x : Ref) (h : Dead s x) : (step atp s op).2 ≠ some x := by
  intro hh
  have hl := honoured_implies_live atp s op x hh
  cases x with
  | «at» i => obtain ⟨t, ht, hi, hlive⟩ := hl; rw [h t ht hi] at hlive; cases hlive
  | rt i => obtain ⟨t, ht, hi, hlive⟩ := hl; rw [h t ht hi] at hlive; cases hlive

/-- C08 (2): revocation and logout take effect everywhere and for good - once a known access OR refresh token is dead, NO later
    history of operations (any length, any order, either router, any issuer, any oracle behaviour) gets it honoured again -/
theorem revocation_sticks (atp : ResATProvider) (ops : List Op) (s : St) (x : Ref) (h : Dead s x) (hk : Known s x) :
    ∀ o, o ∈ (run atp s ops).2 → o ≠ some x := by
  induction ops generalizing s with
  | nil => intro o ho; simp [run] at ho
  | cons op rest ih =>
    intro o ho
    simp only [run, List.mem_cons] at ho
    rcases ho with rfl | ho
    · exact dead_not_honoured atp s op x h
    · obtain ⟨h1, h2⟩ := dead_step atp s op x h hk
      exact ih (step atp s op).1 h1 h2 o ho

/-! ### (3) revocation: by the owner (every hint), by a foreign client, of unknown strings -/

/-- none of the storage calls of the revocation handlers fails while the request of `e` is served -/
def NoRevocationFault (e : Env) : Prop := e.faults.contains "RevokeToken" = false ∧ e.faults.contains "GetRefreshTokenInfo" = false

theorem NoRevocationFault.rt {e : Env} (h : NoRevocationFault e) : ¬ "RevokeToken" ∈ e.faults := by simpa using h.1
theorem NoRevocationFault.gi {e : Env} (h : NoRevocationFault e) : ¬ "GetRefreshTokenInfo" ∈ e.faults := by simpa using h.2

theorem getRefreshTokenInfo_none {e : Env} {s : St} {cid tok : String} (hf : NoRevocationFault e) (h : s.lookupR e.issuer tok = none) :
    (worldOf e s).GetRefreshTokenInfo cid tok = .error "ErrInvalidRefreshToken" := by
  simp [worldOf, ResWorld.GetRefreshTokenInfo, St.GetRefreshTokenInfo, h, hf.gi]

theorem getRefreshTokenInfo_some {e : Env} {s : St} {cid tok : String} {r : RTok} (hf : NoRevocationFault e) (h : s.lookupR e.issuer tok = some r) :
    (worldOf e s).GetRefreshTokenInfo cid tok = .ok (r.subject, tok) := by
  simp [worldOf, ResWorld.GetRefreshTokenInfo, St.GetRefreshTokenInfo, h, (lookupR_some h).2.1, hf.gi]

/-- a string the storage does not know as a refresh token is revoked as the access token it resolves to -/
theorem revokeTarget_at {now : Int} {p : ResProvider} {e : Env} {s : St} {tok cid id sub : String}
    (hf : NoRevocationFault e) (hr : resolve now p tok = some (id, sub)) (hnr : s.lookupR e.issuer tok = none) :
    revokeTarget now p (worldOf e s) tok cid = .ok (id, sub) := by
  unfold revokeTarget asAccess
  rw [hr]
  simp [getRefreshTokenInfo_none hf hnr, Hand.resErrorsIs]

/-- a string the storage knows as a refresh token is revoked as such - whatever the hint says and whatever else it may look like -/
theorem revokeTarget_rt {now : Int} {p : ResProvider} {e : Env} {s : St} {tok cid : String} {r : RTok}
    (hf : NoRevocationFault e) (hl : s.lookupR e.issuer tok = some r) :
    revokeTarget now p (worldOf e s) tok cid = .ok (tok, r.subject) := by
  unfold revokeTarget
  simp [getRefreshTokenInfo_some hf hl]

theorem revokeToken_at {s : St} {iss id sub cid : String} {t : Tok} (hl : s.lookup iss id = some t) (hown : t.client = cid) :
    s.RevokeToken iss id sub cid = ({ s with toks := s.toks.map (killTok id) }, .ok ()) := by
  simp [St.RevokeToken, hl, hown]

theorem revokeToken_rt {s : St} {iss tok sub cid : String} {r : RTok} (hn : s.lookup iss tok = none) (hl : s.lookupR iss tok = some r) (hown : r.client = cid) :
    s.RevokeToken iss tok sub cid = ({ s with toks := s.toks.map (killTok r.access), rtoks := s.rtoks.map (dropR tok) }, .ok ()) := by
  simp [St.RevokeToken, hn, hl, hown]

theorem killTok_dead (toks : List Tok) (id : String) : ∀ x, x ∈ toks.map (killTok id) → x.id = id → x.live = false := by
  intro x hx hxi
  simp only [List.mem_map] at hx
  obtain ⟨x0, _, rfl⟩ := hx
  unfold killTok at hxi ⊢
  split <;> simp_all [Tok.live]

theorem dropR_dead (rtoks : List RTok) (tok : String) : ∀ x, x ∈ rtoks.map (dropR tok) → x.token = tok → x.live = false := by
  intro x hx hxi
  simp only [List.mem_map] at hx
  obtain ⟨x0, _, rfl⟩ := hx
  unfold dropR at hxi ⊢
  split <;> simp_all [RTok.live]

/-- C08 (3a): revocation of an ACCESS token by the owning client answers 200 and kills the token - on both routers, for EVERY
    token_type_hint (absent, right, wrong, garbage) and every oracle behaviour.  (`hnr`: the string is not a stored refresh token.) -/
theorem revoke_kills_at (rt : Router) (atp : ResATProvider) (e : Env) (s : St) (cid hint tok id sub : String) (t : Tok)
    (hf : NoRevocationFault e)
    (hr : resolve e.now (provider atp e s) tok = some (id, sub)) (hl : s.lookup e.issuer id = some t) (hown : t.client = cid)
    (hnr : s.lookupR e.issuer tok = none) :
    (revoke rt atp e s (some cid) hint tok).2 = .ok ∧ Dead (revoke rt atp e s (some cid) hint tok).1 (.at id) := by
  rw [revoke_spec]
  simp only [refRevoke, revokeTarget_at hf hr hnr]
  simp only [ResWorld.RevokeToken, worldOf, hf.1, Bool.false_eq_true, if_false, revokeToken_at hl hown]
  exact ⟨trivial, killTok_dead s.toks id⟩

/-- C08 (3b): revocation of a REFRESH token by the owning client answers 200 and kills the refresh token AND the access token
    issued with it - on both routers, for EVERY token_type_hint (in particular the wrong one, `access_token`) and every oracle
    behaviour: whatever the string may decrypt to.  (`hn`: refresh-token strings and access-token ids are different name spaces.) -/
theorem revoke_kills_rt (rt : Router) (atp : ResATProvider) (e : Env) (s : St) (cid hint tok : String) (r : RTok)
    (hf : NoRevocationFault e)
    (hl : s.lookupR e.issuer tok = some r) (hown : r.client = cid) (hn : s.lookup e.issuer tok = none) :
    (revoke rt atp e s (some cid) hint tok).2 = .ok ∧ Dead (revoke rt atp e s (some cid) hint tok).1 (.rt tok) ∧
      Dead (revoke rt atp e s (some cid) hint tok).1 (.at r.access) := by
  rw [revoke_spec]
  simp only [refRevoke, revokeTarget_rt (cid := cid) hf hl]
  simp only [ResWorld.RevokeToken, worldOf, hf.1, Bool.false_eq_true, if_false, revokeToken_rt hn hl hown]
  exact ⟨trivial, dropR_dead s.rtoks tok, killTok_dead s.toks r.access⟩

/-- revocation of an access token by another client is refused and changes nothing -/
theorem foreign_revoke_refused_at (rt : Router) (atp : ResATProvider) (e : Env) (s : St) (cid hint tok id sub : String) (t : Tok)
    (hf : NoRevocationFault e)
    (hr : resolve e.now (provider atp e s) tok = some (id, sub)) (hl : s.lookup e.issuer id = some t) (hforeign : t.client ≠ cid)
    (hnr : s.lookupR e.issuer tok = none) :
    revoke rt atp e s (some cid) hint tok = (s, .refused) := by
  rw [revoke_spec]
  simp only [refRevoke, revokeTarget_at hf hr hnr]
  simp [ResWorld.RevokeToken, worldOf, St.RevokeToken, hl, hforeign, hf.rt]

/-- revocation of a refresh token by another client is refused and changes nothing - under every hint -/
theorem foreign_revoke_refused_rt (rt : Router) (atp : ResATProvider) (e : Env) (s : St) (cid hint tok : String) (r : RTok)
    (hf : NoRevocationFault e)
    (hl : s.lookupR e.issuer tok = some r) (hforeign : r.client ≠ cid) (hn : s.lookup e.issuer tok = none) :
    revoke rt atp e s (some cid) hint tok = (s, .refused) := by
  rw [revoke_spec]
  simp only [refRevoke, revokeTarget_rt (cid := cid) hf hl]
  simp [ResWorld.RevokeToken, worldOf, St.RevokeToken, hn, hl, hforeign, hf.rt]

/-- unknown or garbage strings (neither a stored refresh token, nor resolving to a stored access-token id, nor a stored name
    themselves - as seen under the issuer of the request) are answered 200 without effect -/
theorem unknown_revoke_ok (rt : Router) (atp : ResATProvider) (e : Env) (s : St) (cid hint tok : String)
    (hf : NoRevocationFault e)
    (hnr : s.lookupR e.issuer tok = none)
    (hna : s.lookup e.issuer (asAccess e.now (provider atp e s) tok).1 = none)
    (hnb : s.lookupR e.issuer (asAccess e.now (provider atp e s) tok).1 = none) :
    revoke rt atp e s (some cid) hint tok = (s, .ok) := by
  rw [revoke_spec]
  have ht : revokeTarget e.now (provider atp e s) (worldOf e s) tok cid = .ok (asAccess e.now (provider atp e s) tok) := by
    unfold revokeTarget
    simp [getRefreshTokenInfo_none hf hnr, Hand.resErrorsIs]
  simp only [refRevoke, ht]
  simp [ResWorld.RevokeToken, worldOf, St.RevokeToken, hna, hnb, hf.rt]

/-- C08 (4): an introspection answer is `unauthorized`, or the constant zero-valued inactive answer (it carries no field of any
    token), or the fields of a LIVE token whose audience contains the authenticated caller -/
theorem inactive_discloses_nothing (rt : Router) (atp : ResATProvider) (e : Env) (s : St) (c : Option String) (tok : String) :
    introspect rt atp e s c tok = .unauthorized ∨ introspect rt atp e s c tok = .answer default ∨
      ∃ cid t, c = some cid ∧ t ∈ s.toks ∧ t.live = true ∧ t.audience.contains cid = true ∧
        introspect rt atp e s c tok = .answer { Active := true, Subject := t.subject, ClientID := t.client, Audience := t.audience, tokenID := t.id } := by
  rw [introspect_spec]
  cases c with
  | none => left; rfl
  | some cid =>
    right
    rcases refIntrospect_cases e.now (provider atp e s) tok cid with h0 | ⟨id, sub, t, _, ht, ha, h1⟩
    · left; simp [h0]
    · right; exact ⟨cid, t, rfl, (liveTok_some ht).1, (liveTok_some ht).2.2.1, ha, by simp [h1]⟩

/-! ### (5) a JWT access token is honoured only at the issuer named in it -/

/-- the verifier that checks a JWT access token while a request addressed to `e.issuer` is served expects exactly that issuer
    (regenerated `Provider.AccessTokenVerifier`: built per request from `IssuerFromContext`) -/
theorem provider_verifier (atp : ResATProvider) (e : Env) (s : St) :
    (provider atp e s).verifier = { Issuer := e.issuer, KeySet := atp.accessTokenKeySet, SupportedSignAlgs := atp.accessTokenVerifierOpts } := by
  simp [provider, GenRes.ProviderAccessTokenVerifier, Hand.resNewAccessTokenVerifier]

/-- a string that is not an opaque token (Decrypt fails) resolves only as a JWT the verifier accepts: its payload names the
    verifier's issuer, it carries exactly one signature with an allowed algorithm by a published key over that payload (C02), and
    it is unexpired -/
theorem jwt_resolve {now : Int} {p : ResProvider} {tok id sub : String} (hd : ∀ pl, p.decrypt tok ≠ .ok pl)
    (h : resolve now p tok = some (id, sub)) :
    ∃ pl c0 c, ParseToken now (p.tokenOf tok) = .ok (pl, c0) ∧ c0.iss = p.verifier.Issuer ∧
      C02.monitor p.verifier.SupportedSignAlgs p.verifier.KeySet (p.tokenOf tok) (some c) = none ∧
      Gen.CheckExpiration now c p.verifier.Offset = .ok () ∧ id = p.jtiOf tok ∧ sub = c.sub := by
  unfold resolve at h
  cases hdec : p.decrypt tok with
  | ok pl => exact absurd hdec (hd pl)
  | error err =>
    simp only [hdec] at h
    cases hv : Gen.OPVerifyAccessToken now (p.tokenOf tok) p.verifier with
    | error e => simp [hv] at h
    | ok c =>
      simp [hv] at h
      obtain ⟨pl, c0, hp, hi, hs, he⟩ := opVerifyAccessToken_ok hv
      have hm := C02.c02_accessToken now (p.tokenOf tok) p.verifier
      rw [hv] at hm
      exact ⟨pl, c0, c, hp, hi, hm, he, h.1.symm, h.2.symm⟩

/-- the operations at which an access-token string is presented to be honoured -/
def presentedAt : Op → Option (Env × String)
  | .userinfo _ e tok => some (e, tok)
  | .introspect _ e _ tok => some (e, tok)
  | .exchange e false tok => some (e, tok)
  | _ => none

theorem honoured_resolves (atp : ResATProvider) (s : St) (op : Op) (x : Ref) (e : Env) (tok : String)
    (hp : presentedAt op = some (e, tok)) (h : (step atp s op).2 = some x) :
    ∃ id sub, resolve e.now (provider atp e s) tok = some (id, sub) := by
  cases op with
  | issue t r => simp [presentedAt] at hp
  | expire y => simp [presentedAt] at hp
  | revoke rt e' c hint tok' => simp [presentedAt] at hp
  | endSession a b => simp [presentedAt] at hp
  | refresh t => simp [presentedAt] at hp
  | userinfo rt e' tok' =>
    simp only [presentedAt, Option.some.injEq, Prod.mk.injEq] at hp
    obtain ⟨rfl, rfl⟩ := hp
    simp only [step, userinfo_spec] at h
    cases hr : resolve e'.now (provider atp e' s) tok' with
    | none => simp [hr] at h
    | some pr => exact ⟨pr.1, pr.2, rfl⟩
  | introspect rt e' c tok' =>
    simp only [presentedAt, Option.some.injEq, Prod.mk.injEq] at hp
    obtain ⟨rfl, rfl⟩ := hp
    simp only [step, introspect_spec] at h
    cases c with
    | none => simp at h
    | some cid =>
      simp only [] at h
      rcases refIntrospect_cases e'.now (provider atp e' s) tok' cid with h0 | ⟨id, sub, t, hr, _, _, _⟩
      · rw [h0] at h; have hd : (default : ResIntrospection).Active = false := rfl
        simp [hd] at h
      · exact ⟨id, sub, hr⟩
  | exchange e' asRefresh tok' =>
    cases asRefresh with
    | true => simp [presentedAt] at hp
    | false =>
      simp only [presentedAt, Option.some.injEq, Prod.mk.injEq] at hp
      obtain ⟨rfl, rfl⟩ := hp
      simp only [step, exchange, Bool.false_eq_true, if_false] at h
      have hb := getTokenIDAndClaims_eq e'.now (provider atp e' s) tok'
      cases hr : resolve e'.now (provider atp e' s) tok' with
      | some pr => exact ⟨pr.1, pr.2, rfl⟩
      | none =>
        rw [hr] at hb
        simp only [resolved, Prod.mk.injEq] at hb
        split at h
        · rename_i heq; rw [heq] at hb; simp at hb
        · simp at h

/-- C08 (5): a JWT access token (a presented string that is not an opaque token) is honoured - userinfo claims, `active:true`,
    accepted exchange subject, on either router - ONLY by the issuer named in its payload: for all issuers / hosts the request may be
    addressed to, all key sets and all histories; and then it is validly signed by a published key (C02) and unexpired -/
theorem c08_issuer_bound (atp : ResATProvider) (s : St) (op : Op) (x : Ref) (e : Env) (tok : String)
    (hp : presentedAt op = some (e, tok)) (hd : ∀ pl, e.decrypt tok ≠ .ok pl) (h : (step atp s op).2 = some x) :
    ∃ pl c0 c, ParseToken e.now (e.tokenOf tok) = .ok (pl, c0) ∧ c0.iss = e.issuer ∧
      C02.monitor atp.accessTokenVerifierOpts atp.accessTokenKeySet (e.tokenOf tok) (some c) = none ∧
      Gen.CheckExpiration e.now c 0 = .ok () := by
  obtain ⟨id, sub, hr⟩ := honoured_resolves atp s op x e tok hp h
  obtain ⟨pl, c0, c, h1, h2, h3, h4, _, _⟩ := jwt_resolve (p := provider atp e s) hd hr
  rw [provider_verifier] at h2 h3 h4
  exact ⟨pl, c0, c, h1, h2, h3, h4⟩

/-- Remark (not a property clause): the LIBRARY itself does not look at the issuer when it reads an opaque token - what a string that
    decrypts resolves to is the same under every issuer.  For stored tokens the issuer reaches the storage through the context of every
    call, and keeping the tenants of a multi-issuer provider apart is the storage's part of the contract (`c08_issuer_bound_stored`). -/
theorem resolve_opaque_ignores_issuer (atp : ResATProvider) (s : St) (e : Env) (tok pl : String) (iss : String)
    (hd : e.decrypt tok = .ok pl) :
    resolve e.now (provider atp e s) tok = resolve e.now (provider atp { e with issuer := iss } s) tok := by
  simp [resolve, provider, hd]

/-! ### (6) who may ask: the regenerated request parsers of the Provider router -/

/-- introspection is answered only for an AUTHENTICATED caller: `ParseTokenIntrospectionRequest` lets a request through only when
    `ClientIDFromRequest` authenticated the client (identification alone - a public client, a secret in the form - is not enough) -/
theorem parseIntrospection_ok {now : Int} {r : ResHttpReq} {p : ResProvider} {tok cid : String}
    (h : GenRes.ParseTokenIntrospectionRequest now r p = .ok (tok, cid)) :
    r.identified = .ok (cid, true) ∧ tok = r.Form.Token := by
  unfold GenRes.ParseTokenIntrospectionRequest Hand.resClientIDFromRequest ResProvider.Decoder at h
  simp only [] at h
  cases hi : r.identified with
  | error e => simp [hi] at h
  | ok pr =>
    obtain ⟨c, a⟩ := pr
    simp only [hi] at h
    cases a with
    | false => simp at h
    | true =>
      simp only [Bool.not_true, Bool.false_eq_true, if_false] at h
      by_cases hu : r.Form.undecodable = true
      · simp [hu] at h
      · simp [hu] at h
        exact ⟨by rw [h.2], h.1.symm⟩

theorem introspectRequest_eq (atp : ResATProvider) (e : Env) (s : St) (r : ResHttpReq) :
    introspectRequest atp e s r =
      match GenRes.ParseTokenIntrospectionRequest e.now r (provider atp e s) with
      | .error _ => .unauthorized
      | .ok (tok, cid) => introspect .provider atp e s (some cid) tok := by
  unfold introspectRequest
  cases hp : GenRes.ParseTokenIntrospectionRequest e.now r (provider atp e s) with
  | error err => simp [Introspect_eq]
  | ok pr => obtain ⟨tok, cid⟩ := pr; simp [introspect, Introspect_eq, callerR, Except.map]

/-- the client a revocation request is performed for: it proved itself by a verified assertion naming it as issuer (and private_key_jwt
    is switched on), by Basic auth or by a secret in the form that the storage accepts, or it is a registered PUBLIC client naming itself -/
def RevocationCaller (now : Int) (r : ResHttpReq) (p : ResProvider) (cid : String) : Prop :=
  (r.Form.ClientAssertionType = Const.ClientAssertionTypeJWTAssertion ∧ p.pkjwtSupported = true ∧
      ∃ c, Gen.VerifyJWTAssertion now r.assertionToken p.jwtProfileVerifier = .ok c ∧ c.iss = cid) ∨
  (∃ u pw sec, r.basic = some (u, pw) ∧ r.queryUnescape u = .ok cid ∧ r.queryUnescape pw = .ok sec ∧
      Gen.AuthorizeClientIDSecret now cid sec p.clientStore = .ok ()) ∨
  (r.basic = none ∧ r.Form.ClientID = cid ∧ cid ≠ "" ∧ ∃ c, p.clientStore.GetClientByClientID cid = .ok c ∧
      ((r.Form.ClientSecret = "" ∧ c.auth = Const.AuthMethodNone) ∨
       (r.Form.ClientSecret ≠ "" ∧ Gen.AuthorizeClientIDSecret now cid r.Form.ClientSecret p.clientStore = .ok ())))

/-- `ParseTokenRevocationRequest` hands the handler the submitted token and hint unchanged, for a client that proved who it is -/
theorem parseRevocation_ok {now : Int} {r : ResHttpReq} {p : ResProvider} {tok hint cid : String}
    (h : GenRes.ParseTokenRevocationRequest now r p = .ok (tok, hint, cid)) :
    tok = r.Form.Token ∧ hint = r.Form.TokenTypeHint ∧ RevocationCaller now r p cid := by
  unfold GenRes.ParseTokenRevocationRequest ResProvider.Decoder ResHttpReq.ParseForm ResHttpReq.BasicAuth Hand.resVerifyJWTAssertion
    ResProvider.AuthMethodPrivateKeyJWTSupported ResProvider.AuthMethodPostSupported ResProvider.JWTProfileVerifier at h
  simp only [] at h
  by_cases hpf : r.parseFormFails = true
  · simp [hpf] at h
  · by_cases hu : r.Form.undecodable = true
    · simp [hpf, hu] at h
    · simp only [hpf, hu, Bool.false_eq_true, if_false] at h
      by_cases hat : (r.Form.ClientAssertionType == Const.ClientAssertionTypeJWTAssertion) = true
      · simp only [hat, if_true] at h
        split at h
        · simp at h
        · rename_i hsup
          cases hv : Gen.VerifyJWTAssertion now r.assertionToken p.jwtProfileVerifier with
          | error e => simp [hv] at h
          | ok c =>
            simp only [hv] at h
            -- the assertion's issuer must be registered for private_key_jwt (checkPrivateKeyJWTClient)
            cases hpk : GenRes.checkPrivateKeyJWTClient now c.Issuer p.clientStore with
            | error e => simp [hpk] at h
            | ok _ =>
            simp [hpk] at h
            refine ⟨h.1.symm, h.2.1.symm, Or.inl ⟨by simpa using hat, ?_, c, hv, h.2.2⟩⟩
            simp at hsup; exact hsup.2
      · simp only [hat, Bool.false_eq_true, if_false] at h
        cases hb : r.basic with
        | some up =>
          obtain ⟨u, pw⟩ := up
          simp only [hb, if_true] at h
          cases hq1 : r.queryUnescape u with
          | error e => simp [hq1] at h
          | ok cid' =>
            simp only [hq1] at h
            cases hq2 : r.queryUnescape pw with
            | error e => simp [hq2] at h
            | ok sec =>
              simp only [hq2] at h
              cases ha : Gen.AuthorizeClientIDSecret now cid' sec p.clientStore with
              | error e => simp [ha] at h
              | ok _ =>
                simp only [ha] at h
                -- a client_secret_post client needs the method to be enabled (checkAuthMethodPost)
                cases hpost : GenRes.checkAuthMethodPost now cid' p with
                | error e => simp [hpost] at h
                | ok _ =>
                simp [hpost] at h
                obtain ⟨h1, h2, rfl⟩ := h
                exact ⟨h1.symm, h2.symm, Or.inr (Or.inl ⟨u, pw, sec, hb, hq1, hq2, ha⟩)⟩
        | none =>
          simp only [hb, Bool.false_eq_true, if_false] at h
          by_cases hid : (r.Form.ClientID == "") = true
          · simp [hid] at h
          · simp only [hid, Bool.false_eq_true, if_false] at h
            cases hc : p.clientStore.GetClientByClientID r.Form.ClientID with
            | error e => simp [hc] at h
            | ok c =>
              simp only [hc] at h
              by_cases hs : (r.Form.ClientSecret == "") = true
              · simp only [hs, if_true] at h
                split at h
                · simp at h
                · rename_i hnone
                  simp at h
                  obtain ⟨h1, h2, rfl⟩ := h
                  refine ⟨h1.symm, h2.symm, Or.inr (Or.inr ⟨hb, rfl, by simpa using hid, c, hc, Or.inl ⟨by simpa using hs, ?_⟩⟩)⟩
                  simpa [OPClient.AuthMethod] using hnone
              · simp only [hs, Bool.false_eq_true, if_false] at h
                split at h
                · simp at h
                · cases ha : Gen.AuthorizeClientIDSecret now r.Form.ClientID r.Form.ClientSecret p.clientStore with
                  | error e => simp [ha] at h
                  | ok _ =>
                    simp [ha] at h
                    obtain ⟨h1, h2, rfl⟩ := h
                    exact ⟨h1.symm, h2.symm, Or.inr (Or.inr ⟨hb, rfl, by simpa using hid, c, hc, Or.inr ⟨by simpa using hs, ha⟩⟩)⟩

theorem revokeRequest_eq (atp : ResATProvider) (e : Env) (s : St) (r : ResHttpReq) :
    revokeRequest atp e s r =
      match GenRes.ParseTokenRevocationRequest e.now r (provider atp e s) with
      | .error _ => (s, .refused)
      | .ok (tok, hint, cid) => revoke .provider atp e s (some cid) hint tok := by
  unfold revokeRequest
  cases hp : GenRes.ParseTokenRevocationRequest e.now r (provider atp e s) with
  | error err => simp [Revoke_eq, Hand.resRevocationRequestError]
  | ok pr => obtain ⟨tok, hint, cid⟩ := pr; simp [revoke, callerR, Except.map]

/-! ### non-vacuity and witnesses -/
def exTok : Tok := { id := "at1", client := "web", subject := "u1", audience := ["web"], refresh := "rt1" }
def exRT : RTok := { token := "rt1", client := "web", subject := "u1", access := "at1" }
def exSt : St := { toks := [exTok], rtoks := [exRT] }
/-- "opaque1" is the opaque access token of at1; nothing else decrypts -/
def exEnv : Env := { decrypt := fun t => if t == "opaque1" then .ok "at1:u1" else .error "illegal base64 data" }
/-- a provider key, a JWT access token of issuer A signed by it, the request contexts of issuers A and B -/
def exKey : JWK := { KeyID := "sig1", Use := "sig", kty := .rsa, keyNo := 0 }
def exATP : ResATProvider := { accessTokenKeySet := { kind := .published, keys := [exKey] } }
def exPayload : Payload := { bytes := 1, claims := some { iss := "https://a.example", sub := "u1", aud := ["web"], exp := 2000 } }
def exJWT : Token :=
  { segs := 3, middle := some exPayload,
    jws := some { Signatures := [{ Header := ⟨"RS256", "sig1"⟩, signer := some 0, signedAlg := "RS256", signedBytes := 1, signedHdr := ⟨"RS256", "sig1"⟩ }], payload := exPayload } }
def exEnvA : Env := { now := 1000 * Go.second, issuer := "https://a.example", tokenOf := fun _ => exJWT, jtiOf := fun _ => "at1" }
def exEnvB : Env := { exEnvA with issuer := "https://b.example" }

example : (step {} exSt (.userinfo .provider exEnv "opaque1")).2 = some (.at "at1") := by decide
example : (step {} exSt (.introspect .legacy exEnv (some "web") "opaque1")).2 = some (.at "at1") := by decide
example : (step {} exSt (.introspect .provider exEnv (some "other") "opaque1")).2 = none := by decide
example : (run {} exSt [.exchange exEnv true "rt1", .refresh {} "rt1", .refresh {} "rt1"]).2 = [some (.rt "rt1"), some (.rt "rt1"), none] := by decide
-- a JWT access token of issuer A: honoured at A, refused at B (both routers, all three endpoints), refused at A once expired
example : (step exATP exSt (.userinfo .provider exEnvA "jwtA")).2 = some (.at "at1") := by decide
example : (step exATP exSt (.userinfo .provider exEnvB "jwtA")).2 = none := by decide
example : (step exATP exSt (.introspect .legacy exEnvB (some "web") "jwtA")).2 = none := by decide
example : (step exATP exSt (.exchange exEnvA false "jwtA")).2 = some (.at "at1") := by decide
example : (step exATP exSt (.exchange exEnvB false "jwtA")).2 = none := by decide
example : (step exATP exSt (.userinfo .legacy { exEnvA with now := 3000 * Go.second } "jwtA")).2 = none := by decide
-- revocation by the owner: access token (wrong hint), refresh token (no hint / wrong hint / garbage hint): dead everywhere afterwards
example : (run {} exSt [.revoke .provider exEnv (some "web") "refresh_token" "opaque1", .userinfo .provider exEnv "opaque1",
    .introspect .provider exEnv (some "web") "opaque1", .exchange exEnv false "opaque1"]).2 = [none, none, none, none] := by decide
example : (run {} exSt [.revoke .legacy exEnv (some "web") "access_token" "rt1", .refresh {} "rt1", .exchange exEnv true "rt1",
    .userinfo .provider exEnv "opaque1"]).2 = [none, none, none, none] := by decide
example : (run {} exSt [.revoke .provider exEnv (some "web") "bogus" "rt1", .refresh {} "rt1", .userinfo .legacy exEnv "opaque1"]).2 = [none, none, none] := by decide
example : (run {} exSt [.revoke .provider exEnv (some "evil") "" "rt1", .refresh {} "rt1"]).2 = [none, some (.rt "rt1")] := by decide
example : (run {} exSt [.endSession "" "u1" "web", .refresh {} "rt1", .userinfo .provider exEnv "opaque1"]).2 = [none, none, none] := by decide

-- the hint plays no part: a refresh token whose string happens to "decrypt" to `x:y` is revoked as the refresh token it is, under the
-- hint access_token as under any other (this was finding F-C08b before the repair)
def exEnvCollide : Env := { decrypt := fun _ => .ok "x:y" }
example : (run {} exSt [.revoke .provider exEnvCollide (some "web") "access_token" "rt1", .refresh {} "rt1", .exchange exEnvCollide true "rt1"]).2
    = [none, none, none] := by decide
example : (run {} exSt [.revoke .legacy exEnvCollide (some "web") "access_token" "rt1", .refresh {} "rt1"]).2 = [none, none] := by decide
example : (run {} exSt [.revoke .provider exEnvCollide (some "evil") "access_token" "rt1", .refresh {} "rt1"]).2 = [none, some (.rt "rt1")] := by decide
example : (revoke .provider {} exEnvCollide exSt (some "evil") "access_token" "rt1").2 = .refused := by decide

-- a partitioning storage (multi-issuer provider): the OPAQUE access token and the refresh token created under issuer A are honoured
-- at A and refused at B - userinfo, introspection, exchange, the refresh grant - and a revocation or logout at B leaves them alone
def exStP : St := { toks := [{ exTok with issuer := "https://a.example" }], rtoks := [{ exRT with issuer := "https://a.example" }], partitioned := true }
def exOpA : Env := { exEnv with issuer := "https://a.example" }
def exOpB : Env := { exEnv with issuer := "https://b.example" }
example : (run {} exStP [.userinfo .provider exOpA "opaque1", .introspect .legacy exOpA (some "web") "opaque1", .exchange exOpA false "opaque1",
    .exchange exOpA true "rt1"]).2 = [some (.at "at1"), some (.at "at1"), some (.at "at1"), some (.rt "rt1")] := by decide
example : (run {} exStP [.userinfo .provider exOpB "opaque1", .introspect .legacy exOpB (some "web") "opaque1", .exchange exOpB false "opaque1",
    .exchange exOpB true "rt1", .refresh exOpB "rt1"]).2 = [none, none, none, none, none] := by decide
example : (run {} exStP [.revoke .provider exOpB (some "web") "" "rt1", .endSession "https://b.example" "u1" "web", .refresh exOpA "rt1"]).2
    = [none, none, some (.rt "rt1")] := by decide
example : (run {} exStP [.revoke .legacy exOpA (some "web") "access_token" "rt1", .refresh exOpA "rt1", .userinfo .provider exOpA "opaque1"]).2
    = [none, none, none] := by decide

-- the request parsers: Basic auth with the registered secret is let through, a wrong secret and a merely identified caller are not
def exClients : Store := { clients := [{ id := "web", secret := "s3cret", auth := "client_secret_basic" }, { id := "pub", auth := "none" }] }
def exProv : ResProvider := { clientStore := exClients, postSupported := true, pkjwtSupported := true }
example : (GenRes.ParseTokenRevocationRequest 0 { Form := { Token := "rt1", TokenTypeHint := "access_token" }, basic := some ("web", "s3cret") } exProv).toOption
    = some ("rt1", "access_token", "web") := by decide
example : (GenRes.ParseTokenRevocationRequest 0 { Form := { Token := "rt1" }, basic := some ("web", "guess") } exProv).toBool = false := by decide
example : (GenRes.ParseTokenRevocationRequest 0 { Form := { Token := "rt1", ClientID := "pub" } } exProv).toOption = some ("rt1", "", "pub") := by decide
example : (GenRes.ParseTokenRevocationRequest 0 { Form := { Token := "rt1", ClientID := "web" } } exProv).toBool = false := by decide
example : (GenRes.ParseTokenIntrospectionRequest 0 { Form := { Token := "t" }, identified := .ok ("web", true) } exProv).toOption = some ("t", "web") := by decide
example : (GenRes.ParseTokenIntrospectionRequest 0 { Form := { Token := "t" }, identified := .ok ("pub", false) } exProv).toBool = false := by decide

end Res
