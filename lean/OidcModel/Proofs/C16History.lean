/-
  C16, history level, stated directly over operation lists (next to `c16_state_machine`, which says the same through the monitor):
  in EVERY history of device_authorization / approve / deny / expire / poll operations - by any clients in any presentation, on
  both routers, with a storage fault (time-out or other) injected into the state lookup of any poll, with colliding user codes,
  repeated polls, … - a poll is answered with tokens only if
    * its state lookup did not fail,
    * the user approved exactly the polled device code EARLIER in the history, and the tokens name the subject of that approval,
    * the poller is the client the device code is stored for, and that device code was handed out to this client by an
      earlier device_authorization request of the history (or was in the storage before the history began).
  By induction over the operation list with two invariants about the stored device authorizations.
-/
import OidcModel.Proofs.C16

namespace C16
open Go Gen Hand DevFlow

/-- the state after a history -/
def stateAfter (s : St) (ops : List Op) : St := ops.foldl (fun s op => (step s op).1) s

/-- every stored approval was given by an `approve` operation of the history, for that device code, by that subject -/
def ApprInv (pre : List Op) (s : St) : Prop :=
  ∀ e ∈ s.prov.devices, e.state.Done = true → ∃ t, Op.approve e.deviceCode e.state.Subject t ∈ pre

/-- every stored device authorization was there at the start (`init`) or stems from a device_authorization request of the history
    by the client it is stored for -/
def OriginInv (init : List DeviceEntry) (pre : List Op) (s : St) : Prop :=
  ∀ e ∈ s.prov.devices, (∃ e0 ∈ init, e0.deviceCode = e.deviceCode ∧ e0.state.ClientID = e.state.ClientID) ∨
    ∃ now r rnd, Op.auth now r rnd ∈ pre ∧ r.clientID = e.state.ClientID ∧ NewDeviceCode rnd.bytes = e.deviceCode

theorem mem_mapDevice {p : DevProvider} {code : String} {f : DeviceAuthorizationState → DeviceAuthorizationState} {e' : DeviceEntry}
    (h : e' ∈ (mapDevice p code f).devices) :
    ∃ e ∈ p.devices, e'.deviceCode = e.deviceCode ∧ ((e.deviceCode = code ∧ e'.state = f e.state) ∨ (e.deviceCode ≠ code ∧ e' = e)) := by
  simp only [mapDevice, List.mem_map] at h
  obtain ⟨e, he, rfl⟩ := h
  refine ⟨e, he, ?_⟩
  by_cases hc : e.deviceCode = code
  · simp [hc]
  · simp [hc]

/-- the device_authorization step: the storage is unchanged, or one entry for the presented client was appended -/
theorem step_auth_cases (s : St) (now : Int) (r : DevHttpRequest) (rnd : DevRandom) :
    (step s (.auth now r rnd)).1 = s ∨
    ∃ resp, (step s (.auth now r rnd)).1 = { s with prov := addDevice s.prov resp } ∧ resp.clientID = r.clientID ∧
      resp.DeviceCode = NewDeviceCode rnd.bytes := by
  simp only [step]
  cases hda : deviceAuthorization now s.router { s.prov with rnd := rnd, fault := none } r with
  | error e => left; rfl
  | ok resp =>
    right
    obtain ⟨req, _, hc⟩ := (deviceAuthorization_cases (now := now) (rt := s.router) (p := { s.prov with rnd := rnd, fault := none }) (r := r)).1 resp hda
    obtain ⟨uc, _, _, hresp⟩ := create_ok hc
    exact ⟨resp, rfl, by rw [hresp], by rw [hresp]⟩

theorem step_poll_state (s : St) (now : Int) (r : DevHttpRequest) (f : Option String) : (step s (.poll now r f)).1 = s := by
  simp only [step]
  split <;> rfl

theorem apprInv_step {pre : List Op} {s : St} (op : Op) (h : ApprInv pre s) : ApprInv (pre ++ [op]) (step s op).1 := by
  have mono : ∀ e ∈ s.prov.devices, e.state.Done = true → ∃ t, Op.approve e.deviceCode e.state.Subject t ∈ pre ++ [op] := by
    intro e he hd
    obtain ⟨t, ht⟩ := h e he hd
    exact ⟨t, List.mem_append_left _ ht⟩
  cases op with
  | auth now r rnd =>
    rcases step_auth_cases s now r rnd with hs | ⟨resp, hs, _, _⟩
    · rw [hs]; exact mono
    · rw [hs]
      intro e he hd
      simp only [addDevice, List.mem_append, List.mem_singleton] at he
      rcases he with he | rfl
      · exact mono e he hd
      · simp at hd
  | approve code subject authTime =>
    intro e' he' hd
    obtain ⟨e, he, hcode, hcase⟩ := mem_mapDevice (by simpa [step] using he')
    rcases hcase with ⟨hc, hst⟩ | ⟨_, rfl⟩
    · exact ⟨authTime, by rw [hcode, hc, hst]; simp⟩
    · exact mono e' he hd
  | deny code =>
    intro e' he' hd
    obtain ⟨e, he, hcode, hcase⟩ := mem_mapDevice (by simpa [step] using he')
    rcases hcase with ⟨_, hst⟩ | ⟨_, rfl⟩
    · rw [hst] at hd ⊢; rw [hcode]; exact mono e he hd
    · exact mono e' he hd
  | expire code expires =>
    intro e' he' hd
    obtain ⟨e, he, hcode, hcase⟩ := mem_mapDevice (by simpa [step] using he')
    rcases hcase with ⟨_, hst⟩ | ⟨_, rfl⟩
    · rw [hst] at hd ⊢; rw [hcode]; exact mono e he hd
    · exact mono e' he hd
  | poll now r f => rw [step_poll_state]; exact mono

theorem originInv_step {init : List DeviceEntry} {pre : List Op} {s : St} (op : Op) (h : OriginInv init pre s) :
    OriginInv init (pre ++ [op]) (step s op).1 := by
  have mono : ∀ e ∈ s.prov.devices, (∃ e0 ∈ init, e0.deviceCode = e.deviceCode ∧ e0.state.ClientID = e.state.ClientID) ∨
      ∃ now r rnd, Op.auth now r rnd ∈ pre ++ [op] ∧ r.clientID = e.state.ClientID ∧ NewDeviceCode rnd.bytes = e.deviceCode := by
    intro e he
    rcases h e he with h1 | ⟨now, r, rnd, hm, h2, h3⟩
    · exact Or.inl h1
    · exact Or.inr ⟨now, r, rnd, List.mem_append_left _ hm, h2, h3⟩
  have mapped : ∀ (code : String) (f : DeviceAuthorizationState → DeviceAuthorizationState), (∀ st, (f st).ClientID = st.ClientID) →
      OriginInv init (pre ++ [op]) { s with prov := mapDevice s.prov code f } := by
    intro code f hf e' he'
    obtain ⟨e, he, hcode, hcase⟩ := mem_mapDevice he'
    rcases hcase with ⟨_, hst⟩ | ⟨_, rfl⟩
    · rw [hst, hf, hcode]; exact mono e he
    · exact mono e' he
  cases op with
  | auth now r rnd =>
    rcases step_auth_cases s now r rnd with hs | ⟨resp, hs, hcid, hdc⟩
    · rw [hs]; exact mono
    · rw [hs]
      intro e he
      simp only [addDevice, List.mem_append, List.mem_singleton] at he
      rcases he with he | rfl
      · exact mono e he
      · exact Or.inr ⟨now, r, rnd, by simp, hcid.symm, hdc.symm⟩
  | approve code subject authTime => exact mapped code _ (fun _ => rfl)
  | deny code => exact mapped code _ (fun _ => rfl)
  | expire code expires => exact mapped code _ (fun _ => rfl)
  | poll now r f => rw [step_poll_state]; exact mono

theorem invs_after (init : List DeviceEntry) (ops : List Op) : ∀ (done : List Op) (s : St), ApprInv done s → OriginInv init done s →
    ApprInv (done ++ ops) (stateAfter s ops) ∧ OriginInv init (done ++ ops) (stateAfter s ops) := by
  induction ops with
  | nil => intro done s h1 h2; simpa [stateAfter] using And.intro h1 h2
  | cons op rest ih =>
    intro done s h1 h2
    have := ih (done ++ [op]) (step s op).1 (apprInv_step op h1) (originInv_step op h2)
    simpa [stateAfter, List.append_assoc] using this

/-- **C16, history level: tokens only after approval of that very device code, only to the initiating client.**
    `s0`: any provider state in which no stored device authorization is approved yet; `pre`: ANY history. -/
theorem c16_tokens_only_after_approval (s0 : St) (h0 : ∀ e ∈ s0.prov.devices, e.state.Done = false)
    (pre : List Op) (now : Int) (r : DevHttpRequest) (f : Option String) (iss : DevIssue)
    (h : (step (stateAfter s0 pre) (.poll now r f)).2 = .issued iss) :
    f = none ∧ iss.state.ClientID = r.clientID ∧ iss.state.Denied = false ∧
    (∃ t, Op.approve r.PostForm.DeviceCode iss.state.Subject t ∈ pre) ∧
    ((∃ e0 ∈ s0.prov.devices, e0.deviceCode = r.PostForm.DeviceCode ∧ e0.state.ClientID = r.clientID) ∨
      ∃ now' r' rnd, Op.auth now' r' rnd ∈ pre ∧ r'.clientID = r.clientID ∧ NewDeviceCode rnd.bytes = r.PostForm.DeviceCode) := by
  have hinv := invs_after s0.prov.devices pre [] s0
    (fun e he hd => by rw [h0 e he] at hd; cases hd)
    (fun e he => Or.inl ⟨e, he, rfl, rfl⟩)
  simp only [List.nil_append] at hinv
  obtain ⟨happr, horig⟩ := hinv
  generalize stateAfter s0 pre = s at h happr horig
  simp only [step] at h
  cases hdt : deviceToken now s.router { s.prov with fault := f } r with
  | error e => simp [hdt] at h
  | ok i =>
    simp only [hdt, Out.issued.injEq] at h
    subst h
    obtain ⟨st, c, hst, _, _, hi⟩ := deviceToken_ok hdt
    obtain ⟨_, hlook, hden, hdone⟩ := checkState_ok hst
    obtain ⟨hf, e, he, hes, hecl⟩ := lookup_ok hlook
    have hmem : e ∈ s.prov.devices := List.mem_of_find?_eq_some he
    have hcode : e.deviceCode = r.PostForm.DeviceCode := by simpa using List.find?_some he
    have hstate : i.state = st := by rw [hi]; rfl
    rw [hstate, ← hes]
    refine ⟨hf, hecl, by rw [hes]; exact hden, ?_, ?_⟩
    · obtain ⟨t, ht⟩ := happr e hmem (by rw [hes]; exact hdone)
      exact ⟨t, by rw [← hcode]; exact ht⟩
    · rcases horig e hmem with ⟨e0, h1, h2, h3⟩ | ⟨now', r', rnd, h1, h2, h3⟩
      · exact Or.inl ⟨e0, h1, by rw [h2, hcode], by rw [h3]; exact hecl⟩
      · exact Or.inr ⟨now', r', rnd, h1, by rw [h2]; exact hecl, by rw [h3, hcode]⟩

/-- a storage fault injected into the state lookup of a poll - time-out or any other error, at any position of any history -
    never yields tokens -/
theorem c16_fault_never_tokens (s0 : St) (pre : List Op) (now : Int) (r : DevHttpRequest) (err : String) (iss : DevIssue) :
    (step (stateAfter s0 pre) (.poll now r (some err))).2 ≠ .issued iss := by
  intro h
  generalize stateAfter s0 pre = s at h
  simp only [step] at h
  cases hdt : deviceToken now s.router { s.prov with fault := some err } r with
  | error e => simp [hdt] at h
  | ok i =>
    obtain ⟨st, c, hst, _, _, _⟩ := deviceToken_ok hdt
    obtain ⟨_, hlook, _, _⟩ := checkState_ok hst
    obtain ⟨hf, _⟩ := lookup_ok hlook
    simp at hf

/-- polls do not consume anything: the property does not demand single use of an approved device code (RFC 8628 leaves it to the
    storage), and the library does not enforce it - a second poll after success is answered with tokens again, and the monitor
    (which only demands what the property says) accepts that -/
example : (run (demoStored .provider true) [.approve "dc1" "user1" 3, .poll 3000 (tvReq "dc1") none, .poll 3001 (tvReq "dc1") none]).2.map tag =
    ["done", "user1", "user1"] := by decide
example : judgeAll (abs (demoStored .legacy true)) (trace (demoStored .legacy true)
    [.approve "dc1" "user1" 3, .poll 3000 (tvReq "dc1") none, .poll 3001 (tvReq "dc1") none]) = [none, none, none] := by decide

end C16
