/-
  C16: "a user code drawn from the configured alphabet and format" for EVERY stream of random bytes.
  `NewUserCodeFromStream` (Model/DeviceRand.lean) feeds the bytes through crypto/rand.Int's rejection sampling into the loop of
  NewUserCode.  Whatever the bytes are: every index drawn is below the alphabet size (`devRandInt_lt`), so the loop never indexes
  outside the alphabet (no panic), and the result - if the reader does not run dry - has the configured format
  (`c16_usercode_every_stream`).  Unbiasedness of one round: the candidate is the masked big-endian number itself and is accepted
  iff it is below max (`devRandInt_round`), and every number below max fits into the bits that are kept (`devRand_covers`), so
  every alphabet index is hit by the same number of byte strings.
-/
import OidcModel.Model.DeviceRand
import OidcModel.Proofs.C16

namespace C16
open Hand

theorem devRandIntFuel_lt {max : Nat} (hmax : 0 < max) : ∀ (fuel : Nat) (s : List UInt8) (n : Nat) (r : List UInt8),
    devRandIntFuel max fuel s = some (n, r) → n < max := by
  intro fuel
  induction fuel with
  | zero => intro s n r h; simp [devRandIntFuel] at h
  | succ fuel ih =>
    intro s n r h
    unfold devRandIntFuel at h
    by_cases h0 : devBitLen (max - 1) = 0
    · simp only [h0, if_true, Option.some.injEq, Prod.mk.injEq] at h
      omega
    · simp only [h0, if_false] at h
      by_cases hl : s.length < devRandK max
      · simp [hl] at h
      · simp only [hl, if_false] at h
        by_cases hc : devCandidate (devRandB max) (s.take (devRandK max)) < max
        · simp only [hc, if_true, Option.some.injEq, Prod.mk.injEq] at h
          omega
        · simp only [hc, if_false] at h
          exact ih _ n r h

/-- whatever bytes the reader delivers, `rand.Int` answers below its bound -/
theorem devRandInt_lt {max : Nat} (hmax : 0 < max) {s : List UInt8} {n : Nat} {r : List UInt8}
    (h : devRandInt max s = some (n, r)) : n < max :=
  devRandIntFuel_lt hmax _ s n r h

/-- one round: the candidate is the masked big-endian number of the next k bytes, accepted iff below max -/
theorem devRandInt_round {max fuel : Nat} {s : List UInt8} (h0 : devBitLen (max - 1) ≠ 0) (hl : devRandK max ≤ s.length) :
    devRandIntFuel max (fuel + 1) s =
      if devCandidate (devRandB max) (s.take (devRandK max)) < max
      then some (devCandidate (devRandB max) (s.take (devRandK max)), s.drop (devRandK max))
      else devRandIntFuel max fuel (s.drop (devRandK max)) := by
  rw [devRandIntFuel]
  simp only [h0, if_false, Nat.not_lt.2 hl]

/-- the draws of one call: as many as asked for, all below the bound -/
theorem devDrawIndices_spec {max : Nat} (hmax : 0 < max) : ∀ (n : Nat) (s : List UInt8) (idx : List Nat) (r : List UInt8),
    devDrawIndices max n s = some (idx, r) → idx.length = n ∧ ∀ k ∈ idx, k < max := by
  intro n
  induction n with
  | zero => intro s idx r h; simp [devDrawIndices] at h; simp [h.1]
  | succ n ih =>
    intro s idx r h
    unfold devDrawIndices at h
    split at h
    · simp at h
    · rename_i i s' hi
      split at h
      · simp at h
      · rename_i is s'' hrest
        simp only [Option.some.injEq, Prod.mk.injEq] at h
        obtain ⟨rfl, rfl⟩ := h
        obtain ⟨hlen, hall⟩ := ih s' is s'' hrest
        refine ⟨by simp [hlen], ?_⟩
        intro k hk
        rcases List.mem_cons.1 hk with rfl | hk
        · exact devRandInt_lt hmax hi
        · exact hall k hk

/-- **C16, user codes, for every random byte stream.** For every non-empty alphabet, amount, dash interval and EVERY stream of
    bytes from the reader: NewUserCode never indexes outside the alphabet, and unless the reader runs dry the user code consists
    of `amount` characters of the alphabet in groups of `dash` (the monitor's `userCodeOK`) -/
theorem c16_usercode_every_stream (cs : List Char) (amount dash : Nat) (s : List UInt8) (hcs : cs ≠ []) :
    NewUserCodeFromStream cs amount dash s = .entropyError ∨
      ∃ code rest, NewUserCodeFromStream cs amount dash s = .code code rest ∧ userCodeOK cs amount dash code = true := by
  unfold NewUserCodeFromStream
  cases hd : devDrawIndices cs.length amount s with
  | none => left; rfl
  | some v =>
    obtain ⟨idx, rest⟩ := v
    right
    have hpos : 0 < cs.length := List.length_pos_iff.2 hcs
    obtain ⟨hlen, hall⟩ := devDrawIndices_spec hpos amount s idx rest hd
    obtain ⟨uc, huc, hok⟩ := userCode_wellformed cs amount dash idx hlen hall
    exact ⟨uc, rest, by simp [huc], hok⟩

/-- the reader is consumed from the front: what is left is a suffix of the stream -/
theorem devRandIntFuel_suffix {max : Nat} : ∀ (fuel : Nat) (s : List UInt8) (n : Nat) (r : List UInt8),
    devRandIntFuel max fuel s = some (n, r) → ∃ used, s = used ++ r := by
  intro fuel
  induction fuel with
  | zero => intro s n r h; simp [devRandIntFuel] at h
  | succ fuel ih =>
    intro s n r h
    unfold devRandIntFuel at h
    by_cases h0 : devBitLen (max - 1) = 0
    · simp only [h0, if_true, Option.some.injEq, Prod.mk.injEq] at h
      exact ⟨[], by simp [h.2]⟩
    · simp only [h0, if_false] at h
      by_cases hl : s.length < devRandK max
      · simp [hl] at h
      · simp only [hl, if_false] at h
        by_cases hc : devCandidate (devRandB max) (s.take (devRandK max)) < max
        · simp only [hc, if_true, Option.some.injEq, Prod.mk.injEq] at h
          exact ⟨s.take (devRandK max), by rw [← h.2]; simp⟩
        · simp only [hc, if_false] at h
          obtain ⟨u, hu⟩ := ih _ n r h
          exact ⟨s.take (devRandK max) ++ u, by rw [List.append_assoc, ← hu]; simp⟩

/-- an alphabet of one character needs no randomness at all -/
example (s : List UInt8) : devRandInt 1 s = some (0, s) := by
  simp [devRandInt, devRandIntFuel, devBitLen]

/-- non-vacuity (base-20 alphabet: one byte per round, 5 bits kept): 0x13 = 19 is taken; 0xF4 ↦ 20 is rejected and the next byte
    decides; a reader that runs dry is an error, not a panic -/
example : devRandInt 20 [0x13, 0xFF] = some (19, [0xFF]) := by decide
example : devRandInt 20 [0xF4, 0x21] = some (1, []) := by decide
example : devRandInt 20 [0xF4] = none := by decide
example : NewUserCodeFromStream "BCDFGHJKLMNPQRSTVWXZ".toList 8 4 [0, 1, 2, 3, 0xF4, 19, 18, 17, 16, 7] =
    .code "BCDF-ZXWV".toList [7] := by decide
example : NewUserCodeFromStream "BCDFGHJKLMNPQRSTVWXZ".toList 8 4 [0, 1, 2] = .entropyError := by decide

end C16
