/-
  C12 proofs: registered claims win / custom claims survive (for all objects), the tolerant decoders
  are total and exact, CFB and base64 invert for every input, hence the sealing round trip.
-/
import OidcModel.Proofs.Cfb
import OidcModel.Proofs.Base64
import OidcModel.Spec.C12
import OidcModel.Generated.Codec
import OidcModel.GoTac
set_option linter.unusedSimpArgs false
namespace C12
open Codec

theorem lookup_append (a b : Obj) (k : String) :
    lookup (a ++ b) k = (lookup a k).or (lookup b k) := by
  unfold lookup
  rw [List.find?_append]
  cases List.find? (fun x => x.1 == k) a <;> simp

theorem lookup_filter_notin (custom : Obj) (ks : List String) (k : String) (h : ks.contains k = true) :
    lookup (custom.filter fun kv => !ks.contains kv.1) k = none := by
  unfold lookup
  simp only [Option.map_eq_none_iff, List.find?_eq_none]
  intro x hx
  simp at hx
  intro hk
  simp at hk
  rw [hk] at hx
  simp [hx.2] at h

theorem lookup_filter_in (custom : Obj) (ks : List String) (k : String) (h : ks.contains k = false) :
    lookup (custom.filter fun kv => !ks.contains kv.1) k = lookup custom k := by
  unfold lookup
  congr 1
  induction custom with
  | nil => rfl
  | cons x xs ih =>
    by_cases hx : (x.1 == k) = true
    · have hk : x.1 = k := by simpa using hx
      have : ks.contains x.1 = false := by rw [hk]; exact h
      rw [List.filter_cons]
      simp only [this, Bool.not_false, if_true, List.find?_cons, hx]
    · by_cases hc : ks.contains x.1 = true
      · rw [List.filter_cons]
        simp only [hc, Bool.not_true, Bool.false_eq_true, if_false, List.find?_cons, hx]
        exact ih
      · rw [List.filter_cons]
        have hc' : ks.contains x.1 = false := by simpa using hc
        simp only [hc', Bool.not_false, if_true, List.find?_cons, hx]
        exact ih

theorem lookup_none_of_not_key (o : Obj) (k : String) (h : (keys o).contains k = false) : lookup o k = none := by
  unfold lookup
  simp only [Option.map_eq_none_iff, List.find?_eq_none]
  intro x hx hk
  have : (keys o).contains k = true := by
    simp only [keys, List.contains_eq_mem, List.mem_map, decide_eq_true_eq]
    exact ⟨x, hx, by simpa using hk⟩
  rw [h] at this; cases this

/-- registered claims win: whatever the custom map contains, every registered key has its registered value -/
theorem c12_registered_wins (registered custom : Obj) (k : String) (h : (keys registered).contains k = true) :
    lookup (merge registered custom) k = lookup registered k := by
  unfold merge
  split
  · rfl
  · rw [lookup_append, lookup_filter_notin _ _ _ h]; simp

/-- custom claims that do not collide with a registered name survive -/
theorem c12_custom_survives (registered custom : Obj) (k : String) (h : (keys registered).contains k = false)
    (hc : custom.isEmpty = false) :
    lookup (merge registered custom) k = lookup custom k := by
  unfold merge
  simp only [hc, Bool.false_eq_true, if_false]
  rw [lookup_append, lookup_filter_in _ _ _ h, lookup_none_of_not_key _ _ h]; simp

/-- the model's merge satisfies the marshal monitor for all registered / custom objects -/
theorem c12_merge_monitor (registered custom : Obj) : marshalOK registered custom (merge registered custom) = none := by
  unfold marshalOK
  have h1 : (keys registered).all (fun k => lookup (merge registered custom) k == lookup registered k) = true := by
    simp only [List.all_eq_true, beq_iff_eq]
    intro k hk
    exact c12_registered_wins _ _ _ (by simpa using hk)
  have h2 : (keys custom).all (fun k => (keys registered).contains k || lookup (merge registered custom) k == lookup custom k) = true := by
    simp only [List.all_eq_true, Bool.or_eq_true, beq_iff_eq]
    intro k hk
    by_cases hr : (keys registered).contains k = true
    · left; exact hr
    · right
      have hc : custom.isEmpty = false := by cases custom <;> simp_all [keys]
      exact c12_custom_survives _ _ _ (by simpa using hr) hc
  have h3 : (keys (merge registered custom)).all (fun k => (keys registered).contains k || (keys custom).contains k) = true := by
    simp only [List.all_eq_true, Bool.or_eq_true]
    intro k hk
    unfold merge at hk
    split at hk
    · left; simpa using hk
    · simp only [keys, List.map_append, List.mem_append, List.mem_map, List.mem_filter] at hk
      rcases hk with ⟨x, ⟨hx, _⟩, rfl⟩ | ⟨x, hx, rfl⟩
      · right; simp only [keys, List.contains_eq_mem, List.mem_map, decide_eq_true_eq]; exact ⟨x, hx, rfl⟩
      · left; simp only [keys, List.contains_eq_mem, List.mem_map, decide_eq_true_eq]; exact ⟨x, hx, rfl⟩
  simp only [h1, h2, h3, Bool.not_true, Bool.false_eq_true, if_false]

/-- the decoder models are total and exact w.r.t. the document -/
theorem c12_audience_exact (doc : JIn) : audienceOK doc (decodeAudience doc) = true := by
  unfold audienceOK decodeAudience
  cases doc with
  | atom a => cases a <;> simp
  | arr l =>
    by_cases h : l.all JAtom.isStr = true
    · simp only [h, if_true, Bool.true_and, beq_self_eq_true]
    · have h' : l.all JAtom.isStr = false := by simpa using h
      simp only [h', Bool.false_eq_true, if_false, Bool.not_false]

theorem c12_time_exact (rfc : String → Option Int) (doc : JIn) : timeOK rfc doc (decodeTime rfc doc) = true := by
  unfold timeOK decodeTime
  cases doc with
  | atom a =>
    cases a with
    | int n => by_cases h : int64Min ≤ n ∧ n ≤ timeMax <;> simp [h]
    | float t ok => cases ok <;> simp
    | str s => cases h : rfc s <;> simp [h]
    | _ => simp
  | arr l => simp

theorem c12_bool_exact (doc : JIn) : boolOK doc (decodeBool doc) = true := by
  unfold boolOK decodeBool
  cases doc with
  | atom a =>
    cases a with
    | bool b => cases b <;> simp
    | str s => by_cases h : s = "true" <;> simp [h]
    | _ => simp
  | arr l => simp



/-- model of `crypto.EncryptAES` (given the random iv) and `crypto.DecryptAES` over a block function -/
def encryptAES (E : Cfb.Block → Cfb.Block) (iv : Cfb.Block) (plain : List UInt8) : List Char :=
  B64.encode (Cfb.sealBytes E 16 iv plain)

def decryptAES (E : Cfb.Block → Cfb.Block) (s : List Char) : Option (List UInt8) :=
  (B64.decode s).bind (Cfb.unsealBytes E 16)

/-- every sealed string decrypts back to its plaintext: any block function (AES under any key), any
    16-byte iv, any plaintext of any length -/
theorem c12_seal_roundtrip (E : Cfb.Block → Cfb.Block) (hE : ∀ b, (E b).length = 16) (iv : Cfb.Block) (hiv : iv.length = 16)
    (plain : List UInt8) : decryptAES E (encryptAES E iv plain) = some plain := by
  unfold decryptAES encryptAES
  rw [B64.decode_encode]
  exact Cfb.unseal_seal E 16 (by decide) hE iv hiv plain

theorem c12_seal_monitor (E : Cfb.Block → Cfb.Block) (hE : ∀ b, (E b).length = 16) (iv : Cfb.Block) (hiv : iv.length = 16)
    (plain : List UInt8) : sealOK plain (decryptAES E (encryptAES E iv plain)) none = none := by
  rw [c12_seal_roundtrip E hE iv hiv]; simp [sealOK]

/-! non-vacuity -/
example : marshalOK [("iss", "\"op\""), ("sub", "\"u\"")] [("iss", "\"evil\""), ("x", "1")]
    (merge [("iss", "\"op\""), ("sub", "\"u\"")] [("iss", "\"evil\""), ("x", "1")]) = none := by decide
example : lookup (merge [("iss", "\"op\"")] [("iss", "\"evil\""), ("x", "1")]) "iss" = some "\"op\"" := by decide
example : marshalOK [("iss", "\"op\"")] [("iss", "\"evil\"")] [("iss", "\"evil\"")] = some "registered-claim-lost-or-overridden" := by decide
example : audienceOK (.arr [.str "a", .int 1]) .panic = false ∧ decodeAudience (.arr [.str "a", .int 1]) = .err := by decide
example : B64.decode (B64.encode [1, 2, 3, 250]) = some [1, 2, 3, 250] := B64.decode_encode _

end C12

/-! # Part 2: theorems about the REGENERATED codec (Generated/Codec.lean, namespace `GenCodec`)

  factgen rewrites `GenCodec.*` from pkg/oidc/types.go, userinfo.go, util.go and pkg/crypto/crypto.go on every run; the
  theorems below are about those definitions, for every document, every raw text and every oracle answer
  (`Cdc.Oracles`: encoding/json on generic values, x/text/language, time.Parse, aes.NewCipher, crypto/rand).  The bridge
  theorems tie them to the hand-written models of part 1 (`Codec.merge`, `Codec.decode…`, `Cfb.sealBytes/unsealBytes`). -/
namespace C12
open Codec Cdc

def outR {α : Type} : Go.R α → Out α
  | .ok v => .val v
  | .error _ => .err

/-! ### Locale -/

theorem c12_locale_exact (now : Int) (o : Oracles) (l : Locale) (data : String) :
    GenCodec.LocaleUnmarshalJSON now o l data =
      if (Go.len data == (0 : Int) || data == "\"\"") = true then .ok l else
      match o.jsonTag data l.tag with
      | (t, .ok _) => .ok { tag := t }
      | (_, .error e) => if e = "language.ValueError" then .ok { tag := Tag.zero } else .error e := by
  unfold GenCodec.LocaleUnmarshalJSON
  split
  · rfl
  · rcases h : o.jsonTag data l.tag with ⟨t, r⟩
    cases r with
    | ok u => rfl
    | error e =>
      simp only [GoX.errorsAs, beq_iff_eq]

/-- a fully valid tag decodes to that tag -/
theorem c12_locale_valid (now : Int) (o : Oracles) (l : Locale) (data : String) (t : Tag)
    (hne : (Go.len data == (0 : Int) || data == "\"\"") = false) (h : o.jsonTag data l.tag = (t, .ok ())) :
    GenCodec.LocaleUnmarshalJSON now o l data = .ok { tag := t } := by
  rw [c12_locale_exact, hne, h]; rfl

/-- a well-formed tag with an unknown subtag (`language.ValueError`) decodes to the zero value, without an error,
    WHATEVER x/text left in the tag (`p`) -/
theorem c12_locale_unknown (now : Int) (o : Oracles) (l : Locale) (data : String) (p : Tag)
    (hne : (Go.len data == (0 : Int) || data == "\"\"") = false) (h : o.jsonTag data l.tag = (p, .error "language.ValueError")) :
    GenCodec.LocaleUnmarshalJSON now o l data = .ok { tag := Tag.zero } := by
  rw [c12_locale_exact, hne, h]; rfl

/-- an ill-formed tag or a non-string (any other error of the json / language layer) is an error -/
theorem c12_locale_illformed (now : Int) (o : Oracles) (l : Locale) (data : String) (p : Tag) (e : String)
    (hne : (Go.len data == (0 : Int) || data == "\"\"") = false) (h : o.jsonTag data l.tag = (p, .error e)) (he : e ≠ "language.ValueError") :
    GenCodec.LocaleUnmarshalJSON now o l data = .error e := by
  rw [c12_locale_exact, hne, h]; simp [he]

/-- how the json/x-text oracle's answer classifies the document's tag string -/
def classOfJsonTag (r : Tag × Go.R Unit) : TagClass :=
  match r with
  | (t, .ok _) => .valid t
  | (_, .error e) => if e = "language.ValueError" then .unknown else .illformed

theorem c12_locale_monitor (now : Int) (o : Oracles) (data s : String) (hs : (s == "") = false)
    (hne : (Go.len data == (0 : Int) || data == "\"\"") = false) :
    localeOK (fun _ => classOfJsonTag (o.jsonTag data Tag.zero)) (.str s)
      (outR ((GenCodec.LocaleUnmarshalJSON now o {} data).map (·.tag))) = true := by
  rw [c12_locale_exact, hne]
  simp only [Bool.false_eq_true, if_false]
  rcases h : o.jsonTag data ({} : Locale).tag with ⟨t, r⟩
  cases r with
  | ok u => simp [localeOK, hs, classOfJsonTag, outR, Except.map]
  | error e =>
    by_cases he : e = "language.ValueError"
    · simp [localeOK, hs, classOfJsonTag, outR, Except.map, he]
    · simp [localeOK, hs, classOfJsonTag, outR, Except.map, he]


/-! ### Locales -/

/-- what `ParseLocales` keeps: entries `language.Parse` accepts without error and that are not `und` -/
def keepTags (o : Oracles) (ss : List String) : List Tag :=
  ss.filterMap fun s => if ((o.languageParse s).2.isNone && !(o.languageParse s).1.root) = true then some (o.languageParse s).1 else none

theorem foldl_keep (o : Oracles) (ss : List String) (acc : List Tag) :
    List.foldl (fun out locale =>
      match o.languageParse locale with
      | (tag, err) => if (GoX.errIsNil err && !tag.IsRoot) = true then Go.append out tag else out) acc ss = acc ++ keepTags o ss := by
  induction ss generalizing acc with
  | nil => simp [keepTags]
  | cons s rest ih =>
    rw [List.foldl_cons, ih]
    rcases h : o.languageParse s with ⟨t, e⟩
    simp only [keepTags, List.filterMap_cons, h, GoX.errIsNil, Tag.IsRoot, Go.append]
    split <;> simp_all

theorem c12_parseLocales (now : Int) (o : Oracles) (ss : List String) : GenCodec.ParseLocales now o ss = keepTags o ss := by
  unfold GenCodec.ParseLocales GoX.foldList
  have := foldl_keep o ss []
  simpa using this

theorem assertStrings_eq (l : List JVal) :
    assertStrings l = if allStr l = true then .ok (strsOf l) else .error "error:cannot assert" := by
  induction l with
  | nil => rfl
  | cons a rest ih =>
    cases a <;> simp [assertStrings, allStr, strsOf, ih]
    by_cases hr : allStr rest = true <;> simp [hr]

/-- `Locales.UnmarshalJSON`, for every document and every answer of `language.Parse` -/
theorem c12_locales_exact (now : Int) (o : Oracles) (l0 : List Tag) (data : String) :
    GenCodec.LocalesUnmarshalJSON now o l0 data =
      match o.jsonAny data with
      | .error _ => .error "error:oidc locales: %w"
      | .ok .null => .ok []
      | .ok (.str v) => .ok (keepTags o (Cdc.split v " "))
      | .ok (.arr v) => if allStr v = true then .ok (keepTags o (strsOf v)) else .error "error:oidc locales: %w"
      | .ok _ => .error "error:oidc locales: unsupported type: %T" := by
  unfold GenCodec.LocalesUnmarshalJSON
  cases h : o.jsonAny data with
  | error e => rfl
  | ok doc =>
    cases doc with
    | arr v =>
      simp only [assertStrings_eq, c12_parseLocales]
      by_cases hv : allStr v = true <;> simp [hv]
    | str v => simp only [c12_parseLocales]
    | _ => rfl

/-- how `language.Parse`'s answer classifies an entry -/
def classOfParse (o : Oracles) (s : String) : TagClass :=
  match o.languageParse s with
  | (t, none) => .valid t
  | (_, some e) => if e = "language.ValueError" then .unknown else .illformed

theorem validTags_keep (o : Oracles) (ss : List String) : validTags (classOfParse o) ss = keepTags o ss := by
  induction ss with
  | nil => rfl
  | cons s rest ih =>
    simp only [validTags, keepTags, List.filterMap_cons] at ih ⊢
    rw [ih]
    rcases h : o.languageParse s with ⟨t, e⟩
    cases e with
    | none => cases hr : t.root <;> simp [classOfParse, h, hr]
    | some e => by_cases he : e = "language.ValueError" <;> simp [classOfParse, h, he]

theorem c12_locales_monitor (now : Int) (o : Oracles) (l0 : List Tag) (data : String) (doc : JVal) (h : o.jsonAny data = .ok doc) :
    localesOK (classOfParse o) doc (outR (GenCodec.LocalesUnmarshalJSON now o l0 data)) = true := by
  rw [c12_locales_exact, h]
  cases doc with
  | arr v => by_cases hv : allStr v = true <;> simp [localesOK, outR, hv, validTags_keep]
  | _ => simp [localesOK, outR, validTags_keep]

theorem c12_locales_text (now : Int) (o : Oracles) (l0 : List Tag) (text : String) :
    GenCodec.LocalesUnmarshalText now o l0 text = .ok (keepTags o (Cdc.split text " ")) := by
  simp [GenCodec.LocalesUnmarshalText, c12_parseLocales]


/-! ### Audience -/

theorem collect_gen {β : Type} (f : JVal → Sum β String) (E : β) (hs : ∀ s, f (.str s) = .inr s)
    (hn : ∀ a, (match a with | .str _ => False | _ => True) → f a = .inl E) (l : List JVal) :
    GoX.collect l f = if allStr l = true then .inr (strsOf l) else .inl E := by
  induction l with
  | nil => rfl
  | cons a rest ih =>
    rw [GoX.collect]
    cases a with
    | str s =>
      rw [hs, ih]
      by_cases hr : allStr rest = true <;> simp [hr, allStr, strsOf]
    | _ => rw [hn _ trivial]; simp [allStr]

/-- `Audience.UnmarshalJSON`, for every document: a string is the one-element list, an array of strings is that list,
    an array with another member is an error, anything else leaves the value as it was -/
theorem c12_audience_exact_gen (now : Int) (o : Oracles) (a0 : List String) (text : String) :
    GenCodec.AudienceUnmarshalJSON now o a0 text =
      match o.jsonAny text with
      | .error e => .error e
      | .ok (.str s) => .ok [s]
      | .ok (.arr l) => if allStr l = true then .ok (strsOf l) else .error "error:oidc audience: unsupported member type: %T"
      | .ok _ => .ok a0 := by
  unfold GenCodec.AudienceUnmarshalJSON
  cases h : o.jsonAny text with
  | error e => rfl
  | ok doc =>
    cases doc with
    | arr v =>
      have hc := collect_gen (β := Go.R (List String))
        (f := fun audience => match JVal.asString audience with
          | (value, ok) => if (!ok) = true then Sum.inl (Except.error "error:oidc audience: unsupported member type: %T") else Sum.inr value)
        (E := Except.error "error:oidc audience: unsupported member type: %T") (fun s => rfl)
        (fun a ha => by cases a <;> first | exact False.elim ha | rfl) v
      simp only [hc]
      by_cases hv : allStr v = true <;> simp [hv]
    | _ => rfl

theorem c12_audience_monitor (now : Int) (o : Oracles) (text : String) (doc : JVal) (h : o.jsonAny text = .ok doc) :
    audienceOKJ doc (outR (GenCodec.AudienceUnmarshalJSON now o [] text)) = true := by
  rw [c12_audience_exact_gen, h]
  cases doc with
  | arr v => by_cases hv : allStr v = true <;> simp [audienceOKJ, outR, hv]
  | _ => simp [audienceOKJ, outR]

/-! ### Time -/

theorem F64.decide_ge (a b : F64) : decide (a ≥ b) = F64.le b a := by
  show decide (F64.le b a = true) = _
  simp
theorem F64.decide_lt (a b : F64) : decide (a < b) = F64.lt a b := by
  show decide (F64.lt a b = true) = _
  simp
theorem F64.bne_self (a : F64) : (a != a) = a.nan := by
  show (!(!a.nan && !a.nan && a.floor == a.floor && a.frac == a.frac)) = a.nan
  cases a.nan <;> simp

/-! atomic facts about the comparisons the range guard of `Time.UnmarshalJSON` is made of (whatever their order, polarity or
    nesting in the Go text) -/
theorem c12_two63 : GoX.shl 1 63 = 9223372036854775808 := by decide
theorem F64.neg_int (n : Int) : -({ floor := n } : F64) = { floor := -n } := rfl
theorem F64.ge_int (a : F64) (n : Int) : decide (a ≥ ({ floor := n } : F64)) = (!a.nan && decide (n ≤ a.floor)) := by
  show decide (F64.le { floor := n } a = true) = _
  rw [Bool.eq_iff_iff]; cases h : a.nan <;> simp [F64.le, h] <;> omega
theorem F64.lt_int (a : F64) (n : Int) : decide (a < ({ floor := n } : F64)) = (!a.nan && decide (a.floor < n)) := by
  show decide (F64.lt a { floor := n } = true) = _
  rw [Bool.eq_iff_iff]; cases h : a.nan <;> simp [F64.lt, h]
theorem F64.toInt64_mk (fl : Int) (fr nan : Bool) :
    F64.toInt64 { floor := fl, frac := fr, nan := nan } = if fl < 0 ∧ fr = true then fl + 1 else fl := rfl
theorem F64.inTime_mk (fl : Int) (fr nan : Bool) :
    F64.inTime { floor := fl, frac := fr, nan := nan } =
      (!nan && decide (-9223372036854775808 ≤ fl) && decide (fl ≤ 9223371974719179007)) := rfl

set_option linter.unusedSimpArgs false in
/-- `Time.UnmarshalJSON`, for every document and every answer of `time.Parse`: a number is decoded exactly when it is one of
    the instants `oidc.Time` stands for (`F64.inTime`: int64 AND no wrap-around in `time.Unix`), every other number is refused -/
theorem c12_time_exact_gen (now : Int) (o : Oracles) (ts0 : Int) (data : String) :
    GenCodec.TimeUnmarshalJSON now o ts0 data =
      match o.jsonAny data with
      | .error _ => .error "error:oidc.Time: %w"
      | .ok (.num x) => if F64.inTime x = true then .ok x.toInt64 else .error "error:oidc.Time: value %v out of range"
      | .ok (.str s) => (match o.timeParse s with | .ok t => .ok (Go.fromTime t) | .error _ => .error "error:oidc.Time: %w")
      | .ok .null => .ok 0
      | .ok _ => .error "error:oidc.Time: unable to parse type %T with value %v" := by
  unfold GenCodec.TimeUnmarshalJSON
  cases h : o.jsonAny data with
  | error e => rfl
  | ok doc =>
    cases doc with
    | num x =>
      rcases x with ⟨fl, fr, nan⟩
      simp only [c12_two63, F64.neg_int, F64.bne_self, F64.ge_int, F64.lt_int, F64.toInt64_mk, F64.inTime_mk]
      cases nan <;> go_leaf
    | str s => simp only []; cases o.timeParse s <;> rfl
    | _ => rfl

/-- no number the regenerated decoder hands out lies in the zone `time.Unix` wraps around (last 62135596800 seconds of int64) -/
theorem c12_time_never_in_wrap_zone (now : Int) (o : Oracles) (ts0 : Int) (data : String) (x : F64) (v : Int)
    (hj : o.jsonAny data = .ok (.num x)) (hv : GenCodec.TimeUnmarshalJSON now o ts0 data = .ok v) :
    int64Min ≤ v ∧ v ≤ timeMax ∧ v = x.toInt64 := by
  rw [c12_time_exact_gen, hj] at hv
  cases hin : F64.inTime x with
  | false => simp [hin] at hv
  | true =>
    simp only [hin, if_true, Except.ok.injEq] at hv
    subst hv
    rcases x with ⟨fl, fr, nan⟩
    simp only [F64.inTime_mk, Bool.and_eq_true, Bool.not_eq_true', decide_eq_true_eq] at hin
    simp only [F64.toInt64_mk]
    unfold int64Min timeMax
    refine ⟨?_, ?_, trivial⟩ <;> split <;> omega

theorem c12_time_monitor (now : Int) (o : Oracles) (data : String) (doc : JVal) (h : o.jsonAny data = .ok doc) :
    timeOKJ o.timeParse doc (outR (GenCodec.TimeUnmarshalJSON now o 0 data)) = true := by
  rw [c12_time_exact_gen, h]
  cases doc with
  | num x => cases hx : F64.inTime x <;> simp [timeOKJ, outR, hx]
  | str s => simp only []; cases ht : o.timeParse s <;> simp [timeOKJ, outR, ht]
  | _ => simp [timeOKJ, outR]


/-! ### Bool, SpaceDelimitedArray, Display -/

/-- `Bool.UnmarshalJSON`: the literal `true`, or a JSON STRING whose decoded value is "true" (whatever its spelling - the
    string is decoded by encoding/json, oracle `jsonString`), sets it; everything else, including every value that is not a
    string, leaves it as it was; there is never an error -/
theorem c12_bool_exact_gen (now : Int) (o : Oracles) (bs : Bool) (data : String) :
    GenCodec.BoolUnmarshalJSON now o bs data =
      .ok (if (data == "true") = true then true else
        match o.jsonString data "" with
        | .ok s => if (s == "true") = true then true else bs
        | .error _ => bs) := by
  unfold GenCodec.BoolUnmarshalJSON
  split
  · rfl
  · simp only []
    cases o.jsonString data "" with
    | error e => rfl
    | ok s => simp only []; split <;> rfl

/-- `SpaceDelimitedArray.UnmarshalJSON`: whatever string encoding/json decodes (`""` stays for `null`), split on single spaces -/
theorem c12_space_exact (now : Int) (o : Oracles) (s0 : List String) (data : String) :
    GenCodec.SpaceDelimitedArrayUnmarshalJSON now o s0 data =
      match o.jsonString data "" with
      | .error e => .error e
      | .ok str => .ok (Cdc.split str " ") := by
  unfold GenCodec.SpaceDelimitedArrayUnmarshalJSON
  simp only []
  cases h : o.jsonString data "" <;> rfl

/-- encoding/json's contract for a `string` destination, as far as the theorem needs it -/
def jsonStringCoherent (o : Oracles) (data : String) (doc : JVal) : Prop :=
  match doc with
  | .str s => o.jsonString data "" = .ok s
  | .null => o.jsonString data "" = .ok ""
  | _ => ∃ e, o.jsonString data "" = .error e

/-- the Bool monitor holds for EVERY document: `lit` is the raw text of `doc` (the only raw text that equals `true` is the
    boolean true - `hraw`), and encoding/json decodes a string destination as `jsonStringCoherent` says.  In particular
    the string "true" is accepted in every spelling (`"true"`, `"\u0074rue"`, …) -/
theorem c12_bool_monitor (now : Int) (o : Oracles) (lit : String) (doc : JVal)
    (hraw : (lit == "true") = (match doc with | .bool true => true | _ => false))
    (hs : jsonStringCoherent o lit doc) :
    boolOKJ doc (outR (GenCodec.BoolUnmarshalJSON now o false lit)) = true := by
  rw [c12_bool_exact_gen]
  cases doc with
  | bool b =>
    cases b with
    | true => simp only at hraw; simp [hraw, boolOKJ, outR]
    | false =>
      obtain ⟨e, he⟩ := hs
      simp only at hraw
      simp [hraw, he, boolOKJ, outR]
  | str s =>
    simp only [jsonStringCoherent] at hs
    simp only at hraw
    simp only [hraw, hs, Bool.false_eq_true, if_false]
    cases hst : (s == "true") <;> simp [boolOKJ, outR, hst]
  | null =>
    simp only [jsonStringCoherent] at hs
    simp only at hraw
    simp [hraw, hs, boolOKJ, outR]
  | num x => obtain ⟨e, he⟩ := hs; simp only at hraw; simp [hraw, he, boolOKJ, outR]
  | arr l => obtain ⟨e, he⟩ := hs; simp only at hraw; simp [hraw, he, boolOKJ, outR]
  | obj l => obtain ⟨e, he⟩ := hs; simp only at hraw; simp [hraw, he, boolOKJ, outR]

/-- non-vacuity: the escaped spelling (encoding/json decodes it to "true"), the plain literal, another string, a number -/
example : outR (GenCodec.BoolUnmarshalJSON 0 { jsonString := fun _ _ => .ok "true" } false "\"\\u0074rue\"") = .val true := by decide
example : outR (GenCodec.BoolUnmarshalJSON 0 {} false "true") = .val true := by decide
example : outR (GenCodec.BoolUnmarshalJSON 0 { jsonString := fun _ _ => .ok "TRUE" } false "\"TRUE\"") = .val false := by decide
example : outR (GenCodec.BoolUnmarshalJSON 0 { jsonString := fun _ _ => .error "json.UnmarshalTypeError" } false "1") = .val false := by decide

theorem c12_space_monitor (now : Int) (o : Oracles) (data : String) (doc : JVal) (h : jsonStringCoherent o data doc) :
    spaceOK doc (outR (GenCodec.SpaceDelimitedArrayUnmarshalJSON now o [] data)) = true := by
  rw [c12_space_exact]
  cases doc with
  | str s => simp only [jsonStringCoherent] at h; simp [h, spaceOK, outR]
  | null =>
    simp only [jsonStringCoherent] at h
    have hsplit : Cdc.split "" " " = [""] := by decide
    simp [h, spaceOK, outR, hsplit]
  | bool b => obtain ⟨e, he⟩ := h; simp [he, spaceOK, outR]
  | num x => obtain ⟨e, he⟩ := h; simp [he, spaceOK, outR]
  | arr l => obtain ⟨e, he⟩ := h; simp [he, spaceOK, outR]
  | obj l => obtain ⟨e, he⟩ := h; simp [he, spaceOK, outR]

theorem c12_space_string (now : Int) (s : List String) : GenCodec.SpaceDelimitedArrayString now s = " ".intercalate s := rfl

/-- `Display.UnmarshalText`: the four values of the (regenerated) constants are kept, anything else leaves the value as it was -/
theorem c12_display_exact (now : Int) (d text : String) :
    GenCodec.DisplayUnmarshalText now d text = .ok (if displayValues.contains text = true then text else d) := by
  unfold GenCodec.DisplayUnmarshalText
  simp only [GenCodec.DisplayPage, GenCodec.DisplayPopup, GenCodec.DisplayTouch, GenCodec.DisplayWAP, displayValues,
    List.contains_cons, List.contains_nil, Bool.or_false]
  by_cases h : (text == "page" || (text == "popup" || (text == "touch" || text == "wap"))) = true
  · simp only [h, if_true]
    have : (text == "page" || text == "popup" || text == "touch" || text == "wap") = true := by
      simpa [Bool.or_assoc] using h
    simp [this]
  · have h' : (text == "page" || (text == "popup" || (text == "touch" || text == "wap"))) = false := by simpa using h
    have : (text == "page" || text == "popup" || text == "touch" || text == "wap") = false := by
      simpa [Bool.or_assoc] using h'
    simp [h', this]

theorem c12_display_monitor (now : Int) (text : String) :
    displayOK text (outR (GenCodec.DisplayUnmarshalText now "" text)) = true := by
  rw [c12_display_exact]
  cases h : displayValues.contains text <;> simp only [displayOK, outR, h, if_true, if_false, beq_self_eq_true, Bool.false_eq_true]


/-! ### unmarshalJSONMulti -/

theorem first_none_iff {α β : Type} (l : List α) (f : α → Option β) : GoX.first l f = none ↔ ∀ x ∈ l, f x = none := by
  induction l with
  | nil => simp [GoX.first]
  | cons x xs ih =>
    rw [GoX.first]
    cases h : f x with
    | some r => simp [h]
    | none => simp [h, ih]

/-- `unmarshalJSONMulti` succeeds exactly when EVERY destination decodes; otherwise it returns an error
    (a later destination that decodes does not hide an earlier failure) -/
theorem c12_multi_exact (now : Int) (o : Oracles) (data : String) (ds : List Dst) :
    GenCodec.unmarshalJSONMulti now o data ds =
      if (ds.all fun d => (o.unmarshalInto data d).isOk) = true then .ok () else .error "error:oidc: %w into %T" := by
  unfold GenCodec.unmarshalJSONMulti
  induction ds with
  | nil => rfl
  | cons d rest ih =>
    rw [GoX.first]
    cases h : o.unmarshalInto data d with
    | error e => simp [h, Except.isOk, Except.toBool]
    | ok u =>
      simp only [h, List.all_cons, Except.isOk, Except.toBool, Bool.true_and]
      exact ih

/-! ### mergeAndMarshalClaims -/

theorem lookup_cons (x : String × String) (xs : Codec.Obj) (k : String) :
    lookup (x :: xs) k = if (x.1 == k) = true then some x.2 else lookup xs k := by
  unfold lookup
  rw [List.find?_cons]
  cases h : (x.1 == k) <;> simp

theorem lookup_map_set (m : Codec.Obj) (k k' v : String) :
    lookup (m.map fun kv => if (kv.1 == k) = true then (k, v) else kv) k' =
      if k = k' then (if (m.any fun kv => kv.1 == k) = true then some v else none) else lookup m k' := by
  induction m with
  | nil => by_cases h : k = k' <;> simp [lookup, h]
  | cons x xs ih =>
    rw [List.map_cons, lookup_cons, ih, lookup_cons, List.any_cons]
    by_cases hx : (x.1 == k) = true
    · have hk : x.1 = k := by simpa using hx
      by_cases h : k = k'
      · subst h; simp [hk]
      · have : (x.1 == k') = false := by rw [hk]; simpa using h
        have hkk : (k == k') = false := by simpa using h
        simp [hx, h, this, hkk]
    · have hx' : (x.1 == k) = false := by simpa using hx
      by_cases h : k = k'
      · subst h; simp only [hx', Bool.false_eq_true, if_false, if_true, Bool.false_or]
      · simp [hx', h]

theorem lookup_none_of_any_false (m : Codec.Obj) (k : String) (h : (m.any fun kv => kv.1 == k) = false) : lookup m k = none := by
  induction m with
  | nil => rfl
  | cons x xs ih =>
    rw [List.any_cons, Bool.or_eq_false_iff] at h
    rw [lookup_cons, h.1]
    simpa using ih h.2

theorem lookup_mapSet (m : Codec.Obj) (k k' v : String) :
    lookup (GoX.mapSet m k v) k' = if k = k' then some v else lookup m k' := by
  unfold GoX.mapSet
  by_cases hany : (m.any fun kv => kv.1 == k) = true
  · simp only [hany, if_true]
    rw [lookup_map_set, hany]
    simp
  · have hany' : (m.any fun kv => kv.1 == k) = false := by rw [Bool.not_eq_true] at hany; exact hany
    simp only [hany', Bool.false_eq_true, if_false]
    rw [lookup_append]
    by_cases h : k = k'
    · subst h
      rw [lookup_none_of_any_false m k hany']
      simp [lookup]
    · have hkk : (k == k') = false := by simpa using h
      simp [h, lookup, hkk]

/-- storing all members of `d` over `m`, one after the other (the keys of `d` are distinct, as in a JSON object / Go map) -/
theorem lookup_foldKV_set (d : Codec.Obj) (hd : (keys d).Nodup) (m : Codec.Obj) (k : String) :
    lookup (GoX.foldKV d m (fun m k v => GoX.mapSet m k v)) k = (lookup d k).or (lookup m k) := by
  unfold GoX.foldKV
  induction d generalizing m with
  | nil => simp [lookup]
  | cons x xs ih =>
    have hx : x.1 ∉ keys xs := by simp [keys] at hd ⊢; exact hd.1
    have hxs : (keys xs).Nodup := by simp [keys] at hd ⊢; exact hd.2
    rw [List.foldl_cons, ih hxs, lookup_mapSet, lookup_cons]
    by_cases h : x.1 = k
    · subst h
      have : lookup xs x.1 = none := by
        apply lookup_none_of_not_key
        simpa using hx
      simp [this]
    · have hb : (x.1 == k) = false := by simpa using h
      simp [h, hb]


/-- the map `mergeAndMarshalClaims` encodes when there are custom claims: the custom claims copied into a fresh map,
    then the registered members stored OVER them -/
def mergedMap (r custom : Codec.Obj) : Codec.Obj :=
  GoX.foldKV r (GoX.foldKV custom ([] : Codec.Obj) (fun m k v => GoX.mapSet m k v)) (fun m k v => GoX.mapSet m k v)

theorem len_beq_zero (l : Codec.Obj) : ((Go.len l : Int) == 0) = l.isEmpty := by
  cases l with
  | nil => rfl
  | cons c cs =>
    show ((((c :: cs).length : Nat) : Int) == 0) = false
    simp only [List.length_cons, beq_eq_false_iff_ne, ne_eq]; omega
theorem len_bne_zero (l : Codec.Obj) : ((Go.len l : Int) != 0) = !l.isEmpty := by
  simp only [bne, len_beq_zero]
theorem len_gt_zero (l : Codec.Obj) : decide ((Go.len l : Int) > 0) = !l.isEmpty := by
  cases l with
  | nil => rfl
  | cons c cs =>
    show decide ((((c :: cs).length : Nat) : Int) > 0) = true
    simp only [List.length_cons, decide_eq_true_eq]; omega

/-- `mergeAndMarshalClaims`, for every registered encoding (or encoding error), every custom map, every encoder answer
    (characterisation lemma: the library twins are unfolded, the branches are closed by the shape-independent `go_leaf`) -/
theorem c12_merge_exact (now : Int) (o : Oracles) (reg : Reg) (custom : Codec.Obj) :
    (GenCodec.mergeAndMarshalClaims now o reg custom).2 =
      match reg.enc with
      | .error _ => .error "error:oidc registered claims: %w"
      | .ok r =>
        if custom.isEmpty = true then .ok [r]
        else if o.mapEncodable (mergedMap r custom) = true then .ok [mergedMap r custom] else .error "error:oidc custom claims: %w" := by
  unfold GenCodec.mergeAndMarshalClaims
  simp only [bufEncode, Encodable.enc, bufDecodeInto, Buf.empty, Buf.Bytes, mergedMap, len_gt_zero, len_beq_zero, len_bne_zero, List.nil_append]
  go_leaf

theorem lookup_mergedMap (r custom : Codec.Obj) (hr : (keys r).Nodup) (hc : (keys custom).Nodup) (k : String) :
    lookup (mergedMap r custom) k = (lookup r k).or (lookup custom k) := by
  unfold mergedMap
  rw [lookup_foldKV_set r hr, lookup_foldKV_set custom hc]
  simp [lookup]

theorem lookup_isSome_of_key (o : Codec.Obj) (k : String) (h : (keys o).contains k = true) : (lookup o k).isSome = true := by
  induction o with
  | nil => simp [keys] at h
  | cons x xs ih =>
    rw [lookup_cons]
    by_cases hx : (x.1 == k) = true
    · simp [hx]
    · have hx' : (x.1 == k) = false := by rw [Bool.not_eq_true] at hx; exact hx
      simp only [hx', Bool.false_eq_true, if_false]
      apply ih
      simp only [keys, List.map_cons, List.contains_cons] at h ⊢
      have hk : (k == x.1) = false := by rw [beq_eq_false_iff_ne] at hx' ⊢; exact fun e => hx' e.symm
      simpa [hk] using h

/-- BRIDGE: the regenerated merge and the hand-written `Codec.merge` agree on every key -/
theorem c12_merge_bridge (r custom : Codec.Obj) (hr : (keys r).Nodup) (hc : (keys custom).Nodup) (k : String) :
    lookup (if custom.isEmpty = true then r else mergedMap r custom) k = lookup (Codec.merge r custom) k := by
  by_cases he : custom.isEmpty = true
  · simp [he, Codec.merge]
  · have he' : custom.isEmpty = false := by rw [Bool.not_eq_true] at he; exact he
    simp only [he', Bool.false_eq_true, if_false]
    rw [lookup_mergedMap r custom hr hc]
    by_cases hk : (keys r).contains k = true
    · rw [c12_registered_wins r custom k hk]
      have := lookup_isSome_of_key r k hk
      cases hl : lookup r k <;> simp_all
    · have hk' : (keys r).contains k = false := by rw [Bool.not_eq_true] at hk; exact hk
      rw [c12_custom_survives r custom k hk' he', lookup_none_of_not_key r k hk']
      simp

/-- registered claims win in the REGENERATED merge: whatever the custom map contains (colliding names included), every
    registered key of the produced document has its registered value; the other custom claims survive -/
theorem c12_registered_wins_gen (now : Int) (o : Oracles) (reg : Reg) (r custom : Codec.Obj) (hreg : reg.enc = .ok r)
    (hr : (keys r).Nodup) (hc : (keys custom).Nodup) (henc : o.mapEncodable (mergedMap r custom) = true) :
    ∃ m, (GenCodec.mergeAndMarshalClaims now o reg custom).2 = .ok [m] ∧
      (∀ k, (keys r).contains k = true → lookup m k = lookup r k) ∧
      (∀ k, (keys r).contains k = false → lookup m k = lookup custom k) := by
  refine ⟨if custom.isEmpty = true then r else mergedMap r custom, ?_, ?_, ?_⟩
  · rw [c12_merge_exact, hreg]
    by_cases he : custom.isEmpty = true <;> simp [he, henc]
  · intro k hk
    rw [c12_merge_bridge r custom hr hc, c12_registered_wins r custom k hk]
  · intro k hk
    rw [c12_merge_bridge r custom hr hc]
    by_cases he : custom.isEmpty = true
    · have : custom = [] := by cases custom <;> simp_all
      subst this
      show lookup r k = lookup [] k
      rw [lookup_none_of_not_key r k hk]
      rfl
    · have he' : custom.isEmpty = false := by rw [Bool.not_eq_true] at he; exact he
      exact c12_custom_survives r custom k hk he'


/-! ### Locale: decode → encode -/

theorem c12_locale_marshal (now : Int) (o : Oracles) (l : Option Locale) :
    GenCodec.LocaleMarshalJSON now o l = if (Locale.Tag l).IsRoot = true then .ok "null" else o.marshalTag (Locale.Tag l) := by
  simp only [GenCodec.LocaleMarshalJSON]

/-- decode → encode of a `locale` member: whatever text the document holds and whatever x/text answers, the registered
    `locale` written back is `null` unless x/text accepted the tag completely - then it is the encoding of exactly that
    tag; and it wins over a custom claim of the same name.  (An unknown subtag can therefore never turn into `de`, `en-US` …) -/
theorem c12_locale_roundtrip (now : Int) (o : Oracles) (data : String) (loc : Locale) (txt : String)
    (hdec : GenCodec.LocaleUnmarshalJSON now o {} data = .ok loc)
    (hm : GenCodec.LocaleMarshalJSON now o (some loc) = .ok txt)
    (others custom : Codec.Obj) (hno : (keys others).contains "locale" = false) (hnd : (keys others).Nodup) (hc : (keys custom).Nodup)
    (henc : o.mapEncodable (mergedMap (others ++ [("locale", txt)]) custom) = true) :
    (∃ m, (GenCodec.mergeAndMarshalClaims now o { enc := .ok (others ++ [("locale", txt)]) } custom).2 = .ok [m] ∧ lookup m "locale" = some txt) ∧
    (txt = "null" ∨ ∃ t, o.jsonTag data Tag.zero = (t, .ok ()) ∧ t.root = false ∧ o.marshalTag t = .ok txt) := by
  constructor
  · have hkeys : (keys (others ++ [("locale", txt)])).Nodup := by
      simp only [keys, List.map_append, List.map_cons, List.map_nil]
      rw [List.nodup_append]
      refine ⟨hnd, by simp, ?_⟩
      intro a ha b hb hab
      simp at hb
      rw [hb] at hab
      rw [hab] at ha
      have : (keys others).contains "locale" = true := by simpa [keys] using ha
      rw [hno] at this; cases this
    obtain ⟨m, hm1, hm2, _⟩ := c12_registered_wins_gen now o { enc := .ok (others ++ [("locale", txt)]) } _ custom rfl hkeys hc henc
    refine ⟨m, hm1, ?_⟩
    rw [hm2 "locale" (by simp [keys]), lookup_append, lookup_none_of_not_key others "locale" hno]
    simp [lookup]
  · rw [c12_locale_marshal] at hm
    rw [c12_locale_exact] at hdec
    split at hdec
    · cases hdec
      left
      simpa [Locale.Tag, Tag.IsRoot, Tag.zero] using hm.symm
    · rcases hj : o.jsonTag data ({} : Locale).tag with ⟨t, r⟩
      rw [hj] at hdec
      cases r with
      | ok u =>
        cases hdec
        by_cases hroot : t.root = true
        · left; simpa [Locale.Tag, Tag.IsRoot, hroot] using hm.symm
        · right
          have hroot' : t.root = false := by rw [Bool.not_eq_true] at hroot; exact hroot
          refine ⟨t, ?_, hroot', ?_⟩
          · first | exact hj | rfl
          · simpa [Locale.Tag, Tag.IsRoot, hroot'] using hm
      | error e =>
        simp only at hdec
        split at hdec
        · cases hdec
          left
          simpa [Locale.Tag, Tag.IsRoot, Tag.zero] using hm.symm
        · cases hdec

/-! ### AES sealing: the regenerated functions are the hand-written CFB sealing -/

theorem decAux_length (E : Cfb.Block → Cfb.Block) (n : Nat) (hn : 0 < n) (hE : ∀ b, (E b).length = n) :
    ∀ fuel prev c, c.length ≤ fuel → (Cfb.decAux E n fuel prev c).length = c.length := by
  intro fuel
  induction fuel with
  | zero => intro prev c h; have : c = [] := by cases c <;> simp_all
            subst this; rfl
  | succ f ih =>
    intro prev c h
    unfold Cfb.decAux
    by_cases hp : c.isEmpty
    · simp [hp]; cases c <;> simp_all
    · simp only [hp]
      have h1 : (c.take n).length ≤ (E prev).length := by rw [hE]; simp; omega
      have hpos : 0 < c.length := by cases c <;> simp_all
      simp only [Bool.false_eq_true, if_false, List.length_append]
      rw [Cfb.xorBytes_length _ _ h1, ih _ _ (by simp; omega)]
      simp; omega

/-- BRIDGE: `DecryptBytesAES` as regenerated = key check, then `Cfb.unsealBytes` (length guard `<`, iv = first block) -/
theorem c12_decrypt_bridge (now : Int) (o : Oracles) (c key : Bytes) (E : Cfb.Block → Cfb.Block)
    (hk : o.newCipher key = .ok E) (hE : ∀ b, (E b).length = 16) :
    GenCodec.DecryptBytesAES now o c key =
      match Cfb.unsealBytes E 16 c with
      | none => .error "ErrCipherTextBlockSize"
      | some p => .ok p := by
  unfold GenCodec.DecryptBytesAES
  simp only [hk, Cfb.unsealBytes]
  have hlen : decide ((Go.len c : Int) < aesBlockSize) = decide (c.length < 16) := by
    show decide (((c.length : Nat) : Int) < 16) = _
    simp only [decide_eq_decide]; omega
  rw [hlen]
  by_cases hc : c.length < 16
  · simp [hc]
  · simp only [hc, decide_false, Bool.false_eq_true, if_false]
    have h16 : (aesBlockSize).toNat = 16 := rfl
    simp only [GoX.sliceTo, GoX.sliceFrom, h16, newCFBDecrypter, Stream.XORKeyStream, if_true]
    have hl : (Cfb.dec E 16 (List.take 16 c) (List.drop 16 c)).length = (List.drop 16 c).length := by
      unfold Cfb.dec
      exact decAux_length E 16 (by decide) hE _ _ _ (Nat.le_refl _)
    have hd : List.drop (Cfb.dec E 16 (List.take 16 c) (List.drop 16 c)).length (List.drop 16 c) = [] :=
      List.drop_of_length_le (by rw [hl]; exact Nat.le_refl _)
    simp [hd]

theorem c12_decrypt_keyerr (now : Int) (o : Oracles) (c key : Bytes) (e : String) (hk : o.newCipher key = .error e) :
    GenCodec.DecryptBytesAES now o c key = .error e := by
  simp [GenCodec.DecryptBytesAES, hk]

/-- BRIDGE: `EncryptBytesAES` as regenerated = key check, random iv, `Cfb.sealBytes` (iv ++ CFB(plain)) -/
theorem c12_encrypt_bridge (now : Int) (o : Oracles) (plain key : Bytes) (E : Cfb.Block → Cfb.Block) (iv : Bytes)
    (hk : o.newCipher key = .ok E) (hE : ∀ b, (E b).length = 16)
    (hr : o.randRead (GoX.zeros 16) = .ok iv) (hiv : iv.length = 16) :
    GenCodec.EncryptBytesAES now o plain key = .ok (Cfb.sealBytes E 16 iv plain) := by
  unfold GenCodec.EncryptBytesAES
  have h16 : (aesBlockSize).toNat = 16 := rfl
  have hz : GoX.sliceTo (GoX.zeros (aesBlockSize + Go.len plain)) aesBlockSize = GoX.zeros 16 := by
    show List.take 16 (List.replicate (((16 : Int) + ((plain.length : Nat) : Int)).toNat) (0 : UInt8)) = List.replicate 16 0
    have : ((16 : Int) + ((plain.length : Nat) : Int)).toNat = 16 + plain.length := by omega
    rw [this, List.take_replicate]; simp
  simp only [hk, hz, hr]
  have hlen : (Cfb.enc E 16 iv plain).length = plain.length := by
    unfold Cfb.enc
    exact Cfb.encAux_length E 16 (by decide) hE _ _ _ (Nat.le_refl _)
  have hzl : (GoX.zeros (aesBlockSize + Go.len plain)).length = 16 + plain.length := by
    show (List.replicate (((16 : Int) + ((plain.length : Nat) : Int)).toNat) (0 : UInt8)).length = _
    simp; omega
  generalize GoX.zeros (aesBlockSize + Go.len plain) = Z at hzl
  simp only [GoX.setSliceTo, GoX.setSliceFrom, GoX.sliceFrom, h16, newCFBEncrypter, Stream.XORKeyStream, Cfb.sealBytes, Bool.false_eq_true, if_false]
  have hR : (List.drop iv.length Z).length = plain.length := by simp [hzl, hiv]
  rw [List.take_left' hiv, List.drop_left' hiv]
  rw [List.drop_of_length_le (by omega)]
  simp

/-- sealing round trip of the REGENERATED functions: for every key the cipher accepts (block function of size 16), every
    iv the random source delivers (16 bytes) and every plaintext of any length -/
theorem c12_seal_roundtrip_gen (now : Int) (o : Oracles) (plain key : Bytes) (E : Cfb.Block → Cfb.Block) (iv : Bytes)
    (hk : o.newCipher key = .ok E) (hE : ∀ b, (E b).length = 16)
    (hr : o.randRead (GoX.zeros 16) = .ok iv) (hiv : iv.length = 16) :
    ∃ sealed, GenCodec.EncryptAES now o plain key = .ok sealed ∧ GenCodec.DecryptAES now o sealed key = .ok plain := by
  refine ⟨B64.encode (Cfb.sealBytes E 16 iv plain), ?_, ?_⟩
  · simp [GenCodec.EncryptAES, c12_encrypt_bridge now o plain key E iv hk hE hr hiv, b64Encode]
  · unfold GenCodec.DecryptAES
    simp only [b64Decode, B64.decode_encode]
    rw [c12_decrypt_bridge now o _ key E hk hE, Cfb.unseal_seal E 16 (by decide) hE iv hiv plain]


/-! ### Bridges to the hand-written decoder models of `Model/Codec.lean` (on which `c12_audience_exact`, `c12_time_exact`,
     `c12_bool_exact` are stated): the regenerated decoders compute the same answers -/

def toAtom : JVal → JAtom
  | .null => .null
  | .bool b => .bool b
  | .num x => .float x.toInt64 (F64.inTime x)
  | .str s => .str s
  | .arr _ => .obj
  | .obj _ => .obj
def toJIn : JVal → JIn
  | .arr l => .arr (l.map toAtom)
  | v => .atom (toAtom v)

theorem all_isStr_map (l : List JVal) : (l.map toAtom).all JAtom.isStr = allStr l := by
  induction l with
  | nil => rfl
  | cons a rest ih => cases a <;> simp [toAtom, JAtom.isStr, allStr, ih]

theorem filterMap_strOf_map (l : List JVal) (h : allStr l = true) : (l.map toAtom).filterMap JAtom.strOf = strsOf l := by
  induction l with
  | nil => rfl
  | cons a rest ih => cases a <;> simp_all [toAtom, JAtom.strOf, allStr, strsOf]

theorem c12_audience_bridge (now : Int) (o : Oracles) (text : String) (doc : JVal) (h : o.jsonAny text = .ok doc) :
    outR (GenCodec.AudienceUnmarshalJSON now o [] text) = decodeAudience (toJIn doc) := by
  rw [c12_audience_exact_gen, h]
  cases doc with
  | arr l =>
    simp only [toJIn, decodeAudience, all_isStr_map]
    by_cases hl : allStr l = true
    · simp [hl, outR, filterMap_strOf_map l hl]
    · simp [hl, outR]
  | _ => rfl

theorem c12_time_bridge (now : Int) (o : Oracles) (data : String) (doc : JVal) (h : o.jsonAny data = .ok doc) :
    outR (GenCodec.TimeUnmarshalJSON now o 0 data) =
      decodeTime (fun s => match o.timeParse s with | .ok t => some (Go.fromTime t) | .error _ => none) (toJIn doc) := by
  rw [c12_time_exact_gen, h]
  cases doc with
  | num x => simp only [toJIn, toAtom, decodeTime]; cases F64.inTime x <;> rfl
  | str s => simp only [toJIn, toAtom, decodeTime]; cases o.timeParse s <;> rfl
  | _ => rfl

/-! ### non-vacuity: concrete documents and oracle answers -/

/-- x/text's answer to `"de-AAAA"`: the partly parsed tag `de` next to a ValueError -/
def oDeAAAA : Oracles := { jsonTag := fun _ _ => ({ s := "de", root := false }, .error "language.ValueError") }
example : outR (GenCodec.LocaleUnmarshalJSON 0 oDeAAAA {} "\"de-AAAA\"") = .val { tag := Tag.zero } := by decide
example : localeOK (fun _ => .unknown) (.str "de-AAAA") (.val { s := "de", root := false }) = false := by decide
example : outR (GenCodec.LocaleUnmarshalJSON 0 { jsonTag := fun _ _ => ({ s := "en-US", root := false }, .ok ()) } {} "\"EN-us\"") = .val { tag := { s := "en-US", root := false } } := by decide
example : outR (GenCodec.LocaleUnmarshalJSON 0 { jsonTag := fun _ t => (t, .error "language: tag is not well-formed") } {} "\"de-\"") = .err := by decide
example : outR (GenCodec.LocaleUnmarshalJSON 0 {} {} "\"\"") = .val {} := by decide
/-- `["de-AAAA", "en-US", "x"]`: the unknown and the ill-formed entry are skipped -/
def oLocales : Oracles :=
  { jsonAny := fun _ => .ok (.arr [.str "de-AAAA", .str "en-US", .str "x"]),
    languageParse := fun s => if s == "en-US" then ({ s := "en-US", root := false }, none)
      else if s == "de-AAAA" then ({ s := "de", root := false }, some "language.ValueError") else (Tag.zero, some "language: tag is not well-formed") }
example : outR (GenCodec.LocalesUnmarshalJSON 0 oLocales [] "…") = .val [{ s := "en-US", root := false }] := by decide
example : outR (GenCodec.LocalesUnmarshalJSON 0 { jsonAny := fun _ => .ok (.arr [.str "de", .num { floor := 1 }]) } [] "…") = .err := by decide
example : outR (GenCodec.AudienceUnmarshalJSON 0 { jsonAny := fun _ => .ok (.arr [.str "a", .num { floor := 1 }]) } [] "…") = .err := by decide
example : outR (GenCodec.TimeUnmarshalJSON 0 { jsonAny := fun _ => .ok (.num { floor := -2, frac := true }) } 0 "-1.5") = .val (-1) := by decide
example : outR (GenCodec.TimeUnmarshalJSON 0 { jsonAny := fun _ => .ok (.num { floor := 9223372036854775808 }) } 0 "9223372036854775808") = .err := by decide
/-- F-C01a: the last second `time.Unix` does not wrap around is decoded, the next one (and `9223372036854774784`) refused -/
example : outR (GenCodec.TimeUnmarshalJSON 0 { jsonAny := fun _ => .ok (.num { floor := 9223371974719179007 }) } 0 "") = .val 9223371974719179007 := by decide
example : outR (GenCodec.TimeUnmarshalJSON 0 { jsonAny := fun _ => .ok (.num { floor := 9223371974719179008 }) } 0 "") = .err := by decide
example : outR (GenCodec.TimeUnmarshalJSON 0 { jsonAny := fun _ => .ok (.num { floor := 9223372036854774784 }) } 0 "9223372036854774784") = .err := by decide
example : outR (GenCodec.TimeUnmarshalJSON 0 { jsonAny := fun _ => .ok (.num { floor := -9223372036854775808 }) } 0 "") = .val (-9223372036854775808) := by decide
example : outR (GenCodec.TimeUnmarshalJSON 0 { jsonAny := fun _ => .ok (.num { floor := -9223372036854775809 }) } 0 "") = .err := by decide
example : outR (GenCodec.unmarshalJSONMulti 0 { unmarshalInto := fun _ d => if d == 0 then .error "json" else .ok () } "{}" [0, 1]) = .err := by decide
example : outR (GenCodec.mergeAndMarshalClaims 0 {} { enc := .ok [("iss", "\"op\""), ("locale", "null")] } [("locale", "\"de-AAAA\""), ("x", "1")]).2
    = .val [[("locale", "null"), ("x", "1"), ("iss", "\"op\"")]] := by decide
example : outR (GenCodec.DecryptBytesAES 0 { newCipher := fun _ => .ok (fun _ => List.replicate 16 0) } (List.replicate 15 7) []) = .err := by decide
example : outR (GenCodec.DecryptBytesAES 0 { newCipher := fun _ => .ok (fun _ => List.replicate 16 0) } (List.replicate 16 7) []) = .val [] := by decide

end C12
