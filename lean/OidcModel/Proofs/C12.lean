/-
  C12 proofs: registered claims win / custom claims survive (for all objects), the tolerant decoders
  are total and exact, CFB and base64 invert for every input, hence the sealing round trip.
-/
import OidcModel.Proofs.Cfb
import OidcModel.Proofs.Base64
import OidcModel.Spec.C12
namespace C12
open Codec

theorem lookup_append (a b : Obj) (k : String) :
    lookup (a ++ b) k = (lookup a k).or (lookup b k) := by
  unfold lookup
  rw [List.find?_append]
  cases List.find? (fun x => x.1 == k) a <;> simp

theorem lookup_filter_notin (custom : Obj) (ks : List String) (k : String) (h : ks.contains k = true) :
    lookup (custom.filter fun kv => !ks.contains kv.1) k = none := by
  unfold lookup
  simp only [Option.map_eq_none_iff, List.find?_eq_none]
  intro x hx
  simp at hx
  intro hk
  simp at hk
  rw [hk] at hx
  simp [hx.2] at h

theorem lookup_filter_in (custom : Obj) (ks : List String) (k : String) (h : ks.contains k = false) :
    lookup (custom.filter fun kv => !ks.contains kv.1) k = lookup custom k := by
  unfold lookup
  congr 1
  induction custom with
  | nil => rfl
  | cons x xs ih =>
    by_cases hx : (x.1 == k) = true
    · have hk : x.1 = k := by simpa using hx
      have : ks.contains x.1 = false := by rw [hk]; exact h
      rw [List.filter_cons]
      simp only [this, Bool.not_false, if_true, List.find?_cons, hx]
    · by_cases hc : ks.contains x.1 = true
      · rw [List.filter_cons]
        simp only [hc, Bool.not_true, Bool.false_eq_true, if_false, List.find?_cons, hx]
        exact ih
      · rw [List.filter_cons]
        have hc' : ks.contains x.1 = false := by simpa using hc
        simp only [hc', Bool.not_false, if_true, List.find?_cons, hx]
        exact ih

theorem lookup_none_of_not_key (o : Obj) (k : String) (h : (keys o).contains k = false) : lookup o k = none := by
  unfold lookup
  simp only [Option.map_eq_none_iff, List.find?_eq_none]
  intro x hx hk
  have : (keys o).contains k = true := by
    simp only [keys, List.contains_eq_mem, List.mem_map, decide_eq_true_eq]
    exact ⟨x, hx, by simpa using hk⟩
  rw [h] at this; cases this

/-- registered claims win: whatever the custom map contains, every registered key has its registered value -/
theorem c12_registered_wins (registered custom : Obj) (k : String) (h : (keys registered).contains k = true) :
    lookup (merge registered custom) k = lookup registered k := by
  unfold merge
  split
  · rfl
  · rw [lookup_append, lookup_filter_notin _ _ _ h]; simp

/-- custom claims that do not collide with a registered name survive -/
theorem c12_custom_survives (registered custom : Obj) (k : String) (h : (keys registered).contains k = false)
    (hc : custom.isEmpty = false) :
    lookup (merge registered custom) k = lookup custom k := by
  unfold merge
  simp only [hc, Bool.false_eq_true, if_false]
  rw [lookup_append, lookup_filter_in _ _ _ h, lookup_none_of_not_key _ _ h]; simp

/-- the model's merge satisfies the marshal monitor for all registered / custom objects -/
theorem c12_merge_monitor (registered custom : Obj) : marshalOK registered custom (merge registered custom) = none := by
  unfold marshalOK
  have h1 : (keys registered).all (fun k => lookup (merge registered custom) k == lookup registered k) = true := by
    simp only [List.all_eq_true, beq_iff_eq]
    intro k hk
    exact c12_registered_wins _ _ _ (by simpa using hk)
  have h2 : (keys custom).all (fun k => (keys registered).contains k || lookup (merge registered custom) k == lookup custom k) = true := by
    simp only [List.all_eq_true, Bool.or_eq_true, beq_iff_eq]
    intro k hk
    by_cases hr : (keys registered).contains k = true
    · left; exact hr
    · right
      have hc : custom.isEmpty = false := by cases custom <;> simp_all [keys]
      exact c12_custom_survives _ _ _ (by simpa using hr) hc
  have h3 : (keys (merge registered custom)).all (fun k => (keys registered).contains k || (keys custom).contains k) = true := by
    simp only [List.all_eq_true, Bool.or_eq_true]
    intro k hk
    unfold merge at hk
    split at hk
    · left; simpa using hk
    · simp only [keys, List.map_append, List.mem_append, List.mem_map, List.mem_filter] at hk
      rcases hk with ⟨x, ⟨hx, _⟩, rfl⟩ | ⟨x, hx, rfl⟩
      · right; simp only [keys, List.contains_eq_mem, List.mem_map, decide_eq_true_eq]; exact ⟨x, hx, rfl⟩
      · left; simp only [keys, List.contains_eq_mem, List.mem_map, decide_eq_true_eq]; exact ⟨x, hx, rfl⟩
  simp only [h1, h2, h3, Bool.not_true, Bool.false_eq_true, if_false]

/-- the decoder models are total and exact w.r.t. the document -/
theorem c12_audience_exact (doc : JIn) : audienceOK doc (decodeAudience doc) = true := by
  unfold audienceOK decodeAudience
  cases doc with
  | atom a => cases a <;> simp
  | arr l =>
    by_cases h : l.all JAtom.isStr = true
    · simp only [h, if_true, Bool.true_and, beq_self_eq_true]
    · have h' : l.all JAtom.isStr = false := by simpa using h
      simp only [h', Bool.false_eq_true, if_false, Bool.not_false]

theorem c12_time_exact (rfc : String → Option Int) (doc : JIn) : timeOK rfc doc (decodeTime rfc doc) = true := by
  unfold timeOK decodeTime
  cases doc with
  | atom a =>
    cases a with
    | int n => by_cases h : int64Min ≤ n ∧ n ≤ int64Max <;> simp [h]
    | float t ok => cases ok <;> simp
    | str s => cases h : rfc s <;> simp [h]
    | _ => simp
  | arr l => simp

theorem c12_bool_exact (doc : JIn) : boolOK doc (decodeBool doc) = true := by
  unfold boolOK decodeBool
  cases doc with
  | atom a =>
    cases a with
    | bool b => cases b <;> simp
    | str s => by_cases h : s = "true" <;> simp [h]
    | _ => simp
  | arr l => simp



/-- model of `crypto.EncryptAES` (given the random iv) and `crypto.DecryptAES` over a block function -/
def encryptAES (E : Cfb.Block → Cfb.Block) (iv : Cfb.Block) (plain : List UInt8) : List Char :=
  B64.encode (Cfb.sealBytes E 16 iv plain)

def decryptAES (E : Cfb.Block → Cfb.Block) (s : List Char) : Option (List UInt8) :=
  (B64.decode s).bind (Cfb.unsealBytes E 16)

/-- every sealed string decrypts back to its plaintext: any block function (AES under any key), any
    16-byte iv, any plaintext of any length -/
theorem c12_seal_roundtrip (E : Cfb.Block → Cfb.Block) (hE : ∀ b, (E b).length = 16) (iv : Cfb.Block) (hiv : iv.length = 16)
    (plain : List UInt8) : decryptAES E (encryptAES E iv plain) = some plain := by
  unfold decryptAES encryptAES
  rw [B64.decode_encode]
  exact Cfb.unseal_seal E 16 (by decide) hE iv hiv plain

theorem c12_seal_monitor (E : Cfb.Block → Cfb.Block) (hE : ∀ b, (E b).length = 16) (iv : Cfb.Block) (hiv : iv.length = 16)
    (plain : List UInt8) : sealOK plain (decryptAES E (encryptAES E iv plain)) none = none := by
  rw [c12_seal_roundtrip E hE iv hiv]; simp [sealOK]

/-! non-vacuity -/
example : marshalOK [("iss", "\"op\""), ("sub", "\"u\"")] [("iss", "\"evil\""), ("x", "1")]
    (merge [("iss", "\"op\""), ("sub", "\"u\"")] [("iss", "\"evil\""), ("x", "1")]) = none := by decide
example : lookup (merge [("iss", "\"op\"")] [("iss", "\"evil\""), ("x", "1")]) "iss" = some "\"op\"" := by decide
example : marshalOK [("iss", "\"op\"")] [("iss", "\"evil\"")] [("iss", "\"evil\"")] = some "registered-claim-lost-or-overridden" := by decide
example : audienceOK (.arr [.str "a", .int 1]) .panic = false ∧ decodeAudience (.arr [.str "a", .int 1]) = .err := by decide
example : B64.decode (B64.encode [1, 2, 3, 250]) = some [1, 2, 3, 250] := B64.decode_encode _

end C12
