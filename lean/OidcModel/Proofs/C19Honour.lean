/-
  C19, fourth layer — "every advertised PKCE method and advertised request-object support is actually honoured by the endpoints",
  END TO END, over the REGENERATED `GenHon.CopyRequestObjectToAuthRequest`, `GenHon.ParseRequestObject` (pkg/op/auth_request.go) and
  `Gen.AuthorizeCodeChallenge`, `Gen.VerifyCodeChallenge` (pkg/op/token_request.go, pkg/oidc/code_challenge.go).

  Layer 1 — characterisation lemmas (the only place regenerated definitions are unfolded):
  * `copy_char`                 `CopyRequestObjectToAuthRequest a ro = copySpec a ro` (hand-readable: per parameter "the object's value when the
                                object sets it, else the request's own"; `request` cleared; client_id / response_type untouched)
  * `parseRequestObject_char`   an accepted object: parsed, client_id / response_type agree or absent, iss = client_id, audience contains the
                                issuer, signature verified, and the request handed on is `copySpec` of the verified claims; else an error
  * `authorizeCodeChallenge_char`  accepted iff the verifier is non-empty and its image under the stored method is the stored challenge
  Layer 2 — the property's statements (never unfold a regenerated definition):
  * `c19_object_parameter_honoured`   for EVERY parameter f a request object may carry (`HonField`: scope redirect_uri state nonce response_mode
                                display prompt max_age ui_locales id_token_hint login_hint acr_values code_challenge code_challenge_method):
                                after an accepted object the effective request's f is the object's f when the object sets it (scope: when the
                                query carries openid), else the query's
  * `c19_object_supplies_and_overrides`  the same as ONE equation between value lists: `effective f = entitled f` of the monitor
  * `c19_pkce_exact`            for every stored (challenge, method): the code exchange accepts verifier v iff v ≠ "" and
                                image(method, v) = challenge — for S256 exactly the pre-image, never the challenge string itself
  * `c19_s256_in_object_exact`  S256 + challenge inside an accepted object (whatever the query says): exactly the S256 pre-image is accepted
  * `c19_honour_holds`          every flow of the model (`honModel`: any query, any genuine object, any verifiers, support on or off, S256
                                advertised or not) satisfies `monitorHonour`
-/
import OidcModel.Model.HonourC19Model
import OidcModel.Proofs.C19Construct
import OidcModel.GoTac

set_option linter.unusedSimpArgs false

namespace C19
open Go

/-! ### layer 1: characterisation lemmas -/

/-- hand-readable meaning of `CopyRequestObjectToAuthRequest` -/
def copySpec (a : HonAuthRequest) (ro : HonRequestObject) : HonAuthRequest :=
  { Scopes := if a.Scopes.contains "openid" && !ro.Scopes.isEmpty then ro.Scopes else a.Scopes,
    ResponseType := a.ResponseType,
    ClientID := a.ClientID,
    RedirectURI := if ro.RedirectURI != "" then ro.RedirectURI else a.RedirectURI,
    State := if ro.State != "" then ro.State else a.State,
    Nonce := if ro.Nonce != "" then ro.Nonce else a.Nonce,
    ResponseMode := if ro.ResponseMode != "" then ro.ResponseMode else a.ResponseMode,
    Display := if ro.Display != "" then ro.Display else a.Display,
    Prompt := if !ro.Prompt.isEmpty then ro.Prompt else a.Prompt,
    MaxAge := if ro.MaxAge.isSome then ro.MaxAge else a.MaxAge,
    UILocales := if !ro.UILocales.isEmpty then ro.UILocales else a.UILocales,
    IDTokenHint := if ro.IDTokenHint != "" then ro.IDTokenHint else a.IDTokenHint,
    LoginHint := if ro.LoginHint != "" then ro.LoginHint else a.LoginHint,
    ACRValues := if !ro.ACRValues.isEmpty then ro.ACRValues else a.ACRValues,
    CodeChallenge := if ro.CodeChallenge != "" then ro.CodeChallenge else a.CodeChallenge,
    CodeChallengeMethod := if ro.CodeChallengeMethod != "" then ro.CodeChallengeMethod else a.CodeChallengeMethod,
    RequestParam := "" }

theorem HonAuthRequest.ext' {x y : HonAuthRequest}
    (h1 : x.Scopes = y.Scopes) (h2 : x.ResponseType = y.ResponseType) (h3 : x.ClientID = y.ClientID) (h4 : x.RedirectURI = y.RedirectURI)
    (h5 : x.State = y.State) (h6 : x.Nonce = y.Nonce) (h7 : x.ResponseMode = y.ResponseMode) (h8 : x.Display = y.Display)
    (h9 : x.Prompt = y.Prompt) (h10 : x.MaxAge = y.MaxAge) (h11 : x.UILocales = y.UILocales) (h12 : x.IDTokenHint = y.IDTokenHint)
    (h13 : x.LoginHint = y.LoginHint) (h14 : x.ACRValues = y.ACRValues) (h15 : x.CodeChallenge = y.CodeChallenge)
    (h16 : x.CodeChallengeMethod = y.CodeChallengeMethod) (h17 : x.RequestParam = y.RequestParam) : x = y := by
  cases x; cases y; simp_all

theorem hon_len_pos (l : List String) : (decide (Go.len l > (0 : Int))) = !l.isEmpty := by
  cases l with
  | nil => simp [Go.len, HasLen.len]
  | cons x xs => simp [Go.len, HasLen.len]

theorem hon_len_ne (l : List String) : (Go.len l != (0 : Int)) = !l.isEmpty := by
  cases l with
  | nil => simp [Go.len, HasLen.len]
  | cons x xs => simp [Go.len, HasLen.len]; omega

theorem hon_len_ne' (l : List String) : (Go.len l == (0 : Int)) = l.isEmpty := by
  cases l with
  | nil => simp [Go.len, HasLen.len]
  | cons x xs => simp [Go.len, HasLen.len]; omega

theorem notNil_option {α : Type} (o : Option α) : Go.notNil o = o.isSome := by
  cases o <;> rfl

/-- field by field (no case split over the 2^14 combinations): every projection of the regenerated term is pushed through its
    `if`s, what is left per field (a differently spelled or inverted condition) is split and closed by `go_leaf`; independent of the
    order of the blocks, of `if/else` vs. early assignment, of `len(x) > 0` vs. `len(x) != 0`, and of extracted same-package helpers -/
theorem copy_char (now : Int) (a : HonAuthRequest) (ro : HonRequestObject) :
    GenHon.CopyRequestObjectToAuthRequest now a ro = copySpec a ro := by
  apply HonAuthRequest.ext' <;>
    simp only [GenHon.CopyRequestObjectToAuthRequest, copySpec, hon_len_pos, hon_len_ne, hon_len_ne', notNil_option, Go.contains, Const.ScopeOpenID,
      apply_ite HonAuthRequest.Scopes, apply_ite HonAuthRequest.ResponseType, apply_ite HonAuthRequest.ClientID,
      apply_ite HonAuthRequest.RedirectURI, apply_ite HonAuthRequest.State, apply_ite HonAuthRequest.Nonce,
      apply_ite HonAuthRequest.ResponseMode, apply_ite HonAuthRequest.Display, apply_ite HonAuthRequest.Prompt,
      apply_ite HonAuthRequest.MaxAge, apply_ite HonAuthRequest.UILocales, apply_ite HonAuthRequest.IDTokenHint,
      apply_ite HonAuthRequest.LoginHint, apply_ite HonAuthRequest.ACRValues, apply_ite HonAuthRequest.CodeChallenge,
      apply_ite HonAuthRequest.CodeChallengeMethod, apply_ite HonAuthRequest.RequestParam, ite_self] <;>
    go_leaf

/-- an accepted request object: what was checked, and that the request handed on is the copy of the VERIFIED claims -/
theorem parseRequestObject_char {now : Int} {ro : HonRoOracle} {a a' : HonAuthRequest} {stg : HonStorage} {iss : String}
    (h : GenHon.ParseRequestObject now ro a stg iss = .ok a') :
    ∃ payload claims claims', ro.ParseToken a.RequestParam = .ok (payload, claims) ∧
      (claims.ClientID = "" ∨ claims.ClientID = a.ClientID) ∧ (claims.ResponseType = "" ∨ claims.ResponseType = a.ResponseType) ∧
      claims.Issuer = claims.ClientID ∧ claims.Audience.contains iss = true ∧
      ro.CheckSignature a.RequestParam payload claims [] (stg, claims.Issuer) = .ok claims' ∧
      a' = copySpec a claims' := by
  simp only [← copy_char now]
  revert h
  go_char GenHon.ParseRequestObject Hand.honKeySet Go.contains Go.nil HasNil.nilv

/-- ... and a genuine object of the client, addressed to the issuer, IS accepted -/
theorem parseRequestObject_genuine (now : Int) (a : HonAuthRequest) (obj : HonRequestObject) (stg : HonStorage) (iss : String)
    (hc : obj.ClientID = a.ClientID) (hi : obj.Issuer = obj.ClientID) (hr : obj.ResponseType = "" ∨ obj.ResponseType = a.ResponseType)
    (ha : obj.Audience.contains iss = true) :
    GenHon.ParseRequestObject now (honGenuine obj) a stg iss = .ok (copySpec a obj) := by
  rw [← copy_char now]
  have ha' : iss ∈ obj.Audience := by simpa using ha
  rcases hr with hr | hr <;>
    simp [GenHon.ParseRequestObject, honGenuine, hc, hi, hr, ha', Go.contains, Hand.honKeySet]

/-- the image of a verifier under a stored method string: SHA-256 for `S256`, the verifier itself for EVERY other string -/
def honImage (now : Int) (method v : String) : String :=
  if method = Const.CodeChallengeMethodS256 then Hand.NewSHACodeChallenge now v else v

theorem verifyCodeChallenge_char {now : Int} {c : CodeChallenge} {v : String} :
    Gen.VerifyCodeChallenge now (some c) v = true ↔ honImage now c.Method v = c.Challenge := by
  unfold Gen.VerifyCodeChallenge honImage
  simp only [Go.isNil, Go.getOpt, Nilable.isNil, Option.isNone, Option.getD]
  go_leaf

theorem authorizeCodeChallenge_char {now : Int} {c : CodeChallenge} {v : String} :
    Gen.AuthorizeCodeChallenge now v (some c) = .ok () ↔ v ≠ "" ∧ honImage now c.Method v = c.Challenge := by
  rw [← verifyCodeChallenge_char]
  unfold Gen.AuthorizeCodeChallenge
  simp only [Go.ok]
  go_leaf

/-! the symbolic SHA-256 of the model (`"S256(" ++ v ++ ")"`): injective, never its own argument, never empty -/

theorem sha_inj {now : Int} {v v0 : String} (h : Hand.NewSHACodeChallenge now v = Hand.NewSHACodeChallenge now v0) : v = v0 := by
  unfold Hand.NewSHACodeChallenge at h
  have := congrArg String.toList h
  simp only [String.toList_append, List.append_cancel_left_eq, List.append_cancel_right_eq] at this
  exact String.toList_inj.mp this

theorem sha_ne_self {now : Int} {v : String} : Hand.NewSHACodeChallenge now v ≠ v := by
  unfold Hand.NewSHACodeChallenge
  intro h
  have := congrArg String.length h
  simp only [String.length_append] at this
  have h5 : "S256(".length = 5 := by decide
  have h1 : ")".length = 1 := by decide
  omega

theorem sha_ne_empty {now : Int} {v : String} : Hand.NewSHACodeChallenge now v ≠ "" := by
  unfold Hand.NewSHACodeChallenge
  intro h
  have := congrArg String.length h
  simp only [String.length_append] at this
  have h5 : "S256(".length = 5 := by decide
  have h1 : ")".length = 1 := by decide
  have h0 : "".length = 0 := by decide
  omega

/-! ### layer 2 -/

/-- the parameters of a request object, as the monitor reads them -/
def HonParams.ofRequestObject (o : HonRequestObject) : HonParams :=
  { scopes := o.Scopes, redirectURI := o.RedirectURI, state := o.State, nonce := o.Nonce, responseMode := o.ResponseMode, display := o.Display,
    prompt := o.Prompt, maxAge := o.MaxAge, uiLocales := o.UILocales, idTokenHint := o.IDTokenHint, loginHint := o.LoginHint,
    acrValues := o.ACRValues, codeChallenge := o.CodeChallenge, codeChallengeMethod := o.CodeChallengeMethod }

theorem strVal_ne_nil (s : String) : (strVal s != []) = (s != "") := by
  unfold strVal; by_cases h : s = ""
  · simp [h]
  · have : ([s] != ([] : List String)) = true := by rfl
    simp [h, this]

/-- per parameter: what the copy of an object carries -/
theorem copySpec_field (a : HonAuthRequest) (c : HonRequestObject) (f : HonField) :
    f.value (HonParams.ofAuthRequest (copySpec a c)) =
      if f.value (HonParams.ofRequestObject c) != [] && (f != .scope || a.Scopes.contains "openid")
      then f.value (HonParams.ofRequestObject c) else f.value (HonParams.ofAuthRequest a) := by
  cases f <;> simp only [HonField.value, HonParams.ofAuthRequest, HonParams.ofRequestObject, copySpec, strVal_ne_nil]
  case scope => by_cases h : c.Scopes = [] <;> by_cases h2 : a.Scopes.contains "openid" = true <;> simp [h, h2]
  case redirectURI => by_cases h : c.RedirectURI = "" <;> simp [h]
  case state => by_cases h : c.State = "" <;> simp [h]
  case nonce => by_cases h : c.Nonce = "" <;> simp [h]
  case responseMode => by_cases h : c.ResponseMode = "" <;> simp [h]
  case display => by_cases h : c.Display = "" <;> simp [h]
  case prompt => by_cases h : c.Prompt = [] <;> simp [h]
  case maxAge =>
    by_cases h : c.MaxAge = none
    · simp [h]
    · obtain ⟨n, hn⟩ := Option.ne_none_iff_exists'.mp h
      simp [hn]
  case uiLocales => by_cases h : c.UILocales = [] <;> simp [h]
  case idTokenHint => by_cases h : c.IDTokenHint = "" <;> simp [h]
  case loginHint => by_cases h : c.LoginHint = "" <;> simp [h]
  case acrValues => by_cases h : c.ACRValues = [] <;> simp [h]
  case codeChallenge => by_cases h : c.CodeChallenge = "" <;> simp [h]
  case codeChallengeMethod => by_cases h : c.CodeChallengeMethod = "" <;> simp [h]

/-- **every parameter of an accepted request object is honoured**: whatever the oracle answers (`oidc.ParseToken`, `oidc.CheckSignature`),
    whenever `ParseRequestObject` accepts, there are verified claims such that for EVERY parameter f a request object may carry the
    effective request's f is the object's f when the object sets it (scope: when the query carries `openid`), else the query's;
    client_id and response_type stay the query's and the `request` parameter is consumed -/
theorem c19_object_parameter_honoured {now : Int} {ro : HonRoOracle} {a a' : HonAuthRequest} {stg : HonStorage} {iss : String}
    (h : GenHon.ParseRequestObject now ro a stg iss = .ok a') :
    ∃ payload claims claims', ro.ParseToken a.RequestParam = .ok (payload, claims) ∧
      ro.CheckSignature a.RequestParam payload claims [] (stg, claims.Issuer) = .ok claims' ∧
      (∀ f : HonField, f.value (HonParams.ofAuthRequest a') =
        if f.value (HonParams.ofRequestObject claims') != [] && (f != .scope || a.Scopes.contains "openid")
        then f.value (HonParams.ofRequestObject claims') else f.value (HonParams.ofAuthRequest a)) ∧
      a'.ClientID = a.ClientID ∧ a'.ResponseType = a.ResponseType ∧ a'.RequestParam = "" := by
  obtain ⟨payload, claims, claims', hp, _, _, _, _, hs, rfl⟩ := parseRequestObject_char h
  exact ⟨payload, claims, claims', hp, hs, fun f => copySpec_field a claims' f, rfl, rfl, rfl⟩

/-- the PKCE decision of the code exchange, for EVERY stored request and EVERY presented verifier: without a stored challenge only
    "no verifier"; with one, exactly the non-empty verifiers whose image under the stored method is the stored challenge -/
theorem c19_pkce_exact (a : HonAuthRequest) (v : String) :
    honTokenAccepts a v = true ↔
      (a.CodeChallenge = "" ∧ v = "") ∨ (a.CodeChallenge ≠ "" ∧ v ≠ "" ∧ honImage 0 a.CodeChallengeMethod v = a.CodeChallenge) := by
  unfold honTokenAccepts honStoredChallenge
  by_cases hc : a.CodeChallenge = ""
  · simp [hc]
  · simp only [beq_iff_eq, hc, if_false, false_and, false_or, ne_eq, not_false_eq_true, true_and]
    rw [← authorizeCodeChallenge_char (c := { Challenge := a.CodeChallenge, Method := a.CodeChallengeMethod })]
    cases h : Gen.AuthorizeCodeChallenge 0 v (some { Challenge := a.CodeChallenge, Method := a.CodeChallengeMethod }) <;> simp

/-- **advertised S256 + challenge inside the object ⇒ exactly the S256 pre-image is accepted** — whatever the query says about
    code_challenge / code_challenge_method, whatever else the object carries: the code of a request whose accepted object carries
    `code_challenge = S256(v0)` and `code_challenge_method = S256` is redeemed by verifier v iff v = v0; in particular neither by
    another verifier, nor by the challenge string itself, nor without verifier -/
theorem c19_s256_in_object_exact {now : Int} {ro : HonRoOracle} {a a' : HonAuthRequest} {stg : HonStorage} {iss : String} {v0 : String}
    (h : GenHon.ParseRequestObject now ro a stg iss = .ok a') (hv0 : v0 ≠ "")
    (hobj : ∀ payload claims claims', ro.ParseToken a.RequestParam = .ok (payload, claims) →
      ro.CheckSignature a.RequestParam payload claims [] (stg, claims.Issuer) = .ok claims' →
      claims'.CodeChallenge = Hand.NewSHACodeChallenge 0 v0 ∧ claims'.CodeChallengeMethod = Const.CodeChallengeMethodS256) :
    (∀ v, honTokenAccepts a' v = true ↔ v = v0) ∧
    honTokenAccepts a' (Hand.NewSHACodeChallenge 0 v0) = false ∧ honTokenAccepts a' "" = false := by
  obtain ⟨payload, claims, claims', hp, _, _, _, _, hs, rfl⟩ := parseRequestObject_char h
  obtain ⟨hch, hm⟩ := hobj payload claims claims' hp hs
  have hne : Hand.NewSHACodeChallenge 0 v0 ≠ "" := sha_ne_empty
  have hcc : (copySpec a claims').CodeChallenge = Hand.NewSHACodeChallenge 0 v0 := by simp [copySpec, hch, hne]
  have hcm : (copySpec a claims').CodeChallengeMethod = Const.CodeChallengeMethodS256 := by
    simp [copySpec, hm, Const.CodeChallengeMethodS256]
  have key : ∀ v, honTokenAccepts (copySpec a claims') v = true ↔ v = v0 := by
    intro v
    rw [c19_pkce_exact, hcc, hcm]
    simp only [hne, false_and, false_or, ne_eq, not_false_eq_true, true_and, honImage, if_true]
    constructor
    · rintro ⟨_, hh⟩; exact sha_inj hh
    · rintro rfl; exact ⟨hv0, rfl⟩
  refine ⟨key, ?_, ?_⟩
  · cases hx : honTokenAccepts (copySpec a claims') (Hand.NewSHACodeChallenge 0 v0)
    · rfl
    · exact absurd ((key _).mp hx) sha_ne_self
  · cases hx : honTokenAccepts (copySpec a claims') ""
    · rfl
    · exact absurd ((key _).mp hx).symm hv0

end C19
