/-
  C07 (deep4) over histories in which storage calls of refresh requests FAIL (Model/C07Fault.lean), judged by the observer of
  Spec/C07Fault.lean (`observeF`: the monitors of Spec/C07.lean / Spec/C07Wire.lean plus the clauses about the literal HTTP
  answer - a 200 carries an access token and the refresh token the storage created in this request's rotation call, any other
  answer carries no token).

  `OpF` = an operation of the extended histories of Proofs/C07Wire.lean (code exchanges, refreshes as they travel, changing
  registrations, ...) or a refresh during which a storage call fails.  `c07_fault_history`: from an initial situation, for every
  list of such operations whose faults hit a read of the validation phase or the rotation call itself, the observer has
  nothing to object to any step (a refused refresh can at most trip the widening clause, as in `c07_wire_history_core`).  The
  regenerated fact it rests on: a failing `CreateAccessToken` ends `CreateTokenResponse` with an error (`rotation_error_returned`,
  `errReturned` of the regenerated call list).  Faults AFTER the rotation: `c07_post_rotation_fault` (what the model does -
  the storage has rotated, the request is refused - and that `judge` with `created := true` would say `tokens-created-on-refused-request`;
  the observation layer does not raise it for these lines, DESIGN 9.5).  Two refreshes at once: `c07_pair_*`.
-/
import OidcModel.Proofs.C07Wire
import OidcModel.Model.C07Fault
import OidcModel.Spec.C07Fault
set_option linter.unusedSimpArgs false

namespace FlowObs
open Go Gen Hand Flow WireSpec

/-- the regenerated fact: `CreateTokenResponse` returns the error of `CreateAccessToken` (and of `CreateIDToken`) -/
theorem rotation_error_returned : FlowX.calleeFatal "CreateAccessToken" = true ∧ FlowX.calleeFatal "CreateIDToken" = true := by decide

/-- the literal HTTP answer the model gives -/
def bodyOf (s s' : Flow.St) : Flow.OutF → Body
  | .x (.base (.issued _ nr)) => { ok200 := true, accessToken := true, refreshToken := nr.getD "", idToken := true, rotatedTo := nr }
  | .x _ => { rotatedTo := (mintedIn s s').map (·.token) }
  | .hollow _ nr => { ok200 := true, accessToken := false, refreshToken := nr.getD "", idToken := true, rotatedTo := nr }

/-- the answer as Spec/C07Wire.lean reads it (a 200 without access token is no token response) -/
def answerOfF (s s' : Flow.St) : Flow.OutF → Option Answer
  | .x o => answerOf s s' o
  | .hollow _ _ => some { minted := mintedIn s s', err := "", created := s'.nextRT != s.nextRT }

/-- the request of a token operation as it travelled -/
def wireOf : Flow.OpX → Option WireReq
  | .token _ w _ => some w
  | _ => none
/-- tokens of the refresh grant -/
def isRefreshIssued : Flow.OutX → Bool
  | .base (.issued (.refresh _ _ _) _) => true
  | _ => false

def eventOfF (s s' : Flow.St) (op : Flow.OpF) (out : Flow.OutF) : Option EventF :=
  match op, out with
  | .x op', .x out' =>
    match wireOf op', isRefreshIssued out' with
    | some w, true => (answerOf s s' out').map fun a => .refresh w a (bodyOf s s' out)
    | _, _ => (eventOfX s s' op' out').map .x
  | .refreshFault _ w _, _ => (answerOfF s s' out).map fun a => .refresh w a (bodyOf s s' out)
  | _, _ => none

def stepObsF (now : Int) (so : Flow.St × ObsState) (op : Flow.OpF) : (Flow.St × ObsState) × (Flow.OutF × Option String × Option String) :=
  let r := Flow.stepF now so.1 op
  match eventOfF so.1 r.1 op r.2 with
  | none => ((r.1, so.2), (r.2, none, none))
  | some e => let v := observeF now so.2 e; ((r.1, v.1), (r.2, v.2.1, v.2.2))

def runObsF (now : Int) (so : Flow.St × ObsState) : List Flow.OpF → (Flow.St × ObsState) × List (Flow.OutF × Option String × Option String)
  | [] => (so, [])
  | op :: rest =>
    let r := stepObsF now so op
    let rr := runObsF now r.1 rest
    (rr.1, r.2 :: rr.2)

/-- an answer with tokens: the observer of the literal answer moves as the observer of Spec/C07Wire.lean does -/
theorem observeF_tokens (now : Int) (o : ObsState) (w : WireReq) (a : Answer) (b : Body) {tk : C04.Tokens} (ht : a.tokens = some tk) :
    (observeF now o (.refresh w a b)).1 = (observeX now o (.token w a)).1 ∧
    (observeF now o (.refresh w a b)).2.1 = (observeX now o (.token w a)).2.1 ∧
    (observeF now o (.refresh w a b)).2.2 = (match (observeX now o (.token w a)).2.2 with
      | some x => some x
      | none => if isRefreshRequest w then judgeBody b else none) := by
  have hc : consumed o.m07 a = o.m07 := by simp only [consumed, ht]
  have ho : ({ o with m07 := consumed o.m07 a } : ObsState) = o := by rw [hc]
  simp only [observeF, ho, ht, Option.isNone_some, Bool.and_false, Bool.false_eq_true, if_false]
  refine ⟨trivial, trivial, ?_⟩
  cases (observeX now o (.token w a)).2.2 <;> rfl

/-- a refusal during which the storage rotated nothing: likewise -/
theorem observeF_refusal (now : Int) (o : ObsState) (w : WireReq) (a : Answer) (b : Body) (ht : a.tokens = none) (hm : a.minted = none) :
    (observeF now o (.refresh w a b)).1 = (observeX now o (.token w a)).1 ∧
    (observeF now o (.refresh w a b)).2.1 = (observeX now o (.token w a)).2.1 := by
  have hc : consumed o.m07 a = o.m07 := by
    simp only [consumed, ht, hm]
    cases a.handed <;> rfl
  have ho : ({ o with m07 := consumed o.m07 a } : ObsState) = o := by rw [hc]
  simp only [observeF, ho]
  exact ⟨trivial, trivial⟩

/-- the body of an error answer during which nothing was created says nothing -/
theorem judgeBody_refused (t : Option String) : judgeBody { rotatedTo := t } = none := by
  simp [judgeBody]

/-- the body of the answer to a refresh the model lets through: the access token is there, the refresh token is the one the
    storage created in this request -/
theorem judgeBody_issued (tok : String) :
    judgeBody { ok200 := true, accessToken := true, refreshToken := (some tok).getD "", idToken := true, rotatedTo := some tok } = none := by
  simp [judgeBody]

/-- **a refresh during which a read of the validation phase or the rotation call itself fails**: the request is refused, the
    storage is as before, the observer has nothing to object (at most the widening clause of a refused refresh) -/
theorem goodF_fault {now : Int} {s : Flow.St} {o : ObsState} (h : Inv07 s o) (rt : Router) (w : WireReq) (f : Flow.RFault)
    (hf : ∀ callee, f ≠ .issuing callee) :
    Inv07 (stepObsF now (s, o) (.refreshFault rt w f)).1.1 (stepObsF now (s, o) (.refreshFault rt w f)).1.2 ∧
    ((stepObsF now (s, o) (.refreshFault rt w f)).2.2.2 = none ∨
      ((stepObsF now (s, o) (.refreshFault rt w f)).2.2.2 = widening ∧ ∃ e, (stepObsF now (s, o) (.refreshFault rt w f)).2.1 = .x (.base (.error e)))) := by
  -- a fault that ends the request with error `e` and leaves the storage alone
  have refused : ∀ e, Flow.refreshFaultStep now s rt w f = (s, .x (.base (.error e))) →
      Inv07 (stepObsF now (s, o) (.refreshFault rt w f)).1.1 (stepObsF now (s, o) (.refreshFault rt w f)).1.2 ∧
      ((stepObsF now (s, o) (.refreshFault rt w f)).2.2.2 = none ∨
        ((stepObsF now (s, o) (.refreshFault rt w f)).2.2.2 = widening ∧ ∃ e, (stepObsF now (s, o) (.refreshFault rt w f)).2.1 = .x (.base (.error e)))) := by
    intro e hs
    have hst : Flow.stepF now s (.refreshFault rt w f) = (s, .x (.base (.error e))) := by simp only [Flow.stepF, hs]
    simp only [stepObsF, hst, eventOfF, answerOfF, answerOf, mintedIn_self, bne_self_eq_false, Option.map_some, bodyOf, Option.map_none]
    obtain ⟨e1, _, e3⟩ := observeX_refusal now o w { minted := none, err := Flow.oauthCode e, created := false } rfl rfl
    obtain ⟨f1, _⟩ := observeF_refusal now o w { minted := none, err := Flow.oauthCode e, created := false } { rotatedTo := none } rfl rfl
    refine ⟨?_, ?_⟩
    · rw [f1, e1]; exact h.of_m07 rfl
    · simp only [observeF, Option.isNone_none, Bool.and_true, judgeBody_refused]
      have hb : (if (isRefreshRequest w && ({ rotatedTo := none } : Body).ok200) = true then (none : Option String) else none) = none := by split <;> rfl
      simp only [hb]
      rcases e3 with e3 | e3
      · rw [e3]; simp
      · rw [e3]; exact Or.inr ⟨rfl, e, rfl⟩
  cases f with
  | validation site => exact refused _ rfl
  | issuing callee => exact absurd rfl (hf callee)
  | createTokens =>
    cases hte : tokenEndpoint now rt s.p w with
    | err e =>
      have hs : Flow.refreshFaultStep now s rt w .createTokens = (s, .x (.base (.error e))) := by
        simp only [Flow.refreshFaultStep, hte]
      exact refused e hs
    | other hd =>
      have hst : Flow.stepF now s (.refreshFault rt w .createTokens) = (s, .x (.other hd)) := by
        simp only [Flow.stepF, Flow.refreshFaultStep, hte]
      simp only [stepObsF, hst, eventOfF, answerOfF, answerOf, Option.map_none]
      exact ⟨h, Or.inl trivial⟩
    | issue i =>
      have hs : Flow.refreshFaultStep now s rt w .createTokens = (s, .x (.base (.error "ErrServerError"))) := by
        simp only [Flow.refreshFaultStep, hte, rotation_error_returned.1, if_true]
      exact refused _ hs

/-- an operation of the extended histories that is not a refresh the model answers with tokens: the observer does what it did -/
theorem stepObsF_plain {now : Int} {s : Flow.St} {o : ObsState} {op' : Flow.OpX}
    (hp : wireOf op' = none ∨ isRefreshIssued (Flow.stepX now s op').2 = false) :
    stepObsF now (s, o) (.x op') =
      ((stepObsX now (s, o) op').1, (.x (stepObsX now (s, o) op').2.1, (stepObsX now (s, o) op').2.2.1, (stepObsX now (s, o) op').2.2.2)) := by
  have he : eventOfF s (Flow.stepX now s op').1 (.x op') (.x (Flow.stepX now s op').2) =
      (eventOfX s (Flow.stepX now s op').1 op' (Flow.stepX now s op').2).map .x := by
    simp only [eventOfF]
    split
    · rename_i w h1 h2
      rcases hp with hp | hp
      · rw [hp] at h1; cases h1
      · rw [hp] at h2; cases h2
    · rfl
  simp only [stepObsF, stepObsX, Flow.stepF, he]
  cases eventOfX s (Flow.stepX now s op').1 op' (Flow.stepX now s op').2 <;> rfl

theorem newRefresh_refresh (s : Flow.St) (r : RefreshReq) (c : OPClient) (cur : String) :
    newRefresh s (.refresh r c cur) = some ("rt" ++ toString s.nextRT) := by
  simp only [newRefresh, wantsRefresh_refresh, if_true]

/-- **a refresh the model answers with tokens**: besides everything `goodX_token_refresh` says, the literal answer is in order -
    it carries an access token and the refresh token the storage created in this request's rotation -/
theorem goodF_refresh {now : Int} {s : Flow.St} {o : ObsState} (h : Inv07 s o) (rt : Router) (w : WireReq) (df : Bool)
    {r1 : RefreshReq} {c : OPClient} {cur : String} (hte : tokenEndpoint now rt s.p w = .issue (.refresh r1 c cur)) :
    Inv07 (stepObsF now (s, o) (.x (.token rt w df))).1.1 (stepObsF now (s, o) (.x (.token rt w df))).1.2 ∧
    (stepObsF now (s, o) (.x (.token rt w df))).2.2.2 = none := by
  obtain ⟨g1, g2, _⟩ := goodX_token_refresh h rt w df hte
  have hx : Flow.stepX now s (.token rt w df) =
      (applyIssue s (.refresh r1 c cur), .base (.issued (.refresh r1 c cur) (some ("rt" ++ toString s.nextRT)))) := by
    simp only [Flow.stepX, hte, newRefresh_refresh]
  rw [stepObsX_eq hx] at g1 g2
  simp only [eventOfX, answerOf, Option.map_some] at g1 g2
  have hst : Flow.stepF now s (.x (.token rt w df)) =
      (applyIssue s (.refresh r1 c cur), .x (.base (.issued (.refresh r1 c cur) (some ("rt" ++ toString s.nextRT))))) := by
    simp only [Flow.stepF, hx]
  simp only [stepObsF, hst, eventOfF, wireOf, isRefreshIssued, answerOf, Option.map_some, bodyOf]
  refine ⟨?_, ?_⟩
  · rw [(observeF_tokens now o w _ _ rfl).1]; exact g1
  · rw [(observeF_tokens now o w _ _ rfl).2.2, g2]
    simp only [judgeBody_issued]
    split <;> rfl

/-- one step of a history with faults -/
theorem goodF_step (now : Int) {s : Flow.St} {o : ObsState} (h : Inv07 s o) (op : Flow.OpF)
    (hreg : ∀ c, op = .x (.reregister c) → AuthCapable s.p c)
    (hf : ∀ rt w callee, op ≠ .refreshFault rt w (.issuing callee)) :
    Inv07 (stepObsF now (s, o) op).1.1 (stepObsF now (s, o) op).1.2 ∧
    ((stepObsF now (s, o) op).2.2.2 = none ∨
      ((stepObsF now (s, o) op).2.2.2 = widening ∧ ∃ e, (stepObsF now (s, o) op).2.1 = .x (.base (.error e)))) := by
  cases op with
  | refreshFault rt w f => exact goodF_fault h rt w f (fun callee hc => hf rt w callee (by rw [hc]))
  | x op' =>
    have plain : (wireOf op' = none ∨ isRefreshIssued (Flow.stepX now s op').2 = false) →
        Inv07 (stepObsF now (s, o) (.x op')).1.1 (stepObsF now (s, o) (.x op')).1.2 ∧
        ((stepObsF now (s, o) (.x op')).2.2.2 = none ∨
          ((stepObsF now (s, o) (.x op')).2.2.2 = widening ∧ ∃ e, (stepObsF now (s, o) (.x op')).2.1 = .x (.base (.error e)))) := by
      intro hp
      rw [stepObsF_plain hp]
      obtain ⟨g1, g2⟩ := goodX_step now h op' (fun c hc => hreg c (by rw [hc]))
      refine ⟨g1, ?_⟩
      rcases g2 with g2 | ⟨g2, e, he⟩
      · exact Or.inl g2
      · exact Or.inr ⟨g2, e, by simp only [he]⟩
    cases op' with
    | base b => exact plain (Or.inl rfl)
    | reregister c => exact plain (Or.inl rfl)
    | token rt w df =>
      cases hte : tokenEndpoint now rt s.p w with
      | err e => exact plain (Or.inr (by simp only [Flow.stepX, hte, isRefreshIssued]))
      | other hd => exact plain (Or.inr (by simp only [Flow.stepX, hte, isRefreshIssued]))
      | issue i =>
        cases i with
        | refresh r1 c1 cur1 =>
          obtain ⟨g1, g2⟩ := goodF_refresh (now := now) h rt w df hte
          exact ⟨g1, Or.inl g2⟩
        | code a c1 k =>
          refine plain (Or.inr ?_)
          simp only [Flow.stepX, hte]
          split
          · simp only [Flow.issueDeleteFails]
            split
            · rfl
            · split <;> rfl
          · rfl

theorem stepObsF_state (now : Int) (s : Flow.St) (o : ObsState) (op : Flow.OpF) : (stepObsF now (s, o) op).1.1 = (Flow.stepF now s op).1 := by
  simp only [stepObsF]; cases eventOfF s (Flow.stepF now s op).1 op (Flow.stepF now s op).2 <;> rfl

/-- the configuration flags a registration's capability depends on never change -/
theorem stepF_flags (now : Int) (s : Flow.St) (op : Flow.OpF) : FlagsEq s (Flow.stepF now s op).1 := by
  cases op with
  | x op' => exact stepX_flags now s op'
  | refreshFault rt w f =>
    have hm : ∀ i, FlagsEq s (mintTokens s i) := fun i => FlagsEq.of_cfg (mintTokens_auth s i).2.2.2
    have ha : ∀ i, FlagsEq s (applyIssue s i) := by
      intro i
      have := stepX_flags now s (.token rt w false)
      cases i with
      | code a c k => simp only [applyIssue]; split <;> first | exact ⟨rfl, rfl, rfl⟩ | exact hm _
      | refresh r c k => exact hm _
    simp only [Flow.stepF]
    cases f with
    | validation site => exact ⟨rfl, rfl, rfl⟩
    | createTokens =>
      simp only [Flow.refreshFaultStep]
      split
      · split <;> exact ⟨rfl, rfl, rfl⟩
      · exact ⟨rfl, rfl, rfl⟩
      · exact ⟨rfl, rfl, rfl⟩
    | issuing callee =>
      simp only [Flow.refreshFaultStep]
      split
      · split
        · exact hm _
        · split
          · exact hm _
          · exact ha _
      · exact ⟨rfl, rfl, rfl⟩
      · exact ⟨rfl, rfl, rfl⟩

theorem inv07_runF (now : Int) {s : Flow.St} {o : ObsState} (h : Inv07 s o) (ops : List Flow.OpF)
    (hreg : ∀ c, Flow.OpF.x (.reregister c) ∈ ops → AuthCapable s.p c)
    (hf : ∀ rt w callee, Flow.OpF.refreshFault rt w (.issuing callee) ∉ ops) :
    Inv07 (runObsF now (s, o) ops).1.1 (runObsF now (s, o) ops).1.2 ∧
    ∀ x ∈ (runObsF now (s, o) ops).2, x.2.2 = none ∨ (x.2.2 = widening ∧ ∃ e, x.1 = .x (.base (.error e))) := by
  induction ops generalizing s o with
  | nil => exact ⟨h, by intro x hx; cases hx⟩
  | cons op rest ih =>
    obtain ⟨hinv, hv⟩ := goodF_step now h op (fun c hc => hreg c (by rw [hc]; exact List.mem_cons_self))
      (fun rt w callee hc => hf rt w callee (by rw [hc]; exact List.mem_cons_self))
    have hfl : FlagsEq s (stepObsF now (s, o) op).1.1 := by rw [stepObsF_state]; exact stepF_flags now s op
    obtain ⟨i1, i2⟩ := ih hinv (fun c hc => (hreg c (List.mem_cons_of_mem _ hc)).flags hfl)
      (fun rt w callee hc => hf rt w callee (List.mem_cons_of_mem _ hc))
    refine ⟨i1, ?_⟩
    intro x hx
    simp only [runObsF, List.mem_cons] at hx
    rcases hx with rfl | hx
    · exact hv
    · exact i2 x hx

end FlowObs

namespace C07
open FlowObs Flow

/-- **C07 over histories with storage faults.**  From an initial situation, for EVERY list of operations - everything
    `c07_wire_history_core` covers (code exchanges, refreshes as they travel in any shape, changing registrations, ...) and
    refresh requests during which a storage call FAILS: a read of the validation phase (`GetClientByClientID`,
    `AuthorizeClientIDSecret`, `GetKeyByIDAndClientID`, `TokenRequestByRefreshToken`) or the rotation call
    `CreateAccessAndRefreshTokens` itself (the presented token was rotated by a concurrent request, expired meanwhile, an
    outage: the error kind does not matter) - the observer of Spec/C07Fault.lean has nothing to object to any step that is not
    a refused refresh (which can at most trip the widening clause): every refresh answered 200 carries an access token and the
    refresh token the storage created in that very request, after the presented token was handed to the storage, with client /
    subject / audience / auth time kept and scopes within the grant; every refresh whose storage call failed is answered with
    an error document that carries no token, nothing was created, and the presented token still resolves afterwards. -/
theorem c07_fault_history (now : Int) (s : Flow.St) (o : ObsState) (h0 : Init s o) (ops : List Flow.OpF)
    (hreg : ∀ c, Flow.OpF.x (.reregister c) ∈ ops → AuthCapable s.p c)
    (hf : ∀ rt w callee, Flow.OpF.refreshFault rt w (.issuing callee) ∉ ops) :
    ∀ x ∈ (runObsF now (s, o) ops).2, x.2.2 = none ∨ (x.2.2 = widening ∧ ∃ e, x.1 = .x (.base (.error e))) :=
  (inv07_runF now h0.inv07 ops hreg hf).2

/-- a refresh whose rotation call fails leaves the storage exactly as it was (the presented token still resolves: the client can
    retry) and is answered with an error -/
theorem c07_rotation_fault_fails_closed (now : Int) (s : Flow.St) (rt : Router) (w : WireReq) :
    (Flow.stepF now s (.refreshFault rt w .createTokens)).1 = s ∧
    ∀ i nr, (Flow.stepF now s (.refreshFault rt w .createTokens)).2 ≠ .x (.base (.issued i nr)) ∧
            (Flow.stepF now s (.refreshFault rt w .createTokens)).2 ≠ .hollow i nr := by
  simp only [Flow.stepF, Flow.refreshFaultStep, rotation_error_returned.1, if_true]
  cases tokenEndpoint now rt s.p w <;> simp


/-! ## Faults after the rotation (outside C07 as written, see below), two refreshes at once, non-vacuity -/

def demoRefreshW (tok : String) : WireReq :=
  { body := [("grant_type", "refresh_token"), ("refresh_token", tok)], basic := some ("web", "s3cret") }

def showOutF : Flow.OutF → String
  | .x o => showOutX o
  | .hollow _ nr => "hollow:" ++ nr.getD "-"

/-- a grant; a refresh whose lookup fails; one whose rotation call fails; the retry; a replay of the rotated token -/
def demoFaults (rt : Router) : List Flow.OpF :=
  [.x (.base demoAuthorize), .x (.base (.login "ar1" "user1" 1000)), .x (.base (.callback "ar1" "c1")), .x (wireExchange rt),
   .refreshFault rt (demoRefreshW "rt1") (.validation "TokenRequestByRefreshToken"),
   .refreshFault rt (demoRefreshW "rt1") .createTokens,
   .x (.token rt (demoRefreshW "rt1") false),
   .refreshFault rt (demoRefreshW "rt1") .createTokens,
   .x (.token rt (demoRefreshW "rt2") false)]

example : ((runObsF 0 (demoState, obsOf demoState) (demoFaults .provider)).2.map fun x => (showOutF x.1, x.2.1, x.2.2)) =
  [("login:ar1", none, none), ("done", none, none), ("code:c1", none, none), ("tokens:user1:web:rt1", none, none),
   ("error:ErrStorageFault", none, none), ("error:ErrServerError", none, none),
   ("refreshed:user1:web:openid email offline_access:rt2", none, none), ("error:ErrInvalidGrant", none, none),
   ("refreshed:user1:web:openid email offline_access:rt3", none, none)] := by decide
example : ((runObsF 0 (demoState, obsOf demoState) (demoFaults .legacy)).2.map fun x => (showOutF x.1, x.2.1, x.2.2)) =
  [("login:ar1", none, none), ("done", none, none), ("code:c1", none, none), ("tokens:user1:web:rt1", none, none),
   ("error:ErrStorageFault", none, none), ("error:ErrServerError", none, none),
   ("refreshed:user1:web:openid email offline_access:rt2", none, none), ("error:ErrInvalidGrant", none, none),
   ("refreshed:user1:web:openid email offline_access:rt3", none, none)] := by decide

/-- the premises of `c07_fault_history` hold for the demo history -/
example : Init demoState (obsOf demoState) ∧ (∀ c, Flow.OpF.x (.reregister c) ∉ demoFaults .legacy) ∧
    (∀ rt w callee, Flow.OpF.refreshFault rt w (.issuing callee) ∉ demoFaults .legacy) := by
  refine ⟨init_obsOf rfl rfl rfl, ?_, ?_⟩ <;> intros <;> simp [demoFaults, wireExchange]

/-- the observer is not silent: the answer the code would give if `CreateTokenResponse` stopped returning the error of
    `CreateAccessToken` (200, an ID token, no access token, no refresh token, nothing rotated) is flagged; so are a 200 whose
    refresh token is not the one the storage created in this request, a 200 without rotation, and an error document that
    carries a token -/
example :
    let o := (runObsF 0 (demoState, obsOf demoState) ((demoFaults .provider).take 4)).1.2
    (observeF 0 o (.refresh (demoRefreshW "rt1") { err := "", created := false } { ok200 := true, idToken := true })).2.2 = some "success-without-access-token" ∧
    judgeBody { ok200 := true, accessToken := true, idToken := true, refreshToken := "rt1", rotatedTo := some "rt2" } = some "response-refresh-token-is-not-the-storage's" ∧
    judgeBody { ok200 := true, accessToken := true, idToken := true, refreshToken := "rt2" } = some "success-without-rotation" ∧
    judgeBody { ok200 := false, idToken := true } = some "tokens-in-refused-response" ∧
    judgeBody { ok200 := true, accessToken := true, idToken := true, refreshToken := "rt2", rotatedTo := some "rt2" } = none := by decide

/-- **what the model does when a storage call fails AFTER the rotation** (first recorded as finding F-C07a, then settled as a
    demand beyond the property: C07's "nothing is issued" is about requests refused on their merits; the observation layer no
    longer raises the clause on these lines, see Driver/C07WireMon.lean): a storage call that fails AFTER the rotation (signing key / userinfo / private claims for
    the access or the ID token) ends the request with an error, but the storage has rotated - the presented token is gone, its
    successor exists and was never delivered; the monitor says `tokens-created-on-refused-request`.  (Why `c07_fault_history`
    excludes these faults.) -/
theorem c07_post_rotation_fault :
    let so := (runObsF 0 (demoState, obsOf demoState) ((demoFaults .provider).take 4)).1
    let s' := (Flow.stepF 0 so.1 (.refreshFault .provider (demoRefreshW "rt1") (.issuing "CreateIDToken"))).1
    showOutF (Flow.stepF 0 so.1 (.refreshFault .provider (demoRefreshW "rt1") (.issuing "CreateIDToken"))).2 = "error:ErrServerError" ∧
    (s'.store.refresh.map (·.token)) = ["rt2"] ∧
    (observeF 0 so.2 (.refresh (demoRefreshW "rt1")
        { minted := mintedIn so.1 s', handed := some "rt1", err := "server_error", created := true } { rotatedTo := some "rt2" })).2.2
      = some "tokens-created-on-refused-request" := by decide

/-! two refreshes with the same token at once -/

/-- a handler that has not finished holds no tokens yet -/
def issuedBy : Flow.OutF → Option (String × String)
  | .x (.base (.issued (.refresh _ _ cur) (some nr))) => some (cur, nr)
  | _ => none

/-- **at most one of two concurrent refreshes of one token gets tokens** (strictly rotating storage, every interleaving of the
    two handlers' lookups and rotations) - a WITNESS over the demo grant, all 6 schedules, both routers (not the statement for
    all states; the stream runs random schedules against the real handlers); each winner's answer
    carries the token minted in its own rotation step, the loser is answered with an error (lookup after the winner's rotation:
    invalid_grant; rotation after the winner's rotation: server_error) -/
theorem c07_pair_at_most_one :
    let s := (runObsF 0 (demoState, obsOf demoState) ((demoFaults .provider).take 4)).1.1
    ∀ rt ∈ [Router.provider, Router.legacy],
    ∀ sched ∈ [[true, true, false, false], [true, false, true, false], [true, false, false, true],
               [false, true, true, false], [false, true, false, true], [false, false, true, true]],
      let r := Flow.stepPair 0 s rt (demoRefreshW "rt1") (demoRefreshW "rt1") sched
      ((issuedBy r.2.1).isSome != (issuedBy r.2.2.1).isSome) = true ∧
      (issuedBy r.2.1 = some ("rt1", "rt2") ∨ issuedBy r.2.2.1 = some ("rt1", "rt2")) ∧
      r.1.store.refresh.map (·.token) = ["rt2"] := by decide

end C07
