/-
  C16: everything the check builds and audits (checklib/props.d/C16.json `proof_module`).
    Proofs/C16Char.lean     layer 1: one characterisation lemma (`…_eq`, go_eq / go_leaf) per regenerated function of Generated/Device.lean
    Proofs/C16.lean         layer 2: state answers, user-code / device-code formats, verification URIs, `c16_state_machine` (∀ histories, via the monitor)
    Proofs/C16History.lean  ∀ histories, stated directly: tokens only after an earlier approval of that device code, only to the initiating client; faults
    Proofs/C16Rand.lean     NewUserCode as a function of the BYTES of crypto/rand (rand.Int's rejection sampling): format for every byte stream
    Proofs/C16Issue.lean    the tokens the regenerated issuance (C06's Generated/IssueC06.lean) makes of an approved state: subject, scopes
-/
import OidcModel.Proofs.C16
import OidcModel.Proofs.C16History
import OidcModel.Proofs.C16Rand
import OidcModel.Proofs.C16Issue
