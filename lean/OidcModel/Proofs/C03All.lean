/-
  C03: everything the check builds and audits (checklib/props.d/C03.json `proof_module`).
    Proofs/C03Char.lean      one characterisation lemma per regenerated function (layer 1)
    Proofs/C03.lean          the property theorems: per step, per history, storage faults at every index (layer 2)
    Proofs/C03FormPost.lean  (round 4) form_post answers on connections that break: composition with C11's regenerated program of
                             AuthResponseFormPost - the first form of every delivered document is its own request's
-/
import OidcModel.Proofs.C03
import OidcModel.Proofs.C03FormPost
