/-
  C20 (deep round 3) — objects that a function writes but did not create, and data that handler factories build.

  Two classes the write-site facts did not reach (seeded changes C20-F, C20-H):
   (a) a package-level variable that holds a POINTER (an error instance built once: `var errX = oidc.ErrY().With…`) flows
       into a function result and is written later THROUGH that value (`e := oidc.DefaultToServerError(err, …)` finds it with
       errors.As, `e.State = …`): a hidden write to process-global state at request time, shared by every provider;
   (b) a slice built once by a handler factory (`rp.AuthURLHandler`, `rp.CodeExchangeHandler`, the op handler factories) and
       appended to per request inside the returned closure: concurrent requests share the backing array.

  `factgen` regenerates on every run (footprint_c20heap.go): `Gen.sharedCells` (every package-level variable with the kind of
  value it holds), `Gen.handsOut` (function results that may be such a cell, closed over calls), `Gen.foreignWrites` (writes
  into objects the writer did not create, with their static type), `Gen.closureFactories`; foreign writes that may hit a
  pointer cell (same pointee type) are also added to `Gen.writeSites` with a `.global` root, and appends / element writes
  through a local that aliases a captured variable are captured-cell sites — so `hidden_exact`, `undisciplined_exact`,
  `c20_package_defaults_unchanged` and the driver's may-write / may-race prediction see them.
  The theorems below are about these regenerated lists.
-/
import OidcModel.Proofs.C20
import OidcModel.Go
namespace C20
open Footprint

#eval IO.println s!"C20-diagnostic package-level pointer cells written through a value: {(heapHits Gen.heapFacts).map fun p => (p.1, p.2.name)}"
#eval IO.println s!"C20-diagnostic handed-out writable cells not audited: {(handedOutAudit Gen.heapFacts).filter fun p => !knownHandedOut.contains p}"
#eval IO.println s!"C20-diagnostic mutator calls on a value the caller did not make: {Gen.errorMutatorCalls.filter fun c => c.2.2.2 != ["fresh"]}; package-level sentinel pointers handed out: {(handedOutWritable Gen.heapFacts).filter fun p => !(handedOutAudit Gen.heapFacts).contains p}"
#eval IO.println s!"C20-diagnostic closure sites (factory data written per request): {closureSites Gen.facts}"

/-! ## generic (any fact record) -/

/-- what `heapHits = []` means: no foreign write that may hit a package-level POINTER cell (`writeMayHit`: every write except
    the receiver writes of tracked mutator methods that are never called on a value that may be the cell) has its pointee type -/
theorem no_hit_of_heapHits_nil (H : HeapFacts) (h : heapHits H = []) (w : ForeignWrite) (hw : w ∈ H.writes)
    (c : SharedCell) (hc : c ∈ H.cells) (hp : c.kind = "ptr") (ht : c.ty ≠ "") (hm : writeMayHit H w c = true) : c.ty ≠ w.ty := by
  intro heq
  have hmem : (w.fn, Cell.global c.name w.path) ∈ heapHits H := by
    unfold heapHits
    refine List.mem_flatMap.mpr ⟨w, hw, List.mem_map.mpr ⟨c, List.mem_filter.mpr ⟨hc, ?_⟩, rfl⟩⟩
    have hne : w.ty ≠ "" := heq ▸ ht
    simp [hp, heq, hne, hm]
  rw [h] at hmem
  exact absurd hmem List.not_mem_nil

/-! ### deep round 4: the refined may-alias rule (package-level sentinel errors) -/

theorem originMayBe_fresh (g : String) : originMayBe g "fresh" = false := by simp [originMayBe]

/-- **a receiver write of a tracked mutator method hits a package-level cell ONLY through a listed call**: if the write of
    `WithDescription` / `WithParent` / … may hit the cell `c`, then some call of that method after package initialisation has a
    receiver whose origin may be `c` (the cell itself, or a value the calling function did not make) -/
theorem mutator_hit_needs_call (H : HeapFacts) (w : ForeignWrite) (c : SharedCell) (m : String)
    (hm : H.mutatorOf w = some m) (hh : writeMayHit H w c = true) :
    ∃ k ∈ H.mutCalls, k.2.2.1 = m ∧ ∃ o ∈ k.2.2.2, originMayBe c.name o = true := by
  simp only [writeMayHit, hm, HeapFacts.callsOn, Bool.not_eq_true', List.isEmpty_eq_false_iff] at hh
  obtain ⟨k, hk⟩ := List.exists_mem_of_ne_nil _ hh
  obtain ⟨hkm, hkp⟩ := List.mem_filter.mp hk
  simp only [Bool.and_eq_true, beq_iff_eq, List.any_eq_true] at hkp
  exact ⟨k, hkm, hkp.1, hkp.2⟩

/-- … and conversely: no such call, no hit -/
theorem mutator_misses_without_call (H : HeapFacts) (w : ForeignWrite) (c : SharedCell) (m : String)
    (hm : H.mutatorOf w = some m)
    (hn : ∀ k ∈ H.mutCalls, k.2.2.1 = m → ∀ o ∈ k.2.2.2, originMayBe c.name o = false) : writeMayHit H w c = false := by
  cases hh : writeMayHit H w c with
  | false => rfl
  | true =>
    obtain ⟨k, hk, hkm, o, ho, hob⟩ := mutator_hit_needs_call H w c m hm hh
    rw [hn k hk hkm o ho] at hob
    exact absurd hob (by decide)

/-- when every listed call has a receiver made by the calling expression / function, the mutators' receiver writes hit NO
    package-level cell — whatever package-level `*oidc.Error` variables exist or are added later -/
theorem fresh_calls_hit_nothing (H : HeapFacts) (hf : H.mutCalls.all (fun k => k.2.2.2 == ["fresh"]) = true)
    (w : ForeignWrite) (c : SharedCell) (m : String) (hm : H.mutatorOf w = some m) : writeMayHit H w c = false := by
  apply mutator_misses_without_call H w c m hm
  intro k hk _ o ho
  have := List.all_eq_true.mp hf k hk
  simp only [beq_iff_eq] at this
  rw [this] at ho
  simp only [List.mem_singleton] at ho
  rw [ho]
  exact originMayBe_fresh c.name

/-- the refinement only REMOVES pairs from the type-only rule of round 3 -/
theorem heapHits_sub_byType (H : HeapFacts) (p : String × Cell) (hp : p ∈ heapHits H) : p ∈ heapHitsByType H := by
  unfold heapHits at hp
  unfold heapHitsByType
  obtain ⟨w, hw, hwp⟩ := List.mem_flatMap.mp hp
  obtain ⟨c, hc, hcp⟩ := List.mem_map.mp hwp
  obtain ⟨hcm, hcf⟩ := List.mem_filter.mp hc
  refine List.mem_flatMap.mpr ⟨w, hw, List.mem_map.mpr ⟨c, List.mem_filter.mpr ⟨hcm, ?_⟩, hcp⟩⟩
  simp only [Bool.and_eq_true] at hcf ⊢
  exact hcf.1

/-- if every type-matched pair is a hidden cell of the write-site facts and the hidden cells contain no package-level
    variable, there is no type-matched pair at all (the link between the two fact lists) -/
theorem heapHits_nil_of_listed (F : Facts) (H : HeapFacts)
    (hl : ∀ p ∈ heapHits H, p ∈ hidden F) (hg : ∀ p ∈ hidden F, ∀ g q, p.2 ≠ Cell.global g q) : heapHits H = [] := by
  cases hh : heapHits H with
  | nil => rfl
  | cons p ps =>
    exfalso
    have hp : p ∈ heapHits H := by rw [hh]; exact List.mem_cons_self
    obtain ⟨w, _, hw⟩ := List.mem_flatMap.mp hp
    obtain ⟨c, _, hc⟩ := List.mem_map.mp hw
    exact hg p (hl p hp) c.name w.path (by rw [← hc])

/-- only a site whose root is a captured variable can write a closure-captured cell -/
theorem siteCells_captured_root (F : Facts) (i : Inst) (s : WriteSite) (k : Nat) (o v : String) (p : List String)
    (h : Cell.captured k o v p ∈ siteCells F i s) : s.root.isCaptured = true := by
  cases hr : s.root with
  | captured o' v' d => rfl
  | global g => simp [siteCells, hr] at h
  | recv t => simp only [siteCells, hr] at h; exact absurd h (typedCells_not_captured F i s _ k o v p)
  | param n t => simp only [siteCells, hr] at h; exact absurd h (typedCells_not_captured F i s _ k o v p)
  | fresh t => simp only [siteCells, hr] at h; exact absurd h (typedCells_not_captured F i s _ k o v p)
  | via b m =>
    simp only [siteCells, hr] at h
    split at h
    · exact absurd h (fieldCells_not_captured F i s _ _ k o v p)
    · simp at h

/-- **handler factories build their per-request data per request (history level)**: if no returned closure writes a
    variable of the function that made it (`closureSites F = []`), then after ANY program — any number of requests through
    any handlers made by any factory, on any instances, in any order — every closure-captured cell of every factory value
    has the value it had before. -/
theorem closure_cells_of_run (F : Facts) (hc : closureSites F = []) (prog : List Step) (m m' : Mem) (h : RunRel F prog m m')
    (k : Nat) (o v : String) (p : List String) : m' (.captured k o v p) = m (.captured k o v p) := by
  induction h with
  | nil => rfl
  | cons hstep _ ih =>
    rw [ih]
    apply hstep
    intro hmem
    unfold stepCells at hmem
    obtain ⟨s, hs, hcell⟩ := List.mem_flatMap.mp hmem
    have hroot := siteCells_captured_root F _ s k o v p hcell
    have : (s.fn, s.lhs) ∈ closureSites F :=
      List.mem_map.mpr ⟨s, List.mem_filter.mpr ⟨(List.mem_filter.mp hs).1, hroot⟩, rfl⟩
    rw [hc] at this
    exact absurd this List.not_mem_nil

/-! ## the regenerated facts -/

/-- **no package-level cell is reachable from a value that a handler writes**: no write into an object that the writer did
    not create (error values found with errors.As / `oidc.DefaultToServerError`, receivers and parameters of the mutator
    methods, call results) has the pointee type of any package-level POINTER variable.  Seeded change C20-F (one shared
    `*oidc.Error` instance returned by `ValidateAuthReqScopes`, `e.State = …` in `AuthRequestError`) breaks this. -/
theorem c20_no_shared_cell_reachable_from_written_value : heapHits Gen.heapFacts = [] := by decide +kernel

/-- the same, spelled out for every pair -/
theorem c20_written_values_miss_pointer_cells (w : ForeignWrite) (hw : w ∈ Gen.foreignWrites) (c : SharedCell) (hc : c ∈ Gen.sharedCells)
    (hp : c.kind = "ptr") (ht : c.ty ≠ "") (hm : writeMayHit Gen.heapFacts w c = true) : c.ty ≠ w.ty :=
  no_hit_of_heapHits_nil Gen.heapFacts c20_no_shared_cell_reachable_from_written_value w hw c hc hp ht hm

/-- factgen's expansion (type-matched pairs as `.global` write sites in `Gen.writeSites`) lists every pair that Lean
    computes from the two fact lists: the footprint theorems (`hidden_exact`, `c20_package_defaults_unchanged`) and the
    driver's prediction see exactly these writes -/
theorem c20_heap_hits_listed : (heapHits Gen.heapFacts).all (fun h => (hidden Gen.facts).contains h) = true := by decide +kernel

/-- no function of the library hands out a package-level POINTER cell (a default object) as a result — other than a pointer to
    a SENTINEL type (`*oidc.Error`: `var errX = oidc.ErrY().WithDescription(…)` … `return errX`, the standard Go idiom), whose
    objects nobody writes except through the tracked mutator methods (`c20_error_type_is_sentinel`) -/
theorem c20_no_pointer_cell_handed_out :
    ((handedOutAudit Gen.heapFacts).filter fun h => Gen.heapFacts.kindOf h.2 == "ptr") = [] := by decide +kernel

/-- the package-level slices / maps that ARE handed out as results are exactly the audited ones … -/
theorem c20_handed_out_exact : sameSet (dedup (handedOutAudit Gen.heapFacts)) knownHandedOut = true := by decide +kernel

/-- … and no write site of the library targets any of them (nor any other package-level variable: `hidden_exact`) -/
theorem c20_handed_out_cells_never_written :
    (handedOutWritable Gen.heapFacts).all (fun h => !(Gen.facts.sites.any fun s => s.root == .global h.2)) = true := by decide +kernel

/-- **handed-in errors are never written**: no function of the library assigns to a field of an `*oidc.Error` that it was handed —
    as a parameter, or found with errors.As in the chain of an error it was handed (`oidc.DefaultToServerError`,
    `op.AuthRequestError`, `op.TryErrorRedirect`, `op.RequestError`, `op.WriteError` …).  A storage / validator may return one
    shared `*oidc.Error` value (a sentinel error) for every request.  FALSE before the repair of F-C11e (`e.State = …`,
    `e.SessionState = …` in AuthRequestError / TryErrorRedirect). -/
theorem c20_handed_in_errors_never_written :
    (Gen.foreignWrites.filter fun w => w.ty == "oidc.Error" && w.via != "recv") = [] := by decide +kernel

/-- the same for every object type: what is written through a parameter / an errors.As target never has the type `oidc.Error` -/
theorem c20_no_error_write_through_parameter (w : ForeignWrite) (hw : w ∈ Gen.foreignWrites) (hv : Go.hasPrefix w.via "param:" = true) :
    w.ty ≠ "oidc.Error" := by
  intro ht
  have h : w ∈ (Gen.foreignWrites.filter fun w => w.ty == "oidc.Error" && w.via != "recv") := by
    refine List.mem_filter.mpr ⟨hw, ?_⟩
    have hne : w.via ≠ "recv" := by
      intro e; rw [e] at hv; revert hv; decide
    simp [ht, hne]
  rw [c20_handed_in_errors_never_written] at h
  exact absurd h (List.not_mem_nil)

/-- the only writes into an `oidc.Error` that the writer did not create are the receiver writes of its three mutator methods … -/
theorem c20_error_mutators_exact :
    sameSet ((Gen.foreignWrites.filter fun w => w.ty == "oidc.Error").map fun w => (w.fn, w.lhs)) knownErrorMutators = true := by decide +kernel

/-- … and every call of a mutator method in the library has a receiver that the calling expression / function made itself
    (`oidc.ErrInvalidRequest().WithDescription(…)`): never an error value that was handed in, found with errors.As, or package-level -/
theorem c20_error_mutators_called_on_fresh_values :
    Gen.errorMutatorCalls.all (fun c => c.2.2.2 == ["fresh"]) = true := by decide +kernel

/-- `oidc.Error` is a sentinel type: every write into an `oidc.Error` that the writer did not create is the receiver write of a tracked
    mutator method (with `c20_handed_in_errors_never_written`: nothing is written through a parameter / errors.As target) -/
theorem c20_error_type_is_sentinel : Gen.heapFacts.sentinelType "oidc.Error" = true := by decide +kernel

/-- **package-level sentinel errors are never written after initialisation** (the refined may-alias theorem): the receiver
    write of every tracked mutator method misses EVERY package-level cell — any `SharedCell` at all, also one that a later change adds
    (`var ErrLogin = oidc.ErrLoginRequired().WithDescription(…)`) — because every call of such a method after package initialisation
    is made on a value the calling expression / function made itself.  A package-level error cell is written iff a mutator is called
    on it (`mutator_hit_needs_call`) or a field of it is assigned (a `.global` write site: `hidden_exact`). -/
theorem c20_mutator_writes_miss_every_cell (w : ForeignWrite) (m : String) (hm : Gen.heapFacts.mutatorOf w = some m) (c : SharedCell) :
    writeMayHit Gen.heapFacts w c = false :=
  fresh_calls_hit_nothing Gen.heapFacts c20_error_mutators_called_on_fresh_values w c m hm

/-- the three receiver writes of `c20_error_mutators_exact` ARE tracked: the statement above is about all of them -/
theorem c20_error_mutators_tracked :
    (Gen.foreignWrites.filter fun w => w.ty == "oidc.Error").all (fun w => (Gen.heapFacts.mutatorOf w).isSome) = true := by decide +kernel

/-- **every handler factory builds its per-request data per request**: no closure returned by any function of the library
    assigns, appends to or writes an element of a variable of the function that made it (nor of a local that aliases one:
    `opts := urlOpts; opts = append(opts, …)`).  Seeded change C20-H breaks this. -/
theorem c20_factories_build_per_request : closureSites Gen.facts = [] := by decide +kernel

/-- … hence for EVERY program no closure-captured cell of any factory value changes (no hypothesis on who holds the value) -/
theorem c20_closure_state_unchanged (prog : List Step) (m m' : Mem) (h : RunRel Gen.facts prog m m')
    (k : Nat) (o v : String) (p : List String) : m' (.captured k o v p) = m (.captured k o v p) :=
  closure_cells_of_run Gen.facts c20_factories_build_per_request prog m m' h k o v p

/-- (deep round 4) named instance of `c20_package_defaults_unchanged` for the sentinel idiom: for EVERY program — any constructions,
    any number of refused / failing requests answered with a package-level error value, on any providers, in any order — every
    package-level cell (in particular every package-level `*oidc.Error`, whichever a later change adds) holds afterwards what it
    held before.  It keeps holding on a tree with sentinel errors because the refined may-alias rule adds no write site for them. -/
theorem c20_sentinel_errors_unchanged (prog : List Step) (m m' : Mem) (h : RunRel Gen.facts prog m m')
    (c : SharedCell) (p : List String) : m' (.global c.name p) = m (.global c.name p) :=
  c20_package_defaults_unchanged prog m m' h c.name p

/-- (deep round 4) **the client-side helpers hold only read-only configuration after construction**: no method of, and no function
    working on, a resource server (`rs.resourceServer`), a token exchanger (`tokenexchange.OAuthTokenExchange`) or a JWT profile token
    source (`profile.jwtProfileTokenSource`) writes any field of it once the constructor has returned — no lazily initialised field
    (token endpoint discovered on first use, signer created on demand), nothing to race on when one instance serves many goroutines.
    The `*http.Client` they are handed is covered by `c20_supplied_objects_unchanged` (it is aliased, never written). -/
theorem c20_client_helpers_read_only :
    (Gen.facts.sites.filter fun s => apiPhase s &&
      (siteTy s == "rs.resourceServer" || siteTy s == "tokenexchange.OAuthTokenExchange" || siteTy s == "profile.jwtProfileTokenSource")) = [] := by
  decide +kernel

/-- the three helper types are in the facts: constructors, option writes, the alias of the handed-in HTTP client -/
theorem c20_client_helpers_in_footprint :
    (["rs.resourceServer", "tokenexchange.OAuthTokenExchange", "profile.jwtProfileTokenSource"].all fun t =>
      (Gen.facts.ctors.any fun c => c.ty == t) && (Gen.facts.sites.any fun s => siteTy s == t && s.phase == .option) &&
      (Gen.facts.aliases.any fun a => a.ty == t && a.src == .param "client" "http.Client")) = true := by decide +kernel

/-! ## non-vacuity -/

/-- the extraction sees the handler factories, the error-answer writes, the shared cells -/
example : "rp.AuthURLHandler" ∈ Gen.closureFactories ∧ "rp.CodeExchangeHandler" ∈ Gen.closureFactories ∧
          "op.authorizeHandler" ∈ Gen.closureFactories ∧ "op.tokenHandler" ∈ Gen.closureFactories := by decide +kernel
example : (Gen.foreignWrites.any fun w => w.fn == "oidc.Error.WithDescription" && w.lhs == "e.Description" && w.ty == "oidc.Error") = true := by decide +kernel
example : (Gen.errorMutatorCalls.any fun c => c.1 == "op.ValidateAuthReqIDTokenHint" && c.2.2.1 == "WithParent") = true := by decide +kernel
/-- the extraction sees a write through an errors.As target (the statement is not vacuous): `rp.…` / `op.…` functions that complete
    an object found in an error chain would be listed with `via := "param:…"` -/
example : (Gen.foreignWrites.any fun w => Go.hasPrefix w.via "param:") = true := by decide +kernel
example : ({ name := "op.DefaultEndpoints", kind := "ptr", ty := "op.Endpoints" } : SharedCell) ∈ Gen.sharedCells := by decide +kernel

/-- seeded change C20-F in the facts: one package-level `*oidc.Error` -/
def heapF : HeapFacts :=
  { Gen.heapFacts with cells := { name := "op.errAuthReqScopesMissing", kind := "ptr", ty := "oidc.Error" } :: Gen.sharedCells,
                       handsOut := ("op.ValidateAuthReqScopes", 1, "op.errAuthReqScopesMissing") :: Gen.handsOut }

/-- since the repair of F-C11e nothing writes into such a value: the error-answer functions complete a copy, and the mutator
    methods are only ever called on fresh values — the refined rule finds NO hit, the type-only rule of round 3 did (the false alarm
    on the retired seeds C20-F / C20-N = neutral rewrites N152 / N153) -/
example : heapHits heapF = [] := by decide +kernel
example : ("oidc.Error.WithDescription", Cell.global "op.errAuthReqScopesMissing" ["Description"]) ∈ heapHitsByType heapF := by decide +kernel
example : heapF.sentinelType "oidc.Error" = true ∧ handedOutAudit heapF = handedOutAudit Gen.heapFacts ∧
          ("op.ValidateAuthReqScopes", "op.errAuthReqScopesMissing") ∈ handedOutWritable heapF := by decide +kernel
/-- a mutator called on the package-level value at request time (`errAuthReqScopesMissing.WithDescription(fmt.Sprintf(…))` inside the
    handler) IS a hit — on that cell and on no other -/
def heapFMut : HeapFacts :=
  { heapF with cells := { name := "op.ErrOther", kind := "ptr", ty := "oidc.Error" } :: heapF.cells,
               mutCalls := ("op.ValidateAuthReqScopes", 283, "WithDescription", ["global:op.errAuthReqScopesMissing"]) :: heapF.mutCalls }
example : ("oidc.Error.WithDescription", Cell.global "op.errAuthReqScopesMissing" ["Description"]) ∈ heapHits heapFMut ∧
          (heapHits heapFMut).all (fun h => h.1 == "oidc.Error.WithDescription" && h.2 == Cell.global "op.errAuthReqScopesMissing" ["Description"]) = true := by decide +kernel
/-- a mutator called on an error the function was HANDED (`op.RequestError` calling `e.WithDescription(…)` on the error found with
    errors.As) may hit every package-level error value -/
def heapFParam : HeapFacts :=
  { heapFMut with mutCalls := ("op.RequestError", 74, "WithParent", ["param:2"]) :: heapF.mutCalls }
example : ("oidc.Error.WithParent", Cell.global "op.ErrOther" ["Parent"]) ∈ heapHits heapFParam ∧
          ("oidc.Error.WithParent", Cell.global "op.errAuthReqScopesMissing" ["Parent"]) ∈ heapHits heapFParam ∧
          (heapHits heapFParam).all (fun h => h.1 == "oidc.Error.WithParent") = true := by decide +kernel
/-- the facts as they were before the repair: the two functions write State / SessionState through the error they were handed -/
def heapFUnfixed : HeapFacts :=
  { heapF with writes :=
      { file := "pkg/op/error.go", fn := "op.AuthRequestError", line := 48, lhs := "e.State", via := "param:3", ty := "oidc.Error", path := ["State"], op := .assign } ::
      { file := "pkg/op/error.go", fn := "op.TryErrorRedirect", line := 106, lhs := "e.SessionState", via := "param:2", ty := "oidc.Error", path := ["SessionState"], op := .assign } ::
      heapF.writes }
example : ("op.AuthRequestError", Cell.global "op.errAuthReqScopesMissing" ["State"]) ∈ heapHits heapFUnfixed := by decide +kernel
example : ("op.TryErrorRedirect", Cell.global "op.errAuthReqScopesMissing" ["SessionState"]) ∈ heapHits heapFUnfixed := by decide +kernel
/-- … `oidc.Error` is then no sentinel type and the function that hands the value out is up for audit -/
example : heapFUnfixed.sentinelType "oidc.Error" = false ∧
          ("op.ValidateAuthReqScopes", "op.errAuthReqScopesMissing") ∈ handedOutAudit heapFUnfixed := by decide +kernel
example : (heapF.handsOut.filter fun h => heapF.kindOf h.2.2 == "ptr") ≠ [] := by decide +kernel

/-- seeded change C20-H in the facts: the returned closure appends to (an alias of) the factory's slice -/
def siteH : WriteSite :=
  { file := "pkg/client/rp/relying_party.go", fn := "rp.AuthURLHandler$ret", meth := "AuthURLHandler", line := 429, lhs := "opts",
    root := .captured "rp.AuthURLHandler" "urlOpts" 0, path := ["[]"], op := .append, phase := .func, guard := .none }
def factsH : Facts :=
  { Gen.facts with sites := Gen.facts.sites ++ [siteH],
                   reach := [("rp.AuthURLHandler$ret", ["rp.AuthURLHandler$ret"]), ("rp.AuthURLHandler", ["rp.AuthURLHandler"])] ++ Gen.facts.reach }
def rpPKCE : Inst := { id := 1, ty := "rp.relyingParty", entry := "rp.NewRelyingPartyOAuth", opts := ["rp.WithPKCE"] }

example : closureSites factsH = [("rp.AuthURLHandler$ret", "opts")] := by decide +kernel
example : ("rp.AuthURLHandler$ret", "opts") ∈ undisciplinedSites factsH := by decide +kernel
/-- two requests through one handler may race on the factory's slice -/
example : mayRace (factsH.drop knownUnsync auditedReads) [⟨.call, "rp.AuthURLHandler$ret", rpPKCE⟩] = true := by decide +kernel
example : mayRace rest [⟨.call, "rp.AuthURLHandler$ret", rpPKCE⟩, ⟨.call, "rp.CodeExchangeHandler$ret", rpPKCE⟩] = false := by decide +kernel

end C20
