/-
  C20 (deep round 3) — objects that a function writes but did not create, and data that handler factories build.

  Two classes the write-site facts did not reach (seeded changes C20-F, C20-H):
   (a) a package-level variable that holds a POINTER (an error instance built once: `var errX = oidc.ErrY().With…`) flows
       into a function result and is written later THROUGH that value (`e := oidc.DefaultToServerError(err, …)` finds it with
       errors.As, `e.State = …`): a hidden write to process-global state at request time, shared by every provider;
   (b) a slice built once by a handler factory (`rp.AuthURLHandler`, `rp.CodeExchangeHandler`, the op handler factories) and
       appended to per request inside the returned closure: concurrent requests share the backing array.

  `factgen` regenerates on every run (footprint_c20heap.go): `Gen.sharedCells` (every package-level variable with the kind of
  value it holds), `Gen.handsOut` (function results that may be such a cell, closed over calls), `Gen.foreignWrites` (writes
  into objects the writer did not create, with their static type), `Gen.closureFactories`; foreign writes that may hit a
  pointer cell (same pointee type) are also added to `Gen.writeSites` with a `.global` root, and appends / element writes
  through a local that aliases a captured variable are captured-cell sites — so `hidden_exact`, `undisciplined_exact`,
  `c20_package_defaults_unchanged` and the driver's may-write / may-race prediction see them.
  The theorems below are about these regenerated lists.
-/
import OidcModel.Proofs.C20
import OidcModel.Go
namespace C20
open Footprint

#eval IO.println s!"C20-diagnostic package-level pointer cells written through a value: {(heapHits Gen.heapFacts).map fun p => (p.1, p.2.name)}"
#eval IO.println s!"C20-diagnostic handed-out writable cells not audited: {(handedOutWritable Gen.heapFacts).filter fun p => !knownHandedOut.contains p}"
#eval IO.println s!"C20-diagnostic closure sites (factory data written per request): {closureSites Gen.facts}"

/-! ## generic (any fact record) -/

/-- what `heapHits = []` means: no foreign write has the pointee type of any package-level pointer cell -/
theorem no_hit_of_heapHits_nil (H : HeapFacts) (h : heapHits H = []) (w : ForeignWrite) (hw : w ∈ H.writes)
    (c : SharedCell) (hc : c ∈ H.cells) (hp : c.kind = "ptr") (ht : c.ty ≠ "") : c.ty ≠ w.ty := by
  intro heq
  have hmem : (w.fn, Cell.global c.name w.path) ∈ heapHits H := by
    unfold heapHits
    refine List.mem_flatMap.mpr ⟨w, hw, List.mem_map.mpr ⟨c, List.mem_filter.mpr ⟨hc, ?_⟩, rfl⟩⟩
    have hne : w.ty ≠ "" := heq ▸ ht
    simp [hp, heq, hne]
  rw [h] at hmem
  exact absurd hmem List.not_mem_nil

/-- if every type-matched pair is a hidden cell of the write-site facts and the hidden cells contain no package-level
    variable, there is no type-matched pair at all (the link between the two fact lists) -/
theorem heapHits_nil_of_listed (F : Facts) (H : HeapFacts)
    (hl : ∀ p ∈ heapHits H, p ∈ hidden F) (hg : ∀ p ∈ hidden F, ∀ g q, p.2 ≠ Cell.global g q) : heapHits H = [] := by
  cases hh : heapHits H with
  | nil => rfl
  | cons p ps =>
    exfalso
    have hp : p ∈ heapHits H := by rw [hh]; exact List.mem_cons_self
    obtain ⟨w, _, hw⟩ := List.mem_flatMap.mp hp
    obtain ⟨c, _, hc⟩ := List.mem_map.mp hw
    exact hg p (hl p hp) c.name w.path (by rw [← hc])

/-- only a site whose root is a captured variable can write a closure-captured cell -/
theorem siteCells_captured_root (F : Facts) (i : Inst) (s : WriteSite) (k : Nat) (o v : String) (p : List String)
    (h : Cell.captured k o v p ∈ siteCells F i s) : s.root.isCaptured = true := by
  cases hr : s.root with
  | captured o' v' d => rfl
  | global g => simp [siteCells, hr] at h
  | recv t => simp only [siteCells, hr] at h; exact absurd h (typedCells_not_captured F i s _ k o v p)
  | param n t => simp only [siteCells, hr] at h; exact absurd h (typedCells_not_captured F i s _ k o v p)
  | fresh t => simp only [siteCells, hr] at h; exact absurd h (typedCells_not_captured F i s _ k o v p)
  | via b m =>
    simp only [siteCells, hr] at h
    split at h
    · exact absurd h (fieldCells_not_captured F i s _ _ k o v p)
    · simp at h

/-- **handler factories build their per-request data per request (history level)**: if no returned closure writes a
    variable of the function that made it (`closureSites F = []`), then after ANY program — any number of requests through
    any handlers made by any factory, on any instances, in any order — every closure-captured cell of every factory value
    has the value it had before. -/
theorem closure_cells_of_run (F : Facts) (hc : closureSites F = []) (prog : List Step) (m m' : Mem) (h : RunRel F prog m m')
    (k : Nat) (o v : String) (p : List String) : m' (.captured k o v p) = m (.captured k o v p) := by
  induction h with
  | nil => rfl
  | cons hstep _ ih =>
    rw [ih]
    apply hstep
    intro hmem
    unfold stepCells at hmem
    obtain ⟨s, hs, hcell⟩ := List.mem_flatMap.mp hmem
    have hroot := siteCells_captured_root F _ s k o v p hcell
    have : (s.fn, s.lhs) ∈ closureSites F :=
      List.mem_map.mpr ⟨s, List.mem_filter.mpr ⟨(List.mem_filter.mp hs).1, hroot⟩, rfl⟩
    rw [hc] at this
    exact absurd this List.not_mem_nil

/-! ## the regenerated facts -/

/-- **no package-level cell is reachable from a value that a handler writes**: no write into an object that the writer did
    not create (error values found with errors.As / `oidc.DefaultToServerError`, receivers and parameters of the mutator
    methods, call results) has the pointee type of any package-level POINTER variable.  Seeded change C20-F (one shared
    `*oidc.Error` instance returned by `ValidateAuthReqScopes`, `e.State = …` in `AuthRequestError`) breaks this. -/
theorem c20_no_shared_cell_reachable_from_written_value : heapHits Gen.heapFacts = [] := by decide +kernel

/-- the same, spelled out for every pair -/
theorem c20_written_values_miss_pointer_cells (w : ForeignWrite) (hw : w ∈ Gen.foreignWrites) (c : SharedCell) (hc : c ∈ Gen.sharedCells)
    (hp : c.kind = "ptr") (ht : c.ty ≠ "") : c.ty ≠ w.ty :=
  no_hit_of_heapHits_nil Gen.heapFacts c20_no_shared_cell_reachable_from_written_value w hw c hc hp ht

/-- factgen's expansion (type-matched pairs as `.global` write sites in `Gen.writeSites`) lists every pair that Lean
    computes from the two fact lists: the footprint theorems (`hidden_exact`, `c20_package_defaults_unchanged`) and the
    driver's prediction see exactly these writes -/
theorem c20_heap_hits_listed : (heapHits Gen.heapFacts).all (fun h => (hidden Gen.facts).contains h) = true := by decide +kernel

/-- no function of the library hands out a package-level POINTER cell (an error instance, a default object) as a result -/
theorem c20_no_pointer_cell_handed_out :
    (Gen.handsOut.filter fun h => Gen.heapFacts.kindOf h.2.2 == "ptr") = [] := by decide +kernel

/-- the package-level slices / maps that ARE handed out as results are exactly the audited ones … -/
theorem c20_handed_out_exact : sameSet (dedup (handedOutWritable Gen.heapFacts)) knownHandedOut = true := by decide +kernel

/-- … and no write site of the library targets any of them (nor any other package-level variable: `hidden_exact`) -/
theorem c20_handed_out_cells_never_written :
    (handedOutWritable Gen.heapFacts).all (fun h => !(Gen.facts.sites.any fun s => s.root == .global h.2)) = true := by decide +kernel

/-- **handed-in errors are never written**: no function of the library assigns to a field of an `*oidc.Error` that it was handed —
    as a parameter, or found with errors.As in the chain of an error it was handed (`oidc.DefaultToServerError`,
    `op.AuthRequestError`, `op.TryErrorRedirect`, `op.RequestError`, `op.WriteError` …).  A storage / validator may return one
    shared `*oidc.Error` value (a sentinel error) for every request.  FALSE before the repair of F-C11e (`e.State = …`,
    `e.SessionState = …` in AuthRequestError / TryErrorRedirect). -/
theorem c20_handed_in_errors_never_written :
    (Gen.foreignWrites.filter fun w => w.ty == "oidc.Error" && w.via != "recv") = [] := by decide +kernel

/-- the same for every object type: what is written through a parameter / an errors.As target never has the type `oidc.Error` -/
theorem c20_no_error_write_through_parameter (w : ForeignWrite) (hw : w ∈ Gen.foreignWrites) (hv : Go.hasPrefix w.via "param:" = true) :
    w.ty ≠ "oidc.Error" := by
  intro ht
  have h : w ∈ (Gen.foreignWrites.filter fun w => w.ty == "oidc.Error" && w.via != "recv") := by
    refine List.mem_filter.mpr ⟨hw, ?_⟩
    have hne : w.via ≠ "recv" := by
      intro e; rw [e] at hv; revert hv; decide
    simp [ht, hne]
  rw [c20_handed_in_errors_never_written] at h
  exact absurd h (List.not_mem_nil)

/-- the only writes into an `oidc.Error` that the writer did not create are the receiver writes of its three mutator methods … -/
theorem c20_error_mutators_exact :
    sameSet ((Gen.foreignWrites.filter fun w => w.ty == "oidc.Error").map fun w => (w.fn, w.lhs)) knownErrorMutators = true := by decide +kernel

/-- … and every call of a mutator method in the library has a receiver that the calling expression / function made itself
    (`oidc.ErrInvalidRequest().WithDescription(…)`): never an error value that was handed in, found with errors.As, or package-level -/
theorem c20_error_mutators_called_on_fresh_values :
    Gen.errorMutatorCalls.all (fun c => c.2.2.2 == ["fresh"]) = true := by decide +kernel

/-- **every handler factory builds its per-request data per request**: no closure returned by any function of the library
    assigns, appends to or writes an element of a variable of the function that made it (nor of a local that aliases one:
    `opts := urlOpts; opts = append(opts, …)`).  Seeded change C20-H breaks this. -/
theorem c20_factories_build_per_request : closureSites Gen.facts = [] := by decide +kernel

/-- … hence for EVERY program no closure-captured cell of any factory value changes (no hypothesis on who holds the value) -/
theorem c20_closure_state_unchanged (prog : List Step) (m m' : Mem) (h : RunRel Gen.facts prog m m')
    (k : Nat) (o v : String) (p : List String) : m' (.captured k o v p) = m (.captured k o v p) :=
  closure_cells_of_run Gen.facts c20_factories_build_per_request prog m m' h k o v p

/-! ## non-vacuity -/

/-- the extraction sees the handler factories, the error-answer writes, the shared cells -/
example : "rp.AuthURLHandler" ∈ Gen.closureFactories ∧ "rp.CodeExchangeHandler" ∈ Gen.closureFactories ∧
          "op.authorizeHandler" ∈ Gen.closureFactories ∧ "op.tokenHandler" ∈ Gen.closureFactories := by decide +kernel
example : (Gen.foreignWrites.any fun w => w.fn == "oidc.Error.WithDescription" && w.lhs == "e.Description" && w.ty == "oidc.Error") = true := by decide +kernel
example : (Gen.errorMutatorCalls.any fun c => c.1 == "op.ValidateAuthReqIDTokenHint" && c.2.2.1 == "WithParent") = true := by decide +kernel
/-- the extraction sees a write through an errors.As target (the statement is not vacuous): `rp.…` / `op.…` functions that complete
    an object found in an error chain would be listed with `via := "param:…"` -/
example : (Gen.foreignWrites.any fun w => Go.hasPrefix w.via "param:") = true := by decide +kernel
example : ({ name := "op.DefaultEndpoints", kind := "ptr", ty := "op.Endpoints" } : SharedCell) ∈ Gen.sharedCells := by decide +kernel

/-- seeded change C20-F in the facts: one package-level `*oidc.Error` -/
def heapF : HeapFacts :=
  { Gen.heapFacts with cells := { name := "op.errAuthReqScopesMissing", kind := "ptr", ty := "oidc.Error" } :: Gen.sharedCells,
                       handsOut := ("op.ValidateAuthReqScopes", 1, "op.errAuthReqScopesMissing") :: Gen.handsOut }

/-- since the repair of F-C11e the error-answer functions no longer write into such a value (they complete a copy); what can still
    write it are the mutator methods, by may-alias on the type -/
example : ("oidc.Error.WithDescription", Cell.global "op.errAuthReqScopesMissing" ["Description"]) ∈ heapHits heapF := by decide +kernel
example : (heapHits heapF).all (fun h => h.1 != "op.AuthRequestError" && h.1 != "op.TryErrorRedirect") = true := by decide +kernel
/-- the facts as they were before the repair: the two functions write State / SessionState through the error they were handed -/
def heapFUnfixed : HeapFacts :=
  { heapF with writes :=
      { file := "pkg/op/error.go", fn := "op.AuthRequestError", line := 48, lhs := "e.State", via := "param:3", ty := "oidc.Error", path := ["State"], op := .assign } ::
      { file := "pkg/op/error.go", fn := "op.TryErrorRedirect", line := 106, lhs := "e.SessionState", via := "param:2", ty := "oidc.Error", path := ["SessionState"], op := .assign } ::
      heapF.writes }
example : ("op.AuthRequestError", Cell.global "op.errAuthReqScopesMissing" ["State"]) ∈ heapHits heapFUnfixed := by decide +kernel
example : ("op.TryErrorRedirect", Cell.global "op.errAuthReqScopesMissing" ["SessionState"]) ∈ heapHits heapFUnfixed := by decide +kernel
example : (heapF.handsOut.filter fun h => heapF.kindOf h.2.2 == "ptr") ≠ [] := by decide +kernel

/-- seeded change C20-H in the facts: the returned closure appends to (an alias of) the factory's slice -/
def siteH : WriteSite :=
  { file := "pkg/client/rp/relying_party.go", fn := "rp.AuthURLHandler$ret", meth := "AuthURLHandler", line := 429, lhs := "opts",
    root := .captured "rp.AuthURLHandler" "urlOpts" 0, path := ["[]"], op := .append, phase := .func, guard := .none }
def factsH : Facts :=
  { Gen.facts with sites := Gen.facts.sites ++ [siteH],
                   reach := [("rp.AuthURLHandler$ret", ["rp.AuthURLHandler$ret"]), ("rp.AuthURLHandler", ["rp.AuthURLHandler"])] ++ Gen.facts.reach }
def rpPKCE : Inst := { id := 1, ty := "rp.relyingParty", entry := "rp.NewRelyingPartyOAuth", opts := ["rp.WithPKCE"] }

example : closureSites factsH = [("rp.AuthURLHandler$ret", "opts")] := by decide +kernel
example : ("rp.AuthURLHandler$ret", "opts") ∈ undisciplinedSites factsH := by decide +kernel
/-- two requests through one handler may race on the factory's slice -/
example : mayRace (factsH.drop knownUnsync auditedReads) [⟨.call, "rp.AuthURLHandler$ret", rpPKCE⟩] = true := by decide +kernel
example : mayRace rest [⟨.call, "rp.AuthURLHandler$ret", rpPKCE⟩, ⟨.call, "rp.CodeExchangeHandler$ret", rpPKCE⟩] = false := by decide +kernel

end C20
