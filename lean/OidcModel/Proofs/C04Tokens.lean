/-
  C04, last clause - "the issued tokens carry the subject, client, scopes and nonce of that request" - at FUNCTION level,
  about the REGENERATED issuance code (Generated/IssueC06.lean, namespace GenC06: `CreateTokenResponse`, `CreateAccessToken`,
  `createTokens`, `CreateJWT`, `CreateBearerToken`, `CreateIDToken`; the storage, go-jose and AES are arbitrary functions):
  for EVERY token of a code-grant response - ID token, access token (JWT and opaque), refresh token.

  The history model (Model/Flow.lean, `FlowObs.carriedOf`) states what the tokens of a response carry; this file proves that
  the code `CodeExchange` / `LegacyServer.CodeExchange` hand the validated request to produces exactly those values, for all
  storages / keys / clients.  Layer 1: one characterisation lemma per regenerated function (`createTokenResponse_char`,
  `createAccessToken_char`, `createTokens_char`, `createJWT_claims`, `createIDToken_char`), each proved by unfolding that one
  definition and a shape-independent script (`go_leaf` / `grind`); layer 2: `c04_issue_carries` uses only those.  (Deliberately
  NOT built on Proofs/C06Issue.lean, whose scripts follow the shape of the regenerated terms: a harmless reordering inside
  `CreateTokenResponse` must not take this file down with it.)
-/
import OidcModel.Generated.IssueC06
import OidcModel.Proofs.C04History
import OidcModel.GoTacEq
set_option linter.unusedSimpArgs false
namespace C04
open Go Hand

/-- the claims `CreateJWT` signs, given the private claims the storage supplied -/
def jwtClaimsOf (now : Int) (issuer : String) (rq : IssRequest) (exp : Int) (id : String) (cl : IssClient) (pc : IssPrivateClaims) : IssAccessTokenClaims :=
  { toTokenClaimsGo := (Gen.NewAccessTokenClaims now issuer rq.GetSubject rq.GetAudience exp id cl.GetID cl.ClockSkew).TokenClaims,
    Claims := pc, Actor := if rq.is_TokenActorRequest then rq.GetActor else "" }

/-- characterisation of the regenerated `CreateJWT`: whatever it returns is the signature (go-jose: an arbitrary function of
    the storage's key) over the regenerated `NewAccessTokenClaims` of this request, this token id and this client -/
theorem createJWT_claims {now : Int} {issuer : String} {rq : IssRequest} {exp : Int} {id : String} {cl : IssClient} {st : IssStorage} {tok : String}
    (h : GenC06.CreateJWT now issuer rq exp id cl st = .ok tok) :
    ∃ key pc, st.SigningKey = .ok key ∧ key.signerOK = true ∧ key.signAT (jwtClaimsOf now issuer rq exp id cl pc) = .ok tok := by
  revert h
  unfold GenC06.CreateJWT jwtClaimsOf
  simp only [Hand.issNewAccessTokenClaims, Hand.issSignerFromKey, Hand.issSignAT]
  go_leaf

theorem jwtClaimsOf_fields (now : Int) (issuer : String) (rq : IssRequest) (exp : Int) (id : String) (cl : IssClient) (pc : IssPrivateClaims) :
    (jwtClaimsOf now issuer rq exp id cl pc).Subject = rq.GetSubject ∧ (jwtClaimsOf now issuer rq exp id cl pc).ClientID = cl.GetID ∧
    (jwtClaimsOf now issuer rq exp id cl pc).JWTID = id ∧ (jwtClaimsOf now issuer rq exp id cl pc).Issuer = issuer ∧
    (rq.GetAudience ≠ [] → (jwtClaimsOf now issuer rq exp id cl pc).Audience = rq.GetAudience) := by
  refine ⟨rfl, rfl, rfl, rfl, ?_⟩
  intro hne
  simp only [jwtClaimsOf, Gen.NewAccessTokenClaims, Go.len, HasLen.len]
  cases h : rq.GetAudience with
  | nil => exact absurd h hne
  | cons x xs => simp; omega

/-- characterisation of the regenerated `CreateTokenResponse` (with an access token): its parts -/
theorem createTokenResponse_char {now : Int} {rq : IssRequest} {cl : IssClient} {cr : IssCreator} {code cur : String} {r : IssTokenResponse}
    (h : GenC06.CreateTokenResponse now rq cl cr true code cur = .ok r) :
    (∃ validity, GenC06.CreateAccessToken now rq cl.AccessTokenType cr cl cur = .ok (r.AccessToken, r.RefreshToken, validity)) ∧
    GenC06.CreateIDToken now cr.IssuerFromContext rq cl.IDTokenLifetime r.AccessToken code cr.Storage cl = .ok r.IDToken ∧
    r.Scope = rq.GetScopes ∧ (rq.is_AuthRequest = true → cr.Storage.DeleteAuthRequest rq.GetID = .ok ()) ∧
    (code ≠ "" → r.State = "") := by
  revert h
  unfold GenC06.CreateTokenResponse
  go_leaf

/-- characterisation of the regenerated `CreateAccessToken`: the storage creates the token(s); the string handed out is a JWT
    over that id, or the encryption of `<id>:<subject>` -/
theorem createAccessToken_char {now : Int} {rq : IssRequest} {tt : Nat} {cr : IssCreator} {cl : IssClient} {cur at' rt : String} {validity : Int}
    (h : GenC06.CreateAccessToken now rq tt cr cl cur = .ok (at', rt, validity)) :
    ∃ id exp, GenC06.createTokens now rq cr.Storage cur cl = .ok (id, rt, exp) ∧
      (tt = IssConst.AccessTokenTypeJWT → GenC06.CreateJWT now cr.IssuerFromContext rq exp id cl cr.Storage = .ok at') ∧
      (tt ≠ IssConst.AccessTokenTypeJWT → cr.Crypto.Encrypt (id ++ ":" ++ rq.GetSubject) = .ok at') := by
  revert h
  unfold GenC06.CreateAccessToken
  simp only [GenC06.CreateBearerToken, HAdd.hAdd]
  go_leaf

/-- characterisation of the regenerated `createTokens`: which storage method is asked, with THIS request -/
theorem createTokens_char {now : Int} {rq : IssRequest} {st : IssStorage} {cur : String} {cl : IssClient} {id rt : String} {exp : Int}
    (h : GenC06.createTokens now rq st cur cl = .ok (id, rt, exp)) :
    if rq.needsRefreshToken then st.CreateAccessAndRefreshTokens rq cur = .ok (id, rt, exp)
    else st.CreateAccessToken rq = .ok (id, exp) ∧ rt = "" := by
  revert h
  unfold GenC06.createTokens
  simp only [Hand.issNeedsRefreshToken]
  go_leaf

theorem mem_appendClientID (now : Int) (cid : String) (aud : List String) : cid ∈ Gen.AppendClientIDToAudience now cid aud := by
  unfold Gen.AppendClientIDToAudience
  simp only [Go.any, Go.append]
  go_leaf

/-- characterisation of the regenerated `CreateIDToken` for an authorization request and a code: what the signed claims carry -/
theorem createIDToken_char {now : Int} {issuer : String} {rq : IssRequest} {validity : Int} {at' code : String} {st : IssStorage} {cl : IssClient} {tok : String}
    (h : GenC06.CreateIDToken now issuer rq validity at' code st cl = .ok tok) (hAR : rq.is_AuthRequest = true) (hcode : code ≠ "") :
    ∃ key c, st.SigningKey = .ok key ∧ key.signID c = .ok tok ∧ c.Nonce = rq.GetNonce ∧ c.AuthorizedParty = rq.GetClientID ∧
      c.ClientID = rq.GetClientID ∧ rq.GetClientID ∈ c.Audience ∧ GenC06.ClaimHash now code key.SignatureAlgorithm = .ok c.CodeHash ∧
      (c.Subject = rq.GetSubject ∨ (c.Subject ≠ "" ∧ c.Subject = c.UserInfo.Subject)) := by
  revert h
  unfold GenC06.CreateIDToken
  simp only [hAR, hcode, Hand.issNewIDTokenClaims, Gen.NewIDTokenClaims, IssIDTokenClaims.SetUserInfo, Hand.issSignerFromKey, Hand.issSignID]
  repeat' split
  all_goals (first | (simp_all [mem_appendClientID]; done) | grind (splits := 40) [mem_appendClientID])

/-- the stored authorization request as `CreateTokenResponse` sees it (op.AuthRequest: an IDTokenRequest that IS an AuthRequest);
    `refresh` = the verdict of the regenerated `needsRefreshToken` (`Flow.wantsRefresh`) -/
def issRequestOf (a : AuthReq) (refresh : Bool) : IssRequest :=
  { GetSubject := a.subject, GetAudience := [a.clientID], GetScopes := a.scopes, GetAuthTime := a.authTime * Go.second, GetClientID := a.clientID,
    is_AuthRequest := true, GetID := a.id, GetNonce := a.nonce, GetState := a.state, needsRefreshToken := refresh }

/-- **The tokens of a code-grant response carry the request's values** (regenerated issuance, all storages / keys / clients).
    If `CreateTokenResponse(ctx, authReq, client, creator, true, code, "")` returns a response `r`, then
    * the storage was asked to create the access token - and, when `needsRefreshToken` says so, the refresh token - FOR THIS
      REQUEST OBJECT (so the records an opaque access token and the refresh token resolve to carry the request's subject,
      client id, audience and scopes), and `r.RefreshToken` is the string the storage returned;
    * `r.AccessToken` is either (JWT) the signature over claims with `sub` = the request's subject, `client_id` = the
      authenticated client's id, `jti` = the id the storage gave the token, or (opaque) the encryption of
      `<that id>:<the request's subject>`;
    * `r.IDToken` is the signature over claims with the request's nonce, `azp` = `client_id` = the request's client, an
      audience containing it, `c_hash` of the presented code, and the request's subject (or the non-empty subject the
      storage's userinfo carries);
    * `r.Scope` is the request's scope list, and `DeleteAuthRequest(request id)` succeeded (the code is consumed). -/
theorem c04_issue_carries (now : Int) (a : AuthReq) (refresh : Bool) (cl : IssClient) (creator : IssCreator) (code : String) (r : IssTokenResponse)
    (hcode : code ≠ "")
    (h : GenC06.CreateTokenResponse now (issRequestOf a refresh) cl creator true code "" = .ok r) :
    -- what the storage was asked to create, and for whom
    (∃ id exp, (if refresh then creator.Storage.CreateAccessAndRefreshTokens (issRequestOf a refresh) "" = .ok (id, r.RefreshToken, exp)
                else creator.Storage.CreateAccessToken (issRequestOf a refresh) = .ok (id, exp) ∧ r.RefreshToken = "") ∧
      -- the access token
      (cl.AccessTokenType = IssConst.AccessTokenTypeJWT →
        ∃ key pc c, creator.Storage.SigningKey = .ok key ∧ key.signAT c = .ok r.AccessToken ∧
          c = jwtClaimsOf now creator.IssuerFromContext (issRequestOf a refresh) exp id cl pc ∧
          c.Subject = a.subject ∧ c.ClientID = cl.GetID ∧ c.JWTID = id ∧ c.Audience = [a.clientID]) ∧
      (cl.AccessTokenType ≠ IssConst.AccessTokenTypeJWT → creator.Crypto.Encrypt (id ++ ":" ++ a.subject) = .ok r.AccessToken)) ∧
    -- the ID token
    (∃ key c, creator.Storage.SigningKey = .ok key ∧ key.signID c = .ok r.IDToken ∧
      c.Nonce = a.nonce ∧ c.AuthorizedParty = a.clientID ∧ c.ClientID = a.clientID ∧ a.clientID ∈ c.Audience ∧
      GenC06.ClaimHash now code key.SignatureAlgorithm = .ok c.CodeHash ∧
      (c.Subject = a.subject ∨ (c.Subject ≠ "" ∧ c.Subject = c.UserInfo.Subject))) ∧
    -- the response, and the consumption of the request
    r.Scope = a.scopes ∧ r.State = "" ∧ creator.Storage.DeleteAuthRequest a.id = .ok () := by
  obtain ⟨⟨validity, hat⟩, hid, hscope, hdel, hstate⟩ := createTokenResponse_char h
  obtain ⟨id, exp, hct, hjwt, hopaque⟩ := createAccessToken_char hat
  have hct' := createTokens_char hct
  refine ⟨⟨id, exp, ?_, ?_, ?_⟩, ?_, hscope, hstate hcode, hdel rfl⟩
  · cases refresh
    · simpa [issRequestOf] using hct'
    · simpa [issRequestOf] using hct'
  · intro htt
    obtain ⟨key, pc, hkey, _, hsign⟩ := createJWT_claims (hjwt htt)
    obtain ⟨f1, f2, f3, _, f5⟩ := jwtClaimsOf_fields now creator.IssuerFromContext (issRequestOf a refresh) exp id cl pc
    exact ⟨key, pc, _, hkey, hsign, rfl, f1, f2, f3, f5 (by simp [issRequestOf])⟩
  · intro htt
    exact hopaque htt
  · obtain ⟨key, c, hkey, hsign, h1, h2, h3, h4, h5, h6⟩ := createIDToken_char hid rfl hcode
    exact ⟨key, c, hkey, hsign, h1, h2, h3, h4, h5, h6⟩

/-! Non-vacuity: a storage / key / client for which the regenerated `CreateTokenResponse` succeeds, with a JWT and with an
    opaque access token, with and without a refresh token. -/
def demoIssCreator : IssCreator :=
  { Storage := { SigningKey := .ok { signID := fun c => .ok ("idt[" ++ c.Subject ++ "|" ++ c.AuthorizedParty ++ "|" ++ c.Nonce ++ "]"),
                                     signAT := fun c => .ok ("jwt[" ++ c.Subject ++ "|" ++ c.ClientID ++ "|" ++ c.JWTID ++ "]") },
                 CreateAccessToken := fun rq => .ok ("at-for-" ++ rq.GetSubject, 0),
                 CreateAccessAndRefreshTokens := fun rq _ => .ok ("at-for-" ++ rq.GetSubject, "rt-for-" ++ rq.GetClientID, 0) },
    IssuerFromContext := "https://op.example" }
def demoIssReq (refresh : Bool) : IssRequest :=
  issRequestOf { id := "ar1", clientID := "web", subject := "user1", scopes := ["openid", "offline_access"], nonce := "n-1", done := true } refresh

example : (GenC06.CreateTokenResponse 0 (demoIssReq true) { GetID := "web", AccessTokenType := 1 } demoIssCreator true "c1" "").toOption.map
      (fun r => (r.AccessToken, r.RefreshToken, r.IDToken, r.Scope)) =
    some ("jwt[user1|web|at-for-user1]", "rt-for-web", "idt[user1|web|n-1]", ["openid", "offline_access"]) := by decide
example : (GenC06.CreateTokenResponse 0 (demoIssReq false) { GetID := "web", AccessTokenType := 0 } demoIssCreator true "c1" "").toOption.map
      (fun r => (r.AccessToken, r.RefreshToken, r.IDToken)) =
    some ("enc(at-for-user1:user1)", "", "idt[user1|web|n-1]") := by decide

/-! The monitor is not silent about the single tokens: an ID token with another nonce, an access token naming another client,
    a refresh token with other scopes are flagged - each by its own clause. -/
open FlowObs Flow in
example :
    let o := (runObs 0 (demoState, obsOf demoState) ((demoOps .provider).take 3)).1.2
    let p : C04.Presented := { clientID := "web", secret := "s3cret", code := "c1", redirectURI := "https://rp.example/cb" }
    let ok : C04.Tokens := { subject := "user1", client := "web", scopes := ["openid", "email", "offline_access"], nonce := "n-1" }
    (observe 0 o (.exchange p (some { ok with carried := [{ kind := "id_token", subject := some "user1", client := some "web", nonce := some "n-2" }] }) none)).2.1
      = some "tokens:id_token:nonce" ∧
    (observe 0 o (.exchange p (some { ok with carried := [{ kind := "access_token", subject := some "user1", client := some "web2", scopes := some ["openid", "email", "offline_access"] }] }) none)).2.1
      = some "tokens:access_token:client" ∧
    (observe 0 o (.exchange p (some { ok with carried := [{ kind := "refresh_token", subject := some "user1", client := some "web", scopes := some ["openid", "admin"] }] }) none)).2.1
      = some "tokens:refresh_token:scopes" ∧
    (observe 0 o (.exchange p (some { ok with carried := [{ kind := "access_token", subject := some "user2", client := some "web" }] }) none)).2.1
      = some "tokens:access_token:subject" ∧
    (observe 0 o (.exchange p (some { ok with carried := carriedOf { clientID := "web", subject := "user1", scopes := ["openid", "email", "offline_access"], nonce := "n-1" } demoWeb (some "rt1") }) none)).2.1
      = none := by decide

end C04
