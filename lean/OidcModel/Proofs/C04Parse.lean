/-
  deep3-C04: the token endpoint's REQUEST PARSING for the code grant, on both routers, tied to the history model.

  The history model (Model/Flow.lean) starts from a parsed `AccessTokenRequest` and a hand-written handler skeleton
  (`Flow.codeExchange`: "code missing", `ValidateAccessTokenRequest` / `withClient` + `LegacyServer.CodeExchange`).  The C05 slice
  regenerates the handlers themselves over raw HTTP requests (Generated/Endpoint.lean, namespace GenEP: `CodeExchange`,
  `ParseAccessTokenRequest`, `ParseAuthenticatedTokenRequest`, `tokensHandler`, `withClient`, `parseClientCredentials`,
  `codeExchangeHandler`, `decodeRequest`; Model/EndpointReq.lean: `EPRequest` = Basic header, merged form = body pairs then URL
  query pairs, `EPDecoder.Decode` = every field takes the LAST value of its key).  This file proves that the two coincide:

    * `parseAccessTokenRequest_eq`, `parseClientCredentials_eq` - what is read off the wire, as a readable function `parseSpec`
      (characterisation lemmas of the regenerated parsers);
    * `codeExchange_provider_bridge`, `codeExchange_legacy_bridge` - the regenerated handler on a raw request answers exactly what
      `Flow.codeExchange` decides for the parsed request: the hand-written skeleton of the history model is a THEOREM about the
      regenerated handlers, not an assumption;
    * `wire_tokens_provider`, `wire_tokens_legacy` - tokens on the wire imply everything `FlowObs.codeExchange_ok` states, for the
      values `parseSpec` reads: the LAST `code` / `redirect_uri` / `code_verifier` of body-then-query (a query parameter overrides
      the body's), credentials from the Basic header when there is one (percent-decoded), else the form's.
-/
import OidcModel.Proofs.C04History
import OidcModel.Model.EndpointFlow
import OidcModel.GoTacEq
set_option linter.unusedSimpArgs false
namespace C04
open Go Gen Hand Flow FlowObs

/-- what the schema decoder makes of the merged form (body pairs first, then the URL query): every field takes the LAST value of
    its key - a parameter repeated in the body is overridden by its last occurrence, one sent in body AND query by the query's -/
def decoded (v : EPValues) : EPForm :=
  match ({} : EPDecoder).Decode { v with bad := false } with
  | .ok f => f
  | .error _ => {}

/-- `ParseAccessTokenRequest` (Provider router), as a readable function: the decoded form; an `Authorization: Basic` header -
    percent-decoded - REPLACES client_id and client_secret of the form -/
def parseSpec (o : EPOracles) (r : EPRequest) : Go.R EPForm :=
  if r.parseErr then .error "ErrInvalidRequest"
  else if r.Form.bad then .error "ErrInvalidRequest"
  else match r.basic with
    | none => .ok (decoded r.Form)
    | some (u, p) =>
      match o.unescape u with
      | .error _ => .error "ErrInvalidClient"
      | .ok id =>
        match o.unescape p with
        | .error _ => .error "ErrInvalidClient"
        | .ok sec => .ok { decoded r.Form with ClientID := id, ClientSecret := sec }

theorem parseAccessTokenRequest_eq (now : Int) (o : EPOracles) (r : EPRequest) (d : EPDecoder) :
    GenEP.ParseAccessTokenRequest now o r d = parseSpec o r := by
  unfold GenEP.ParseAccessTokenRequest GenEP.ParseAuthenticatedTokenRequest parseSpec decoded
  simp only [EPRequest.ParseForm, EPDecoder.Decode, EPRequest.BasicAuth, EPForm.SetClientID, EPForm.SetClientSecret, EPValues.last]
  obtain ⟨basic, form, post, pe⟩ := r
  rcases basic with _ | ⟨u, p⟩ <;> cases pe <;> cases hb : form.bad <;>
    simp only [hb, if_true, if_false, Bool.false_eq_true, Bool.not_true, Bool.not_false] <;> (try rfl) <;> go_eq []

/-- what the Provider router's token endpoint writes for the outcome of the code-grant decision: an OAuth error document
    (`RequestError`), or - when token creation succeeds (storage + signing: the oracle of the endpoint model) - the token response -/
def respProvider (now : Int) (r : EPRequest) (x : EPProvider) : Go.R IssueFor → EPResp
  | .error e => GenEP.RequestError now r e
  | .ok (.code _ c _) | .ok (.refresh _ c _) =>
    match Hand.epIssue x Const.GrantTypeCode c.id with
    | .error e => GenEP.RequestError now r e
    | .ok d => .ok d

/-- **The Provider router's code-exchange handler IS the hand-written skeleton of the history model.**  The REGENERATED handler
    `op.CodeExchange` (Generated/Endpoint.lean: parse, `code missing`, `ValidateAccessTokenRequest`, `CreateTokenResponse`), on a
    raw HTTP request, answers exactly what `Flow.codeExchange .provider` decides for the request `parseSpec` reads off the wire. -/
theorem codeExchange_provider_bridge (now : Int) (o : EPOracles) (r : EPRequest) (x : EPProvider) (ha : Bool) :
    GenEP.CodeExchange now o r x =
      match parseSpec o r with
      | .error e => GenEP.RequestError now r e
      | .ok f => respProvider now r x (Flow.codeExchange now .provider (x.asProvider now) (Hand.epAccessTokenRequest o f) ha) := by
  unfold GenEP.CodeExchange
  rw [parseAccessTokenRequest_eq]
  cases hp : parseSpec o r with
  | error e => rfl
  | ok f =>
    simp only [Flow.codeExchange, Hand.epValidateAccessTokenRequest, Hand.epCreateTokenResponse, Hand.issueForCode, respProvider]
    have hc : (Hand.epAccessTokenRequest o f).Code = f.Code := rfl
    rw [hc]
    go_eq []

/-- `webServer.parseClientCredentials` (Server router), as a readable function: the same reading of the wire as the Provider
    router's (`parseSpec`), then: some client identification must be present, and an assertion needs the JWT assertion type -/
def parseCCSpec (o : EPOracles) (r : EPRequest) : Go.R EPForm :=
  match parseSpec o r with
  | .error e => .error e
  | .ok cc =>
    if cc.ClientID = "" ∧ cc.ClientAssertion = "" then .error "ErrInvalidRequest"
    else if cc.ClientAssertion ≠ "" ∧ cc.ClientAssertionType ≠ Const.ClientAssertionTypeJWTAssertion then .error "ErrInvalidRequest"
    else .ok cc

theorem parseClientCredentials_eq (now : Int) (o : EPOracles) (s : EPWebServer) (r : EPRequest) :
    GenEP.parseClientCredentials now o s r = parseCCSpec o r := by
  unfold GenEP.parseClientCredentials parseCCSpec parseSpec decoded
  simp only [EPRequest.ParseForm, EPDecoder.Decode, EPRequest.BasicAuth, EPValues.last]
  obtain ⟨basic, form, post, pe⟩ := r
  rcases basic with _ | ⟨u, p⟩ <;> cases pe <;> cases hb : form.bad <;>
    simp only [hb, if_true, if_false, Bool.false_eq_true, Bool.not_true, Bool.not_false] <;> (try rfl) <;> go_eq []

/-- what the Server router's token endpoint writes for the outcome of the code-grant decision (`WriteError`: 400 / 401 / 500) -/
def respLegacy (now : Int) (r : EPRequest) (x : EPProvider) : Go.R IssueFor → EPResp
  | .error e => GenEP.WriteError now r e
  | .ok (.code _ c _) | .ok (.refresh _ c _) =>
    match Hand.epIssue x Const.GrantTypeCode c.id with
    | .error e => GenEP.WriteError now r e
    | .ok d => .ok d

theorem getGrant_kv (v : EPValues) : ({ kv := v.kv } : FormVals).Get "grant_type" = v.Get "grant_type" := rfl

/-- **The Server router's token endpoint for `grant_type=authorization_code` IS the hand-written skeleton of the history model.**
    The REGENERATED `webServer.tokensHandler` → `withClient` (→ `parseClientCredentials`, `LegacyServer.VerifyClient`, registered-grant
    check) → `codeExchangeHandler` (→ second decode, `code` / `redirect_uri` present, `LegacyServer.CodeExchange`), on a raw HTTP
    request, answers exactly what `Flow.codeExchange .legacy` decides for the request `parseSpec` reads off the wire. -/
theorem codeExchange_legacy_bridge (now : Int) (o : EPOracles) (r : EPRequest) (x : EPProvider)
    (hg : r.Form.Get "grant_type" = Const.GrantTypeCode) :
    GenEP.tokensHandler now o (EP.webServer x) r =
      match parseSpec o r with
      | .error e => GenEP.WriteError now r e
      | .ok f => respLegacy now r x (Flow.codeExchange now .legacy (x.asProvider now) (Hand.epAccessTokenRequest o f) (f.ClientAssertion != "")) := by
  unfold GenEP.tokensHandler
  simp only [hg, Const.GrantTypeCode, beq_self_eq_true, if_true]
  unfold GenEP.withClient GenEP.verifyRequestClient
  rw [parseClientCredentials_eq]
  unfold parseCCSpec
  have hpe : r.parseErr = true → parseSpec o r = .error "ErrInvalidRequest" := by
    intro h; unfold parseSpec; simp [h]
  cases hp : parseSpec o r with
  | error e =>
    cases hpar : r.parseErr with
    | true => rw [hpe hpar] at hp; cases hp; simp [EPRequest.ParseForm, hpar]
    | false => simp [EPRequest.ParseForm, hpar]
  | ok f =>
    have hpar : r.parseErr = false := by
      cases h : r.parseErr with
      | false => rfl
      | true => rw [hpe h] at hp; cases hp
    -- the second decode of the handler reads the same form: code, redirect_uri and code_verifier are those of `f`
    have hdec : GenEP.decodeRequest now (EP.webServer x).decoder r false = .ok (decoded r.Form) ∧ r.Form.bad = false := by
      unfold parseSpec at hp
      simp only [hpar, Bool.false_eq_true, if_false] at hp
      cases hb : r.Form.bad with
      | true => simp [hb] at hp
      | false =>
        refine ⟨?_, rfl⟩
        unfold GenEP.decodeRequest decoded
        simp [EPRequest.ParseForm, hpar, EPDecoder.Decode, hb, EPValues.last]
    have hf : f.Code = (decoded r.Form).Code ∧ f.RedirectURI = (decoded r.Form).RedirectURI ∧ f.CodeVerifier = (decoded r.Form).CodeVerifier := by
      unfold parseSpec at hp
      simp only [hpar, hdec.2, Bool.false_eq_true, if_false] at hp
      revert hp
      go_leaf
    simp only [EPRequest.ParseForm, hpar, Bool.false_eq_true, if_false]
    simp only [Flow.codeExchange, Flow.withClient, Flow.parseCC, respLegacy, Hand.epVerifyClient, Hand.epClientCredentials, Hand.epAccessTokenRequest,
      legacyVerifyClient_eq', getGrant_kv, hg, FlowObs.formGet_grant, GenEP.codeExchangeHandler, hdec.1, Hand.epLegacyCodeExchange, Hand.epNewClientRequest,
      C04.legacyCodeExchange_eq, C04.legacyCodeExchangeSpec, EP.webServer, FlowObs.ccAsReq, C04.validateGrantType_eq, hf.1, hf.2.1, hf.2.2]
    have hne : ¬ (Const.GrantTypeCode = Const.GrantTypeClientCredentials) := by decide
    have hne2 : ¬ (Const.GrantTypeCode = "") := by decide
    simp only [hne, hne2, if_false, false_and, not_false_eq_true, true_and, bne_iff_ne, ne_eq, Bool.not_eq_true', decide_eq_false_iff_not,
      Bool.not_eq_eq_eq_not, Bool.not_true, decide_eq_true_eq]
    by_cases hc1 : f.ClientID = "" ∧ f.ClientAssertion = ""
    · simp [hc1]
    by_cases hc2 : ¬f.ClientAssertion = "" ∧ ¬f.ClientAssertionType = Const.ClientAssertionTypeJWTAssertion
    · simp [hc1, hc2]
    simp only [hc1, hc2, if_false]
    generalize hA : authClientSpec now ({ ClientID := f.ClientID, ClientSecret := f.ClientSecret, ClientAssertionType := f.ClientAssertionType, ClientAssertion := o.tokenOf f.ClientAssertion } : AccessTokenRequest) (x.asProvider now) true = A
    cases A with
    | error e => simp [hne, hc1, hc2]
    | ok client =>
      by_cases hgr : Const.GrantTypeCode ∈ client.grants
      · simp only [hgr, not_true_eq_false, if_false, if_true]
        simp [hc1, hc2, hgr, hne2]
        go_eq []
      · simp [hgr, hc1, hc2, hne2]

/-! ## Tokens on the wire -/

theorem requestError_not_ok (now : Int) (r : EPRequest) (e : String) (d : EPDone) : GenEP.RequestError now r e ≠ .ok d := by
  unfold GenEP.RequestError; simp

theorem writeError_not_ok (now : Int) (r : EPRequest) (e : String) (d : EPDone) : GenEP.WriteError now r e ≠ .ok d := by
  unfold GenEP.WriteError GenEP.writeError; split <;> simp

/-- Provider router: a token response on the wire means the history model's decision let the PARSED request through -/
theorem wire_tokens_provider {now : Int} {o : EPOracles} {r : EPRequest} {x : EPProvider} {d : EPDone} (ha : Bool)
    (h : GenEP.CodeExchange now o r x = .ok d) :
    ∃ f i, parseSpec o r = .ok f ∧ Flow.codeExchange now .provider (x.asProvider now) (Hand.epAccessTokenRequest o f) ha = .ok i := by
  rw [codeExchange_provider_bridge now o r x ha] at h
  cases hp : parseSpec o r with
  | error e => simp only [hp] at h; exact absurd h (requestError_not_ok _ _ _ _)
  | ok f =>
    simp only [hp] at h
    cases hc : Flow.codeExchange now .provider (x.asProvider now) (Hand.epAccessTokenRequest o f) ha with
    | error e => simp only [hc, respProvider] at h; exact absurd h (requestError_not_ok _ _ _ _)
    | ok i => exact ⟨f, i, rfl, hc⟩

/-- Server router: likewise -/
theorem wire_tokens_legacy {now : Int} {o : EPOracles} {r : EPRequest} {x : EPProvider} {d : EPDone}
    (hg : r.Form.Get "grant_type" = Const.GrantTypeCode) (h : GenEP.tokensHandler now o (EP.webServer x) r = .ok d) :
    ∃ f i, parseSpec o r = .ok f ∧
      Flow.codeExchange now .legacy (x.asProvider now) (Hand.epAccessTokenRequest o f) (f.ClientAssertion != "") = .ok i := by
  rw [codeExchange_legacy_bridge now o r x hg] at h
  cases hp : parseSpec o r with
  | error e => simp only [hp] at h; exact absurd h (writeError_not_ok _ _ _ _)
  | ok f =>
    simp only [hp] at h
    cases hc : Flow.codeExchange now .legacy (x.asProvider now) (Hand.epAccessTokenRequest o f) (f.ClientAssertion != "") with
    | error e => simp only [hc, respLegacy] at h; exact absurd h (writeError_not_ok _ _ _ _)
    | ok i => exact ⟨f, i, rfl, hc⟩

/-- what `parseSpec` reads: the last value of each key of body-then-query; Basic credentials replace the form's -/
theorem parseSpec_fields {o : EPOracles} {r : EPRequest} {f : EPForm} (h : parseSpec o r = .ok f) :
    f.Code = r.Form.last "code" ∧ f.RedirectURI = r.Form.last "redirect_uri" ∧ f.CodeVerifier = r.Form.last "code_verifier" ∧
    f.ClientAssertion = r.Form.last "client_assertion" ∧ f.ClientAssertionType = r.Form.last "client_assertion_type" ∧
    (r.basic = none → f.ClientID = r.Form.last "client_id" ∧ f.ClientSecret = r.Form.last "client_secret") ∧
    (∀ u p, r.basic = some (u, p) → o.unescape u = .ok f.ClientID ∧ o.unescape p = .ok f.ClientSecret) := by
  unfold parseSpec decoded at h
  simp only [EPDecoder.Decode, EPValues.last] at h
  obtain ⟨basic, form, post, pe⟩ := r
  rcases basic with _ | ⟨u, p⟩ <;> cases pe <;> cases hb : form.bad <;>
    simp only [hb, if_true, if_false, Bool.false_eq_true] at h <;> (try (simp at h; done)) <;> revert h <;> go_leaf [EPValues.last]

/-- **Tokens on the wire, both routers**: whatever is sent - parameters in the body, in the URL query or both, repeated
    parameters, credentials in a Basic header or in the form - a token response means: the LAST `code` resolves to a stored
    request `a`; the caller authenticated as (public client: identified as) `a`'s client with the credentials that count (Basic
    over form); the LAST `redirect_uri` equals `a`'s byte for byte; if `a` carried a challenge the LAST `code_verifier` is
    non-empty and verifies, and a public client cannot redeem a request without challenge. -/
theorem c04_wire (now : Int) (rt : Router) (o : EPOracles) (r : EPRequest) (x : EPProvider) (d : EPDone)
    (hg : r.Form.Get "grant_type" = Const.GrantTypeCode)
    (h : (match rt with | .provider => GenEP.CodeExchange now o r x | .legacy => GenEP.tokensHandler now o (EP.webServer x) r) = .ok d) :
    ∃ f a c, parseSpec o r = .ok f ∧ (x.asProvider now).store.AuthRequestByCode (r.Form.last "code") = .ok a ∧ c.id = a.clientID ∧
      Const.GrantTypeCode ∈ c.grants ∧ r.Form.last "redirect_uri" = a.redirectURI ∧
      (a.challenge ≠ none → r.Form.last "code_verifier" ≠ "" ∧ VerifyCodeChallenge now a.challenge (r.Form.last "code_verifier") = true) ∧
      (c.auth = Const.AuthMethodNone → a.challenge ≠ none) ∧
      AuthAs now (x.asProvider now) f.ClientID f.ClientSecret f.ClientAssertionType (o.tokenOf f.ClientAssertion) c := by
  have key : ∃ f i ha, parseSpec o r = .ok f ∧ Flow.codeExchange now rt (x.asProvider now) (Hand.epAccessTokenRequest o f) ha = .ok i := by
    cases rt with
    | provider => obtain ⟨f, i, h1, h2⟩ := wire_tokens_provider false h; exact ⟨f, i, _, h1, h2⟩
    | legacy => obtain ⟨f, i, h1, h2⟩ := wire_tokens_legacy hg h; exact ⟨f, i, _, h1, h2⟩
  obtain ⟨f, i, ha, hp, hce⟩ := key
  obtain ⟨a, c, _, hl, hcid, hgrant, hred, hpk1, hpk2, hauth⟩ := codeExchange_ok hce
  obtain ⟨f1, f2, f3, _⟩ := parseSpec_fields hp
  simp only [Hand.epAccessTokenRequest] at hl hred hpk1 hauth
  rw [f1] at hl; rw [f2] at hred; rw [f3] at hpk1
  exact ⟨f, a, c, hp, hl, hcid, hgrant, hred, hpk1, hpk2, hauth⟩

/-! Non-vacuity and the parameter-placement cases, on concrete raw requests (both routers). -/
def demoX : EPProvider :=
  { config := { AuthMethodPost := true, GrantTypeRefreshToken := true },
    storage := { base := (Flow.run 0 demoState [demoAuthorize, .login "ar1" "user1" 1000, .callback "ar1" "c1"]).1.store }, issuer := "https://op.example" }
def demoBody : List (String × String) :=
  [("grant_type", "authorization_code"), ("code", "c1"), ("redirect_uri", "https://rp.example/cb"), ("client_id", "web"), ("client_secret", "s3cret")]
def wireAnswer (rt : Router) (r : EPRequest) : String :=
  match (match rt with | .provider => GenEP.CodeExchange 0 {} r demoX | .legacy => GenEP.tokensHandler 0 {} (EP.webServer demoX) r) with
  | .ok (.tokens g c) => "tokens:" ++ g ++ ":" ++ c
  | .ok _ => "ok"
  | .json e _ => "error:" ++ Hand.epErrorType e
  | .text _ _ => "text"

/-- everything in the body: tokens; the same with the credentials in a Basic header; a query `code` overrides the body's; a repeated
    `redirect_uri` counts with its LAST value; a Basic header overrides the form's credentials -/
example : ∀ rt : Router,
    wireAnswer rt { Form := { kv := demoBody }, PostForm := { kv := demoBody } } = "tokens:authorization_code:web" ∧
    wireAnswer rt { basic := some ("web", "s3cret"), Form := { kv := demoBody.take 3 } } = "tokens:authorization_code:web" ∧
    wireAnswer rt { Form := { kv := demoBody ++ [("code", "other")] } } = "error:invalid_grant" ∧
    wireAnswer rt { Form := { kv := [("code", "other")] ++ demoBody } } = "tokens:authorization_code:web" ∧
    wireAnswer rt { Form := { kv := demoBody ++ [("redirect_uri", "https://rp.example/cb/")] } } = "error:invalid_grant" ∧
    wireAnswer rt { Form := { kv := [("redirect_uri", "https://rp.example/cb/")] ++ demoBody } } = "tokens:authorization_code:web" ∧
    wireAnswer rt { basic := some ("web", "wrong"), Form := { kv := demoBody } } = "error:invalid_client" := by
  intro rt; cases rt <;> decide

end C04
