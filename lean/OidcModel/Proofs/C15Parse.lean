/-
  C15 (deep4): what the payload of an opaque access token MEANS - list-level facts about `strings.Split(s, ":")` (`TE.splitChars`,
  Model/ExchangeTE.lean) and the hand-readable parser `TE.parsePair` that the characterisation of the regenerated
  `getTokenIDAndClaims` (Proofs/C15.lean) is stated with.  No regenerated definition is mentioned here.

  * `parsePair_some_iff`  - a payload parses as `(i, s)` iff it IS `i ++ ":" ++ s` and neither part contains a colon
  * `parsePair_mint`      - parse (mint id sub) = (id, sub) when neither contains ':', refusal otherwise
  * `parsePair_mint_only` - for EVERY id and subject string: parse (mint id sub) is (id, sub) or a refusal, never another pair
-/
import OidcModel.Model.ExchangeTE

namespace TE

theorem splitChars_ne_nil (c : Char) (l : List Char) : splitChars c l ≠ [] := by
  cases l with
  | nil => simp [splitChars]
  | cons x xs =>
    unfold splitChars
    split
    · simp
    · split <;> simp

/-- one piece: no separator at all -/
theorem splitChars_eq_single_iff (c : Char) (l a : List Char) : splitChars c l = [a] ↔ l = a ∧ c ∉ a := by
  induction l generalizing a with
  | nil =>
    simp only [splitChars, List.cons.injEq, and_true]
    constructor
    · intro h; subst h; simp
    · intro h; exact h.1
  | cons x xs ih =>
    unfold splitChars
    by_cases hx : x = c
    · simp only [hx, if_true, List.cons.injEq]
      constructor
      · intro h; exact absurd h.2 (splitChars_ne_nil c xs)
      · intro h; obtain ⟨h1, h2⟩ := h; subst h1; simp at h2
    · simp only [hx, if_false]
      cases hs : splitChars c xs with
      | nil => exact absurd hs (splitChars_ne_nil c xs)
      | cons h t =>
        simp only [List.cons.injEq]
        constructor
        · intro hh
          obtain ⟨h1, h2⟩ := hh
          subst h1; subst h2
          have := (ih h).1 hs
          refine ⟨by rw [this.1], ?_⟩
          simp only [List.mem_cons, not_or]
          exact ⟨fun e => hx e.symm, this.2⟩
        · intro hh
          obtain ⟨h1, h2⟩ := hh
          subst h1
          simp only [List.mem_cons, not_or] at h2
          have := (ih xs).2 ⟨rfl, h2.2⟩
          rw [hs] at this
          simp only [List.cons.injEq] at this
          exact ⟨by rw [this.1], this.2⟩

/-- exactly two pieces: exactly one separator, and the pieces are what stands before and after it -/
theorem splitChars_eq_pair_iff (c : Char) (l a b : List Char) :
    splitChars c l = [a, b] ↔ l = a ++ c :: b ∧ c ∉ a ∧ c ∉ b := by
  induction l generalizing a with
  | nil => simp [splitChars]
  | cons x xs ih =>
    unfold splitChars
    by_cases hx : x = c
    · simp only [hx, if_true, List.cons.injEq]
      rw [splitChars_eq_single_iff]
      constructor
      · intro h
        obtain ⟨h1, h2, h3⟩ := h
        subst h1; subst h2
        simp [h3]
      · intro h
        obtain ⟨h1, h2, h3⟩ := h
        cases a with
        | nil => simp at h1; exact ⟨rfl, h1, h3⟩
        | cons y ys => simp at h1; simp [h1.1] at h2
    · simp only [hx, if_false]
      cases hs : splitChars c xs with
      | nil => exact absurd hs (splitChars_ne_nil c xs)
      | cons h t =>
        simp only [List.cons.injEq]
        constructor
        · intro hh
          obtain ⟨h1, h2⟩ := hh
          subst h1; subst h2
          have := (ih h).1 hs
          refine ⟨by rw [this.1]; simp, ?_, this.2.2⟩
          simp only [List.mem_cons, not_or]
          exact ⟨fun e => hx e.symm, this.2.1⟩
        · intro hh
          obtain ⟨h1, h2, h3⟩ := hh
          cases a with
          | nil => simp at h1; exact absurd h1.1 hx
          | cons y ys =>
            simp only [List.cons_append, List.cons.injEq] at h1
            simp only [List.mem_cons, not_or] at h2
            have := (ih ys).2 ⟨h1.2, h2.2, h3⟩
            rw [hs] at this
            simp only [List.cons.injEq] at this
            exact ⟨by rw [h1.1, this.1], this.2⟩

/-- the payload of an opaque access token as every parser of the UNCHANGED library reads it: exactly two pieces -/
def parsePair (plain : String) : Option (String × String) :=
  match split plain ":" with
  | [a, b] => some (a, b)
  | _ => none

theorem colon_toList : ":".toList = [':'] := by decide

theorem split_colon (plain : String) : split plain ":" = (splitChars ':' plain.toList).map String.ofList := by
  simp [split, colon_toList]

/-- MEANING of the parser: `plain` parses as `(i, s)` iff it is `i`, ONE colon, `s`, and neither part contains a colon -/
theorem parsePair_some_iff (plain i s : String) :
    parsePair plain = some (i, s) ↔ plain = i ++ ":" ++ s ∧ ':' ∉ i.toList ∧ ':' ∉ s.toList := by
  unfold parsePair
  rw [split_colon]
  constructor
  · intro h
    split at h
    · rename_i a b heq
      simp only [Option.some.injEq, Prod.mk.injEq] at h
      obtain ⟨rfl, rfl⟩ := h
      rw [List.map_eq_cons_iff] at heq
      obtain ⟨a', t, h1, h2, h3⟩ := heq
      rw [List.map_eq_cons_iff] at h3
      obtain ⟨b', t', h4, h5, h6⟩ := h3
      simp only [List.map_eq_nil_iff] at h6
      subst h6; subst h4
      have := (splitChars_eq_pair_iff ':' plain.toList a' b').1 h1
      subst h2; subst h5
      refine ⟨?_, by simpa using this.2.1, by simpa using this.2.2⟩
      apply String.toList_inj.1
      simp [String.toList_append, colon_toList, this.1]
    · simp at h
  · intro h
    obtain ⟨h1, h2, h3⟩ := h
    have hp : splitChars ':' plain.toList = [i.toList, s.toList] := by
      apply (splitChars_eq_pair_iff ':' plain.toList i.toList s.toList).2
      refine ⟨?_, h2, h3⟩
      rw [h1]; simp [String.toList_append, colon_toList]
    rw [hp]
    simp [String.ofList_toList]

theorem count_colon_append (a b : List Char) : (a ++ ':' :: b).count ':' = a.count ':' + b.count ':' + 1 := by
  simp [List.count_append]; omega

/-- NEVER ANOTHER PAIR: whatever the token id and the subject look like, the payload `id ++ ":" ++ sub` that `CreateBearerToken` seals
    parses as (id, sub) or not at all -/
theorem parsePair_mint_only {id sub i s : String} (h : parsePair (id ++ ":" ++ sub) = some (i, s)) : i = id ∧ s = sub := by
  have := (parsePair_some_iff _ _ _).1 h
  obtain ⟨h1, h2, h3⟩ := this
  have hl : id.toList ++ ':' :: sub.toList = i.toList ++ ':' :: s.toList := by
    have := congrArg String.toList h1
    simpa [String.toList_append, colon_toList] using this
  have hc := congrArg (List.count ':') hl
  rw [count_colon_append, count_colon_append, List.count_eq_zero.2 h2, List.count_eq_zero.2 h3] at hc
  have hid : ':' ∉ id.toList := List.count_eq_zero.1 (by omega)
  have hsub : ':' ∉ sub.toList := List.count_eq_zero.1 (by omega)
  have h' := (parsePair_some_iff (id ++ ":" ++ sub) id sub).2 ⟨rfl, hid, hsub⟩
  rw [h] at h'
  simp only [Option.some.injEq, Prod.mk.injEq] at h'
  exact h'

/-- ROUND TRIP of minting and parsing: accepted exactly when neither part contains a colon - and then as the very pair that was
    minted; a subject (or token id) with a colon is where the unchanged code refuses -/
theorem parsePair_mint (id sub : String) :
    parsePair (id ++ ":" ++ sub) = if ':' ∈ id.toList ∨ ':' ∈ sub.toList then none else some (id, sub) := by
  by_cases hc : ':' ∈ id.toList ∨ ':' ∈ sub.toList
  · simp only [hc, if_true]
    cases hp : parsePair (id ++ ":" ++ sub) with
    | none => rfl
    | some r =>
      obtain ⟨i, s⟩ := r
      obtain ⟨rfl, rfl⟩ := parsePair_mint_only hp
      have := (parsePair_some_iff _ _ _).1 hp
      rcases hc with hc | hc
      · exact absurd hc this.2.1
      · exact absurd hc this.2.2
  · simp only [hc, if_false]
    simp only [not_or] at hc
    exact (parsePair_some_iff _ _ _).2 ⟨rfl, hc.1, hc.2⟩

/-- the characterisation of the split-based code in terms of the parser (what `go_leaf` needs about `len(splitToken) != 2`) -/
theorem split_len_two_iff (plain : String) : (split plain ":").length = 2 ↔ ∃ a b, split plain ":" = [a, b] := by
  constructor
  · intro h
    match hs : split plain ":", h with
    | [a, b], _ => exact ⟨a, b, rfl⟩
  · rintro ⟨a, b, h⟩; simp [h]

/-! non-vacuity, and agreement of the list function with `String.splitOn` on samples (a test, not the claim) -/
example : parsePair "at1:user1" = some ("at1", "user1") := by decide
example : parsePair "at1:corp:user2" = none := by decide
example : parsePair "at1" = none := by decide
example : parsePair "at1:" = some ("at1", "") := by decide
example : split "a:b::c" ":" = ["a", "b", "", "c"] := by decide
example : lastIndex "at1:corp:user2" ":" = 8 ∧ sliceTo "at1:corp:user2" 8 = "at1:corp" ∧ sliceFrom "at1:corp:user2" 9 = "user2" := by decide
example : cut "at1:corp:user2" ":" = ("at1", "corp:user2", true) := by decide

end TE
