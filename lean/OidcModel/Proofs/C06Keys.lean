/-
  C06 (deep3): the SIGNING PATH regenerated (Generated/IssueC06Key.lean, namespace GenC06K: `SignerFromKey`, `crypto.Sign`,
  `crypto.SignPayload`, `jsonWebKeySet`) and issuance HISTORIES with key-change events.

  Layer 1 - one characterisation lemma per regenerated function (`go_char`; the only place where the shape of the Go text matters).
  Layer 2 - everything else uses the lemmas only:
    * `c06_mint_spec`: SignerFromKey ∘ Sign signs with exactly the key handed in (material, key id, algorithm) - nothing else;
    * `c06_minted_verifies`: such a token passes the REGENERATED `op.OpenIDKeySet.VerifySignature` (GenC02) over the key set the
      REGENERATED `jsonWebKeySet` publishes, whenever the published set announces the signing key;
    * `c06_key_history` (induction over histories of key-change and issuance events over any number of providers in one
      process): every token is signed by the key the storage of ITS provider returned for THAT issuance;
      `c06_key_history_verifies`: and passes verification against the key set published at that moment;
    * `c06_id_token_signed_by_storage_key` / `c06_jwt_signed_by_storage_key`: the bridge to the regenerated `CreateIDToken` /
      `CreateJWT` (GenC06): with the storage's key being a key of this model, what they return is that minted token.
-/
import OidcModel.Generated.IssueC06Key
import OidcModel.Proofs.C06Issue
import OidcModel.Proofs.C02
import OidcModel.GoTac
namespace C06
open Go Hand

/-! ### vocabulary -/

/-- go-jose accepts the key: the algorithm fits the type of the key material -/
def keyFits (k : IssKSigningKey) : Bool := algFits k.Key.kty k.SignatureAlgorithm

/-- the signer that remembers exactly this key: its algorithm, its id, its material; `typ: JWT` -/
def signerOf (k : IssKSigningKey) : IssKSigner :=
  { key := { Algorithm := k.SignatureAlgorithm, Key := { Key := k.Key, KeyID := k.ID } }, typ := "JWT" }

/-- the signature term of key `k` over payload `p`: made by k's key pair, header = k's algorithm and id -/
def sigBy (k : IssKSigningKey) (p : Payload) : JSig :=
  { Header := { Algorithm := k.SignatureAlgorithm, KeyID := k.ID }, signer := some k.Key.keyNo, signedAlg := k.SignatureAlgorithm,
    signedBytes := p.bytes, signedHdr := { Algorithm := k.SignatureAlgorithm, KeyID := k.ID } }

def jwsBy (k : IssKSigningKey) (p : Payload) : JWS := { Signatures := [sigBy k p], payload := p }

/-- the compact token signed with key `k` over payload `p` -/
def mintedBy (k : IssKSigningKey) (p : Payload) : Token := { segs := 3, middle := some p, jws := some (jwsBy k p) }

def payloadOf (cd : IssKCodec) (c : Claims) : Payload := { bytes := cd.bytesOf c, claims := some c }

/-- a published entry as a JWK of the served document -/
def pubJWK (k : IssKKey) : JWK := { KeyID := k.ID, Use := k.Use, kty := k.Key.kty, keyNo := k.Key.keyNo }

/-- the signing path of ONE issuance as `CreateIDToken` / `CreateJWT` run it: `SignerFromKey(key)`, then `crypto.Sign(claims, signer)` -/
def mint (now : Int) (cd : IssKCodec) (k : IssKSigningKey) (c : Claims) : Go.R Token :=
  match GenC06K.SignerFromKey now k with
  | .error e => .error e
  | .ok s => GenC06K.Sign now cd c s

/-! ### layer 1: characterisation lemmas of the regenerated functions -/

theorem signerFromKey_spec (now : Int) (k : IssKSigningKey) :
    GenC06K.SignerFromKey now k = if keyFits k then .ok (signerOf k) else .error "ErrSignerCreationFailed" := by
  unfold keyFits signerOf
  go_char GenC06K.SignerFromKey Hand.issKNewSigner IssKOpts.WithType

/-- what a signer makes of a payload: ONE signature by the key material it remembers, header = the algorithm and key id it remembers -/
def tokenOf (s : IssKSigner) (p : Payload) : Token :=
  let hdr : JHeader := { Algorithm := s.key.Algorithm, KeyID := s.key.Key.KeyID }
  let sg : JSig := { Header := hdr, signer := some s.key.Key.Key.keyNo, signedAlg := s.key.Algorithm, signedBytes := p.bytes, signedHdr := hdr }
  { segs := 3, middle := some p, jws := some { Signatures := [sg], payload := p } }

theorem signPayload_spec (now : Int) (p : Payload) (s : IssKSigner) :
    GenC06K.SignPayload now p s = if s.isNil then .error "error:missing signer" else .ok (tokenOf s p) := by
  unfold tokenOf
  go_char GenC06K.SignPayload Hand.issKSign Hand.issKCompactSerialize Go.isNil Go.notNil Go.Nilable.isNil

theorem sign_spec (now : Int) (cd : IssKCodec) (c : Claims) (s : IssKSigner) :
    GenC06K.Sign now cd c s = GenC06K.SignPayload now (payloadOf cd c) s := by
  unfold payloadOf
  go_char GenC06K.Sign Hand.issKMarshal

/-- the two idioms of building a slice from a slice meet: `x[i] = f(p)` into a pre-sized slice and `x = append(x, f(p))` -/
theorem foldl_append_map {α β : Type} (f : α → β) (l : List α) (acc : List β) :
    List.foldl (fun acc x => acc ++ [f x]) acc l = acc ++ l.map f := by
  induction l generalizing acc with
  | nil => simp
  | cons x xs ih => simp [List.foldl_cons, ih]

theorem flatten_map_singleton {α β : Type} (f : α → β) (l : List α) : (l.map (fun x => [f x])).flatten = l.map f := by
  induction l with
  | nil => rfl
  | cons x xs ih => simp [ih]

theorem jsonWebKeySet_spec (now : Int) (keys : List IssKKey) :
    (GenC06K.jsonWebKeySet now keys).Keys = keys.map pubJWK := by
  unfold pubJWK
  first
    | (go_char GenC06K.jsonWebKeySet Go.mapList Hand.issKWebKey)
    | (simp [GenC06K.jsonWebKeySet, GoX.foldList, Go.append, Go.mapList, Hand.issKWebKey, foldl_append_map, flatten_map_singleton])

/-! ### layer 2 -/

/-- ONE issuance: the token is signed with exactly the key handed in - its material, under its algorithm, naming its id -,
    or go-jose refuses the key; nothing else enters -/
theorem c06_mint_spec (now : Int) (cd : IssKCodec) (k : IssKSigningKey) (c : Claims) :
    mint now cd k c = if keyFits k then .ok (mintedBy k (payloadOf cd c)) else .error "ErrSignerCreationFailed" := by
  unfold mint
  rw [signerFromKey_spec]
  by_cases h : keyFits k = true
  · simp only [h, if_true]
    rw [sign_spec, signPayload_spec]
    simp [signerOf, tokenOf, mintedBy, jwsBy, sigBy]
  · simp [h]

/-- the published key set ANNOUNCES the signing key: among the published entries usable for signatures with the signing
    algorithm, the first one that carries the signing key's (non-empty) id is the public half of the signing key -/
def announces (published : List IssKKey) (k : IssKSigningKey) : Prop :=
  ((published.map pubJWK).filter (fun j => (j.Use == Const.KeyUseSignature || j.Use == "") && algFits j.kty k.SignatureAlgorithm)).find?
      (fun j => j.KeyID == k.ID && k.ID != "")
    = some { KeyID := k.ID, Use := Const.KeyUseSignature, kty := k.Key.kty, keyNo := k.Key.keyNo }

instance (published : List IssKKey) (k : IssKSigningKey) : Decidable (announces published k) := by unfold announces; infer_instance

/-- the shape of the reference storage (and of the example storage): the current key is published first, for signatures, under its id -/
theorem announces_head (k : IssKSigningKey) (alg : String) (rest : List IssKKey) (hfit : keyFits k = true) (hid : k.ID ≠ "") :
    announces ({ ID := k.ID, Algorithm := alg, Use := Const.KeyUseSignature, Key := k.Key.pub } :: rest) k := by
  unfold announces
  unfold keyFits at hfit
  simp [pubJWK, IssKPriv.pub, hfit, hid]

/-- a token minted with key `k` passes the regenerated `OpenIDKeySet.VerifySignature` (what `op.VerifyAccessToken` and the
    id_token_hint verifier use) over the key set the regenerated `jsonWebKeySet` makes of the storage's `KeySet()`, and the
    verified payload is the signed one -/
theorem c06_minted_verifies (now : Int) (k : IssKSigningKey) (p : Payload) (published : List IssKKey)
    (hfit : keyFits k = true) (hann : announces published k) :
    (GenC02.OpenIDKeySetVerifySignature now { keySet := .ok (GenC06K.jsonWebKeySet now published).Keys } (jwsBy k p)).toOption = some p := by
  rw [C02.openIDKeySet_bridge, jsonWebKeySet_spec]
  unfold KeySet.VerifySignature
  simp only [Hand.GetKeyIDAndAlg, jwsBy, sigBy]
  rw [C02.findMatchingKey_eq_spec]
  unfold C02.findSpec
  unfold announces at hann
  simp only [hann]
  unfold keyFits at hfit
  simp [Hand.jwsVerify, Hand.sigVerifies, hfit, Except.toOption]

/-! ### histories: key-change events and issuances over any number of providers in one process -/

/-- what the storage of one provider answers right now -/
structure KProvider where
  signing : IssKSigningKey := {}        -- `Storage.SigningKey`
  published : List IssKKey := []        -- `Storage.KeySet`
  deriving Repr, Inhabited

inductive KEvent
  /-- the storage of provider `p` answers `SigningKey` / `KeySet` differently from now on (ANY change: material, id, algorithm, any of them) -/
  | setKey (p : Nat) (k : IssKSigningKey) (published : List IssKKey)
  /-- provider `p` issues a token over these claims (ID token or JWT access token) -/
  | issue (p : Nat) (c : Claims)

abbrev KWorld := Nat → KProvider

/-- the storages after an event -/
def KWorld.after (w : KWorld) : KEvent → KWorld
  | .setKey p k pub => fun q => if q = p then { signing := k, published := pub } else w q
  | .issue _ _ => w

/-- the storages after a list of events -/
def KWorld.afterAll (w : KWorld) : List KEvent → KWorld
  | [] => w
  | e :: es => (w.after e).afterAll es

/-- what the process hands out, event by event: for an issuance the result of the regenerated signing path on the key the
    provider's storage returns at that moment -/
def kRun (now : Int) (cd : IssKCodec) (w : KWorld) : List KEvent → List (Option (Go.R Token))
  | [] => []
  | .issue p c :: es => some (mint now cd (w p).signing c) :: kRun now cd w es
  | e@(.setKey _ _ _) :: es => none :: kRun now cd (w.after e) es

/-- HISTORY THEOREM.  In every history of key changes and issuances (any length, any number of providers in the process, any
    keys - in particular the same key id for different material, in one provider over time or in two providers at once), the
    token of the n-th event, an issuance of provider `p`, is signed with the signing key the storage of `p` returns after
    exactly the first n events - the key of THAT issuance -, or refused because go-jose does not accept that key. -/
theorem c06_key_history (now : Int) (cd : IssKCodec) (evs : List KEvent) (w : KWorld) (n p : Nat) (c : Claims)
    (h : evs[n]? = some (.issue p c)) :
    (kRun now cd w evs)[n]? = some (some (
      let k := ((w.afterAll (evs.take n)) p).signing
      if keyFits k then .ok (mintedBy k (payloadOf cd c)) else .error "ErrSignerCreationFailed")) := by
  induction evs generalizing w n with
  | nil => simp at h
  | cons e es ih =>
    cases n with
    | zero =>
      simp only [List.getElem?_cons_zero, Option.some.injEq] at h
      subst h
      simp [kRun, KWorld.afterAll, c06_mint_spec]
    | succ n =>
      simp only [List.getElem?_cons_succ] at h
      cases e with
      | setKey q k pub => simpa [kRun, KWorld.afterAll] using ih (w.after (.setKey q k pub)) n h
      | issue q c' => simpa [kRun, KWorld.afterAll, KWorld.after] using ih w n h

/-- ... and, when the key set published at that moment announces that key, the token passes the library's signature
    verification against the key set published at that moment -/
theorem c06_key_history_verifies (now : Int) (cd : IssKCodec) (evs : List KEvent) (w : KWorld) (n p : Nat) (c : Claims)
    (h : evs[n]? = some (.issue p c))
    (hfit : keyFits ((w.afterAll (evs.take n)) p).signing = true)
    (hann : announces ((w.afterAll (evs.take n)) p).published ((w.afterAll (evs.take n)) p).signing) :
    ∃ t j, (kRun now cd w evs)[n]? = some (some (.ok t)) ∧ t.jws = some j ∧ t.middle = some (payloadOf cd c) ∧
      (GenC02.OpenIDKeySetVerifySignature now
        { keySet := .ok (GenC06K.jsonWebKeySet now ((w.afterAll (evs.take n)) p).published).Keys } j).toOption = some (payloadOf cd c) := by
  have hh := c06_key_history now cd evs w n p c h
  simp only [hfit, if_true] at hh
  exact ⟨_, _, hh, rfl, rfl, c06_minted_verifies now _ _ _ hfit hann⟩

/-- a signature made with other material than the announced one does NOT pass: a signer kept from an earlier key (same id,
    same algorithm, other key pair) yields tokens the published key set rejects -/
theorem c06_stale_signer_rejected (now : Int) (old cur : IssKSigningKey) (p : Payload) (published : List IssKKey)
    (hid : old.ID = cur.ID) (halg : old.SignatureAlgorithm = cur.SignatureAlgorithm) (hmat : old.Key.keyNo ≠ cur.Key.keyNo)
    (hann : announces published cur) :
    (GenC02.OpenIDKeySetVerifySignature now { keySet := .ok (GenC06K.jsonWebKeySet now published).Keys } (jwsBy old p)).toOption = none := by
  rw [C02.openIDKeySet_bridge, jsonWebKeySet_spec]
  unfold KeySet.VerifySignature
  simp only [Hand.GetKeyIDAndAlg, jwsBy, sigBy]
  rw [C02.findMatchingKey_eq_spec]
  unfold C02.findSpec
  unfold announces at hann
  rw [hid, halg]
  simp only [hann]
  simp [Hand.jwsVerify, Hand.sigVerifies, hmat, Except.toOption]

/-! ### bridge to the regenerated `CreateIDToken` / `CreateJWT` (GenC06, string tokens) -/

/-- the key of the issuance model (Model/IssueC06.lean: "go-jose = arbitrary functions of the key") whose functions ARE the
    regenerated signing path on key `k`; `ser` spells a token as a string -/
def issKeyOf (now : Int) (cd : IssKCodec) (ser : Token → String) (k : IssKSigningKey) : IssSigningKey :=
  { SignatureAlgorithm := k.SignatureAlgorithm, ID := k.ID,
    signerOK := (GenC06K.SignerFromKey now k).toBool,
    signID := fun c => (mint now cd k c.toTokenClaimsGo.toClaims).map ser,
    signAT := fun c => (mint now cd k c.toTokenClaimsGo.toClaims).map ser }

/-- every ID token `CreateIDToken` returns when the storage's signing key is `k` is the serialisation of the token minted
    with `k` - over claims that pass the library's RP verifier (margin model of C01) -/
theorem c06_id_token_signed_by_storage_key (now now' : Int) (cd : IssKCodec) (ser : Token → String) (k : IssKSigningKey)
    (issuer : String) (request : IssRequest) (validity : Int) (accessToken code : String)
    (storage : IssStorage) (client : IssClient) (tok : String)
    (hkey : storage.SigningKey = .ok (issKeyOf now cd ser k))
    (h : GenC06.CreateIDToken now issuer request validity accessToken code storage client = .ok tok)
    (hcid : request.GetClientID ≠ "") (hsub : request.GetSubject ≠ "") (hskew : 0 ≤ client.ClockSkew) (hepoch : Go.second ≤ now - client.ClockSkew)
    (hwin : now ≤ now' ∧ now' + 4 * Go.second ≤ now + validity) :
    ∃ c : Claims, keyFits k = true ∧ tok = ser (mintedBy k (payloadOf cd c)) ∧
      C01.idTokenOKMargin { Issuer := issuer, ClientID := request.GetClientID, Offset := Go.second,
                            Nonce := some (if request.is_AuthRequest then request.GetNonce else "") } c now' = true := by
  obtain ⟨key, c, hk, hs, hv⟩ := c06_issued_id_token_verifies now now' issuer request validity accessToken code storage client tok h hcid hsub hskew hepoch hwin
  rw [hkey] at hk
  injection hk with hk
  subst hk
  refine ⟨c.toTokenClaimsGo.toClaims, ?_, ?_, hv⟩
  · simp only [issKeyOf, c06_mint_spec] at hs
    by_cases hf : keyFits k = true
    · exact hf
    · simp [hf, Except.map] at hs
  · simp only [issKeyOf, c06_mint_spec] at hs
    by_cases hf : keyFits k = true
    · simp [hf, Except.map] at hs; exact hs.symm
    · simp [hf, Except.map] at hs

/-- what `CreateJWT` returns is the signature of the storage's signing key (the key of THAT call) over access-token claims -/
theorem c06_jwt_signed (now : Int) (issuer : String) (request : IssRequest) (exp : Int) (id : String) (client : IssClient)
    (storage : IssStorage) (tok : String) (h : GenC06.CreateJWT now issuer request exp id client storage = .ok tok) :
    ∃ key c, storage.SigningKey = .ok key ∧ key.signerOK = true ∧ key.signAT c = .ok tok := by
  unfold GenC06.CreateJWT at h
  simp only [] at h
  split at h
  · simp at h
  · split at h
    · simp at h
    · rename_i key hkey
      simp only [Hand.issSignerFromKey, Hand.issSignAT] at h
      by_cases hok : key.signerOK = true
      · simp only [hok, if_true] at h
        exact ⟨key, _, hkey, hok, h⟩
      · simp [hok] at h

theorem c06_jwt_signed_by_storage_key (now : Int) (cd : IssKCodec) (ser : Token → String) (k : IssKSigningKey)
    (issuer : String) (request : IssRequest) (exp : Int) (id : String) (client : IssClient) (storage : IssStorage) (tok : String)
    (hkey : storage.SigningKey = .ok (issKeyOf now cd ser k))
    (h : GenC06.CreateJWT now issuer request exp id client storage = .ok tok) :
    ∃ c : Claims, keyFits k = true ∧ tok = ser (mintedBy k (payloadOf cd c)) := by
  obtain ⟨key, c, hk, _, hs⟩ := c06_jwt_signed now issuer request exp id client storage tok h
  rw [hkey] at hk
  injection hk with hk
  subst hk
  refine ⟨c.toTokenClaimsGo.toClaims, ?_, ?_⟩
  · simp only [issKeyOf, c06_mint_spec] at hs
    by_cases hf : keyFits k = true
    · exact hf
    · simp [hf, Except.map] at hs
  · simp only [issKeyOf, c06_mint_spec] at hs
    by_cases hf : keyFits k = true
    · simp [hf, Except.map] at hs; exact hs.symm
    · simp [hf, Except.map] at hs

/-! ### non-vacuity: a provider that is re-keyed in place under an unchanged key id, and a second provider in the same process
    that uses the same key id for other material -/

def exCd : IssKCodec := { bytesOf := fun c => c.iat.toNat }
def exKeyA : IssKSigningKey := { SignatureAlgorithm := "RS256", Key := { keyNo := 1, kty := .rsa }, ID := "sig1" }
def exKeyB : IssKSigningKey := { SignatureAlgorithm := "RS256", Key := { keyNo := 2, kty := .rsa }, ID := "sig1" }
def exKeyC : IssKSigningKey := { SignatureAlgorithm := "RS256", Key := { keyNo := 3, kty := .rsa }, ID := "sig1" }
def exPub (k : IssKSigningKey) : List IssKKey := [{ ID := k.ID, Algorithm := k.SignatureAlgorithm, Use := "sig", Key := k.Key.pub }]
def exWorld : KWorld := fun q => if q = 1 then { signing := exKeyC, published := exPub exKeyC } else { signing := exKeyA, published := exPub exKeyA }
def exClaims : Claims := { iss := "https://op", sub := "u", aud := ["rp"], exp := 2000000600, iat := 2000000000 }
def exHistory : List KEvent := [.issue 0 exClaims, .setKey 0 exKeyB (exPub exKeyB), .issue 0 exClaims, .issue 1 exClaims]

/-- who signed the tokens of a run -/
def signersOf (l : List (Option (Go.R Token))) : List (Option Nat) :=
  l.map fun o => match o with
    | some (.ok t) => (t.jws.bind fun j => j.Signatures.head?).bind (·.signer)
    | _ => none

example : signersOf (kRun 0 exCd exWorld exHistory) = [some 1, none, some 2, some 3] := by decide
example : announces (exPub exKeyB) exKeyB := by decide
/-- the token signed with the replaced key A is rejected by the key set that now publishes B under the same id -/
example : (GenC02.OpenIDKeySetVerifySignature 0 { keySet := .ok (GenC06K.jsonWebKeySet 0 (exPub exKeyB)).Keys } (jwsBy exKeyA (payloadOf exCd exClaims))).toOption = none :=
  c06_stale_signer_rejected 0 exKeyA exKeyB _ _ rfl rfl (by decide) (by decide)
example : (GenC02.OpenIDKeySetVerifySignature 0 { keySet := .ok (GenC06K.jsonWebKeySet 0 (exPub exKeyB)).Keys } (jwsBy exKeyB (payloadOf exCd exClaims))).toOption
    = some (payloadOf exCd exClaims) :=
  c06_minted_verifies 0 exKeyB _ _ (by decide) (by decide)

end C06
