/-
  C14 (deep 3) — ONE verifier object, MANY assertions.

  `op.NewJWTProfileVerifier(storage, issuer, maxAge, offset)` takes a fixed issuer: an OP may build the verifier once (at
  start-up) and hand the same `*op.JWTProfileVerifier` to `op.VerifyJWTAssertion` / `op.ClientJWTAuth` /
  `op.AuthorizePrivateJWTKey` / the jwt-bearer grant for every request (a custom `JWTProfileVerifier(ctx)`).  The property
  judges every assertion on its own ("signed with a key the storage holds for the client NAMED AS ISSUER"), so what the
  verifier answers must not depend on which assertions it has seen before.

  `GenC14.VerifyJWTAssertionSt` (Generated/AssertionReuse.lean) is `op.VerifyJWTAssertion` regenerated a second time, now
  returning the verifier object as the call LEAVES it next to the answer, on every path: a write through the receiver
  (`v.keySet = …`) is part of the regenerated term.  This module depends on nothing but that definition, the regenerated
  `Gen.VerifyJWTAssertion` and the shape-independent tactic `go_leaf`; it does not import the C01 / C02 proof modules.

  * `verifyJWTAssertionSt_frame`  — the call leaves the verifier exactly as it found it (no receiver writes).
  * `verifyJWTAssertionSt_value`  — its answer is the regenerated `Gen.VerifyJWTAssertion` (the definition all C14 soundness
                                     theorems are about).
  * `verifyJWTAssertion_ok`       — what an accepting run of `Gen.VerifyJWTAssertion` means (the one place where the shape of the Go
                                     text matters; every other C14 theorem about the verifier goes through it).
  * `c14_verifier_reuse`          — (induction over the list of calls) a verifier used for ANY sequence of assertions gives, at
                                     every position, the answer a fresh verifier gives, and is unchanged afterwards.
  * `c14_answer_independent_of_history` — the answer to an assertion is the same after any two histories.
-/
import OidcModel.Generated.AssertionReuse
import OidcModel.GoTac

namespace C14
open Go Gen Hand

/-- FRAME (characterisation lemma, shape-independent): `VerifyJWTAssertion` leaves the verifier object as it found it -/
theorem verifyJWTAssertionSt_frame (now : Int) (t : Token) (v : JWTProfileVerifier) :
    (GenC14.VerifyJWTAssertionSt now t v).2 = v := by
  unfold GenC14.VerifyJWTAssertionSt; go_leaf

/-- VALUE (characterisation lemma, shape-independent): the answer of the state-returning twin is the regenerated
    `Gen.VerifyJWTAssertion` -/
theorem verifyJWTAssertionSt_value (now : Int) (t : Token) (v : JWTProfileVerifier) :
    (GenC14.VerifyJWTAssertionSt now t v).1 = Gen.VerifyJWTAssertion now t v := by
  unfold GenC14.VerifyJWTAssertionSt Gen.VerifyJWTAssertion
  try simp only [Go.notNil, Go.isNil, Bool.not_eq_true']
  go_leaf

/-- the key set an assertion naming `iss` is checked against: the verifier's own if it was built with one
    (`NewJWTProfileVerifierKeySet`), else the keys the storage holds for `iss` -/
def assertionKeys (v : JWTProfileVerifier) (iss : String) : KeySet :=
  if Go.isNil v.keySet then Hand.jwtProfileKeySet v.Storage iss else v.keySet

/-- CHARACTERISATION (shape-independent): what an accepting run of the regenerated `VerifyJWTAssertion` means - the token
    parses, every claim check passes for the verifier's settings, and the signature check passes against the keys of the client
    the assertion NAMES AS ISSUER, yielding the returned claims -/
theorem verifyJWTAssertion_ok {now : Int} {t : Token} {v : JWTProfileVerifier} {c : Claims} :
    VerifyJWTAssertion now t v = .ok c ↔ ∃ p c0, ParseToken now t = .ok (p, c0) ∧ CheckAudience now c0 v.Issuer = .ok () ∧
      CheckExpiration now c0 v.Offset = .ok () ∧ CheckIssuedAt now c0 v.MaxAgeIAT v.Offset = .ok () ∧
      applySubjectCheck (SubjectIsIssuer now) v.CheckSubject c0 = .ok () ∧
      CheckSignature now t p c0 [] (assertionKeys v c0.iss) = .ok c := by
  unfold VerifyJWTAssertion assertionKeys Claims.Issuer Go.nil HasNil.nilv instHasNilList
  try simp only [Go.notNil, Go.isNil, Bool.not_eq_true']
  go_leaf

/-- one verifier object `v` used for a sequence of calls `(now, assertion)`: the answers in order, and the object afterwards.
    Every call is handed the object the previous call left behind. -/
def runVerifier (v : JWTProfileVerifier) : List (Int × Token) → List (Go.R Claims) × JWTProfileVerifier
  | [] => ([], v)
  | (now, t) :: rest =>
    let r := GenC14.VerifyJWTAssertionSt now t v
    let rs := runVerifier r.2 rest
    (r.1 :: rs.1, rs.2)

/-- HISTORY THEOREM: for every verifier and every sequence of assertions (any length, any issuers / keys / times), the
    answers of the reused object are, position by position, the answers of a fresh verifier with the same settings, and the
    object is unchanged at the end -/
theorem c14_verifier_reuse (v : JWTProfileVerifier) (ops : List (Int × Token)) :
    runVerifier v ops = (ops.map (fun o => Gen.VerifyJWTAssertion o.1 o.2 v), v) := by
  induction ops with
  | nil => rfl
  | cons o rest ih =>
    obtain ⟨now, t⟩ := o
    simp only [runVerifier, verifyJWTAssertionSt_frame, verifyJWTAssertionSt_value, ih, List.map_cons]

/-- the i-th answer of a reused verifier is the answer of a fresh one -/
theorem c14_reused_answer (v : JWTProfileVerifier) (ops : List (Int × Token)) (i : Nat) (h : i < ops.length) :
    (runVerifier v ops).1[i]? = some (Gen.VerifyJWTAssertion ops[i].1 ops[i].2 v) := by
  rw [c14_verifier_reuse]; simp [h]

/-- verification of an assertion depends on no state left by earlier verifications: after ANY two histories the same
    assertion, at the same instant, gets the same answer -/
theorem c14_answer_independent_of_history (v : JWTProfileVerifier) (h1 h2 : List (Int × Token)) (now : Int) (t : Token) :
    (runVerifier (runVerifier v h1).2 [(now, t)]).1 = (runVerifier (runVerifier v h2).2 [(now, t)]).1 := by
  simp [c14_verifier_reuse]

end C14
