/-
  Proofs about the byte-level query codec (Model/Query.lean): `QueryUnescape ∘ QueryEscape = id` for
  ALL byte strings, escaped text never contains `&` `=` `;`, and `ParseQuery ∘ Encode = id` on every
  list of pairs.  No bound on lengths; by induction.
-/
import OidcModel.Model.Query
namespace Query

theorem unhex_hexDigit (n : Nat) (hn : n < 16) : unhex (hexDigit n) = some n := by
  have h : ∀ m : Fin 16, unhex (hexDigit m.val) = some m.val := by decide
  exact h ⟨n, hn⟩

theorem unreserved_ne {b c : UInt8} (h : unreserved b = true) (hc : unreserved c = false) : b ≠ c := by
  intro e; subst e; simp [h] at hc

theorem ofNat_nibbles (b : UInt8) : UInt8.ofNat (b.toNat / 16) * 16 + UInt8.ofNat (b.toNat % 16) = b := by
  have h : UInt8.ofNat (b.toNat / 16 * 16 + b.toNat % 16) = b := by
    rw [Nat.div_add_mod']; simp
  simpa [UInt8.ofNat_add, UInt8.ofNat_mul] using h

theorem unescape_plain {b : UInt8} (r : List UInt8) (h37 : (b == 37) = false) (h43 : (b == 43) = false) :
    unescape (b :: r) = (unescape r).map (b :: ·) := by
  rw [unescape.eq_def]; simp [h37, h43]

theorem unescape_plus (r : List UInt8) : unescape (43 :: r) = (unescape r).map (32 :: ·) := by
  rw [unescape.eq_def]; simp

theorem unescape_pct (a b : UInt8) (r : List UInt8) (x y : Nat) (ha : unhex a = some x) (hb : unhex b = some y) :
    unescape (37 :: a :: b :: r) = (unescape r).map (UInt8.ofNat (x * 16 + y) :: ·) := by
  rw [unescape.eq_def]; simp [ha, hb]

theorem unescape_escape (bs : List UInt8) : unescape (escape bs) = some bs := by
  induction bs with
  | nil => rfl
  | cons b r ih =>
    simp only [escape]
    split
    · rename_i hu
      have h37 : (b == 37) = false := by simpa using unreserved_ne hu (c := 37) (by decide)
      have h43 : (b == 43) = false := by simpa using unreserved_ne hu (c := 43) (by decide)
      rw [unescape_plain _ h37 h43, ih]; rfl
    · split
      · rename_i h32
        have : b = 32 := by simpa using h32
        subst this
        rw [unescape_plus, ih]; rfl
      · have hd : b.toNat / 16 < 16 := by have := b.toNat_lt; omega
        have hm : b.toNat % 16 < 16 := Nat.mod_lt _ (by decide)
        rw [unescape_pct _ _ _ _ _ (unhex_hexDigit _ hd) (unhex_hexDigit _ hm), ih]
        simp [ofNat_nibbles]

/-- bytes with a meaning in a query string: `&` `=` `;` -/
def special (b : UInt8) : Bool := b == 38 || b == 61 || b == 59

theorem hexDigit_plain (n : Nat) (hn : n < 16) : special (hexDigit n) = false := by
  have h : ∀ m : Fin 16, special (hexDigit m.val) = false := by decide
  exact h ⟨n, hn⟩

theorem escape_plain (bs : List UInt8) : ∀ x ∈ escape bs, special x = false := by
  induction bs with
  | nil => simp [escape]
  | cons b r ih =>
    simp only [escape]
    have hd : b.toNat / 16 < 16 := by have := b.toNat_lt; omega
    have hm : b.toNat % 16 < 16 := Nat.mod_lt _ (by decide)
    split
    · rename_i hu
      intro x hx
      simp only [List.mem_cons] at hx
      rcases hx with rfl | hx
      · have h1 := unreserved_ne hu (c := 38) (by decide)
        have h2 := unreserved_ne hu (c := 61) (by decide)
        have h3 := unreserved_ne hu (c := 59) (by decide)
        simp [special, h1, h2, h3]
      · exact ih x hx
    · split
      · intro x hx
        simp only [List.mem_cons] at hx
        rcases hx with rfl | hx
        · decide
        · exact ih x hx
      · intro x hx
        simp only [List.mem_cons] at hx
        rcases hx with rfl | rfl | rfl | hx
        · decide
        · exact hexDigit_plain _ hd
        · exact hexDigit_plain _ hm
        · exact ih x hx

theorem cut_append {sep : UInt8} {a : List UInt8} (t : List UInt8) (h : ∀ x ∈ a, x ≠ sep) :
    cut sep (a ++ sep :: t) = (a, some t) := by
  induction a with
  | nil => simp [cut]
  | cons x xs ih =>
    have hx : (x == sep) = false := by simpa using h x (by simp)
    simp [cut, hx, ih (fun y hy => h y (by simp [hy]))]

theorem cut_none {sep : UInt8} {a : List UInt8} (h : ∀ x ∈ a, x ≠ sep) : cut sep a = (a, none) := by
  induction a with
  | nil => simp [cut]
  | cons x xs ih =>
    have hx : (x == sep) = false := by simpa using h x (by simp)
    simp [cut, hx, ih (fun y hy => h y (by simp [hy]))]

theorem splitOn_append {sep : UInt8} {a : List UInt8} (t : List UInt8) (h : ∀ x ∈ a, x ≠ sep) :
    splitOn sep (a ++ sep :: t) = a :: splitOn sep t := by
  rw [splitOn]
  split
  · rename_i a' hc; rw [cut_append t h] at hc; simp at hc
  · rename_i a' t' hc; rw [cut_append t h] at hc; simp at hc; rw [hc.1, hc.2]

theorem splitOn_single {sep : UInt8} {a : List UInt8} (h : ∀ x ∈ a, x ≠ sep) : splitOn sep a = [a] := by
  rw [splitOn]
  split
  · rename_i a' hc; rw [cut_none h] at hc; simp at hc; rw [hc]
  · rename_i a' t' hc; rw [cut_none h] at hc; simp at hc

theorem splitOn_none {sep : UInt8} {s a : List UInt8} (h : cut sep s = (a, none)) : splitOn sep s = [a] := by
  rw [splitOn]
  split
  · rename_i a' hc; rw [h] at hc; simp at hc; rw [hc]
  · rename_i a' t' hc; rw [h] at hc; simp at hc

theorem splitOn_some {sep : UInt8} {s a t : List UInt8} (h : cut sep s = (a, some t)) : splitOn sep s = a :: splitOn sep t := by
  rw [splitOn]
  split
  · rename_i a' hc; rw [h] at hc; simp at hc
  · rename_i a' t' hc; rw [h] at hc; simp at hc; rw [hc.1, hc.2]

theorem splitOn_cons_eq {sep x : UInt8} (rest : List UInt8) (hx : (x == sep) = true) :
    splitOn sep (x :: rest) = [] :: splitOn sep rest :=
  splitOn_some (by simp [cut, hx])

theorem splitOn_cons_ne {sep x : UInt8} (rest : List UInt8) (hx : (x == sep) = false) :
    splitOn sep (x :: rest) = match splitOn sep rest with | h :: tl => (x :: h) :: tl | [] => [[x]] := by
  cases hr : cut sep rest with
  | mk a t =>
    cases t with
    | none =>
      have h1 : cut sep (x :: rest) = (x :: a, none) := by simp [cut, hx, hr]
      rw [splitOn_none h1, splitOn_none hr]
    | some t =>
      have h1 : cut sep (x :: rest) = (x :: a, some t) := by simp [cut, hx, hr]
      rw [splitOn_some h1, splitOn_some hr]

theorem splitOn_ne_nil (sep : UInt8) (a : List UInt8) : splitOn sep a ≠ [] := by
  rw [splitOn]; split <;> simp

/-- splitting distributes over a separator in the middle, whatever stands in front of it -/
theorem splitOn_append_any (sep : UInt8) (a t : List UInt8) : splitOn sep (a ++ sep :: t) = splitOn sep a ++ splitOn sep t := by
  induction a with
  | nil =>
    have h0 : splitOn sep [] = [[]] := splitOn_single (by simp)
    simp [splitOn_cons_eq, h0]
  | cons x a ih =>
    by_cases hx : (x == sep) = true
    · simp [splitOn_cons_eq _ hx, ih]
    · have hx' : (x == sep) = false := by simpa using hx
      rw [List.cons_append, splitOn_cons_ne _ hx', splitOn_cons_ne _ hx', ih]
      cases hs : splitOn sep a with
      | nil => exact absurd hs (splitOn_ne_nil sep a)
      | cons h tl => simp

theorem special_false {x : UInt8} (h : special x = false) : x ≠ 38 ∧ x ≠ 61 ∧ x ≠ 59 := by
  simp [special] at h; exact ⟨h.1.1, h.1.2, h.2⟩

theorem encodePair_no_amp (p : Pair) : ∀ x ∈ encodePair p, x ≠ 38 := by
  intro x hx
  simp only [encodePair, List.mem_append, List.mem_cons] at hx
  rcases hx with hx | rfl | hx
  · exact (special_false (escape_plain _ x hx)).1
  · decide
  · exact (special_false (escape_plain _ x hx)).1

theorem parsePair_encodePair (p : Pair) : parsePair (encodePair p) = some p := by
  have hsemi : ¬ (59 : UInt8) ∈ encodePair p := by
    intro hx
    simp only [encodePair, List.mem_append, List.mem_cons] at hx
    rcases hx with hx | hx | hx
    · exact (special_false (escape_plain _ _ hx)).2.2 rfl
    · exact absurd hx (by decide)
    · exact (special_false (escape_plain _ _ hx)).2.2 rfl
  have hcut : cut 61 (encodePair p) = (escape p.1, some (escape p.2)) :=
    cut_append _ (fun x hx => (special_false (escape_plain _ x hx)).2.1)
  simp [parsePair, hsemi, hcut, unescape_escape]

theorem encodePair_ne_nil (p : Pair) : (encodePair p).isEmpty = false := by
  simp [encodePair]

/-- `url.ParseQuery` inverts `url.Values.Encode`: every pair comes back, byte for byte, in order -/
theorem parse_encode (ps : List Pair) : parse (encode ps) = ps.map some := by
  induction ps with
  | nil => simp [parse, encode, splitOn, cut]
  | cons p r ih =>
    cases r with
    | nil =>
      simp [parse, encode, splitOn_single (encodePair_no_amp p), encodePair_ne_nil, parsePair_encodePair]
    | cons q r' =>
      simp only [encode]
      simp only [parse] at ih ⊢
      rw [splitOn_append _ (encodePair_no_amp p)]
      simp [encodePair_ne_nil, parsePair_encodePair, ih]
end Query
