/-
  C17 request isolation.  Several requests are served by ONE handler closure of `rp.AuthURLHandler` /
  `rp.CodeExchangeHandler` under an ARBITRARY schedule (Model/RPAlias.lean: slice headers over a memory of backing
  arrays, Go's `append`).  The regenerated aliasing fact `GenAlias.*_optsOrigin` (harness/cmd/factgen/alias_c17.go) says
  where the handler's option slice comes from.

  * `isolation`: when the slice is allocated per request, then for EVERY schedule, every growth policy of `append` and
    every per-request path, what each `AuthURL` / `CodeExchange` call reads is exactly the functional list of the
    request's OWN options - the list the translated handlers (Generated/RPHandlers.lean) compute with `Go.append`.
  * `c17_exchange_isolated`, `c17_authurl_isolated`: the same, stated about the regenerated facts.
  * (Proofs/C17IsoPkce.lean) `c17_request_isolation`, `c17_authurl_challenge_isolation`: what this means for the
    property's PKCE clauses, stated with the regenerated handlers' own functions.
  This module does not import the translated handlers: when a change makes the slice shared, it is
  `exchange_origin` / `authurl_origin` that stop checking, whatever happens to the translation of the handler.
  * `shared_slice_swaps`: non-vacuity of the model - with a captured slice that has spare capacity (seeded C17-G /
    C20-H / C17-B) a schedule exists under which a request sends the OTHER request's verifier.
-/
import OidcModel.Model.RPAlias
import OidcModel.Generated.RPAlias

namespace C17Iso
open RPAlias

/-! ### the functional reading, extended at the end -/

theorem logicalOf_snoc_append (acc : List Opt) (d : List Op) (x : Opt) :
    logicalOf acc (d ++ [.append x]) = logicalOf acc d ++ [x] := by
  induction d generalizing acc with
  | nil => rfl
  | cons o t ih => cases o <;> simp [logicalOf, ih]

theorem logicalOf_snoc_use (acc : List Opt) (d : List Op) : logicalOf acc (d ++ [.use]) = logicalOf acc d := by
  induction d generalizing acc with
  | nil => rfl
  | cons o t ih => cases o <;> simp [logicalOf, ih]

theorem sentOf_snoc_append (acc : List Opt) (d : List Op) (x : Opt) : sentOf acc (d ++ [.append x]) = sentOf acc d := by
  induction d generalizing acc with
  | nil => rfl
  | cons o t ih => cases o <;> simp [sentOf, ih]

theorem sentOf_snoc_use (acc : List Opt) (d : List Op) : sentOf acc (d ++ [.use]) = sentOf acc d ++ [logicalOf acc d] := by
  induction d generalizing acc with
  | nil => rfl
  | cons o t ih => cases o <;> simp [sentOf, logicalOf, ih]

/-! ### reading a slice from memory -/

theorem read_congr (m m' : Mem) (h : Hdr) (hc : ∀ i, i < h.len → m'.cell h.arr i = m.cell h.arr i) :
    m'.read h = m.read h := by
  unfold Mem.read
  apply List.map_congr_left
  intro i hi
  exact hc i (List.mem_range.1 hi)

theorem read_succ (m : Mem) (a n c c' : Nat) :
    m.read ⟨a, n + 1, c⟩ = m.read ⟨a, n, c'⟩ ++ [m.cell a n] := by
  simp [Mem.read, List.range_succ]

theorem read_base (base : List Opt) (m : Mem) (a c : Nat) (hc : ∀ i, m.cell a i = base.getD i []) :
    m.read ⟨a, base.length, c⟩ = base := by
  unfold Mem.read
  apply List.ext_getElem
  · simp
  · intro i h1 h2
    simp [hc, List.getD_eq_getElem?_getD, h2]

/-! ### the invariant: every request reads its own options from an array nobody else WRITES to -/

/-- the origins for which isolation holds: a slice allocated per request, or a slice of the enclosing function whose capacity
    equals its length (`make([]T, n)`, never appended to): every `append` to it reallocates, nobody ever writes to the shared array -/
def safeOrigin : SliceOrigin → Bool
  | .perRequest => true
  | .captured (some 0) => true
  | .captured _ => false

/-- array 0 (the converted custom parameters the handler was created with) is never written; a request's header refers either to
    array 0 WITHOUT spare capacity or to an array of its own -/
structure Inv (base : List Opt) (progs : Nat → List Op) (s : Sys) : Prop where
  next : 1 ≤ s.mem.next
  zero : ∀ i, s.mem.cell 0 i = base.getD i []
  prog : ∀ i, (s.reqs i).done ++ (s.reqs i).todo = progs i
  sent : ∀ i, (s.reqs i).sent = sentOf base (s.reqs i).done
  start : ∀ i, (s.reqs i).hdr = none → (s.reqs i).done = []
  bound : ∀ i h, (s.reqs i).hdr = some h → (h.arr = 0 → h.cap ≤ h.len) ∧ h.arr < s.mem.next
  read : ∀ i h, (s.reqs i).hdr = some h → s.mem.read h = logicalOf base (s.reqs i).done
  sep : ∀ i j h h', i ≠ j → (s.reqs i).hdr = some h → (s.reqs j).hdr = some h' → 1 ≤ h.arr → h.arr ≠ h'.arr

theorem init_inv (base : List Opt) (progs : Nat → List Op) : Inv base progs (init base progs) where
  next := Nat.le_refl 1
  zero := fun _ => by simp [init]
  prog := fun _ => rfl
  sent := fun _ => rfl
  start := fun _ _ => rfl
  bound := fun i h hh => by simp [init] at hh
  read := fun i h hh => by simp [init] at hh
  sep := fun i j h h' _ hh => by simp [init] at hh

/-- the request `k` moves: its record becomes `r'`, the memory `m'`; nothing else changes.  The obligations that are
    the same for every kind of step are discharged here once. -/
theorem frame {base : List Opt} {progs : Nat → List Op} {s : Sys} (hI : Inv base progs s) (k : Nat) (m' : Mem) (r' : Req)
    (hnext : s.mem.next ≤ m'.next)
    -- cells of array 0 and of arrays other requests refer to are untouched
    (hcells : ∀ a i, a < s.mem.next → (a = 0 ∨ ∀ h, (s.reqs k).hdr = some h → a ≠ h.arr) → m'.cell a i = s.mem.cell a i)
    (hprog : r'.done ++ r'.todo = progs k)
    (hsent : r'.sent = sentOf base r'.done)
    (hstart : r'.hdr = none → r'.done = [])
    -- the moving request's new header: the shared array without spare capacity, its own old array or a brand-new one
    (hhdr : ∀ h', r'.hdr = some h' → (h'.arr = 0 → h'.cap ≤ h'.len) ∧ h'.arr < m'.next ∧ m'.read h' = logicalOf base r'.done ∧
        ((∃ h, (s.reqs k).hdr = some h ∧ h'.arr = h.arr) ∨ s.mem.next ≤ h'.arr ∨ h'.arr = 0)) :
    Inv base progs { mem := m', reqs := fun j => if j = k then r' else s.reqs j } where
  next := Nat.le_trans hI.next hnext
  zero := fun i => by
    show m'.cell 0 i = _
    rw [hcells 0 i hI.next (Or.inl rfl)]
    exact hI.zero i
  prog := fun i => by
    by_cases hik : i = k
    · simp only [hik, if_true]; exact hprog
    · simp only [hik, if_false]; exact hI.prog i
  sent := fun i => by
    by_cases hik : i = k
    · simp only [hik, if_true]; exact hsent
    · simp only [hik, if_false]; exact hI.sent i
  start := fun i => by
    by_cases hik : i = k
    · simp only [hik, if_true]; exact hstart
    · simp only [hik, if_false]; exact hI.start i
  bound := fun i h => by
    by_cases hik : i = k
    · simp only [hik, if_true]; intro hh; exact ⟨(hhdr h hh).1, (hhdr h hh).2.1⟩
    · simp only [hik, if_false]; intro hh
      exact ⟨(hI.bound i h hh).1, Nat.lt_of_lt_of_le (hI.bound i h hh).2 hnext⟩
  read := fun i h => by
    by_cases hik : i = k
    · simp only [hik, if_true]; intro hh; exact (hhdr h hh).2.2.1
    · simp only [hik, if_false]; intro hh
      rw [← hI.read i h hh]
      apply read_congr
      intro n _
      apply hcells h.arr n (hI.bound i h hh).2
      by_cases h0 : h.arr = 0
      · exact Or.inl h0
      · exact Or.inr (fun hk hhk => hI.sep i k h hk hik hh hhk (Nat.pos_of_ne_zero h0))
  sep := fun i j h h' hij => by
    by_cases hik : i = k
    · have hjk : j ≠ k := fun e => hij (hik.trans e.symm)
      simp only [hik, if_true, hjk, if_false]
      intro hh hh' hpos
      rcases (hhdr h hh).2.2.2 with ⟨h0, hh0, he⟩ | hge | hz
      · rw [he]; exact hI.sep k j h0 h' (fun e => hjk e.symm) hh0 hh' (by rw [← he]; exact hpos)
      · exact fun e => absurd (hI.bound j h' hh').2 (by rw [← e]; exact Nat.not_lt.2 hge)
      · rw [hz] at hpos; exact absurd hpos (by decide)
    · by_cases hjk : j = k
      · simp only [hik, if_false, hjk, if_true]
        intro hh hh' hpos
        rcases (hhdr h' hh').2.2.2 with ⟨h0, hh0, he⟩ | hge | hz
        · rw [he]; exact hI.sep i k h h0 hik hh hh0 hpos
        · exact fun e => absurd (hI.bound i h hh).2 (by rw [e]; exact Nat.not_lt.2 hge)
        · rw [hz]; exact fun e => absurd hpos (by rw [e]; decide)
      · simp only [hik, if_false, hjk]
        exact hI.sep i j h h' hij

theorem step_inv {base : List Opt} {progs : Nat → List Op} {s : Sys} (o : SliceOrigin) (ho : safeOrigin o = true)
    (grow : Nat → Nat) (u : Nat)
    (hI : Inv base progs s) (k : Nat) : Inv base progs (step o base grow u s k) := by
  unfold step stepReq
  cases hh : (s.reqs k).hdr with
  | none =>
    cases o with
    | perRequest =>
      -- `opts := make(...)` + copy: a brand-new array
      simp only [initOp]
      refine frame hI k _ _ (Nat.le_succ _) ?_ (hI.prog k) (hI.sent k) (fun h => by simp at h) ?_
      · intro a i ha _
        have : a ≠ s.mem.next := Nat.ne_of_lt ha
        simp [this]
      · intro h' hh'
        simp only [Option.some.injEq] at hh'
        subst hh'
        refine ⟨fun e => absurd hI.next (by have e' : s.mem.next = 0 := e; omega), Nat.lt_succ_self _, ?_, Or.inr (Or.inl (Nat.le_refl _))⟩
        rw [hI.start k hh]
        exact read_base base _ _ _ (fun i => by simp)
    | captured sp =>
      -- `opts := shared`: the array of the enclosing function, capacity = length
      have hsp : sp = some 0 := by
        cases sp with
        | none => simp [safeOrigin] at ho
        | some n => cases n with
          | zero => rfl
          | succ n => simp [safeOrigin] at ho
      subst hsp
      simp only [initOp, spareOf]
      refine frame hI k _ _ (Nat.le_refl _) (fun _ _ _ _ => rfl) (hI.prog k) (hI.sent k) (fun h => by simp at h) ?_
      intro h' hh'
      simp only [Option.some.injEq] at hh'
      subst hh'
      refine ⟨fun _ => Nat.le_refl _, hI.next, ?_, Or.inr (Or.inr rfl)⟩
      rw [hI.start k hh]
      exact read_base base _ _ _ hI.zero
  | some h =>
    cases ht : (s.reqs k).todo with
    | nil =>
      simp only []
      refine frame hI k _ _ (Nat.le_refl _) (fun _ _ _ _ => rfl) (hI.prog k) (hI.sent k) (hI.start k) ?_
      intro h' hh'
      rw [hh] at hh'
      simp only [Option.some.injEq] at hh'
      subst hh'
      exact ⟨(hI.bound k h hh).1, (hI.bound k h hh).2, hI.read k h hh, Or.inl ⟨h, hh, rfl⟩⟩
    | cons op rest =>
      have hprogk := hI.prog k
      rw [ht] at hprogk
      cases op with
      | use =>
        simp only []
        refine frame hI k _ _ (Nat.le_refl _) (fun _ _ _ _ => rfl) ?_ ?_ (fun h => by simp at h) ?_
        · simpa [List.append_assoc] using hprogk
        · simp only [sentOf_snoc_use, hI.sent k, hI.read k h hh]
        · intro h' hh'
          simp only [Option.some.injEq] at hh'
          subst hh'
          exact ⟨(hI.bound k h hh).1, (hI.bound k h hh).2, by rw [logicalOf_snoc_use]; exact hI.read k h hh, Or.inl ⟨h, hh, rfl⟩⟩
      | append x =>
        simp only [appendOp]
        by_cases hcap : h.len < h.cap
        · -- in place: only possible in the request's OWN array (the shared one has no spare capacity)
          have harr : h.arr ≠ 0 := fun e => absurd ((hI.bound k h hh).1 e) (Nat.not_le.2 hcap)
          simp only [hcap, if_true]
          refine frame hI k _ _ (Nat.le_refl _) ?_ ?_ ?_ (fun h => by simp at h) ?_
          · intro a i _ hne
            have : a ≠ h.arr := by
              rcases hne with h0 | hne
              · rw [h0]; exact fun e => harr e.symm
              · exact hne h hh
            simp [this]
          · simpa [List.append_assoc] using hprogk
          · simp only [sentOf_snoc_append]; exact hI.sent k
          · intro h' hh'
            simp only [Option.some.injEq] at hh'
            subst hh'
            refine ⟨fun e => absurd e harr, (hI.bound k h hh).2, ?_, Or.inl ⟨h, hh, rfl⟩⟩
            rw [logicalOf_snoc_append, ← hI.read k h hh]
            show Mem.read _ ⟨h.arr, h.len + 1, h.cap⟩ = _
            rw [read_succ _ h.arr h.len h.cap h.cap]
            congr 1
            · apply read_congr
              intro i hi
              have : i ≠ h.len := Nat.ne_of_lt hi
              simp [this]
            · simp
        · -- no room: a brand-new array
          simp only [hcap, if_false]
          refine frame hI k _ _ (Nat.le_succ _) ?_ ?_ ?_ (fun h => by simp at h) ?_
          · intro a i ha _
            have : a ≠ s.mem.next := Nat.ne_of_lt ha
            simp [this]
          · simpa [List.append_assoc] using hprogk
          · simp only [sentOf_snoc_append]; exact hI.sent k
          · intro h' hh'
            simp only [Option.some.injEq] at hh'
            subst hh'
            refine ⟨fun e => absurd hI.next (by have e' : s.mem.next = 0 := e; omega), Nat.lt_succ_self _, ?_, Or.inr (Or.inl (Nat.le_refl _))⟩
            rw [logicalOf_snoc_append, ← hI.read k h hh]
            rw [read_succ _ s.mem.next h.len _ h.cap]
            congr 1
            · unfold Mem.read
              apply List.map_congr_left
              intro i hi
              have : i ≠ h.len := Nat.ne_of_lt (List.mem_range.1 hi)
              simp [this]
            · simp

theorem run_inv {base : List Opt} {progs : Nat → List Op} (o : SliceOrigin) (ho : safeOrigin o = true)
    (grow : Nat → Nat) (u : Nat) (sched : List Nat) (s : Sys)
    (hI : Inv base progs s) : Inv base progs (run o base grow u s sched) := by
  induction sched generalizing s with
  | nil => exact hI
  | cons k t ih => exact ih _ (step_inv o ho grow u hI k)

/-- REQUEST ISOLATION (slice level), for every safe origin: the handler allocates its option slice per request, OR it hands every
    request the same slice of the enclosing function whose capacity equals its length (every append reallocates): for EVERY
    schedule of the requests' steps, every growth policy of `append`, and every path each request takes, a request has executed a
    prefix of ITS OWN path and every `AuthURL` / `CodeExchange` call read exactly the functional list of that request's own options. -/
theorem isolation_safe (o : SliceOrigin) (ho : safeOrigin o = true) (base : List Opt) (progs : Nat → List Op) (grow : Nat → Nat)
    (u : Nat) (sched : List Nat) (i : Nat) :
    let r := (run o base grow u (init base progs) sched).reqs i
    r.done ++ r.todo = progs i ∧ r.sent = sentOf base r.done :=
  let hI := run_inv o ho grow u sched _ (init_inv base progs)
  ⟨hI.prog i, hI.sent i⟩

/-- the per-request case (the code as it is) -/
theorem isolation (base : List Opt) (progs : Nat → List Op) (grow : Nat → Nat) (u : Nat) (sched : List Nat) (i : Nat) :
    let r := (run .perRequest base grow u (init base progs) sched).reqs i
    r.done ++ r.todo = progs i ∧ r.sent = sentOf base r.done :=
  isolation_safe .perRequest rfl base progs grow u sched i

/-! ### the regenerated facts -/

/-- a slice site inside the closure is harmless: appends and reads go to a safe slice, an index WRITE only to a per-request one
    (an index write through a captured slice writes the shared array, whatever its capacity) -/
def safeSite (s : SliceSite) : Bool :=
  if s.kind == "index" then s.origin == .perRequest else safeOrigin s.origin

/-- characterisation of the regenerated aliasing facts: both handlers hand `AuthURL` / `CodeExchange` a slice of a safe origin
    (today: allocated inside the closure), and every append / index write inside the closures is harmless -/
theorem exchange_origin : safeOrigin GenAlias.CodeExchangeHandler_optsOrigin = true := by decide
theorem authurl_origin : safeOrigin GenAlias.AuthURLHandler_optsOrigin = true := by decide
theorem exchange_sites_perRequest : ∀ s ∈ GenAlias.CodeExchangeHandler_sliceSites, safeSite s = true := by decide
theorem authurl_sites_perRequest : ∀ s ∈ GenAlias.AuthURLHandler_sliceSites, safeSite s = true := by decide

theorem c17_exchange_isolated (base : List Opt) (progs : Nat → List Op) (grow : Nat → Nat) (u : Nat) (sched : List Nat) (i : Nat) :
    let r := (run GenAlias.CodeExchangeHandler_optsOrigin base grow u (init base progs) sched).reqs i
    r.done ++ r.todo = progs i ∧ r.sent = sentOf base r.done :=
  isolation_safe _ exchange_origin base progs grow u sched i

theorem c17_authurl_isolated (base : List Opt) (progs : Nat → List Op) (grow : Nat → Nat) (u : Nat) (sched : List Nat) (i : Nat) :
    let r := (run GenAlias.AuthURLHandler_optsOrigin base grow u (init base progs) sched).reqs i
    r.done ++ r.todo = progs i ∧ r.sent = sentOf base r.done :=
  isolation_safe _ authurl_origin base progs grow u sched i

/-! ### non-vacuity: the model expresses the defect, and the isolated case really sends something -/

/-- a shared slice with spare capacity (what seeded C17-G / C20-H / C17-B do): request 0 obtains the slice and appends its
    verifier, request 1 does the same, request 0 reads - and sends request 1's verifier -/
theorem shared_slice_swaps :
    ((run (.captured (some 2)) [] (fun _ => 0) 0
        (init [] fun j => if j = 0 then [.append [("code_verifier", "vA")], .use] else [.append [("code_verifier", "vB")], .use])
        [0, 0, 1, 1, 0]).reqs 0).sent = [[[("code_verifier", "vB")]]] := by decide

/-- the same schedule with a per-request slice: request 0 sends its own verifier -/
example :
    ((run .perRequest [] (fun _ => 0) 0
        (init [] fun j => if j = 0 then [.append [("code_verifier", "vA")], .use] else [.append [("code_verifier", "vB")], .use])
        [0, 0, 1, 1, 0]).reqs 0).sent = [[[("code_verifier", "vA")]]] := by decide

/-- a captured slice WITHOUT spare capacity is harmless in this schedule (append always reallocates) -/
example :
    ((run (.captured (some 0)) [] (fun _ => 0) 0
        (init [] fun j => if j = 0 then [.append [("code_verifier", "vA")], .use] else [.append [("code_verifier", "vB")], .use])
        [0, 0, 1, 1, 0]).reqs 0).sent = [[[("code_verifier", "vA")]]] := by decide

end C17Iso
