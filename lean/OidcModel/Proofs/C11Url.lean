/-
  C11, part 1: net/url.  Byte-level round trips (induction over the byte list):
  the user agent's form-urlencoded decoder inverts url.QueryEscape / url.Values.Encode for ALL byte strings,
  and what that means for the Location value built by mergeQueryParams / setFragment as regenerated from the source.
-/
import OidcModel.Spec.C11
import OidcModel.Generated.AuthResponse

namespace C11
open UA

-- ---------------------------------------------------------------- all 256 bytes

theorem byteAll (P : UInt8 → Bool) (h : ∀ n : Fin 256, P (UInt8.ofNat n.val) = true) (c : UInt8) : P c = true := by
  have := h ⟨c.toNat, c.toNat_lt⟩
  simpa using this

-- ---------------------------------------------------------------- QueryEscape / formDecode

/-- `e` is an encoding of the single byte `c` that `formDecode` reads back in one go -/
def escShape (e : Bytes) (c : UInt8) : Bool :=
  match e with
  | [b] => (b == 0x2B && c == 0x20) || (b == c && c != 0x25 && c != 0x2B)
  | [p, a, b] => p == 0x25 && (match hexVal a, hexVal b with | some x, some y => UInt8.ofNat (x * 16 + y) == c | _, _ => false)
  | _ => false

theorem formDecode_of_shape (e : Bytes) (c : UInt8) (r : Bytes) (h : escShape e c = true) :
    formDecode (e ++ r) = (formDecode r).map (c :: ·) := by
  unfold formDecode
  match e, h with
  | [b], h =>
    simp only [escShape, Bool.or_eq_true, Bool.and_eq_true, beq_iff_eq, bne_iff_ne, ne_eq] at h
    rcases h with ⟨hb, hc⟩ | ⟨⟨hb, h1⟩, h2⟩
    · subst hb; subst hc; simp [formDecodeS]
    · subst hb; simp [formDecodeS, h1, h2]
  | [p, a, b], h =>
    simp only [escShape, Bool.and_eq_true, beq_iff_eq] at h
    obtain ⟨hp, h2⟩ := h
    subst hp
    cases ha : hexVal a <;> cases hb : hexVal b <;> simp [ha, hb] at h2
    simp [formDecodeS, ha, hb, h2]

set_option maxRecDepth 100000 in
theorem queryEscapeByte_shape : ∀ n : Fin 256, (fun c => escShape (AR.queryEscapeByte c) c) (UInt8.ofNat n.val) = true := by decide

theorem QueryEscape_cons (c : UInt8) (s : Bytes) : AR.QueryEscape (c :: s) = AR.queryEscapeByte c ++ AR.QueryEscape s := by
  simp [AR.QueryEscape]

/-- **queryUnescape ∘ queryEscape = id**, for every byte string -/
theorem formDecode_QueryEscape (s : Bytes) : formDecode (AR.QueryEscape s) = some s := by
  induction s with
  | nil => simp [AR.QueryEscape, formDecode, formDecodeS]
  | cons c s ih =>
    have hs := byteAll (fun c => escShape (AR.queryEscapeByte c) c) queryEscapeByte_shape c
    rw [QueryEscape_cons, formDecode_of_shape _ c _ hs, ih]; rfl

/-- bytes that separate or terminate things in a query string / URL -/
def isDelim (b : UInt8) : Bool := b == 0x26 || b == 0x3D || b == 0x3B || b == 0x23 || b == 0x3F

set_option maxRecDepth 100000 in
theorem queryEscapeByte_nodelim : ∀ n : Fin 256, (fun c => (AR.queryEscapeByte c).all (fun b => !isDelim b)) (UInt8.ofNat n.val) = true := by decide

/-- QueryEscape never outputs `& = ; # ?` -/
theorem QueryEscape_nodelim (s : Bytes) : ∀ b ∈ AR.QueryEscape s, isDelim b = false := by
  induction s with
  | nil => simp [AR.QueryEscape]
  | cons c s ih =>
    intro b hb
    rw [QueryEscape_cons, List.mem_append] at hb
    rcases hb with hb | hb
    · have := byteAll (fun c => (AR.queryEscapeByte c).all (fun b => !isDelim b)) queryEscapeByte_nodelim c
      simp only [List.all_eq_true, Bool.not_eq_true'] at this
      exact this b hb
    · exact ih b hb

theorem isDelim_ne {b : UInt8} (h : isDelim b = false) : b ≠ 0x26 ∧ b ≠ 0x3D ∧ b ≠ 0x3B ∧ b ≠ 0x23 ∧ b ≠ 0x3F := by
  simp only [isDelim, Bool.or_eq_false_iff, beq_eq_false_iff_ne, ne_eq] at h
  obtain ⟨⟨⟨⟨h1, h2⟩, h3⟩, h4⟩, h5⟩ := h
  exact ⟨h1, h2, h3, h4, h5⟩

-- ---------------------------------------------------------------- cut / splitOn

theorem cut_append_sep (sep : UInt8) (a r : Bytes) (h : ∀ b ∈ a, b ≠ sep) : cut sep (a ++ sep :: r) = (a, some r) := by
  induction a with
  | nil => simp [cut]
  | cons x a ih =>
    have hx : x ≠ sep := h x (by simp)
    have ih' := ih (fun b hb => h b (by simp [hb]))
    simp [cut, hx, ih']

theorem cut_nosep (sep : UInt8) (a : Bytes) (h : ∀ b ∈ a, b ≠ sep) : cut sep a = (a, none) := by
  induction a with
  | nil => simp [cut]
  | cons x a ih =>
    have hx : x ≠ sep := h x (by simp)
    have ih' := ih (fun b hb => h b (by simp [hb]))
    simp [cut, hx, ih']

theorem splitOn_ne_nil (sep : UInt8) (a : Bytes) : splitOn sep a ≠ [] := by
  induction a with
  | nil => simp [splitOn]
  | cons x a ih =>
    simp only [splitOn]
    split
    · simp
    · split <;> simp

theorem splitOn_append_sep (sep : UInt8) (a r : Bytes) (h : ∀ b ∈ a, b ≠ sep) :
    splitOn sep (a ++ sep :: r) = a :: splitOn sep r := by
  induction a with
  | nil => simp [splitOn]
  | cons x a ih =>
    have hx : x ≠ sep := h x (by simp)
    have ih' := ih (fun b hb => h b (by simp [hb]))
    simp [splitOn, hx, ih']

theorem splitOn_nosep (sep : UInt8) (a : Bytes) (h : ∀ b ∈ a, b ≠ sep) : splitOn sep a = [a] := by
  induction a with
  | nil => simp [splitOn]
  | cons x a ih =>
    have hx : x ≠ sep := h x (by simp)
    have ih' := ih (fun b hb => h b (by simp [hb]))
    simp [splitOn, hx, ih']

-- ---------------------------------------------------------------- Values.Encode / parseQuery

/-- one `key=value` setting as url.Values.Encode writes it -/
def encPair (p : Bytes × Bytes) : Bytes := AR.QueryEscape p.1 ++ 0x3D :: AR.QueryEscape p.2

theorem encPair_nodelim (p : Bytes × Bytes) : ∀ b ∈ encPair p, b ≠ 0x26 ∧ b ≠ 0x3B ∧ b ≠ 0x23 ∧ b ≠ 0x3F := by
  intro b hb
  simp only [encPair, List.mem_append, List.mem_cons] at hb
  rcases hb with hb | hb | hb
  · have := isDelim_ne (QueryEscape_nodelim _ b hb); exact ⟨this.1, this.2.2.1, this.2.2.2.1, this.2.2.2.2⟩
  · subst hb; decide
  · have := isDelim_ne (QueryEscape_nodelim _ b hb); exact ⟨this.1, this.2.2.1, this.2.2.2.1, this.2.2.2.2⟩

theorem parsePair_encPair (p : Bytes × Bytes) : parsePair (encPair p) = some p := by
  have hne : (encPair p).isEmpty = false := by simp [encPair]
  have hsemi : (0x3B : UInt8) ∉ encPair p := fun hc => (encPair_nodelim p _ hc).2.1 rfl
  have hcut : cut 0x3D (encPair p) = (AR.QueryEscape p.1, some (AR.QueryEscape p.2)) :=
    cut_append_sep _ _ _ (fun b hb => (isDelim_ne (QueryEscape_nodelim _ b hb)).2.1)
  simp [parsePair, hne, hsemi, hcut, formDecode_QueryEscape]

/-- **the form-urlencoded decoder inverts `key=value&…` as Encode writes it** (any list of pairs, any bytes) -/
theorem parseQuery_joinAmp (ps : List (Bytes × Bytes)) : parseQuery (AR.Values.joinAmp (ps.map encPair)) = ps := by
  induction ps with
  | nil => simp [parseQuery, AR.Values.joinAmp, splitOn, parsePair]
  | cons p ps ih =>
    cases ps with
    | nil =>
      simp only [List.map_cons, List.map_nil, AR.Values.joinAmp, parseQuery]
      rw [splitOn_nosep _ _ (fun b hb => (encPair_nodelim p b hb).1)]
      simp [parsePair_encPair]
    | cons q qs =>
      simp only [List.map_cons, AR.Values.joinAmp, parseQuery]
      rw [splitOn_append_sep _ _ _ (fun b hb => (encPair_nodelim p b hb).1)]
      simp only [List.filterMap_cons, parsePair_encPair]
      have := ih
      simp only [List.map_cons, parseQuery] at this
      rw [this]

theorem joinAmp_nodelim (ps : List (Bytes × Bytes)) : ∀ b ∈ AR.Values.joinAmp (ps.map encPair), b ≠ 0x23 ∧ b ≠ 0x3F := by
  induction ps with
  | nil => simp [AR.Values.joinAmp]
  | cons p ps ih =>
    cases ps with
    | nil =>
      intro b hb
      simp only [List.map_cons, List.map_nil, AR.Values.joinAmp] at hb
      exact ⟨(encPair_nodelim p b hb).2.2.1, (encPair_nodelim p b hb).2.2.2⟩
    | cons q qs =>
      intro b hb
      simp only [List.map_cons, AR.Values.joinAmp, List.mem_append, List.mem_cons] at hb
      rcases hb with hb | hb | hb
      · exact ⟨(encPair_nodelim p b hb).2.2.1, (encPair_nodelim p b hb).2.2.2⟩
      · subst hb; decide
      · exact ih b (by simpa [List.map_cons] using hb)

-- ---------------------------------------------------------------- url.Values as an association list

abbrev Entries := List (Bytes × List Bytes)

/-- the `key=value` pairs of a multimap, entry by entry -/
def flatten (es : Entries) : List (Bytes × Bytes) := es.flatMap fun e => e.2.map (e.1, ·)

def DistinctKeys (es : Entries) : Prop := (es.map (·.1)).Nodup
instance (es : Entries) : Decidable (DistinctKeys es) := by unfold DistinctKeys; infer_instance

theorem flatten_cons (e : Bytes × List Bytes) (es : Entries) : flatten (e :: es) = e.2.map (e.1, ·) ++ flatten es := by
  simp [flatten]

theorem valuesOf_append (k : Bytes) (a b : List (Bytes × Bytes)) : valuesOf k (a ++ b) = valuesOf k a ++ valuesOf k b := by
  simp [valuesOf]

theorem valuesOf_entry (k k' : Bytes) (vs : List Bytes) :
    valuesOf k (vs.map (k', ·)) = if k' == k then vs else [] := by
  induction vs with
  | nil => simp [valuesOf]
  | cons v vs ih =>
    simp only [valuesOf, List.map_cons, List.filter_cons] at ih ⊢
    by_cases h : k' == k <;> simp [h] at ih ⊢ <;> exact ih

theorem valuesOf_flatten_cons (k : Bytes) (e : Bytes × List Bytes) (es : Entries) :
    valuesOf k (flatten (e :: es)) = (if e.1 == k then e.2 else []) ++ valuesOf k (flatten es) := by
  rw [flatten_cons, valuesOf_append, valuesOf_entry]

theorem bytesLt_irrefl (a : Bytes) : AR.bytesLt a a = false := by
  induction a with
  | nil => rfl
  | cons x a ih => simp [AR.bytesLt, ih]

theorem valuesOf_insertSorted (k : Bytes) (e : Bytes × List Bytes) (xs : Entries) :
    valuesOf k (flatten (AR.Values.insertSorted e xs)) = (if e.1 == k then e.2 else []) ++ valuesOf k (flatten xs) := by
  induction xs with
  | nil => simp [AR.Values.insertSorted, valuesOf_flatten_cons]
  | cons x xs ih =>
    simp only [AR.Values.insertSorted]
    split
    · rename_i hlt
      rw [valuesOf_flatten_cons, ih, valuesOf_flatten_cons]
      have hne : x.1 ≠ e.1 := by
        intro heq; rw [heq, bytesLt_irrefl] at hlt; exact absurd hlt (by decide)
      by_cases h1 : x.1 == k <;> by_cases h2 : e.1 == k <;> simp [h1, h2]
      exact (hne ((beq_iff_eq.mp h1).trans (beq_iff_eq.mp h2).symm)).elim
    · rw [valuesOf_flatten_cons]

/-- sorting the keys (as Encode does) changes no key's values -/
theorem valuesOf_sortEntries (k : Bytes) (es : Entries) :
    valuesOf k (flatten (AR.Values.sortEntries es)) = valuesOf k (flatten es) := by
  induction es with
  | nil => rfl
  | cons e es ih => rw [AR.Values.sortEntries, valuesOf_insertSorted, ih, valuesOf_flatten_cons]

theorem get_cons (e : Bytes × List Bytes) (es : Entries) (k : Bytes) :
    AR.Values.get ⟨e :: es⟩ k = if e.1 == k then e.2 else AR.Values.get ⟨es⟩ k := by
  simp only [AR.Values.get, List.find?_cons]
  by_cases h : e.1 == k <;> simp [h]

theorem valuesOf_flatten_not_mem (k : Bytes) (es : Entries) (h : k ∉ es.map (·.1)) : valuesOf k (flatten es) = [] := by
  induction es with
  | nil => rfl
  | cons e es ih =>
    simp only [List.map_cons, List.mem_cons, not_or] at h
    rw [valuesOf_flatten_cons, ih h.2]
    have : (e.1 == k) = false := by rw [beq_eq_false_iff_ne]; exact fun heq => h.1 heq.symm
    simp [this]

/-- with distinct keys (a Go map) the pairs under a key are that key's value list -/
theorem valuesOf_flatten_get (k : Bytes) (es : Entries) (h : DistinctKeys es) :
    valuesOf k (flatten es) = AR.Values.get ⟨es⟩ k := by
  induction es with
  | nil => rfl
  | cons e es ih =>
    simp only [DistinctKeys, List.map_cons, List.nodup_cons] at h
    rw [valuesOf_flatten_cons, get_cons, ih h.2]
    by_cases hk : e.1 == k
    · simp only [hk, if_true]
      have : k ∉ es.map (·.1) := by rw [← beq_iff_eq.mp hk]; exact h.1
      rw [← ih h.2, valuesOf_flatten_not_mem k es this]; simp
    · simp [hk]

theorem encode_eq (m : AR.Values) :
    m.Encode = AR.Values.joinAmp ((flatten (AR.Values.sortEntries m.entries)).map encPair) := by
  simp only [AR.Values.Encode, flatten, List.map_flatMap, List.map_map]
  rfl

/-- **decoding what `Values.Encode` wrote yields, under every key, exactly that key's values** -/
theorem valuesOf_parseQuery_Encode (m : AR.Values) (h : DistinctKeys m.entries) (k : Bytes) :
    valuesOf k (parseQuery m.Encode) = m.get k := by
  rw [encode_eq, parseQuery_joinAmp, valuesOf_sortEntries, valuesOf_flatten_get k _ h]

-- ---------------------------------------------------------------- the model's copies of the primitives

-- the model's own copies of the primitives agree with the specification's

theorem unhex_eq (c : UInt8) : AR.unhex c = hexVal c := rfl

theorem cut_eq (sep : UInt8) (s : Bytes) : AR.cut sep s = cut sep s := by
  induction s with
  | nil => rfl
  | cons c s ih => simp [AR.cut, cut, ih]

theorem splitOn_eq (sep : UInt8) (s : Bytes) : AR.splitOn sep s = splitOn sep s := by
  induction s with
  | nil => rfl
  | cons c s ih =>
    by_cases h : c = sep
    · simp [AR.splitOn, splitOn, ih, h]
    · simp only [AR.splitOn, splitOn, ih]
      cases splitOn sep s <;> simp [h]

theorem unescapeS_eq (st : AR.Pct) (s : Bytes) :
    AR.unescapeS true st s = formDecodeS (match st with | .none => .none | .pct => .pct | .pct1 a => .pct1 a) s := by
  induction s generalizing st with
  | nil => cases st <;> rfl
  | cons c s ih =>
    cases st with
    | none => simp [AR.unescapeS, formDecodeS, ih]
    | pct => simp [AR.unescapeS, formDecodeS, ih, unhex_eq]
    | pct1 a =>
      simp only [AR.unescapeS, formDecodeS, ih, unhex_eq]
      cases hexVal a <;> cases hexVal c <;> rfl

theorem unescape_true_eq (s : Bytes) : AR.unescape true s = formDecode s := unescapeS_eq .none s

-- ---------------------------------------------------------------- appending to a query string

/-- splitting distributes over a separator in the middle, whatever stands in front of it -/
theorem splitOn_append_any (sep : UInt8) (a r : Bytes) : splitOn sep (a ++ sep :: r) = splitOn sep a ++ splitOn sep r := by
  induction a with
  | nil => simp [splitOn]
  | cons x a ih =>
    by_cases hx : x = sep
    · subst hx; simp [splitOn, ih]
    · simp only [List.cons_append, splitOn, ih]
      cases hs : splitOn sep a with
      | nil => exact absurd hs (splitOn_ne_nil sep a)
      | cons s ss => simp [hx]

theorem parseQuery_nil : parseQuery [] = [] := by
  simp [parseQuery, splitOn, parsePair]

/-- **a query string followed by `&` and more settings decodes to its own parameters followed by the new ones**
    (every existing query text, including settings the decoder rejects) -/
theorem parseQuery_append_amp (a e : Bytes) : parseQuery (a ++ 0x26 :: e) = parseQuery a ++ parseQuery e := by
  simp [parseQuery, splitOn_append_any]

/-- how `mergeQueryParams` joins the redirect URI's query text `a` and the encoded response `e` -/
def joinQuery (a e : Bytes) : Bytes := if a = [] then e else if e = [] then a else a ++ 0x26 :: e

theorem parseQuery_joinQuery (a e : Bytes) : parseQuery (joinQuery a e) = parseQuery a ++ parseQuery e := by
  unfold joinQuery
  split
  · rename_i h; subst h; simp [parseQuery_nil]
  · split
    · rename_i h; subst h; simp [parseQuery_nil]
    · exact parseQuery_append_amp a e

theorem unread_nil : unread [] = [] := by simp [unread, splitOn]

theorem unread_append_amp (a e : Bytes) : unread (a ++ 0x26 :: e) = unread a ++ unread e := by
  simp [unread, splitOn_append_any]

theorem unread_joinQuery (a e : Bytes) : unread (joinQuery a e) = unread a ++ unread e := by
  unfold joinQuery
  split
  · rename_i h; subst h; simp [unread_nil]
  · split
    · rename_i h; subst h; simp [unread_nil]
    · exact unread_append_amp a e

/-- every setting `Values.Encode` writes is read as a parameter -/
theorem unread_joinAmp (ps : List (Bytes × Bytes)) : unread (AR.Values.joinAmp (ps.map encPair)) = [] := by
  induction ps with
  | nil => simp [AR.Values.joinAmp, unread_nil]
  | cons p ps ih =>
    cases ps with
    | nil =>
      simp only [List.map_cons, List.map_nil, AR.Values.joinAmp, unread]
      rw [splitOn_nosep _ _ (fun b hb => (encPair_nodelim p b hb).1)]
      simp [parsePair_encPair]
    | cons q qs =>
      have h : AR.Values.joinAmp ((p :: q :: qs).map encPair) = encPair p ++ 0x26 :: AR.Values.joinAmp ((q :: qs).map encPair) := by
        simp [AR.Values.joinAmp]
      rw [h, unread_append_amp, ih]
      simp only [unread, List.append_nil]
      rw [splitOn_nosep _ _ (fun b hb => (encPair_nodelim p b hb).1)]
      simp [parsePair_encPair]

theorem cut_fst_nosep (sep : UInt8) (x : Bytes) : ∀ b ∈ (cut sep x).1, b ≠ sep := by
  induction x with
  | nil => simp [cut]
  | cons c x ih =>
    by_cases hc : c = sep
    · simp [cut, hc]
    · have hc' : (c == sep) = false := by simpa using hc
      intro b hb
      simp only [cut, hc', Bool.false_eq_true, if_false, List.mem_cons] at hb
      rcases hb with hb | hb
      · subst hb; exact hc
      · exact ih b hb

theorem cut_snd_mem (sep : UInt8) (x : Bytes) : ∀ b ∈ (cut sep x).2.getD [], b ∈ x := by
  induction x with
  | nil => simp [cut]
  | cons c x ih =>
    by_cases hc : c = sep
    · intro b hb
      have hb' : b ∈ x := by simpa [cut, hc] using hb
      exact List.mem_cons_of_mem _ hb'
    · have hc' : (c == sep) = false := by simpa using hc
      intro b hb
      simp only [cut, hc', Bool.false_eq_true, if_false] at hb
      exact List.mem_cons_of_mem _ (ih b hb)

/-- the query of a Location value / of a URI contains no `#` -/
theorem locationQuery_nohash (loc : Bytes) : ∀ b ∈ locationQuery loc, b ≠ 0x23 := by
  intro b hb
  unfold locationQuery at hb
  exact cut_fst_nosep 0x23 loc b (cut_snd_mem 0x3F _ b hb)

-- ---------------------------------------------------------------- the Location value

/-- what the theorems assume about `url.Parse`'s answer: the rendered part in front of the query contains neither `?` nor `#` -/
def BaseOK (u : AR.URL) : Prop := ∀ b ∈ u.base, b ≠ 0x23 ∧ b ≠ 0x3F
instance (u : AR.URL) : Decidable (BaseOK u) := by unfold BaseOK; infer_instance

def queryPart (u : AR.URL) : Bytes := if u.ForceQuery || !u.RawQuery.isEmpty then 0x3F :: u.RawQuery else []
def fragmentPart (u : AR.URL) : Bytes := if !u.Fragment.isEmpty then 0x23 :: u.EscapedFragment else []

theorem String_eq (u : AR.URL) : u.String = (u.base ++ queryPart u) ++ fragmentPart u := rfl

theorem queryPart_nohash (u : AR.URL) (hq : ∀ b ∈ u.RawQuery, b ≠ 0x23) : ∀ b ∈ queryPart u, b ≠ 0x23 := by
  intro b hb
  unfold queryPart at hb
  split at hb
  · simp only [List.mem_cons] at hb
    rcases hb with hb | hb
    · subst hb; decide
    · exact hq b hb
  · simp at hb

theorem beforeHash_String (u : AR.URL) (hb : BaseOK u) (hq : ∀ b ∈ u.RawQuery, b ≠ 0x23) :
    cut 0x23 u.String = (u.base ++ queryPart u, if !u.Fragment.isEmpty then some u.EscapedFragment else none) := by
  have hpre : ∀ b ∈ u.base ++ queryPart u, b ≠ 0x23 := by
    intro b hb'
    rw [List.mem_append] at hb'
    rcases hb' with h | h
    · exact (hb b h).1
    · exact queryPart_nohash u hq b h
  rw [String_eq]
  unfold fragmentPart
  split
  · rw [cut_append_sep _ _ _ hpre]
  · rw [List.append_nil, cut_nosep _ _ hpre]

theorem cutQuery_base (u : AR.URL) (hb : BaseOK u) :
    cut 0x3F (u.base ++ queryPart u) = (u.base, if u.ForceQuery || !u.RawQuery.isEmpty then some u.RawQuery else none) := by
  have hbase : ∀ b ∈ u.base, b ≠ 0x3F := fun b h => (hb b h).2
  unfold queryPart
  split
  · rw [cut_append_sep _ _ _ hbase]
  · rw [List.append_nil, cut_nosep _ _ hbase]

/-- the query a user agent / the RP sees in `u.String()` is `u.RawQuery` -/
theorem locationQuery_String (u : AR.URL) (hb : BaseOK u) (hq : ∀ b ∈ u.RawQuery, b ≠ 0x23) :
    locationQuery u.String = u.RawQuery := by
  unfold locationQuery
  rw [beforeHash_String u hb hq, cutQuery_base u hb]
  split
  · rfl
  · rename_i h
    simp only [Bool.or_eq_true, Bool.not_eq_true', not_or, Bool.not_eq_true, Bool.not_eq_false] at h
    simp only [Option.getD_none]
    exact (List.isEmpty_iff.mp h.2).symm

theorem locationBase_String (u : AR.URL) (hb : BaseOK u) (hq : ∀ b ∈ u.RawQuery, b ≠ 0x23) :
    locationBase u.String = u.base := by
  unfold locationBase
  rw [beforeHash_String u hb hq, cutQuery_base u hb]

theorem locationFragment_String (u : AR.URL) (hb : BaseOK u) (hq : ∀ b ∈ u.RawQuery, b ≠ 0x23) :
    locationFragment u.String = if !u.Fragment.isEmpty then some u.EscapedFragment else none := by
  unfold locationFragment
  rw [beforeHash_String u hb hq]

theorem Encode_nohash (m : AR.Values) : ∀ b ∈ m.Encode, b ≠ 0x23 := by
  intro b hb
  rw [encode_eq] at hb
  exact (joinAmp_nodelim _ b hb).1

-- ---------------------------------------------------------------- query mode

theorem coe_empty : ((↑("" : String)) : AR.Bytes) = [] := by decide
theorem coe_amp : ((↑("&" : String)) : AR.Bytes) = [0x26] := by decide

/-- the regenerated `mergeQueryParams`: the redirect URI's query text is kept as it is, the encoded response follows it -/
theorem mergeQueryParams_eq (now : Int) (u : AR.URL) (params : AR.Values) :
    GenWire.mergeQueryParams now u params = ({ u with RawQuery := joinQuery u.RawQuery params.Encode } : AR.URL).String := by
  unfold GenWire.mergeQueryParams joinQuery
  simp only [coe_empty, coe_amp, beq_iff_eq, bne_iff_ne, ne_eq, ite_not]
  by_cases h1 : u.RawQuery = []
  · simp [h1]
  · by_cases h2 : params.Encode = []
    · simp [h1, h2]
    · simp only [h1, h2, if_false]
      show ({ u with RawQuery := (u.RawQuery ++ [0x26]) ++ params.Encode } : AR.URL).String = _
      simp

theorem joinQuery_nohash (a e : Bytes) (ha : ∀ b ∈ a, b ≠ 0x23) (he : ∀ b ∈ e, b ≠ 0x23) : ∀ b ∈ joinQuery a e, b ≠ 0x23 := by
  intro b hb
  unfold joinQuery at hb
  split at hb
  · exact he b hb
  · split at hb
    · exact ha b hb
    · simp only [List.mem_append, List.mem_cons] at hb
      rcases hb with hb | hb | hb
      · exact ha b hb
      · subst hb; decide
      · exact he b hb

/-- **C11, query mode, all inputs.**  For every parsed redirect URI, every response (any keys, any byte strings as
    values) and every name `k`: decoding the query of the Location value that the regenerated `mergeQueryParams`
    builds yields the values the redirect URI's own query had under `k`, followed by the response's values —
    response parameters arrive unchanged and pre-existing query parameters are preserved. -/
theorem c11_query_roundtrip (now : Int) (u : AR.URL) (params : AR.Values) (hb : BaseOK u)
    (hq : ∀ b ∈ u.RawQuery, b ≠ 0x23) (hp : DistinctKeys params.entries) (k : Bytes) :
    valuesOf k (parseQuery (locationQuery (GenWire.mergeQueryParams now u params)))
      = valuesOf k (parseQuery u.RawQuery) ++ params.get k := by
  have key := locationQuery_String ({ u with RawQuery := joinQuery u.RawQuery params.Encode } : AR.URL) hb
    (joinQuery_nohash _ _ hq (Encode_nohash _))
  rw [mergeQueryParams_eq, key]
  show valuesOf k (parseQuery (joinQuery u.RawQuery params.Encode)) = _
  rw [parseQuery_joinQuery, valuesOf_append, valuesOf_parseQuery_Encode _ hp]

/-- **the redirect URI's own query text is still there, byte for byte**: the query of the Location value starts
    with it (also the parts of it no decoder accepts) -/
theorem c11_query_text_kept (now : Int) (u : AR.URL) (params : AR.Values) (hb : BaseOK u) (hq : ∀ b ∈ u.RawQuery, b ≠ 0x23) :
    ∃ rest, locationQuery (GenWire.mergeQueryParams now u params) = u.RawQuery ++ rest := by
  have key := locationQuery_String ({ u with RawQuery := joinQuery u.RawQuery params.Encode } : AR.URL) hb
    (joinQuery_nohash _ _ hq (Encode_nohash _))
  rw [mergeQueryParams_eq, key]
  show ∃ rest, joinQuery u.RawQuery params.Encode = _
  unfold joinQuery
  split
  · rename_i h; exact ⟨params.Encode, by simp [h]⟩
  · split
    · exact ⟨[], by simp⟩
    · exact ⟨0x26 :: params.Encode, rfl⟩

/-- … and the settings of it that `parseQuery` does not read (`a;b=1`, `%zz=1`) are exactly those the Location's query has -/
theorem c11_query_unread_kept (now : Int) (u : AR.URL) (params : AR.Values) (hb : BaseOK u) (hq : ∀ b ∈ u.RawQuery, b ≠ 0x23) :
    unread (locationQuery (GenWire.mergeQueryParams now u params)) = unread u.RawQuery := by
  have key := locationQuery_String ({ u with RawQuery := joinQuery u.RawQuery params.Encode } : AR.URL) hb
    (joinQuery_nohash _ _ hq (Encode_nohash _))
  rw [mergeQueryParams_eq, key]
  show unread (joinQuery u.RawQuery params.Encode) = _
  rw [unread_joinQuery, encode_eq, unread_joinAmp, List.append_nil]

/-- the redirect target in front of the query is untouched -/
theorem c11_query_base (now : Int) (u : AR.URL) (params : AR.Values) (hb : BaseOK u) (hq : ∀ b ∈ u.RawQuery, b ≠ 0x23) :
    locationBase (GenWire.mergeQueryParams now u params) = u.base := by
  rw [mergeQueryParams_eq]
  exact locationBase_String ({ u with RawQuery := joinQuery u.RawQuery params.Encode } : AR.URL) hb
    (joinQuery_nohash _ _ hq (Encode_nohash _))

-- ---------------------------------------------------------------- fragment mode

/-- `s` is a run of complete escape units for `unescape(…, encodeFragment)`: in front of any text it decodes to
    some bytes `d` (not none when `s` is not empty) and leaves the rest to be decoded on its own -/
def Unit (s : Bytes) : Prop :=
  ∃ d, (s ≠ [] → d ≠ []) ∧ ∀ r, AR.unescape false (s ++ r) = (AR.unescape false r).map (d ++ ·)

theorem Unit.nil : Unit [] := ⟨[], by simp, fun r => by simp⟩

theorem Unit.append {a b : Bytes} (ha : Unit a) (hb : Unit b) : Unit (a ++ b) := by
  obtain ⟨da, hna, ha⟩ := ha
  obtain ⟨db, hnb, hb⟩ := hb
  refine ⟨da ++ db, ?_, fun r => ?_⟩
  · intro h
    by_cases h1 : a = []
    · have : b ≠ [] := by intro h2; exact h (by simp [h1, h2])
      simp [hnb this]
    · simp [hna h1]
  · rw [List.append_assoc, ha, hb]
    cases AR.unescape false r <;> simp

/-- one output unit of an escaper: a byte other than `%`, or `%` and two hexadecimal digits -/
def unitShape (e : Bytes) : Bool :=
  match e with
  | [b] => b != 0x25
  | [p, a, b] => p == 0x25 && (hexVal a).isSome && (hexVal b).isSome
  | _ => false

theorem Unit.of_shape (e : Bytes) (h : unitShape e = true) : Unit e := by
  match e, h with
  | [b], h =>
    simp only [unitShape, bne_iff_ne, ne_eq] at h
    refine ⟨[b], by simp, fun r => ?_⟩
    have h25 : (b == 0x25) = false := by simpa using h
    simp [AR.unescape, AR.unescapeS, h25]
  | [p, a, b], h =>
    simp only [unitShape, Bool.and_eq_true, beq_iff_eq] at h
    obtain ⟨⟨hp, ha⟩, hb⟩ := h
    subst hp
    cases hxa : hexVal a with
    | none => simp [hxa] at ha
    | some x =>
      cases hxb : hexVal b with
      | none => simp [hxb] at hb
      | some y =>
        refine ⟨[UInt8.ofNat (x * 16 + y)], by simp, fun r => ?_⟩
        simp [AR.unescape, AR.unescapeS, unhex_eq, hxa, hxb]

set_option maxRecDepth 100000 in
theorem queryEscapeByte_unit : ∀ n : Fin 256, (fun c => unitShape (AR.queryEscapeByte c)) (UInt8.ofNat n.val) = true := by decide

theorem QueryEscape_unit (s : Bytes) : Unit (AR.QueryEscape s) := by
  induction s with
  | nil => exact Unit.nil
  | cons c s ih =>
    rw [QueryEscape_cons]
    exact Unit.append (Unit.of_shape _ (byteAll (fun c => unitShape (AR.queryEscapeByte c)) queryEscapeByte_unit c)) ih

theorem encPair_unit (p : Bytes × Bytes) : Unit (encPair p) := by
  have h : encPair p = AR.QueryEscape p.1 ++ ([0x3D] ++ AR.QueryEscape p.2) := by simp [encPair]
  rw [h]
  exact Unit.append (QueryEscape_unit _) (Unit.append (Unit.of_shape [0x3D] (by decide)) (QueryEscape_unit _))

theorem joinAmp_unit (ps : List (Bytes × Bytes)) : Unit (AR.Values.joinAmp (ps.map encPair)) := by
  induction ps with
  | nil => exact Unit.nil
  | cons p ps ih =>
    cases ps with
    | nil => simpa [AR.Values.joinAmp] using encPair_unit p
    | cons q qs =>
      have h : AR.Values.joinAmp ((p :: q :: qs).map encPair) = encPair p ++ ([0x26] ++ AR.Values.joinAmp ((q :: qs).map encPair)) := by
        simp [AR.Values.joinAmp]
      rw [h]
      exact Unit.append (encPair_unit p) (Unit.append (Unit.of_shape [0x26] (by decide)) ih)

/-- **what `url.Values.Encode` writes is well-formed percent-encoding**: `unescape(…, encodeFragment)` (and
    `url.PathUnescape`) accepts it, with a non-empty result unless it is empty -/
theorem unescape_Encode (m : AR.Values) : ∃ d, AR.unescape false m.Encode = some d ∧ (m.Encode ≠ [] → d ≠ []) := by
  obtain ⟨d, hne, hd⟩ := (encode_eq m ▸ joinAmp_unit _ : Unit m.Encode)
  refine ⟨d, ?_, hne⟩
  have := hd []
  simpa [AR.unescape, AR.unescapeS] using this

set_option maxRecDepth 100000 in
theorem queryEscapeByte_frag : ∀ n : Fin 256,
    (fun c => (AR.queryEscapeByte c).all (fun b => b == 0x25 || !AR.shouldEscapeFragment b)) (UInt8.ofNat n.val) = true := by decide

theorem QueryEscape_frag (s : Bytes) : ∀ b ∈ AR.QueryEscape s, b = 0x25 ∨ AR.shouldEscapeFragment b = false := by
  induction s with
  | nil => simp [AR.QueryEscape]
  | cons c s ih =>
    intro b hb
    rw [QueryEscape_cons, List.mem_append] at hb
    rcases hb with hb | hb
    · have := byteAll (fun c => (AR.queryEscapeByte c).all (fun b => b == 0x25 || !AR.shouldEscapeFragment b)) queryEscapeByte_frag c
      simp only [List.all_eq_true, Bool.or_eq_true, beq_iff_eq, Bool.not_eq_true'] at this
      exact this b hb
    · exact ih b hb

theorem joinAmp_frag (ps : List (Bytes × Bytes)) :
    ∀ b ∈ AR.Values.joinAmp (ps.map encPair), b = 0x25 ∨ AR.shouldEscapeFragment b = false := by
  have henc : ∀ p : Bytes × Bytes, ∀ b ∈ encPair p, b = 0x25 ∨ AR.shouldEscapeFragment b = false := by
    intro p b hb
    simp only [encPair, List.mem_append, List.mem_cons] at hb
    rcases hb with hb | hb | hb
    · exact QueryEscape_frag _ b hb
    · subst hb; right; decide
    · exact QueryEscape_frag _ b hb
  induction ps with
  | nil => simp [AR.Values.joinAmp]
  | cons p ps ih =>
    cases ps with
    | nil =>
      intro b hb
      simp only [List.map_cons, List.map_nil, AR.Values.joinAmp] at hb
      exact henc p b hb
    | cons q qs =>
      intro b hb
      simp only [List.map_cons, AR.Values.joinAmp, List.mem_append, List.mem_cons] at hb
      rcases hb with hb | hb | hb
      · exact henc p b hb
      · subst hb; right; decide
      · exact ih b (by simpa [List.map_cons] using hb)

/-- … and only of bytes a raw fragment may contain (`validEncoded(…, encodeFragment)`) -/
theorem validEncodedFragment_Encode (m : AR.Values) : AR.validEncodedFragment m.Encode = true := by
  unfold AR.validEncodedFragment
  rw [List.all_eq_true]
  intro b hb
  rw [encode_eq] at hb
  rcases joinAmp_frag _ b hb with h | h
  · subst h; decide
  · simp [h]

/-- the regenerated `setFragment`: the encoded response becomes the RAW fragment, `Fragment` its unescaped form -/
theorem setFragment_eq (now : Int) (u : AR.URL) (params : AR.Values) :
    GenWire.setFragment now u params
      = ({ u with Fragment := (AR.PathUnescape params.Encode).1, RawFragment := params.Encode } : AR.URL).String := rfl

/-- `URL.String()` then emits the raw fragment as it is: nothing is escaped a second time -/
theorem escapedFragment_setFragment (u : AR.URL) (params : AR.Values) (hne : params.Encode ≠ []) :
    ({ u with Fragment := (AR.PathUnescape params.Encode).1, RawFragment := params.Encode } : AR.URL).EscapedFragment = params.Encode
    ∧ (AR.PathUnescape params.Encode).1 ≠ [] := by
  obtain ⟨d, hd, hdne⟩ := unescape_Encode params
  have hpu : (AR.PathUnescape params.Encode).1 = d := by simp [AR.PathUnescape, hd]
  refine ⟨?_, by rw [hpu]; exact hdne hne⟩
  have hemp : (params.Encode).isEmpty = false := by
    cases h : params.Encode with
    | nil => exact absurd h hne
    | cons _ _ => rfl
  simp [AR.URL.EscapedFragment, hpu, hd, hemp, validEncodedFragment_Encode]

/-- **what fragment mode puts on the wire, all inputs**: the raw fragment of the Location value IS the form-encoded
    response (`Values.Encode`), escaped once; the redirect URI's own query and target stay (a fragment the redirect
    URI had is replaced). -/
theorem c11_fragment_wire (now : Int) (u : AR.URL) (params : AR.Values) (hb : BaseOK u)
    (hq : ∀ b ∈ u.RawQuery, b ≠ 0x23) :
    locationFragment (GenWire.setFragment now u params) = (if params.Encode = [] then none else some params.Encode)
    ∧ locationQuery (GenWire.setFragment now u params) = u.RawQuery
    ∧ locationBase (GenWire.setFragment now u params) = u.base := by
  rw [setFragment_eq]
  refine ⟨?_, locationQuery_String ({ u with Fragment := (AR.PathUnescape params.Encode).1, RawFragment := params.Encode } : AR.URL) hb hq,
    locationBase_String ({ u with Fragment := (AR.PathUnescape params.Encode).1, RawFragment := params.Encode } : AR.URL) hb hq⟩
  rw [locationFragment_String ({ u with Fragment := (AR.PathUnescape params.Encode).1, RawFragment := params.Encode } : AR.URL) hb hq]
  by_cases hne : params.Encode = []
  · simp [hne, AR.PathUnescape, AR.unescape, AR.unescapeS]
  · obtain ⟨h1, h2⟩ := escapedFragment_setFragment u params hne
    have : ((AR.PathUnescape params.Encode).1).isEmpty = false := by
      cases h : (AR.PathUnescape params.Encode).1 with
      | nil => exact absurd h h2
      | cons _ _ => rfl
    simp only [this, Bool.not_false, if_true, hne, if_false, h1]

/-- **C11, fragment mode, ALL byte strings**: whatever the response contains (`+ / = & % # ?`, spaces, quotes, any
    bytes), the raw fragment a user agent sees is the encoded response, and decoding it ONCE yields every
    parameter unchanged. -/
theorem c11_fragment_roundtrip (now : Int) (u : AR.URL) (params : AR.Values) (hb : BaseOK u)
    (hq : ∀ b ∈ u.RawQuery, b ≠ 0x23) (hne : params.Encode ≠ []) (hp : DistinctKeys params.entries) :
    ∃ f, locationFragment (GenWire.setFragment now u params) = some f ∧ ∀ k, valuesOf k (parseQuery f) = params.get k := by
  refine ⟨params.Encode, ?_, fun k => valuesOf_parseQuery_Encode params hp k⟩
  rw [(c11_fragment_wire now u params hb hq).1]
  simp [hne]

/-- a response without any parameter leaves no fragment -/
theorem Encode_nil_flatten (m : AR.Values) (hd : DistinctKeys m.entries) (h : m.Encode = []) : flatten m.entries = [] := by
  cases hf : flatten m.entries with
  | nil => rfl
  | cons p ps =>
    exfalso
    have h1 := valuesOf_parseQuery_Encode m hd p.1
    rw [h, parseQuery_nil, ← valuesOf_flatten_get p.1 _ hd, hf] at h1
    simp [valuesOf] at h1

end C11
