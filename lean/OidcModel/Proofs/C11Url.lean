/-
  C11, part 1: net/url.  Byte-level round trips (induction over the byte list):
  the user agent's form-urlencoded decoder inverts url.QueryEscape / url.Values.Encode for ALL byte strings,
  and what that means for the Location value built by mergeQueryParams / setFragment as regenerated from the source.
-/
import OidcModel.Spec.C11
import OidcModel.Generated.AuthResponse

namespace C11
open UA

-- ---------------------------------------------------------------- all 256 bytes

theorem byteAll (P : UInt8 → Bool) (h : ∀ n : Fin 256, P (UInt8.ofNat n.val) = true) (c : UInt8) : P c = true := by
  have := h ⟨c.toNat, c.toNat_lt⟩
  simpa using this

-- ---------------------------------------------------------------- QueryEscape / formDecode

/-- `e` is an encoding of the single byte `c` that `formDecode` reads back in one go -/
def escShape (e : Bytes) (c : UInt8) : Bool :=
  match e with
  | [b] => (b == 0x2B && c == 0x20) || (b == c && c != 0x25 && c != 0x2B)
  | [p, a, b] => p == 0x25 && (match hexVal a, hexVal b with | some x, some y => UInt8.ofNat (x * 16 + y) == c | _, _ => false)
  | _ => false

theorem formDecode_of_shape (e : Bytes) (c : UInt8) (r : Bytes) (h : escShape e c = true) :
    formDecode (e ++ r) = (formDecode r).map (c :: ·) := by
  unfold formDecode
  match e, h with
  | [b], h =>
    simp only [escShape, Bool.or_eq_true, Bool.and_eq_true, beq_iff_eq, bne_iff_ne, ne_eq] at h
    rcases h with ⟨hb, hc⟩ | ⟨⟨hb, h1⟩, h2⟩
    · subst hb; subst hc; simp [formDecodeS]
    · subst hb; simp [formDecodeS, h1, h2]
  | [p, a, b], h =>
    simp only [escShape, Bool.and_eq_true, beq_iff_eq] at h
    obtain ⟨hp, h2⟩ := h
    subst hp
    cases ha : hexVal a <;> cases hb : hexVal b <;> simp [ha, hb] at h2
    simp [formDecodeS, ha, hb, h2]

set_option maxRecDepth 100000 in
theorem queryEscapeByte_shape : ∀ n : Fin 256, (fun c => escShape (AR.queryEscapeByte c) c) (UInt8.ofNat n.val) = true := by decide

theorem QueryEscape_cons (c : UInt8) (s : Bytes) : AR.QueryEscape (c :: s) = AR.queryEscapeByte c ++ AR.QueryEscape s := by
  simp [AR.QueryEscape]

/-- **queryUnescape ∘ queryEscape = id**, for every byte string -/
theorem formDecode_QueryEscape (s : Bytes) : formDecode (AR.QueryEscape s) = some s := by
  induction s with
  | nil => simp [AR.QueryEscape, formDecode, formDecodeS]
  | cons c s ih =>
    have hs := byteAll (fun c => escShape (AR.queryEscapeByte c) c) queryEscapeByte_shape c
    rw [QueryEscape_cons, formDecode_of_shape _ c _ hs, ih]; rfl

/-- bytes that separate or terminate things in a query string / URL -/
def isDelim (b : UInt8) : Bool := b == 0x26 || b == 0x3D || b == 0x3B || b == 0x23 || b == 0x3F

set_option maxRecDepth 100000 in
theorem queryEscapeByte_nodelim : ∀ n : Fin 256, (fun c => (AR.queryEscapeByte c).all (fun b => !isDelim b)) (UInt8.ofNat n.val) = true := by decide

/-- QueryEscape never outputs `& = ; # ?` -/
theorem QueryEscape_nodelim (s : Bytes) : ∀ b ∈ AR.QueryEscape s, isDelim b = false := by
  induction s with
  | nil => simp [AR.QueryEscape]
  | cons c s ih =>
    intro b hb
    rw [QueryEscape_cons, List.mem_append] at hb
    rcases hb with hb | hb
    · have := byteAll (fun c => (AR.queryEscapeByte c).all (fun b => !isDelim b)) queryEscapeByte_nodelim c
      simp only [List.all_eq_true, Bool.not_eq_true'] at this
      exact this b hb
    · exact ih b hb

theorem isDelim_ne {b : UInt8} (h : isDelim b = false) : b ≠ 0x26 ∧ b ≠ 0x3D ∧ b ≠ 0x3B ∧ b ≠ 0x23 ∧ b ≠ 0x3F := by
  simp only [isDelim, Bool.or_eq_false_iff, beq_eq_false_iff_ne, ne_eq] at h
  obtain ⟨⟨⟨⟨h1, h2⟩, h3⟩, h4⟩, h5⟩ := h
  exact ⟨h1, h2, h3, h4, h5⟩

-- ---------------------------------------------------------------- cut / splitOn

theorem cut_append_sep (sep : UInt8) (a r : Bytes) (h : ∀ b ∈ a, b ≠ sep) : cut sep (a ++ sep :: r) = (a, some r) := by
  induction a with
  | nil => simp [cut]
  | cons x a ih =>
    have hx : x ≠ sep := h x (by simp)
    have ih' := ih (fun b hb => h b (by simp [hb]))
    simp [cut, hx, ih']

theorem cut_nosep (sep : UInt8) (a : Bytes) (h : ∀ b ∈ a, b ≠ sep) : cut sep a = (a, none) := by
  induction a with
  | nil => simp [cut]
  | cons x a ih =>
    have hx : x ≠ sep := h x (by simp)
    have ih' := ih (fun b hb => h b (by simp [hb]))
    simp [cut, hx, ih']

theorem splitOn_ne_nil (sep : UInt8) (a : Bytes) : splitOn sep a ≠ [] := by
  induction a with
  | nil => simp [splitOn]
  | cons x a ih =>
    simp only [splitOn]
    split
    · simp
    · split <;> simp

theorem splitOn_append_sep (sep : UInt8) (a r : Bytes) (h : ∀ b ∈ a, b ≠ sep) :
    splitOn sep (a ++ sep :: r) = a :: splitOn sep r := by
  induction a with
  | nil => simp [splitOn]
  | cons x a ih =>
    have hx : x ≠ sep := h x (by simp)
    have ih' := ih (fun b hb => h b (by simp [hb]))
    simp [splitOn, hx, ih']

theorem splitOn_nosep (sep : UInt8) (a : Bytes) (h : ∀ b ∈ a, b ≠ sep) : splitOn sep a = [a] := by
  induction a with
  | nil => simp [splitOn]
  | cons x a ih =>
    have hx : x ≠ sep := h x (by simp)
    have ih' := ih (fun b hb => h b (by simp [hb]))
    simp [splitOn, hx, ih']

-- ---------------------------------------------------------------- Values.Encode / parseQuery

/-- one `key=value` setting as url.Values.Encode writes it -/
def encPair (p : Bytes × Bytes) : Bytes := AR.QueryEscape p.1 ++ 0x3D :: AR.QueryEscape p.2

theorem encPair_nodelim (p : Bytes × Bytes) : ∀ b ∈ encPair p, b ≠ 0x26 ∧ b ≠ 0x3B ∧ b ≠ 0x23 ∧ b ≠ 0x3F := by
  intro b hb
  simp only [encPair, List.mem_append, List.mem_cons] at hb
  rcases hb with hb | hb | hb
  · have := isDelim_ne (QueryEscape_nodelim _ b hb); exact ⟨this.1, this.2.2.1, this.2.2.2.1, this.2.2.2.2⟩
  · subst hb; decide
  · have := isDelim_ne (QueryEscape_nodelim _ b hb); exact ⟨this.1, this.2.2.1, this.2.2.2.1, this.2.2.2.2⟩

theorem parsePair_encPair (p : Bytes × Bytes) : parsePair (encPair p) = some p := by
  have hne : (encPair p).isEmpty = false := by simp [encPair]
  have hsemi : (0x3B : UInt8) ∉ encPair p := fun hc => (encPair_nodelim p _ hc).2.1 rfl
  have hcut : cut 0x3D (encPair p) = (AR.QueryEscape p.1, some (AR.QueryEscape p.2)) :=
    cut_append_sep _ _ _ (fun b hb => (isDelim_ne (QueryEscape_nodelim _ b hb)).2.1)
  simp [parsePair, hne, hsemi, hcut, formDecode_QueryEscape]

/-- **the form-urlencoded decoder inverts `key=value&…` as Encode writes it** (any list of pairs, any bytes) -/
theorem parseQuery_joinAmp (ps : List (Bytes × Bytes)) : parseQuery (AR.Values.joinAmp (ps.map encPair)) = ps := by
  induction ps with
  | nil => simp [parseQuery, AR.Values.joinAmp, splitOn, parsePair]
  | cons p ps ih =>
    cases ps with
    | nil =>
      simp only [List.map_cons, List.map_nil, AR.Values.joinAmp, parseQuery]
      rw [splitOn_nosep _ _ (fun b hb => (encPair_nodelim p b hb).1)]
      simp [parsePair_encPair]
    | cons q qs =>
      simp only [List.map_cons, AR.Values.joinAmp, parseQuery]
      rw [splitOn_append_sep _ _ _ (fun b hb => (encPair_nodelim p b hb).1)]
      simp only [List.filterMap_cons, parsePair_encPair]
      have := ih
      simp only [List.map_cons, parseQuery] at this
      rw [this]

theorem joinAmp_nodelim (ps : List (Bytes × Bytes)) : ∀ b ∈ AR.Values.joinAmp (ps.map encPair), b ≠ 0x23 ∧ b ≠ 0x3F := by
  induction ps with
  | nil => simp [AR.Values.joinAmp]
  | cons p ps ih =>
    cases ps with
    | nil =>
      intro b hb
      simp only [List.map_cons, List.map_nil, AR.Values.joinAmp] at hb
      exact ⟨(encPair_nodelim p b hb).2.2.1, (encPair_nodelim p b hb).2.2.2⟩
    | cons q qs =>
      intro b hb
      simp only [List.map_cons, AR.Values.joinAmp, List.mem_append, List.mem_cons] at hb
      rcases hb with hb | hb | hb
      · exact ⟨(encPair_nodelim p b hb).2.2.1, (encPair_nodelim p b hb).2.2.2⟩
      · subst hb; decide
      · exact ih b (by simpa [List.map_cons] using hb)

-- ---------------------------------------------------------------- url.Values as an association list

abbrev Entries := List (Bytes × List Bytes)

/-- the `key=value` pairs of a multimap, entry by entry -/
def flatten (es : Entries) : List (Bytes × Bytes) := es.flatMap fun e => e.2.map (e.1, ·)

def DistinctKeys (es : Entries) : Prop := (es.map (·.1)).Nodup
instance (es : Entries) : Decidable (DistinctKeys es) := by unfold DistinctKeys; infer_instance

theorem flatten_cons (e : Bytes × List Bytes) (es : Entries) : flatten (e :: es) = e.2.map (e.1, ·) ++ flatten es := by
  simp [flatten]

theorem valuesOf_append (k : Bytes) (a b : List (Bytes × Bytes)) : valuesOf k (a ++ b) = valuesOf k a ++ valuesOf k b := by
  simp [valuesOf]

theorem valuesOf_entry (k k' : Bytes) (vs : List Bytes) :
    valuesOf k (vs.map (k', ·)) = if k' == k then vs else [] := by
  induction vs with
  | nil => simp [valuesOf]
  | cons v vs ih =>
    simp only [valuesOf, List.map_cons, List.filter_cons] at ih ⊢
    by_cases h : k' == k <;> simp [h] at ih ⊢ <;> exact ih

theorem valuesOf_flatten_cons (k : Bytes) (e : Bytes × List Bytes) (es : Entries) :
    valuesOf k (flatten (e :: es)) = (if e.1 == k then e.2 else []) ++ valuesOf k (flatten es) := by
  rw [flatten_cons, valuesOf_append, valuesOf_entry]

theorem bytesLt_irrefl (a : Bytes) : AR.bytesLt a a = false := by
  induction a with
  | nil => rfl
  | cons x a ih => simp [AR.bytesLt, ih]

theorem valuesOf_insertSorted (k : Bytes) (e : Bytes × List Bytes) (xs : Entries) :
    valuesOf k (flatten (AR.Values.insertSorted e xs)) = (if e.1 == k then e.2 else []) ++ valuesOf k (flatten xs) := by
  induction xs with
  | nil => simp [AR.Values.insertSorted, valuesOf_flatten_cons]
  | cons x xs ih =>
    simp only [AR.Values.insertSorted]
    split
    · rename_i hlt
      rw [valuesOf_flatten_cons, ih, valuesOf_flatten_cons]
      have hne : x.1 ≠ e.1 := by
        intro heq; rw [heq, bytesLt_irrefl] at hlt; exact absurd hlt (by decide)
      by_cases h1 : x.1 == k <;> by_cases h2 : e.1 == k <;> simp [h1, h2]
      exact (hne ((beq_iff_eq.mp h1).trans (beq_iff_eq.mp h2).symm)).elim
    · rw [valuesOf_flatten_cons]

/-- sorting the keys (as Encode does) changes no key's values -/
theorem valuesOf_sortEntries (k : Bytes) (es : Entries) :
    valuesOf k (flatten (AR.Values.sortEntries es)) = valuesOf k (flatten es) := by
  induction es with
  | nil => rfl
  | cons e es ih => rw [AR.Values.sortEntries, valuesOf_insertSorted, ih, valuesOf_flatten_cons]

theorem get_cons (e : Bytes × List Bytes) (es : Entries) (k : Bytes) :
    AR.Values.get ⟨e :: es⟩ k = if e.1 == k then e.2 else AR.Values.get ⟨es⟩ k := by
  simp only [AR.Values.get, List.find?_cons]
  by_cases h : e.1 == k <;> simp [h]

theorem valuesOf_flatten_not_mem (k : Bytes) (es : Entries) (h : k ∉ es.map (·.1)) : valuesOf k (flatten es) = [] := by
  induction es with
  | nil => rfl
  | cons e es ih =>
    simp only [List.map_cons, List.mem_cons, not_or] at h
    rw [valuesOf_flatten_cons, ih h.2]
    have : (e.1 == k) = false := by rw [beq_eq_false_iff_ne]; exact fun heq => h.1 heq.symm
    simp [this]

/-- with distinct keys (a Go map) the pairs under a key are that key's value list -/
theorem valuesOf_flatten_get (k : Bytes) (es : Entries) (h : DistinctKeys es) :
    valuesOf k (flatten es) = AR.Values.get ⟨es⟩ k := by
  induction es with
  | nil => rfl
  | cons e es ih =>
    simp only [DistinctKeys, List.map_cons, List.nodup_cons] at h
    rw [valuesOf_flatten_cons, get_cons, ih h.2]
    by_cases hk : e.1 == k
    · simp only [hk, if_true]
      have : k ∉ es.map (·.1) := by rw [← beq_iff_eq.mp hk]; exact h.1
      rw [← ih h.2, valuesOf_flatten_not_mem k es this]; simp
    · simp [hk]

theorem encode_eq (m : AR.Values) :
    m.Encode = AR.Values.joinAmp ((flatten (AR.Values.sortEntries m.entries)).map encPair) := by
  simp only [AR.Values.Encode, flatten, List.map_flatMap, List.map_map]
  rfl

/-- **decoding what `Values.Encode` wrote yields, under every key, exactly that key's values** -/
theorem valuesOf_parseQuery_Encode (m : AR.Values) (h : DistinctKeys m.entries) (k : Bytes) :
    valuesOf k (parseQuery m.Encode) = m.get k := by
  rw [encode_eq, parseQuery_joinAmp, valuesOf_sortEntries, valuesOf_flatten_get k _ h]

-- ---------------------------------------------------------------- Values.Add, url.ParseQuery, the merge loop

theorem get_addEntry (es : Entries) (k v k' : Bytes) :
    AR.Values.get ⟨AR.Values.addEntry es k v⟩ k' = AR.Values.get ⟨es⟩ k' ++ (if k == k' then [v] else []) := by
  induction es with
  | nil =>
    by_cases h : k = k'
    · subst h; simp [AR.Values.addEntry, get_cons, AR.Values.get]
    · have : (k == k') = false := by simp [h]
      simp [AR.Values.addEntry, get_cons, AR.Values.get, this]
  | cons e es ih =>
    by_cases he : e.1 = k
    · subst he
      by_cases hk : e.1 = k'
      · subst hk; simp [AR.Values.addEntry, get_cons]
      · have : (e.1 == k') = false := by simp [hk]
        simp [AR.Values.addEntry, get_cons, this]
    · have he' : (e.1 == k) = false := by simp [he]
      by_cases hk : e.1 = k'
      · subst hk
        have : (k == e.1) = false := by simp; exact fun h => he h.symm
        simp [AR.Values.addEntry, get_cons, he', this]
      · have : (e.1 == k') = false := by simp [hk]
        simp [AR.Values.addEntry, get_cons, he', this, ih]

theorem keys_addEntry (es : Entries) (k v : Bytes) :
    (AR.Values.addEntry es k v).map (·.1) = if k ∈ es.map (·.1) then es.map (·.1) else es.map (·.1) ++ [k] := by
  induction es with
  | nil => simp [AR.Values.addEntry]
  | cons e es ih =>
    by_cases he : e.1 = k
    · subst he; simp [AR.Values.addEntry]
    · have he' : (e.1 == k) = false := by simp [he]
      have hne : ¬ k = e.1 := fun h => he h.symm
      simp only [AR.Values.addEntry, he', Bool.false_eq_true, if_false, List.map_cons, ih, List.mem_cons, hne, false_or]
      split <;> simp

theorem distinct_addEntry (es : Entries) (k v : Bytes) (h : DistinctKeys es) : DistinctKeys (AR.Values.addEntry es k v) := by
  unfold DistinctKeys at *
  rw [keys_addEntry]
  split
  · exact h
  · rename_i hk
    rw [List.nodup_append]
    refine ⟨h, by simp, ?_⟩
    intro a ha b hb
    simp only [List.mem_singleton] at hb
    subst hb
    exact fun heq => hk (heq ▸ ha)

theorem get_Add (m : AR.Values) (k v k' : Bytes) : (m.Add k v).get k' = m.get k' ++ (if k == k' then [v] else []) :=
  get_addEntry m.entries k v k'

-- the model's own copies of the primitives agree with the specification's

theorem unhex_eq (c : UInt8) : AR.unhex c = hexVal c := rfl

theorem cut_eq (sep : UInt8) (s : Bytes) : AR.cut sep s = cut sep s := by
  induction s with
  | nil => rfl
  | cons c s ih => simp [AR.cut, cut, ih]

theorem splitOn_eq (sep : UInt8) (s : Bytes) : AR.splitOn sep s = splitOn sep s := by
  induction s with
  | nil => rfl
  | cons c s ih =>
    by_cases h : c = sep
    · simp [AR.splitOn, splitOn, ih, h]
    · simp only [AR.splitOn, splitOn, ih]
      cases splitOn sep s <;> simp [h]

theorem unescapeS_eq (st : AR.Pct) (s : Bytes) :
    AR.unescapeS true st s = formDecodeS (match st with | .none => .none | .pct => .pct | .pct1 a => .pct1 a) s := by
  induction s generalizing st with
  | nil => cases st <;> rfl
  | cons c s ih =>
    cases st with
    | none => simp [AR.unescapeS, formDecodeS, ih]
    | pct => simp [AR.unescapeS, formDecodeS, ih, unhex_eq]
    | pct1 a =>
      simp only [AR.unescapeS, formDecodeS, ih, unhex_eq]
      cases hexVal a <;> cases hexVal c <;> rfl

theorem unescape_true_eq (s : Bytes) : AR.unescape true s = formDecode s := unescapeS_eq .none s

/-- one setting of `url.ParseQuery` is one parameter of the specification's decoder -/
theorem addSetting_eq (m : AR.Values) (seg : Bytes) :
    AR.addSetting m seg = match parsePair seg with | some p => m.Add p.1 p.2 | none => m := by
  unfold AR.addSetting parsePair
  rw [cut_eq, unescape_true_eq, unescape_true_eq]
  by_cases h1 : seg.contains 0x3B = true
  · simp only [h1, if_true, Bool.or_true]
  · by_cases h2 : seg.isEmpty = true
    · simp only [h2, if_true, Bool.true_or]; split <;> rfl
    · have h1' : seg.contains 0x3B = false := by simpa using h1
      have h2' : seg.isEmpty = false := by simpa using h2
      simp only [h1', h2', Bool.false_eq_true, if_false, Bool.or_self]
      cases formDecode (cut 61 seg).1 <;> cases formDecode ((cut 61 seg).2.getD []) <;> rfl

theorem foldl_addSetting (segs : List Bytes) (m : AR.Values) (hm : DistinctKeys m.entries) (k : Bytes) :
    (segs.foldl AR.addSetting m).get k = m.get k ++ valuesOf k (segs.filterMap parsePair)
    ∧ DistinctKeys (segs.foldl AR.addSetting m).entries := by
  induction segs generalizing m with
  | nil => simp [valuesOf, hm]
  | cons seg segs ih =>
    simp only [List.foldl_cons, List.filterMap_cons]
    rw [addSetting_eq]
    cases hp : parsePair seg with
    | none => exact ih m hm
    | some p =>
      simp only
      have hd : DistinctKeys (m.Add p.1 p.2).entries := distinct_addEntry _ _ _ hm
      obtain ⟨h1, h2⟩ := ih (m.Add p.1 p.2) hd
      refine ⟨?_, h2⟩
      rw [h1, get_Add]
      simp only [valuesOf, List.filter_cons]
      by_cases hk : p.1 == k <;> simp [hk]

/-- **`uri.Query()` of the model holds, under every key, what the specification's decoder reads from the raw query** -/
theorem get_parseQuery (q k : Bytes) :
    (AR.parseQuery q).get k = valuesOf k (parseQuery q) ∧ DistinctKeys (AR.parseQuery q).entries := by
  have := foldl_addSetting (AR.splitOn 0x26 q) {} (by simp [DistinctKeys]) k
  unfold AR.parseQuery parseQuery
  rw [← splitOn_eq]
  simpa [AR.Values.get] using this

theorem foldl_enumFrom {α β : Type} (f : β → α → β) (l : List α) (n : Int) (init : β) :
    (Go.enumFrom n l).foldl (fun acc kv => f acc kv.2) init = l.foldl f init := by
  induction l generalizing n init with
  | nil => rfl
  | cons a l ih => simp [Go.enumFrom, ih]

theorem foldl_Add (vs : List Bytes) (m : AR.Values) (hm : DistinctKeys m.entries) (k k' : Bytes) :
    (vs.foldl (fun q v => q.Add k v) m).get k' = m.get k' ++ (if k == k' then vs else [])
    ∧ DistinctKeys (vs.foldl (fun q v => q.Add k v) m).entries := by
  induction vs generalizing m with
  | nil => simp [hm]
  | cons v vs ih =>
    simp only [List.foldl_cons]
    obtain ⟨h1, h2⟩ := ih (m.Add k v) (distinct_addEntry _ _ _ hm)
    refine ⟨?_, h2⟩
    rw [h1, get_Add]
    by_cases hk : k == k' <;> simp [hk]

/-- the double loop of mergeQueryParams as the translator renders it -/
def mergeLoop (params queries : AR.Values) : AR.Values :=
  Go.foldRange params queries (fun queries param values => Go.foldRange values queries (fun queries _ value => queries.Add param value))

theorem mergeLoop_get_aux (es : Entries) (m : AR.Values) (hm : DistinctKeys m.entries) (k' : Bytes) :
    (es.foldl (fun acc kv => (Go.enumFrom 0 kv.2).foldl (fun acc2 iv => acc2.Add kv.1 iv.2) acc) m).get k' = m.get k' ++ valuesOf k' (flatten es)
    ∧ DistinctKeys (es.foldl (fun acc kv => (Go.enumFrom 0 kv.2).foldl (fun acc2 iv => acc2.Add kv.1 iv.2) acc) m).entries := by
  induction es generalizing m with
  | nil => simp [flatten, valuesOf, hm]
  | cons e es ih =>
    simp only [List.foldl_cons]
    rw [foldl_enumFrom (fun (q : AR.Values) v => q.Add e.1 v)]
    obtain ⟨h1, h2⟩ := foldl_Add e.2 m hm e.1 k'
    obtain ⟨h3, h4⟩ := ih _ h2
    refine ⟨?_, h4⟩
    rw [h3, h1, valuesOf_flatten_cons, List.append_assoc]

/-- **after the merge loop every key holds its previous values followed by the response's** -/
theorem mergeLoop_get (params queries : AR.Values) (hq : DistinctKeys queries.entries) (hp : DistinctKeys params.entries) (k : Bytes) :
    (mergeLoop params queries).get k = queries.get k ++ params.get k ∧ DistinctKeys (mergeLoop params queries).entries := by
  have := mergeLoop_get_aux params.entries queries hq k
  rw [valuesOf_flatten_get k _ hp] at this
  exact this

-- ---------------------------------------------------------------- the Location value

/-- what the theorems assume about `url.Parse`'s answer: the rendered part in front of the query contains neither `?` nor `#` -/
def BaseOK (u : AR.URL) : Prop := ∀ b ∈ u.base, b ≠ 0x23 ∧ b ≠ 0x3F
instance (u : AR.URL) : Decidable (BaseOK u) := by unfold BaseOK; infer_instance

def queryPart (u : AR.URL) : Bytes := if u.ForceQuery || !u.RawQuery.isEmpty then 0x3F :: u.RawQuery else []
def fragmentPart (u : AR.URL) : Bytes := if !u.Fragment.isEmpty then 0x23 :: u.EscapedFragment else []

theorem String_eq (u : AR.URL) : u.String = (u.base ++ queryPart u) ++ fragmentPart u := rfl

theorem queryPart_nohash (u : AR.URL) (hq : ∀ b ∈ u.RawQuery, b ≠ 0x23) : ∀ b ∈ queryPart u, b ≠ 0x23 := by
  intro b hb
  unfold queryPart at hb
  split at hb
  · simp only [List.mem_cons] at hb
    rcases hb with hb | hb
    · subst hb; decide
    · exact hq b hb
  · simp at hb

theorem beforeHash_String (u : AR.URL) (hb : BaseOK u) (hq : ∀ b ∈ u.RawQuery, b ≠ 0x23) :
    cut 0x23 u.String = (u.base ++ queryPart u, if !u.Fragment.isEmpty then some u.EscapedFragment else none) := by
  have hpre : ∀ b ∈ u.base ++ queryPart u, b ≠ 0x23 := by
    intro b hb'
    rw [List.mem_append] at hb'
    rcases hb' with h | h
    · exact (hb b h).1
    · exact queryPart_nohash u hq b h
  rw [String_eq]
  unfold fragmentPart
  split
  · rw [cut_append_sep _ _ _ hpre]
  · rw [List.append_nil, cut_nosep _ _ hpre]

theorem cutQuery_base (u : AR.URL) (hb : BaseOK u) :
    cut 0x3F (u.base ++ queryPart u) = (u.base, if u.ForceQuery || !u.RawQuery.isEmpty then some u.RawQuery else none) := by
  have hbase : ∀ b ∈ u.base, b ≠ 0x3F := fun b h => (hb b h).2
  unfold queryPart
  split
  · rw [cut_append_sep _ _ _ hbase]
  · rw [List.append_nil, cut_nosep _ _ hbase]

/-- the query a user agent / the RP sees in `u.String()` is `u.RawQuery` -/
theorem locationQuery_String (u : AR.URL) (hb : BaseOK u) (hq : ∀ b ∈ u.RawQuery, b ≠ 0x23) :
    locationQuery u.String = u.RawQuery := by
  unfold locationQuery
  rw [beforeHash_String u hb hq, cutQuery_base u hb]
  split
  · rfl
  · rename_i h
    simp only [Bool.or_eq_true, Bool.not_eq_true', not_or, Bool.not_eq_true, Bool.not_eq_false] at h
    simp only [Option.getD_none]
    exact (List.isEmpty_iff.mp h.2).symm

theorem locationBase_String (u : AR.URL) (hb : BaseOK u) (hq : ∀ b ∈ u.RawQuery, b ≠ 0x23) :
    locationBase u.String = u.base := by
  unfold locationBase
  rw [beforeHash_String u hb hq, cutQuery_base u hb]

theorem locationFragment_String (u : AR.URL) (hb : BaseOK u) (hq : ∀ b ∈ u.RawQuery, b ≠ 0x23) :
    locationFragment u.String = if !u.Fragment.isEmpty then some u.EscapedFragment else none := by
  unfold locationFragment
  rw [beforeHash_String u hb hq]

theorem Encode_nohash (m : AR.Values) : ∀ b ∈ m.Encode, b ≠ 0x23 := by
  intro b hb
  rw [encode_eq] at hb
  exact (joinAmp_nodelim _ b hb).1

-- ---------------------------------------------------------------- query mode

theorem mergeQueryParams_eq (now : Int) (u : AR.URL) (params : AR.Values) :
    GenWire.mergeQueryParams now u params = ({ u with RawQuery := (mergeLoop params u.Query).Encode } : AR.URL).String := rfl

/-- **C11, query mode, all inputs.**  For every parsed redirect URI, every response (any keys, any byte strings as
    values) and every name `k`: decoding the query of the Location value that the regenerated `mergeQueryParams`
    builds yields the values the redirect URI's own query had under `k`, followed by the response's values —
    response parameters arrive unchanged and pre-existing query parameters are preserved. -/
theorem c11_query_roundtrip (now : Int) (u : AR.URL) (params : AR.Values) (hb : BaseOK u)
    (hp : DistinctKeys params.entries) (k : Bytes) :
    valuesOf k (parseQuery (locationQuery (GenWire.mergeQueryParams now u params)))
      = valuesOf k (parseQuery u.RawQuery) ++ params.get k := by
  have key := locationQuery_String ({ u with RawQuery := (mergeLoop params u.Query).Encode } : AR.URL) hb (Encode_nohash _)
  rw [mergeQueryParams_eq, key]
  obtain ⟨hq1, hq2⟩ := get_parseQuery u.RawQuery k
  obtain ⟨hm1, hm2⟩ := mergeLoop_get params u.Query hq2 hp k
  show valuesOf k (parseQuery (mergeLoop params u.Query).Encode) = _
  rw [valuesOf_parseQuery_Encode _ hm2, hm1]
  show (AR.parseQuery u.RawQuery).get k ++ _ = _
  rw [hq1]

/-- the redirect target in front of the query is untouched -/
theorem c11_query_base (now : Int) (u : AR.URL) (params : AR.Values) (hb : BaseOK u) :
    locationBase (GenWire.mergeQueryParams now u params) = u.base := by
  rw [mergeQueryParams_eq]
  exact locationBase_String ({ u with RawQuery := (mergeLoop params u.Query).Encode } : AR.URL) hb (Encode_nohash _)

-- ---------------------------------------------------------------- fragment mode

theorem setFragment_eq (now : Int) (u : AR.URL) (params : AR.Values) :
    GenWire.setFragment now u params = ({ u with Fragment := params.Encode } : AR.URL).String := rfl

/-- **what fragment mode puts on the wire, all inputs**: the response is form-encoded (`Values.Encode`) and then
    escaped a SECOND time by `URL.String()` (`escape(…, encodeFragment)`); the redirect URI's own query stays. -/
theorem c11_fragment_wire (now : Int) (u : AR.URL) (params : AR.Values) (hb : BaseOK u)
    (hq : ∀ b ∈ u.RawQuery, b ≠ 0x23) (hrf : u.RawFragment = []) (hne : params.Encode ≠ []) :
    locationFragment (GenWire.setFragment now u params) = some (AR.escapeFragment params.Encode)
    ∧ locationQuery (GenWire.setFragment now u params) = u.RawQuery
    ∧ locationBase (GenWire.setFragment now u params) = u.base := by
  rw [setFragment_eq]
  refine ⟨?_, locationQuery_String ({ u with Fragment := params.Encode } : AR.URL) hb hq,
    locationBase_String ({ u with Fragment := params.Encode } : AR.URL) hb hq⟩
  rw [locationFragment_String ({ u with Fragment := params.Encode } : AR.URL) hb hq]
  have : (params.Encode).isEmpty = false := by
    cases h : params.Encode with
    | nil => exact absurd h hne
    | cons _ _ => rfl
  simp [this, AR.URL.EscapedFragment, hrf]

theorem escapeFragment_id (x : Bytes) (h : ∀ b ∈ x, AR.shouldEscapeFragment b = false) : AR.escapeFragment x = x := by
  induction x with
  | nil => rfl
  | cons c x ih =>
    have hc := h c (by simp)
    have ih' := ih (fun b hb => h b (by simp [hb]))
    simp only [AR.escapeFragment, List.flatMap_cons] at ih' ⊢
    rw [ih']
    simp [AR.fragmentEscapeByte, hc]

set_option maxRecDepth 100000 in
theorem queryEscapeByte_frag : ∀ n : Fin 256,
    (fun c => (AR.queryEscapeByte c).all (fun b => b == 0x25 || !AR.shouldEscapeFragment b)) (UInt8.ofNat n.val) = true := by decide

theorem QueryEscape_frag (s : Bytes) : ∀ b ∈ AR.QueryEscape s, b = 0x25 ∨ AR.shouldEscapeFragment b = false := by
  induction s with
  | nil => simp [AR.QueryEscape]
  | cons c s ih =>
    intro b hb
    rw [QueryEscape_cons, List.mem_append] at hb
    rcases hb with hb | hb
    · have := byteAll (fun c => (AR.queryEscapeByte c).all (fun b => b == 0x25 || !AR.shouldEscapeFragment b)) queryEscapeByte_frag c
      simp only [List.all_eq_true, Bool.or_eq_true, beq_iff_eq, Bool.not_eq_true'] at this
      exact this b hb
    · exact ih b hb

theorem joinAmp_frag (ps : List (Bytes × Bytes)) :
    ∀ b ∈ AR.Values.joinAmp (ps.map encPair), b = 0x25 ∨ AR.shouldEscapeFragment b = false := by
  have henc : ∀ p : Bytes × Bytes, ∀ b ∈ encPair p, b = 0x25 ∨ AR.shouldEscapeFragment b = false := by
    intro p b hb
    simp only [encPair, List.mem_append, List.mem_cons] at hb
    rcases hb with hb | hb | hb
    · exact QueryEscape_frag _ b hb
    · subst hb; right; decide
    · exact QueryEscape_frag _ b hb
  induction ps with
  | nil => simp [AR.Values.joinAmp]
  | cons p ps ih =>
    cases ps with
    | nil =>
      intro b hb
      simp only [List.map_cons, List.map_nil, AR.Values.joinAmp] at hb
      exact henc p b hb
    | cons q qs =>
      intro b hb
      simp only [List.map_cons, AR.Values.joinAmp, List.mem_append, List.mem_cons] at hb
      rcases hb with hb | hb | hb
      · exact henc p b hb
      · subst hb; right; decide
      · exact ih b (by simpa [List.map_cons] using hb)

/-- **C11, fragment mode, the part that holds**: when no parameter needs a percent escape (the encoded response
    contains no `%`: keys and values of unreserved characters and spaces — codes, JWTs, plain states), the raw
    fragment is the encoded response itself and decoding it once yields every parameter unchanged. -/
theorem c11_fragment_roundtrip_partial (now : Int) (u : AR.URL) (params : AR.Values) (hb : BaseOK u)
    (hq : ∀ b ∈ u.RawQuery, b ≠ 0x23) (hrf : u.RawFragment = []) (hne : params.Encode ≠ [])
    (hp : DistinctKeys params.entries) (hpct : ∀ b ∈ params.Encode, b ≠ 0x25) :
    ∃ f, locationFragment (GenWire.setFragment now u params) = some f ∧ ∀ k, valuesOf k (parseQuery f) = params.get k := by
  refine ⟨params.Encode, ?_, fun k => valuesOf_parseQuery_Encode params hp k⟩
  rw [(c11_fragment_wire now u params hb hq hrf hne).1, escapeFragment_id]
  intro b hb'
  have h1 := hpct b hb'
  rw [encode_eq] at hb'
  rcases joinAmp_frag _ b hb' with h | h
  · exact absurd h h1
  · exact h

end C11
