/-
  C07 at HISTORY level: over every list of operations the stateful model (Model/Flow.lean around the REGENERATED
  refresh functions and `needsRefreshToken`) satisfies the C07 reference monitor - a refresh succeeds only with a
  live (unrotated) refresh token of the caller's own client, with refresh enabled and registered, requested ⊆
  granted, granted = requested-or-previous, subject / audience / auth time kept, a NEW token, the old one handed
  to the storage (after which it no longer resolves and the monitor holds it dead) - and along any history the
  scopes of every refresh token stay within the scopes of the code grant it descends from.
-/
import OidcModel.Proofs.C04History

namespace FlowObs
open Go Gen Hand Flow

/-! ## What `createTokens` does to the refresh-token part of the storage -/

def newCodeRT (s : Flow.St) (a : AuthReq) : RefreshReq :=
  { token := "rt" ++ toString s.nextRT, clientID := a.clientID, subject := a.subject, scopes := a.scopes,
    audience := [a.clientID], authTime := a.authTime }

theorem mintTokens_code_yes {s : Flow.St} {a : AuthReq} {c : OPClient} {k : String} (h : wantsRefresh (.code a c k) = true) :
    (mintTokens s (.code a c k)).store.refresh = s.store.refresh ++ [newCodeRT s a] ∧
    (mintTokens s (.code a c k)).nextRT = s.nextRT + 1 ∧ newRefresh s (.code a c k) = some ("rt" ++ toString s.nextRT) := by
  simp [mintTokens, newRefresh, h, newCodeRT, St.store, St.setStore]

theorem mintTokens_no {s : Flow.St} {i : IssueFor} (h : wantsRefresh i = false) :
    mintTokens s i = s ∧ newRefresh s i = none := by
  simp [mintTokens, newRefresh, h]

theorem mintTokens_refresh (s : Flow.St) (r : RefreshReq) (c : OPClient) (cur : String) :
    (mintTokens s (.refresh r c cur)).store.refresh = s.store.refresh.filter (·.token != cur) ++ [{ r with token := "rt" ++ toString s.nextRT }] ∧
    (mintTokens s (.refresh r c cur)).nextRT = s.nextRT + 1 ∧ newRefresh s (.refresh r c cur) = some ("rt" ++ toString s.nextRT) := by
  simp [mintTokens, newRefresh, wantsRefresh_refresh, St.store, St.setStore]

theorem applyIssue_refreshPart (s : Flow.St) (i : IssueFor) :
    (applyIssue s i).store.refresh = (mintTokens s i).store.refresh ∧ (applyIssue s i).nextRT = (mintTokens s i).nextRT := by
  cases i with
  | code a c k => simp [applyIssue, deletes_authRequest, deleteAuthRequest, St.store, St.setStore]
  | refresh r c k => exact ⟨rfl, rfl⟩

theorem rt_ne_empty (k : Nat) : "rt" ++ toString k ≠ "" := by
  intro h
  have := congrArg String.length h
  simp [String.length_append] at this

/-! ## The invariant between stored refresh tokens and the monitor's live tokens -/

/-- the client can authenticate at all under this configuration -/
def AuthCapable (p : Provider) (c : OPClient) : Prop :=
  c.auth = Const.AuthMethodNone ∨
  (c.auth = Const.AuthMethodPrivateKeyJWT ∧ p.pkjwtSupported = true ∧ p.is_JWTAuthorizationGrantExchanger = true) ∨
  c.auth = Const.AuthMethodBasic ∨ (c.auth = Const.AuthMethodPost ∧ p.postSupported = true)

theorem authCapable_of_authAs {now : Int} {p : Provider} {id secret ty : String} {t : Token} {c : OPClient}
    (h : AuthAs now p id secret ty t c) : p.store.clients.find? (·.id == c.id) = some c ∧ AuthCapable p c := by
  rcases h with ⟨_, h1, h2, j, _, hget, hauth⟩ | ⟨_, hget, hrest⟩
  · exact ⟨(getClient_find hget).1, Or.inr (Or.inl ⟨hauth, h1, h2⟩)⟩
  · refine ⟨(getClient_find hget).1, ?_⟩
    rcases hrest with hnone | ⟨_, hpost, hsecret⟩
    · exact Or.inl hnone
    · obtain ⟨c', hc', hk, _⟩ := C05.secret_ok hsecret
      obtain ⟨hfind, _⟩ := C05.getClient_ok hget
      rw [hfind] at hc'; cases hc'
      rcases hk with hb | hp
      · exact Or.inr (Or.inr (Or.inl hb))
      · exact Or.inr (Or.inr (Or.inr ⟨hp, hpost hp⟩))

structure Inv07 (s : Flow.St) (o : ObsState) : Prop where
  cfg : SameCfg o.m07.base s.p
  flag : o.m07.refreshEnabled = s.p.refreshSupported
  /-- a token resolves in the storage iff the monitor holds it live - with the same grant -/
  live : ∀ tok, (s.store.refresh.find? (·.token == tok)).map toRT = o.m07.rts.find? (fun t => t.token == tok && t.live)
  /-- refresh tokens are the storage's own fresh ones -/
  fresh : ∀ r ∈ s.store.refresh, ∃ k, k < s.nextRT ∧ r.token = "rt" ++ toString k
  /-- every stored token belongs to a registered client that can authenticate under this configuration -/
  capable : ∀ r ∈ s.store.refresh, ∃ c, s.p.store.clients.find? (·.id == r.clientID) = some c ∧ AuthCapable s.p c

theorem AuthCapable.trans {s s' : Flow.St} {c : OPClient} (h : AuthCapable s.p c) (e : CfgEq s s') : AuthCapable s'.p c := by
  obtain ⟨_, _, _, _, _, e6, e7, e8⟩ := e
  unfold AuthCapable at *
  rw [e6, e7, e8]; exact h

theorem Inv07.of_same {s s' : Flow.St} {o o' : ObsState} (h : Inv07 s o)
    (h1 : s'.store.refresh = s.store.refresh) (h2 : s'.nextRT = s.nextRT) (h3 : CfgEq s s') (h4 : o'.m07 = o.m07) : Inv07 s' o' := by
  refine ⟨?_, ?_, ?_, ?_, ?_⟩
  · rw [h4]; exact h.cfg.trans h3
  · rw [h4, h3.2.2.2.2.1]; exact h.flag
  · rw [h1, h4]; exact h.live
  · rw [h1, h2]; exact h.fresh
  · rw [h1]; intro r hr
    obtain ⟨c, hc, hcap⟩ := h.capable r hr
    have hcl : s'.p.store.clients = s.p.store.clients := h3.1
    exact ⟨c, by rw [hcl]; exact hc, hcap.trans h3⟩

theorem fresh_not_found {s : Flow.St} (hf : ∀ r ∈ s.store.refresh, ∃ k, k < s.nextRT ∧ r.token = "rt" ++ toString k)
    (l : List RefreshReq) (hl : ∀ r ∈ l, r ∈ s.store.refresh) : l.find? (·.token == "rt" ++ toString s.nextRT) = none := by
  rw [List.find?_eq_none]
  intro r hr hrt
  obtain ⟨k, hk, hid⟩ := hf r (hl r hr)
  have : "rt" ++ toString k = "rt" ++ toString s.nextRT := by rw [← hid]; simpa using hrt
  have := rt_inj this
  omega

/-- the storage gained exactly the record `new` (fresh token): storage and monitor stay in step when the observer learns it -/
theorem Inv07.mint {s s' : Flow.St} {o : ObsState} (h : Inv07 s o) {new : RefreshReq} (hnew : new.token = "rt" ++ toString s.nextRT)
    (h1 : s'.store.refresh = s.store.refresh ++ [new]) (h2 : s'.nextRT = s.nextRT + 1) (h3 : CfgEq s s')
    (hcap : ∃ c, s.p.store.clients.find? (·.id == new.clientID) = some c ∧ AuthCapable s.p c) {o' : ObsState}
    (h4 : o'.m07 = C07.onIssue o.m07 (toRT new)) : Inv07 s' o' := by
  refine ⟨?_, ?_, ?_, ?_, ?_⟩
  · rw [h4]; exact h.cfg.trans h3
  · rw [h4, h3.2.2.2.2.1]; exact h.flag
  · intro tok
    rw [h1, h4]
    simp only [C07.onIssue, List.find?_append]
    rw [← h.live tok]
    cases s.store.refresh.find? (·.token == tok) with
    | some x => simp
    | none =>
      simp only [Option.none_or, Option.map_none]
      by_cases ht : (new.token == tok) = true
      · simp [ht, toRT]
      · simp [ht, toRT]
  · intro r hr
    rw [h1] at hr; rw [h2]
    rcases List.mem_append.1 hr with hr | hr
    · obtain ⟨k, hk, hid⟩ := h.fresh r hr
      exact ⟨k, by omega, hid⟩
    · have : r = new := by simpa using hr
      subst this
      exact ⟨s.nextRT, by omega, hnew⟩
  · intro r hr
    rw [h1] at hr
    have hcl : s'.p.store.clients = s.p.store.clients := h3.1
    rcases List.mem_append.1 hr with hr | hr
    · obtain ⟨c, hc, hcp⟩ := h.capable r hr
      exact ⟨c, by rw [hcl]; exact hc, hcp.trans h3⟩
    · have : r = new := by simpa using hr
      subst this
      obtain ⟨c, hc, hcp⟩ := hcap
      exact ⟨c, by rw [hcl]; exact hc, hcp.trans h3⟩

end FlowObs

namespace FlowObs
open Go Gen Hand Flow

/-- what one step must deliver for the C07 induction: the invariant, and no objection -/
def Good07 (now : Int) (s : Flow.St) (o : ObsState) (op : Flow.Op) : Prop :=
  Inv07 (stepObs now (s, o) op).1.1 (stepObs now (s, o) op).1.2 ∧ (stepObs now (s, o) op).2.2.2 = none

theorem good07_authorize {now : Int} {s : Flow.St} {o : ObsState} (h : Inv07 s o) (a : AuthReq) (hint : FlowHint) :
    Good07 now s o (.authorize a hint) := by
  unfold Good07
  cases hv : GenFlow.ValidateAuthReqIDTokenHint now (fun _ => hint.token) hint.raw (hintVerifier s) with
  | error e =>
    rw [stepObs_eq (s' := s) (out := .error e) (by rw [step_authorize, hv])]
    exact ⟨h, rfl⟩
  | ok sub =>
    rw [stepObs_eq (s' := _) (out := _) (by rw [step_authorize, hv])]
    simp only [eventOf, St.store, St.setStore, List.getLast?_append, List.getLast?_singleton, Option.some_or, Option.map_some, observe, and_true]
    exact h.of_same rfl rfl ⟨rfl, rfl, rfl, rfl, rfl, rfl, rfl, rfl⟩ rfl

theorem good07_login {now : Int} {s : Flow.St} {o : ObsState} (h : Inv07 s o) (id subject : String) (authTime : Int) :
    Good07 now s o (.login id subject authTime) := by
  unfold Good07
  rw [stepObs_eq (s' := _) (out := _) rfl]
  simp only [eventOf, observe, and_true]
  exact h.of_same rfl rfl ⟨rfl, rfl, rfl, rfl, rfl, rfl, rfl, rfl⟩ rfl

theorem good07_callback {now : Int} {s : Flow.St} {o : ObsState} (h : Inv07 s o) (id code : String) :
    Good07 now s o (.callback id code) := by
  unfold Good07
  by_cases hid0 : id = ""
  · rw [stepObs_eq (s' := s) (out := .error "ErrInvalidRequest") (by rw [step_callback]; simp [hid0])]
    exact ⟨h, rfl⟩
  cases hf : s.store.authReqs.find? (·.id == id) with
  | none =>
    rw [stepObs_eq (s' := s) (out := .error "ErrInvalidRequest") (by rw [step_callback' now s code hid0, hf])]
    exact ⟨h, rfl⟩
  | some a =>
    by_cases hd : a.done = true
    · rw [stepObs_eq (s' := s.setStore { s.store with codes := (s.store.codes.filter (·.1 != code)) ++ [(code, id)] }) (out := .code code)
        (by rw [step_callback' now s code hid0, hf]; simp [hd])]
      simp only [eventOf, observe]
      split
      · exact ⟨h.of_same rfl rfl ⟨rfl, rfl, rfl, rfl, rfl, rfl, rfl, rfl⟩ rfl, rfl⟩
      · exact ⟨h.of_same rfl rfl ⟨rfl, rfl, rfl, rfl, rfl, rfl, rfl, rfl⟩ rfl, rfl⟩
    · rw [stepObs_eq (s' := s) (out := .error "ErrInteractionRequired") (by rw [step_callback' now s code hid0, hf]; simp [hd])]
      exact ⟨h, rfl⟩

/-- the first token of `l ++ [new]` that does not resolve in `l` is `new`, when `new`'s token is not in `l` -/
theorem mintedIn_append {s s' : Flow.St} {new : RefreshReq} (h1 : s'.store.refresh = s.store.refresh ++ [new])
    (hnew : s.store.refresh.find? (·.token == new.token) = none) : mintedIn s s' = some (toRT new) := by
  unfold mintedIn
  rw [h1, List.find?_append]
  have hfirst : s.store.refresh.find? (fun r => (s.store.refresh.find? (·.token == r.token)).isNone) = none := by
    rw [List.find?_eq_none]
    intro r hr
    have : (s.store.refresh.find? (·.token == r.token)).isSome = true := find?_mem_isSome hr (by simp)
    cases hf : s.store.refresh.find? (·.token == r.token) with
    | none => rw [hf] at this; simp at this
    | some _ => simp
  rw [hfirst]
  simp [hnew]

/-- the refresh-token side of a code exchange whose tokens were created in the storage (delivered or not) -/
theorem inv07_codeMint {now : Int} {s s' : Flow.St} {o o' : ObsState} (h : Inv07 s o) {a : AuthReq} {c : OPClient} {k : String}
    {id secret ty : String} {t : Token} (hauth : AuthAs now s.p id secret ty t c) (hcid : c.id = a.clientID)
    (hw : wantsRefresh (.code a c k) = true)
    (h1 : s'.store.refresh = (mintTokens s (.code a c k)).store.refresh) (h2 : s'.nextRT = (mintTokens s (.code a c k)).nextRT)
    (h3 : CfgEq s s') (h4 : o'.m07 = C07.onIssue o.m07 (toRT (newCodeRT s a))) : Inv07 s' o' := by
  obtain ⟨m1, m2, _⟩ := mintTokens_code_yes (s := s) hw
  obtain ⟨hfind, hcap⟩ := authCapable_of_authAs hauth
  exact h.mint (new := newCodeRT s a) rfl (by rw [h1, m1]) (by rw [h2, m2]) h3 ⟨c, by show s.p.store.clients.find? (·.id == a.clientID) = some c; rw [← hcid]; exact hfind, hcap⟩ h4

theorem recOf_new {s s' : Flow.St} {new : RefreshReq} (hf : ∀ r ∈ s.store.refresh, ∃ k, k < s.nextRT ∧ r.token = "rt" ++ toString k)
    (l : List RefreshReq) (hl : ∀ r ∈ l, r ∈ s.store.refresh)
    (h1 : s'.store.refresh = l ++ [new]) (hnew : new.token = "rt" ++ toString s.nextRT) :
    recOf s' (some ("rt" ++ toString s.nextRT)) = some new := by
  simp only [recOf, Option.bind_some]
  rw [h1, List.find?_append, fresh_not_found hf l hl]
  simp [hnew]

theorem good07_exchange {now : Int} {s : Flow.St} {o : ObsState} (h : Inv07 s o) (rt : Router) (req : AccessTokenRequest) (ha : Bool) :
    Good07 now s o (.exchange rt req ha) := by
  unfold Good07
  cases hce : codeExchange now rt s.p req ha with
  | error e =>
    rw [stepObs_eq (s' := s) (out := .error e) (by rw [step_exchange, hce])]
    simp only [eventOf, observe, mintedIn_self, and_true]
    exact h.of_same rfl rfl (CfgEq.refl s) rfl
  | ok i =>
    obtain ⟨a, c, hi, hl, hcid, hgrant, hred, hpk1, hpk2, hauth⟩ := codeExchange_ok hce
    subst hi
    obtain ⟨_, _, _, hcfg⟩ := applyIssue_code s a c req.Code
    obtain ⟨hR, hN⟩ := applyIssue_refreshPart s (.code a c req.Code)
    rw [stepObs_eq (s' := applyIssue s (.code a c req.Code)) (out := .issued (.code a c req.Code) (newRefresh s (.code a c req.Code)))
      (by rw [step_exchange, hce])]
    simp only [eventOf, observe, and_true]
    by_cases hw : wantsRefresh (.code a c req.Code) = true
    · obtain ⟨m1, m2, m3⟩ := mintTokens_code_yes (s := s) hw
      have hrec : recOf (applyIssue s (.code a c req.Code)) (newRefresh s (.code a c req.Code)) = some (newCodeRT s a) := by
        rw [m3]
        exact recOf_new h.fresh s.store.refresh (fun r hr => hr) (by rw [hR, m1]) rfl
      rw [hrec]
      exact inv07_codeMint h hauth hcid hw hR hN hcfg rfl
    · have hw' : wantsRefresh (.code a c req.Code) = false := by simpa using hw
      obtain ⟨m1, m2⟩ := mintTokens_no (s := s) hw'
      rw [m2]
      simp only [recOf, Option.bind_none, Option.map_none]
      exact h.of_same (by rw [hR, m1]) (by rw [hN, m1]) hcfg rfl

theorem good07_exchangeDeleteFails {now : Int} {s : Flow.St} {o : ObsState} (h : Inv07 s o) (rt : Router) (req : AccessTokenRequest) (ha : Bool) :
    Good07 now s o (.exchangeDeleteFails rt req ha) := by
  unfold Good07
  cases hce : codeExchange now rt s.p req ha with
  | error e =>
    rw [stepObs_eq (s' := s) (out := .error e) (by rw [step_exchangeDeleteFails, hce])]
    simp only [eventOf, observe, mintedIn_self, and_true]
    exact h.of_same rfl rfl (CfgEq.refl s) rfl
  | ok i =>
    obtain ⟨a, c, hi, hl, hcid, hgrant, hred, hpk1, hpk2, hauth⟩ := codeExchange_ok hce
    subst hi
    by_cases hb : tokensBeforeDelete = true
    · rw [stepObs_eq (s' := mintTokens s (.code a c req.Code)) (out := .error "ErrServerError")
        (by rw [step_exchangeDeleteFails, hce]; simp [hb])]
      simp only [eventOf, observe, and_true]
      obtain ⟨_, _, _, hcfg⟩ := mintTokens_auth s (.code a c req.Code)
      by_cases hw : wantsRefresh (.code a c req.Code) = true
      · obtain ⟨m1, m2, m3⟩ := mintTokens_code_yes (s := s) hw
        rw [mintedIn_append (new := newCodeRT s a) m1 (fresh_not_found h.fresh s.store.refresh (fun r hr => hr))]
        exact inv07_codeMint h hauth hcid hw rfl rfl hcfg rfl
      · have hw' : wantsRefresh (.code a c req.Code) = false := by simpa using hw
        obtain ⟨m1, _⟩ := mintTokens_no (s := s) hw'
        rw [m1, mintedIn_self]
        exact h.of_same rfl rfl (CfgEq.refl s) rfl
    · rw [stepObs_eq (s' := s) (out := .error "ErrServerError") (by rw [step_exchangeDeleteFails, hce]; simp [hb])]
      simp only [eventOf, observe, mintedIn_self, and_true]
      exact h.of_same rfl rfl (CfgEq.refl s) rfl

end FlowObs

namespace FlowObs
open Go Gen Hand Flow

theorem subset_of_sub {a b : List String} (h : C07.sub a b) : C07.subset a b = true := by
  simp only [C07.subset, List.all_eq_true, List.contains_eq_mem, decide_eq_true_eq]
  exact h

theorem tokenLookup {s : Store} {tok : String} {r : RefreshReq} (h : s.TokenRequestByRefreshToken tok = .ok r) :
    s.refresh.find? (·.token == tok) = some r := by
  unfold Store.TokenRequestByRefreshToken at h
  split at h
  · rename_i r' hr; simp at h; subst h; exact hr
  · simp at h

/-- the monitor's bookkeeping of a rotation -/
def killTok (rt : String) (x : C07.RT) : C07.RT := if x.token == rt then { x with live := false } else x

theorem good07_refresh_ok {now : Int} {s : Flow.St} {o : ObsState} (h : Inv07 s o) (rt : Router) (req : RefreshTokenRequest) (ha : Bool)
    {i : IssueFor} (hre : refreshExchange now rt s.p req ha = .ok i) : Good07 now s o (.refresh rt req ha) := by
  obtain ⟨r0, r1, c, hi, hsup, htok, hlook, hcid, hgrant, hvs, hauth⟩ := refreshExchange_ok hre
  subst hi
  obtain ⟨hsub, hclient, hsubj, haud, hat, hscopes⟩ := C07.validateRefreshTokenScopes_ok hvs
  obtain ⟨m1, m2, m3⟩ := mintTokens_refresh s r1 c req.RefreshToken
  obtain ⟨_, _, _, hcfg⟩ := mintTokens_auth s (.refresh r1 c req.RefreshToken)
  have hfind0 : s.store.refresh.find? (·.token == req.RefreshToken) = some r0 := tokenLookup hlook
  have hr0mem := List.mem_of_find?_eq_some hfind0
  have hr0tok : r0.token = req.RefreshToken := by simpa using List.find?_some hfind0
  have hlive0 : o.m07.rts.find? (fun t => t.token == req.RefreshToken && t.live) = some (toRT r0) := by
    rw [← h.live, hfind0]; rfl
  obtain ⟨k0, hk0, hk0id⟩ := h.fresh r0 hr0mem
  have hnewne : ("rt" ++ toString s.nextRT) ≠ req.RefreshToken := by
    intro he
    rw [← hr0tok, hk0id] at he
    have := rt_inj he; omega
  have hfilt : ∀ r ∈ s.store.refresh.filter (·.token != req.RefreshToken), r ∈ s.store.refresh := fun r hr => (List.mem_filter.1 hr).1
  have hrec : recOf (mintTokens s (.refresh r1 c req.RefreshToken)) (some ("rt" ++ toString s.nextRT))
      = some { r1 with token := "rt" ++ toString s.nextRT } := recOf_new h.fresh _ hfilt m1 rfl
  unfold Good07
  rw [stepObs_eq (s' := mintTokens s (.refresh r1 c req.RefreshToken))
    (out := .issued (.refresh r1 c req.RefreshToken) (newRefresh s (.refresh r1 c req.RefreshToken)))
    (by rw [step_refresh, hre]; rfl)]
  simp only [eventOf, observe, m3, hrec, Option.getD_some, Option.isSome_some, beq_self_eq_true, Bool.and_self]
  obtain ⟨hcl, _, _, _⟩ := h.cfg
  have hclient' : o.m07.base.clients.find? (·.id == r0.clientID) = some c := by
    rw [hcl, ← hcid]; exact (authCapable_of_authAs hauth).1
  have hcaller : C04.callerIs o.m07.base now c (presentedRefresh req) = true :=
    callerIs_of_authAs (pr := presentedRefresh req) h.cfg rfl rfl rfl hauth
  have hgr : c.grants.contains "refresh_token" = true := by simpa [Const.GrantTypeRefreshToken] using hgrant
  have hreqsub : C07.subset req.Scopes r0.scopes = true := by
    cases hreq : req.Scopes with
    | nil => rfl
    | cons x xs =>
      rw [hreq] at hscopes
      simp only [List.isEmpty_cons, Bool.false_eq_true, if_false] at hscopes
      rw [← hscopes]; exact subset_of_sub hsub
  refine ⟨?_, ?_⟩
  · -- the invariant
    have hon : C07.onRefresh o.m07 req.RefreshToken
        (some { newRT := "rt" ++ toString s.nextRT, scopes := r1.scopes, client := r1.clientID, subject := r1.subject,
                audience := r1.audience, authTime := r1.authTime, handedOver := true }) =
        { o.m07 with rts := o.m07.rts.map (killTok req.RefreshToken) ++
            [toRT { r1 with token := "rt" ++ toString s.nextRT }] } := by
      simp only [C07.onRefresh, hlive0]
      congr 2
      simp [toRT, hclient, hsubj, haud, hat]
    refine ⟨?_, ?_, ?_, ?_, ?_⟩
    · show SameCfg (C07.onRefresh _ _ _).base _
      rw [hon]; exact h.cfg.trans hcfg
    · show (C07.onRefresh _ _ _).refreshEnabled = _
      rw [hon, hcfg.2.2.2.2.1]; exact h.flag
    · intro tok
      show _ = (C07.onRefresh _ _ _).rts.find? _
      rw [hon, m1]
      simp only [List.find?_append]
      by_cases ht : tok = req.RefreshToken
      · subst ht
        rw [find?_filter_none (l := s.store.refresh) (p := fun r => r.token != req.RefreshToken) (q := fun r => r.token == req.RefreshToken)
          (by intro x hx; have : x.token = req.RefreshToken := by simpa using hx
              simp [this])]
        have hdead : (o.m07.rts.map (killTok req.RefreshToken)).find? (fun t => t.token == req.RefreshToken && t.live) = none := by
          rw [List.find?_eq_none]
          intro x hx
          obtain ⟨y, _, rfl⟩ := List.mem_map.1 hx
          unfold killTok
          by_cases hy : (y.token == req.RefreshToken) = true
          · simp [hy]
          · simp [hy]
        rw [hdead]
        have : (("rt" ++ toString s.nextRT) == req.RefreshToken) = false := by simpa using hnewne
        simp [toRT]
      · rw [find?_filter_of_imp (l := s.store.refresh) (p := fun r => r.token != req.RefreshToken) (q := fun r => r.token == tok)
          (by intro x hx; have : x.token = tok := by simpa using hx
              simp [this, ht])]
        rw [find?_map_fix (l := o.m07.rts) (p := fun t => t.token == tok && t.live) (f := killTok req.RefreshToken)
          (by intro x; unfold killTok
              by_cases hx : (x.token == req.RefreshToken) = true
              · have hx' : x.token = req.RefreshToken := by simpa using hx
                have : (req.RefreshToken == tok) = false := by simpa using (Ne.symm ht)
                simp [hx', this]
              · simp [hx])
          (by intro x hx; unfold killTok
              have hx' : x.token = tok := by
                simp only [Bool.and_eq_true, beq_iff_eq] at hx
                exact hx.1
              have : (x.token == req.RefreshToken) = false := by rw [hx']; simpa using ht
              simp [this])]
        rw [← h.live tok]
        cases s.store.refresh.find? (·.token == tok) with
        | some x => simp
        | none =>
          simp only [Option.none_or, Option.map_none]
          by_cases hn : (("rt" ++ toString s.nextRT) == tok) = true
          · simp [toRT]
          · simp [toRT]
    · intro r hr
      rw [m1] at hr; rw [m2]
      rcases List.mem_append.1 hr with hr | hr
      · obtain ⟨k, hk, hid⟩ := h.fresh r (hfilt r hr)
        exact ⟨k, by omega, hid⟩
      · have : r = { r1 with token := "rt" ++ toString s.nextRT } := by simpa using hr
        subst this
        exact ⟨s.nextRT, by omega, rfl⟩
    · intro r hr
      rw [m1] at hr
      have hcl' : (mintTokens s (.refresh r1 c req.RefreshToken)).p.store.clients = s.p.store.clients := hcfg.1
      rcases List.mem_append.1 hr with hr | hr
      · obtain ⟨c', hc', hcp⟩ := h.capable r (hfilt r hr)
        exact ⟨c', by rw [hcl']; exact hc', hcp.trans hcfg⟩
      · have : r = { r1 with token := "rt" ++ toString s.nextRT } := by simpa using hr
        subst this
        obtain ⟨c', hc', hcp⟩ := h.capable r0 hr0mem
        exact ⟨c', by rw [hcl']; show s.p.store.clients.find? (·.id == r1.clientID) = some c'; rw [hclient]; exact hc', hcp.trans hcfg⟩
  · -- the verdict
    have hflag : o.m07.refreshEnabled = true := by rw [h.flag]; exact hsup
    have hnewne' : (("rt" ++ toString s.nextRT) == req.RefreshToken) = false := by simpa using hnewne
    have hnonempty : (("rt" ++ toString s.nextRT) == "") = false := by simp
    unfold C07.judge
    simp only [hlive0, toRT, hclient', hflag, hcaller, hgr, hreqsub, Bool.not_true, Bool.false_eq_true, if_false]
    have hsc : (r1.scopes != if req.Scopes.isEmpty = true then r0.scopes else req.Scopes) = false := by
      rw [hscopes]; simp
    simp only [hsc, subset_of_sub hsub, hclient, hsubj, haud, hat, bne_self_eq_false, hnonempty, hnewne', Bool.or_self,
      Bool.not_true, Bool.false_eq_true, if_false]

end FlowObs

/-! ## Refused refreshes: "a request that fails only because of its scope is answered invalid_scope" -/

namespace FlowObs
open Go Gen Hand Flow

/-- The instant `now` does not sit on the rounding boundary of the assertion's time window.  The spec reads an assertion's
    `exp` / `iat` with half a second of tolerance (C14), the code rounds its clock to whole seconds: on the boundary the spec
    may regard an assertion as proving a client which the code (correctly, by its own clock) refuses.  `Decisive` says
    this is not such an instant: what the spec accepts, the code accepts. -/
def Decisive (now : Int) (p : Provider) (t : Token) : Prop :=
  ∀ id, C14.provesClient p.issuer p.jwtMaxAgeIAT p.jwtOffset p.store.keyRegistry t now = some id →
    ∃ j, VerifyJWTAssertion now t p.JWTProfileVerifier = .ok j

/-- how the caller convinced the monitor, spelled out (`callerIs` for a client that can authenticate at all) -/
theorem cred_cases {now : Int} {p : Provider} {m : C04.MonState} {c : OPClient} {req : RefreshTokenRequest}
    (hm : SameCfg m p) (hcap : AuthCapable p c) (h : C04.callerIs m now c (presentedRefresh req) = true) :
    (req.ClientAssertionType ≠ Const.ClientAssertionTypeJWTAssertion ∧ req.ClientID = c.id ∧ c.auth = Const.AuthMethodNone) ∨
    (req.ClientAssertionType = Const.ClientAssertionTypeJWTAssertion ∧ c.auth = Const.AuthMethodPrivateKeyJWT ∧ p.pkjwtSupported = true ∧
      p.is_JWTAuthorizationGrantExchanger = true ∧
      C14.provesClient p.issuer p.jwtMaxAgeIAT p.jwtOffset p.store.keyRegistry req.ClientAssertion now = some c.id) ∨
    (req.ClientAssertionType ≠ Const.ClientAssertionTypeJWTAssertion ∧ req.ClientID = c.id ∧ req.ClientSecret = c.secret ∧
      (c.auth = Const.AuthMethodBasic ∨ (c.auth = Const.AuthMethodPost ∧ p.postSupported = true))) := by
  obtain ⟨hcl, hissuer, hmax, hoff⟩ := hm
  unfold C04.callerIs presentedRefresh at h
  have eNone : c.auth = Const.AuthMethodNone → (c.auth == "none") = true := fun e => by rw [e]; decide
  have ePk : c.auth = Const.AuthMethodPrivateKeyJWT → (c.auth == "none") = false ∧ (c.auth == "private_key_jwt") = true :=
    fun e => by rw [e]; exact ⟨by decide, by decide⟩
  have eBasic : c.auth = Const.AuthMethodBasic → (c.auth == "none") = false ∧ (c.auth == "private_key_jwt") = false :=
    fun e => by rw [e]; exact ⟨by decide, by decide⟩
  have ePost : c.auth = Const.AuthMethodPost → (c.auth == "none") = false ∧ (c.auth == "private_key_jwt") = false :=
    fun e => by rw [e]; exact ⟨by decide, by decide⟩
  by_cases hty : req.ClientAssertionType = Const.ClientAssertionTypeJWTAssertion
  · have hty' : (req.ClientAssertionType == Const.ClientAssertionTypeJWTAssertion) = true := by simpa using hty
    simp only [hty', if_true] at h
    rcases hcap with hn | ⟨hp, h1, h2⟩ | hb | ⟨hpo, _⟩
    · simp only [eNone hn, if_true, Option.isNone_some, Bool.and_false, Bool.false_eq_true] at h
    · simp only [(ePk hp).1, (ePk hp).2, Bool.false_eq_true, if_false, if_true] at h
      rw [hissuer, hmax, hoff, hcl] at h
      exact Or.inr (Or.inl ⟨hty, hp, h1, h2, beq_iff_eq.1 h⟩)
    · simp only [(eBasic hb).1, (eBasic hb).2, Bool.false_eq_true, if_false, Option.isNone_some, Bool.false_and] at h
    · simp only [(ePost hpo).1, (ePost hpo).2, Bool.false_eq_true, if_false, Option.isNone_some, Bool.false_and] at h
  · have hty' : (req.ClientAssertionType == Const.ClientAssertionTypeJWTAssertion) = false := by simpa using hty
    simp only [hty', Bool.false_eq_true, if_false] at h
    rcases hcap with hn | ⟨hp, _, _⟩ | hb | ⟨hpo, hps⟩
    · simp only [eNone hn, if_true, Option.isNone_none, Bool.and_true, beq_iff_eq] at h
      exact Or.inl ⟨hty, h, hn⟩
    · simp only [(ePk hp).1, (ePk hp).2, Bool.false_eq_true, if_false, if_true] at h
    · simp only [(eBasic hb).1, (eBasic hb).2, Bool.false_eq_true, if_false, Option.isNone_none, Bool.true_and, Bool.and_eq_true, beq_iff_eq] at h
      exact Or.inr (Or.inr ⟨hty, h.1, h.2, Or.inl hb⟩)
    · simp only [(ePost hpo).1, (ePost hpo).2, Bool.false_eq_true, if_false, Option.isNone_none, Bool.true_and, Bool.and_eq_true, beq_iff_eq] at h
      exact Or.inr (Or.inr ⟨hty, h.1, h.2, Or.inr ⟨hpo, hps⟩⟩)

theorem getClient_of_find {s : Store} {c : OPClient} (h : s.clients.find? (·.id == c.id) = some c) : s.GetClientByClientID c.id = .ok c := by
  simp [Store.GetClientByClientID, h]

theorem secret_of_find {s : Store} {c : OPClient} (h : s.clients.find? (·.id == c.id) = some c)
    (ha : c.auth = Const.AuthMethodBasic ∨ c.auth = Const.AuthMethodPost) : s.AuthorizeClientIDSecret c.id c.secret = .ok () := by
  unfold Store.AuthorizeClientIDSecret
  rw [h]
  rcases ha with ha | ha <;> simp [ha]

theorem privateKey_of_proves {now : Int} {p : Provider} {t : Token} {c : OPClient}
    (hfind : p.store.clients.find? (·.id == c.id) = some c) (hauth : c.auth = Const.AuthMethodPrivateKeyJWT)
    (hdec : Decisive now p t)
    (hpr : C14.provesClient p.issuer p.jwtMaxAgeIAT p.jwtOffset p.store.keyRegistry t now = some c.id) :
    AuthorizePrivateJWTKey now t p = .ok c := by
  obtain ⟨j, hj⟩ := hdec c.id hpr
  have := provesClient_of_verify hj
  rw [hpr] at this
  have hiss : j.iss = c.id := by simpa using this.symm
  unfold AuthorizePrivateJWTKey
  simp only [hj, Provider.Storage, Claims.Issuer, hiss, getClient_of_find hfind, OPClient.AuthMethod, hauth, bne_self_eq_false,
    Bool.false_eq_true, if_false]

theorem widening_scopes {now : Int} {requested : List String} {r0 : RefreshReq} (h : C07.subset requested r0.scopes = false) :
    ValidateRefreshTokenScopes now requested r0 = .error "ErrInvalidScope" := by
  rw [C07.validateRefreshTokenScopes_eq]
  exact C07.scopesSpec_widening h

/-- model-side completeness: a live token of client `c`, presented by a caller the monitor takes for `c`, with the
    refresh grant enabled and registered and a scope parameter that is NOT within the grant, is answered `invalid_scope`
    (derived from the characterisation lemmas `C07.*_eq`; no regenerated definition is unfolded here) -/
theorem widening_refused {now : Int} {rt : Router} {p : Provider} {req : RefreshTokenRequest} {ha : Bool} {m : C04.MonState}
    {r0 : RefreshReq} {c : OPClient}
    (hm : SameCfg m p) (hsup : p.refreshSupported = true) (hlook : p.store.refresh.find? (·.token == req.RefreshToken) = some r0)
    (htok : req.RefreshToken ≠ "") (hc : p.store.clients.find? (·.id == r0.clientID) = some c) (hcap : AuthCapable p c)
    (hcaller : C04.callerIs m now c (presentedRefresh req) = true) (hgrant : c.grants.contains "refresh_token" = true)
    (hwide : C07.subset req.Scopes r0.scopes = false)
    (hha : ha = (req.ClientAssertionType == Const.ClientAssertionTypeJWTAssertion))
    (hdec : req.ClientAssertionType = Const.ClientAssertionTypeJWTAssertion → Decisive now p req.ClientAssertion)
    (hid : c.id ≠ "") :
    refreshExchange now rt p req ha = .error "ErrInvalidScope" := by
  have hcid : c.id = r0.clientID := by simpa using List.find?_some hc
  have hfind : p.store.clients.find? (·.id == c.id) = some c := by rw [hcid]; exact hc
  have hlook' : p.store.TokenRequestByRefreshToken req.RefreshToken = .ok r0 := by
    simp [Store.TokenRequestByRefreshToken, hlook]
  have hbytok : C07.byTokenSpec p.store req.RefreshToken = .ok r0 := by
    simp [C07.byTokenSpec, hlook']
  have hgt : ValidateGrantType now c Const.GrantTypeRefreshToken = true :=
    C04.validateGrantType_iff.2 (by simpa [Const.GrantTypeRefreshToken] using hgrant)
  have hscope := C07.scopesSpec_widening hwide
  have htok' : (req.RefreshToken == "") = false := by simpa using htok
  have hidn : ¬ c.id ≠ r0.clientID := by simp [hcid]
  cases rt with
  | provider =>
    have hauth : C07.authorizeRefreshSpec now req p = .ok (r0, c) := by
      unfold C07.authorizeRefreshSpec
      rcases cred_cases hm hcap hcaller with ⟨hty, hcl, hn⟩ | ⟨hty, hpk, h1, h2, hpr⟩ | ⟨hty, hcl, hsec, hk⟩
      · simp [hty, hcl, getClient_of_find hfind, hgt, hn, hbytok, Const.AuthMethodNone, Const.AuthMethodPrivateKeyJWT]
      · simp [hty, h1, h2, privateKey_of_proves hfind hpk (hdec hty) hpr, hgt, hbytok]
      · have hsecret := secret_of_find hfind (by rcases hk with hb | ⟨hp, _⟩; exact Or.inl hb; exact Or.inr hp)
        rcases hk with hb | ⟨hp, hps⟩
        · simp [hty, hcl, hsec, getClient_of_find hfind, hgt, hb, hbytok, hsecret, Const.AuthMethodNone, Const.AuthMethodPrivateKeyJWT,
            Const.AuthMethodBasic, Const.AuthMethodPost]
        · simp [hty, hcl, hsec, getClient_of_find hfind, hgt, hp, hps, hbytok, hsecret, Const.AuthMethodNone, Const.AuthMethodPrivateKeyJWT,
            Const.AuthMethodPost]
    simp only [refreshExchange, hsup, Bool.not_true, Bool.false_eq_true, if_false, C07.validateRefreshTokenRequest_eq]
    unfold C07.validateRefreshSpec
    simp only [htok, if_false, hauth, if_neg hidn, hscope]
  | legacy =>
    have hwc : withClient now p Const.GrantTypeRefreshToken
        { ClientID := req.ClientID, ClientSecret := req.ClientSecret, ClientAssertion := req.ClientAssertion, ClientAssertionType := req.ClientAssertionType } ha = .ok c := by
      unfold withClient parseCC
      simp only [C07.legacyVerifyClient_eq]
      unfold C07.legacyVerifySpec
      simp only [formGet_grant]
      have hgne : ¬ Const.GrantTypeRefreshToken = Const.GrantTypeClientCredentials := by decide
      have hgne' : (Const.GrantTypeRefreshToken != "") = true := by decide
      rcases cred_cases hm hcap hcaller with ⟨hty, hcl, hn⟩ | ⟨hty, hpk, h1, h2, hpr⟩ | ⟨hty, hcl, hsec, hk⟩
      · have hty' : (req.ClientAssertionType == Const.ClientAssertionTypeJWTAssertion) = false := by simpa using hty
        have hidb' : (c.id == "") = false := by simpa using hid
        simp [hha, hty, hty', hcl, hidb', hgne, hgne', getClient_of_find hfind, hgt, hn, Const.AuthMethodNone]
      · simp [hha, hty, hgne, hgne', h1, h2, privateKey_of_proves hfind hpk (hdec hty) hpr, hgt]
      · have hty' : (req.ClientAssertionType == Const.ClientAssertionTypeJWTAssertion) = false := by simpa using hty
        have hidb' : (c.id == "") = false := by simpa using hid
        have hsecret := secret_of_find hfind (by rcases hk with hb | ⟨hp, _⟩; exact Or.inl hb; exact Or.inr hp)
        rcases hk with hb | ⟨hp, hps⟩
        · simp [hha, hty, hty', hcl, hsec, hidb', hgne, hgne', getClient_of_find hfind, hgt, hb, hsecret, Const.AuthMethodNone,
            Const.AuthMethodPrivateKeyJWT, Const.AuthMethodBasic, Const.AuthMethodPost]
        · simp [hha, hty, hty', hcl, hsec, hidb', hgne, hgne', getClient_of_find hfind, hgt, hp, hps, hsecret, Const.AuthMethodNone,
            Const.AuthMethodPrivateKeyJWT, Const.AuthMethodPost]
    simp only [refreshExchange, hwc, htok', Bool.false_eq_true, if_false, C07.legacyRefreshToken_eq]
    unfold C07.legacyRefreshSpec
    have hsupf : ¬ p.refreshSupported = false := by simp [hsup]
    rw [if_neg hsupf]
    simp only [hbytok, if_neg hidn, hscope]

end FlowObs

namespace FlowObs
open Go Gen Hand Flow

/-- side conditions under which the clause "a widening request is answered invalid_scope" can be demanded of a refresh
    operation: the `hasAssertion` flag of the operation says what the request's assertion type says (a `client_assertion`
    was sent iff the type is the JWT one - the only shapes the observer's `Presented` can express), and an assertion is not
    judged at a rounding-boundary instant (`Decisive`). -/
def OpOK (now : Int) (p : Provider) : Flow.Op → Prop
  | .refresh _ req ha =>
    ha = (req.ClientAssertionType == Const.ClientAssertionTypeJWTAssertion) ∧
    (req.ClientAssertionType = Const.ClientAssertionTypeJWTAssertion → Decisive now p req.ClientAssertion)
  | _ => True

/-- registered client ids are not empty (the Server router refuses a request without client_id and assertion outright) -/
def ClientsOK (p : Provider) : Prop := ∀ c ∈ p.store.clients, c.id ≠ ""

theorem verifier_cfg {s s' : Flow.St} (e : CfgEq s s') : s'.p.JWTProfileVerifier = s.p.JWTProfileVerifier := by
  obtain ⟨e1, e2, e3, e4, _⟩ := e
  simp only [Provider.JWTProfileVerifier, Store.keyRegistry, e1, e2, e3, e4]

theorem Decisive.trans {now : Int} {s s' : Flow.St} {t : Token} (h : Decisive now s.p t) (e : CfgEq s s') : Decisive now s'.p t := by
  unfold Decisive at *
  rw [verifier_cfg e]
  obtain ⟨e1, e2, e3, e4, _⟩ := e
  simp only [Store.keyRegistry] at h ⊢
  rw [e1, e2, e3, e4]; exact h

theorem OpOK.trans {now : Int} {s s' : Flow.St} {op : Flow.Op} (h : OpOK now s.p op) (e : CfgEq s s') : OpOK now s'.p op := by
  cases op with
  | refresh rt req ha => exact ⟨h.1, fun hty => (h.2 hty).trans e⟩
  | _ => trivial

theorem ClientsOK.trans {s s' : Flow.St} (h : ClientsOK s.p) (e : CfgEq s s') : ClientsOK s'.p := by
  unfold ClientsOK at *; rw [e.1]; exact h

/-- no step changes the configuration -/
theorem step_cfg (now : Int) (s : Flow.St) (op : Flow.Op) : CfgEq s (Flow.step now s op).1 := by
  cases op with
  | authorize a hint =>
    rw [step_authorize]
    split
    · exact CfgEq.refl s
    · exact ⟨rfl, rfl, rfl, rfl, rfl, rfl, rfl, rfl⟩
  | login a b c => exact ⟨rfl, rfl, rfl, rfl, rfl, rfl, rfl, rfl⟩
  | callback id code =>
    rw [step_callback]
    split
    · exact CfgEq.refl s
    · split
      · exact CfgEq.refl s
      · split
        · exact CfgEq.refl s
        · exact ⟨rfl, rfl, rfl, rfl, rfl, rfl, rfl, rfl⟩
  | exchange rt req ha =>
    rw [step_exchange]
    cases hce : codeExchange now rt s.p req ha with
    | error e => exact CfgEq.refl s
    | ok i =>
      obtain ⟨a, c, hi, _⟩ := codeExchange_ok hce
      subst hi
      exact (applyIssue_code s a c req.Code).2.2.2
  | exchangeDeleteFails rt req ha =>
    rw [step_exchangeDeleteFails]
    split
    · exact CfgEq.refl s
    · split
      · exact (mintTokens_auth s _).2.2.2
      · exact CfgEq.refl s
  | refresh rt req ha =>
    rw [step_refresh]
    cases hre : refreshExchange now rt s.p req ha with
    | error e => exact CfgEq.refl s
    | ok i =>
      obtain ⟨r0, r1, c, hi, _⟩ := refreshExchange_ok hre
      subst hi
      exact (mintTokens_auth s _).2.2.2

/-- a refused refresh: nothing changes, nothing was created; the only clause that can fire is the widening one, and under
    the side conditions it does not -/
theorem good07_refresh_err {now : Int} {s : Flow.St} {o : ObsState} (h : Inv07 s o) (rt : Router) (req : RefreshTokenRequest) (ha : Bool)
    {e : String} (hre : refreshExchange now rt s.p req ha = .error e) :
    Inv07 (stepObs now (s, o) (.refresh rt req ha)).1.1 (stepObs now (s, o) (.refresh rt req ha)).1.2 ∧
    ((stepObs now (s, o) (.refresh rt req ha)).2.2.2 = none ∨
      (stepObs now (s, o) (.refresh rt req ha)).2.2.2 = some "widening-not-answered-with-invalid_scope") ∧
    (OpOK now s.p (.refresh rt req ha) → ClientsOK s.p → (stepObs now (s, o) (.refresh rt req ha)).2.2.2 = none) := by
  rw [stepObs_eq (s' := s) (out := .error e) (by rw [step_refresh, hre])]
  simp only [eventOf, observe, bne_self_eq_false]
  refine ⟨h.of_same rfl rfl (CfgEq.refl s) rfl, ?_, ?_⟩
  · unfold C07.judge
    simp only [Bool.false_eq_true, if_false]
    split
    · exact Or.inl rfl
    · split
      · exact Or.inl rfl
      · split
        · exact Or.inr rfl
        · exact Or.inl rfl
  · intro hop hcl
    unfold C07.judge
    simp only [Bool.false_eq_true, if_false]
    cases hl : o.m07.rts.find? (fun t => t.token == req.RefreshToken && t.live) with
    | none => rfl
    | some t =>
      simp only []
      cases hc : o.m07.base.clients.find? (·.id == t.client) with
      | none => rfl
      | some c =>
        simp only []
        -- the stored record behind the monitor's live token
        have hl' := h.live req.RefreshToken
        rw [hl] at hl'
        cases hfind : s.store.refresh.find? (·.token == req.RefreshToken) with
        | none => rw [hfind] at hl'; simp at hl'
        | some r0 =>
          rw [hfind] at hl'
          have ht : t = toRT r0 := by simpa using hl'.symm
          subst ht
          have hr0mem := List.mem_of_find?_eq_some hfind
          have hr0tok : r0.token = req.RefreshToken := by simpa using List.find?_some hfind
          obtain ⟨k0, _, hk0id⟩ := h.fresh r0 hr0mem
          have htokne : req.RefreshToken ≠ "" := by rw [← hr0tok, hk0id]; exact rt_ne_empty k0
          obtain ⟨hclients, _, _, _⟩ := h.cfg
          have hc' : s.p.store.clients.find? (·.id == r0.clientID) = some c := by rw [← hclients]; exact hc
          obtain ⟨c2, hc2, hcap⟩ := h.capable r0 hr0mem
          rw [hc'] at hc2; cases hc2
          have hcid : c.id ≠ "" := hcl c (List.mem_of_find?_eq_some hc')
          rw [if_neg]
          intro hcond
          simp only [Bool.and_eq_true, Bool.not_eq_true', bne_iff_ne, ne_eq] at hcond
          obtain ⟨⟨⟨⟨hen, hcaller⟩, hgr⟩, hwide⟩, herr⟩ := hcond
          have hsup : s.p.refreshSupported = true := by rw [← h.flag]; exact hen
          have := widening_refused (rt := rt) (ha := ha) h.cfg hsup hfind htokne hc' hcap hcaller hgr hwide hop.1 hop.2 hcid
          rw [hre] at this
          cases this
          exact herr (by simp [Flow.oauthCode])

end FlowObs

namespace FlowObs
open Go Gen Hand Flow

def widening : Option String := some "widening-not-answered-with-invalid_scope"

/-- one step: the invariant is kept; the C07 monitor has nothing to object to any successful refresh nor to any other
    operation; a refused refresh can at most trip the widening clause, and under the side conditions does not -/
theorem good07_step (now : Int) {s : Flow.St} {o : ObsState} (h : Inv07 s o) (op : Flow.Op) :
    Inv07 (stepObs now (s, o) op).1.1 (stepObs now (s, o) op).1.2 ∧
    ((stepObs now (s, o) op).2.2.2 = none ∨
      ((stepObs now (s, o) op).2.2.2 = widening ∧ ∃ e, (stepObs now (s, o) op).2.1 = .error e)) ∧
    (OpOK now s.p op → ClientsOK s.p → (stepObs now (s, o) op).2.2.2 = none) := by
  have lift : ∀ {op : Flow.Op}, Good07 now s o op →
      Inv07 (stepObs now (s, o) op).1.1 (stepObs now (s, o) op).1.2 ∧
      ((stepObs now (s, o) op).2.2.2 = none ∨
        ((stepObs now (s, o) op).2.2.2 = widening ∧ ∃ e, (stepObs now (s, o) op).2.1 = .error e)) ∧
      (OpOK now s.p op → ClientsOK s.p → (stepObs now (s, o) op).2.2.2 = none) :=
    fun g => ⟨g.1, Or.inl g.2, fun _ _ => g.2⟩
  cases op with
  | authorize a hint => exact lift (good07_authorize h a hint)
  | login id subject authTime => exact lift (good07_login h id subject authTime)
  | callback id code => exact lift (good07_callback h id code)
  | exchange rt req ha => exact lift (good07_exchange h rt req ha)
  | exchangeDeleteFails rt req ha => exact lift (good07_exchangeDeleteFails h rt req ha)
  | refresh rt req ha =>
    cases hre : refreshExchange now rt s.p req ha with
    | ok i => exact lift (good07_refresh_ok h rt req ha hre)
    | error e =>
      obtain ⟨h1, h2, h3⟩ := good07_refresh_err h rt req ha hre
      refine ⟨h1, ?_, h3⟩
      rcases h2 with h2 | h2
      · exact Or.inl h2
      · refine Or.inr ⟨h2, e, ?_⟩
        rw [stepObs_eq (s' := s) (out := .error e) (by rw [step_refresh, hre])]
        rfl

theorem stepObs_state (now : Int) (s : Flow.St) (o : ObsState) (op : Flow.Op) : (stepObs now (s, o) op).1.1 = (Flow.step now s op).1 := by
  simp only [stepObs]; cases eventOf s (Flow.step now s op).1 op (Flow.step now s op).2 <;> rfl

theorem inv07_run (now : Int) {s : Flow.St} {o : ObsState} (h : Inv07 s o) (ops : List Flow.Op) :
    Inv07 (runObs now (s, o) ops).1.1 (runObs now (s, o) ops).1.2 ∧
    (∀ x ∈ (runObs now (s, o) ops).2, x.2.2 = none ∨ (x.2.2 = widening ∧ ∃ e, x.1 = .error e)) ∧
    ((∀ op ∈ ops, OpOK now s.p op) → ClientsOK s.p → ∀ x ∈ (runObs now (s, o) ops).2, x.2.2 = none) := by
  induction ops generalizing s o with
  | nil => exact ⟨h, (by intro x hx; cases hx), (by intro _ _ x hx; cases hx)⟩
  | cons op rest ih =>
    obtain ⟨hinv, hv, hvok⟩ := good07_step now h op
    obtain ⟨i1, i2, i3⟩ := ih hinv
    have hcfg : CfgEq s (stepObs now (s, o) op).1.1 := by rw [stepObs_state]; exact step_cfg now s op
    refine ⟨i1, ?_, ?_⟩
    · intro x hx
      simp only [runObs, List.mem_cons] at hx
      rcases hx with rfl | hx
      · exact hv
      · exact i2 x hx
    · intro hops hcl x hx
      simp only [runObs, List.mem_cons] at hx
      rcases hx with rfl | hx
      · exact hvok (hops op List.mem_cons_self) hcl
      · exact i3 (fun op' hop' => (hops op' (List.mem_cons_of_mem _ hop')).trans hcfg) (hcl.trans hcfg) x hx

theorem Init.inv07 {s : Flow.St} {o : ObsState} (h : Init s o) : Inv07 s o := by
  refine ⟨h.cfg07, h.refreshFlag, ?_, ?_, ?_⟩
  · intro tok; rw [h.noRefresh, h.obsRts]; rfl
  · rw [h.noRefresh]; intro r hr; cases hr
  · rw [h.noRefresh]; intro r hr; cases hr

end FlowObs

namespace C07
open FlowObs Flow

/-- **C07 over histories, unconditional part.**  From an initial situation, for EVERY list of operations on either router:
    the reference monitor has nothing to object to any step that is not a REFUSED refresh - in particular every refresh that
    succeeds was made with a live (not yet rotated, actually issued) refresh token, by the authenticated / identified client
    the token belongs to, with refresh enabled and the grant registered, requested ⊆ granted, granted = requested-or-previous
    scopes, client / subject / audience / auth time kept, a new token different from the old one, and the old one handed to
    the storage; and no refused request ever created tokens.  A refused refresh can at most trip the clause "a widening
    request must be answered invalid_scope" (see `c07_history` for when it cannot). -/
theorem c07_history_core (now : Int) (s : Flow.St) (o : ObsState) (h0 : Init s o) (ops : List Flow.Op) :
    ∀ x ∈ (runObs now (s, o) ops).2, x.2.2 = none ∨ (x.2.2 = widening ∧ ∃ e, x.1 = .error e) :=
  (inv07_run now h0.inv07 ops).2.1

/-- **C07 over histories.**  ... and the monitor has nothing at all to object (including: a request that fails only because
    of its scope is answered `invalid_scope`) when (a) registered client ids are not empty, (b) every refresh operation's
    `hasAssertion` flag agrees with its assertion type, and (c) no client assertion is judged at a rounding-boundary instant
    (`Decisive`).  Each of the three is needed: `c07_widening_needs_*` below. -/
theorem c07_history (now : Int) (s : Flow.St) (o : ObsState) (h0 : Init s o) (ops : List Flow.Op)
    (hops : ∀ op ∈ ops, OpOK now s.p op) (hcl : ClientsOK s.p) :
    ∀ x ∈ (runObs now (s, o) ops).2, x.2.2 = none :=
  (inv07_run now h0.inv07 ops).2.2 hops hcl

/-- **Rotation.**  After a successful refresh (in any reachable state) the presented token no longer resolves in the storage,
    the monitor holds it dead, and the response's new token is a different one that does resolve. -/
theorem c07_rotation (now : Int) {s : Flow.St} {o : ObsState} (h : Inv07 s o) (rt : Router) (req : RefreshTokenRequest) (ha : Bool)
    (i : IssueFor) (nr : Option String) (hok : (Flow.step now s (.refresh rt req ha)).2 = .issued i nr) :
    (∃ e, (Flow.step now s (.refresh rt req ha)).1.p.store.TokenRequestByRefreshToken req.RefreshToken = .error e) ∧
    (stepObs now (s, o) (.refresh rt req ha)).1.2.m07.rts.find? (fun t => t.token == req.RefreshToken && t.live) = none ∧
    ∃ tok r, nr = some tok ∧ tok ≠ req.RefreshToken ∧
      (Flow.step now s (.refresh rt req ha)).1.p.store.TokenRequestByRefreshToken tok = .ok r := by
  have hinv := (good07_step now h (.refresh rt req ha)).1
  rw [stepObs_state] at hinv
  cases hre : refreshExchange now rt s.p req ha with
  | error e => rw [step_refresh, hre] at hok; simp at hok
  | ok i' =>
    obtain ⟨r0, r1, c, hi, hsup, htok, hlook, hcid, hgrant, hvs, hauth⟩ := refreshExchange_ok hre
    subst hi
    have hstep : Flow.step now s (.refresh rt req ha) =
        (applyIssue s (.refresh r1 c req.RefreshToken), .issued (.refresh r1 c req.RefreshToken) (newRefresh s (.refresh r1 c req.RefreshToken))) := by
      rw [step_refresh, hre]
    rw [hstep] at hok hinv ⊢
    simp only [] at hok hinv ⊢
    obtain ⟨m1, m2, m3⟩ := mintTokens_refresh s r1 c req.RefreshToken
    have hfind0 := tokenLookup hlook
    have hr0mem := List.mem_of_find?_eq_some hfind0
    have hr0tok : r0.token = req.RefreshToken := by simpa using List.find?_some hfind0
    obtain ⟨k0, hk0, hk0id⟩ := h.fresh r0 hr0mem
    have hnewne : ("rt" ++ toString s.nextRT) ≠ req.RefreshToken := by
      intro he; rw [← hr0tok, hk0id] at he; have := rt_inj he; omega
    have hstore : (applyIssue s (.refresh r1 c req.RefreshToken)).store.refresh.find? (·.token == req.RefreshToken) = none := by
      show (mintTokens s (.refresh r1 c req.RefreshToken)).store.refresh.find? _ = none
      rw [m1, List.find?_append,
        find?_filter_none (l := s.store.refresh) (p := fun r => r.token != req.RefreshToken) (q := fun r => r.token == req.RefreshToken)
          (by intro x hx; have : x.token = req.RefreshToken := by simpa using hx
              simp [this])]
      have : (("rt" ++ toString s.nextRT) == req.RefreshToken) = false := by simpa using hnewne
      simp only [Option.none_or, List.find?_cons, this, List.find?_nil]
    refine ⟨?_, ?_, "rt" ++ toString s.nextRT, { r1 with token := "rt" ++ toString s.nextRT }, ?_, hnewne, ?_⟩
    · unfold Store.TokenRequestByRefreshToken
      have : (applyIssue s (.refresh r1 c req.RefreshToken)).p.store.refresh.find? (·.token == req.RefreshToken) = none := hstore
      rw [this]; exact ⟨_, rfl⟩
    · rw [← hinv.live req.RefreshToken, hstore]; rfl
    · cases hok; exact m3
    · unfold Store.TokenRequestByRefreshToken
      have hfilt : ∀ r ∈ s.store.refresh.filter (·.token != req.RefreshToken), r ∈ s.store.refresh := fun r hr => (List.mem_filter.1 hr).1
      have : (applyIssue s (.refresh r1 c req.RefreshToken)).p.store.refresh.find? (·.token == "rt" ++ toString s.nextRT)
          = some { r1 with token := "rt" ++ toString s.nextRT } := by
        show (mintTokens s (.refresh r1 c req.RefreshToken)).store.refresh.find? _ = _
        rw [m1, List.find?_append, fresh_not_found h.fresh _ hfilt]
        simp
      rw [this]

end C07

/-! ## Scope chains: every refresh token stays within the grant it descends from -/

namespace FlowObs
open Go Gen Hand Flow

/-- Ghost bookkeeping of one step: for every refresh token the storage has minted, the scopes of the code grant it DESCENDS
    from.  A code exchange that makes the storage mint a refresh token starts a lineage with the scopes granted then; a
    successful refresh passes the lineage of the presented token on to the new token. -/
def lineageStep (now : Int) (s : Flow.St) (g : List (String × List String)) (op : Flow.Op) : List (String × List String) :=
  match op, (Flow.step now s op).2 with
  | .refresh _ req _, .issued _ (some tok) =>
    match g.find? (·.1 == req.RefreshToken) with
    | some (_, sc) => g ++ [(tok, sc)]
    | none => g
  | .exchange _ _ _, _ | .exchangeDeleteFails _ _ _, _ =>
    match mintedIn s (Flow.step now s op).1 with
    | some t => g ++ [(t.token, t.scopes)]
    | none => g
  | _, _ => g

def lineage (now : Int) : Flow.St → List (String × List String) → List Flow.Op → List (String × List String)
  | _, g, [] => g
  | s, g, op :: rest => lineage now (Flow.step now s op).1 (lineageStep now s g op) rest

/-- every stored refresh token has a lineage, and its scopes are within the grant's -/
structure Lin (s : Flow.St) (g : List (String × List String)) : Prop where
  within : ∀ r ∈ s.store.refresh, ∃ sc, g.find? (·.1 == r.token) = some (r.token, sc) ∧ C07.sub r.scopes sc
  fresh : ∀ e ∈ g, ∃ k, k < s.nextRT ∧ e.1 = "rt" ++ toString k

theorem Lin.of_same {s s' : Flow.St} {g : List (String × List String)} (h : Lin s g)
    (h1 : s'.store.refresh = s.store.refresh) (h2 : s'.nextRT = s.nextRT) : Lin s' g :=
  ⟨by rw [h1]; exact h.within, by rw [h2]; exact h.fresh⟩

theorem mintedIn_same {s s' : Flow.St} (h : s'.store.refresh = s.store.refresh) : mintedIn s s' = none := by
  have := mintedIn_self s
  unfold mintedIn at *
  rw [h]; exact this

theorem lin_not_found {s : Flow.St} {g : List (String × List String)} (h : Lin s g) :
    g.find? (·.1 == "rt" ++ toString s.nextRT) = none := by
  rw [List.find?_eq_none]
  intro e he hek
  obtain ⟨k, hk, hid⟩ := h.fresh e he
  have : "rt" ++ toString k = "rt" ++ toString s.nextRT := by rw [← hid]; simpa using hek
  have := rt_inj this
  omega

/-- the storage gained `new` (fresh token) and the lineage gained `(new.token, sc)` with `new.scopes ⊆ sc` -/
theorem Lin.mint {s s' : Flow.St} {g : List (String × List String)} (h : Lin s g) {l : List RefreshReq} (hl : ∀ r ∈ l, r ∈ s.store.refresh)
    {new : RefreshReq} {sc : List String} (hnew : new.token = "rt" ++ toString s.nextRT) (hsub : C07.sub new.scopes sc)
    (h1 : s'.store.refresh = l ++ [new]) (h2 : s'.nextRT = s.nextRT + 1) : Lin s' (g ++ [(new.token, sc)]) := by
  refine ⟨?_, ?_⟩
  · intro r hr
    rw [h1] at hr
    rcases List.mem_append.1 hr with hr | hr
    · obtain ⟨sc', hf, hs⟩ := h.within r (hl r hr)
      exact ⟨sc', by rw [List.find?_append, hf]; rfl, hs⟩
    · have : r = new := by simpa using hr
      subst this
      refine ⟨sc, ?_, hsub⟩
      rw [List.find?_append, hnew, lin_not_found h]
      simp
  · intro e he
    rw [h2]
    rcases List.mem_append.1 he with he | he
    · obtain ⟨k, hk, hid⟩ := h.fresh e he
      exact ⟨k, by omega, hid⟩
    · have : e = (new.token, sc) := by simpa using he
      subst this
      exact ⟨s.nextRT, by omega, hnew⟩

theorem sub_refl (a : List String) : C07.sub a a := fun _ h => h
theorem sub_trans {a b c : List String} (h1 : C07.sub a b) (h2 : C07.sub b c) : C07.sub a c := fun x hx => h2 x (h1 x hx)

theorem lin_step (now : Int) {s : Flow.St} {o : ObsState} {g : List (String × List String)} (hi : Inv07 s o) (h : Lin s g) (op : Flow.Op) :
    Lin (Flow.step now s op).1 (lineageStep now s g op) := by
  cases op with
  | authorize a hint =>
    have : lineageStep now s g (.authorize a hint) = g := by simp [lineageStep]
    rw [this, step_authorize]
    split
    · exact h
    · exact h.of_same rfl rfl
  | login a b c => exact h.of_same rfl rfl
  | callback id code =>
    have : lineageStep now s g (.callback id code) = g := by simp [lineageStep]
    rw [this, step_callback]
    split
    · exact h
    · split
      · exact h
      · split
        · exact h
        · exact h.of_same rfl rfl
  | exchange rt req ha =>
    have hl : lineageStep now s g (.exchange rt req ha) =
        match mintedIn s (Flow.step now s (.exchange rt req ha)).1 with
        | some t => g ++ [(t.token, t.scopes)]
        | none => g := by simp [lineageStep]
    rw [hl, step_exchange]
    cases hce : codeExchange now rt s.p req ha with
    | error e => simp only [mintedIn_self]; exact h
    | ok i =>
      obtain ⟨a, c, hi', _⟩ := codeExchange_ok hce
      subst hi'
      obtain ⟨hR, hN⟩ := applyIssue_refreshPart s (.code a c req.Code)
      simp only []
      by_cases hw : wantsRefresh (.code a c req.Code) = true
      · obtain ⟨m1, m2, _⟩ := mintTokens_code_yes (s := s) hw
        rw [mintedIn_append (new := newCodeRT s a) (by rw [hR, m1]) (fresh_not_found hi.fresh s.store.refresh (fun r hr => hr))]
        exact h.mint (l := s.store.refresh) (fun r hr => hr) (new := newCodeRT s a) rfl (sub_refl _) (by rw [hR, m1]) (by rw [hN, m2])
      · have hw' : wantsRefresh (.code a c req.Code) = false := by simpa using hw
        obtain ⟨m1, _⟩ := mintTokens_no (s := s) hw'
        rw [mintedIn_same (by rw [hR, m1])]
        exact h.of_same (by rw [hR, m1]) (by rw [hN, m1])
  | exchangeDeleteFails rt req ha =>
    have hl : lineageStep now s g (.exchangeDeleteFails rt req ha) =
        match mintedIn s (Flow.step now s (.exchangeDeleteFails rt req ha)).1 with
        | some t => g ++ [(t.token, t.scopes)]
        | none => g := by simp [lineageStep]
    rw [hl, step_exchangeDeleteFails]
    cases hce : codeExchange now rt s.p req ha with
    | error e => simp only [mintedIn_self]; exact h
    | ok i =>
      obtain ⟨a, c, hi', _⟩ := codeExchange_ok hce
      subst hi'
      simp only []
      by_cases hb : tokensBeforeDelete = true
      · simp only [hb, if_true]
        by_cases hw : wantsRefresh (.code a c req.Code) = true
        · obtain ⟨m1, m2, _⟩ := mintTokens_code_yes (s := s) hw
          rw [mintedIn_append (new := newCodeRT s a) m1 (fresh_not_found hi.fresh s.store.refresh (fun r hr => hr))]
          exact h.mint (l := s.store.refresh) (fun r hr => hr) (new := newCodeRT s a) rfl (sub_refl _) m1 m2
        · have hw' : wantsRefresh (.code a c req.Code) = false := by simpa using hw
          obtain ⟨m1, _⟩ := mintTokens_no (s := s) hw'
          rw [m1, mintedIn_self]; exact h
      · simp only [hb, Bool.false_eq_true, if_false, mintedIn_self]; exact h
  | refresh rt req ha =>
    cases hre : refreshExchange now rt s.p req ha with
    | error e =>
      have hst : Flow.step now s (.refresh rt req ha) = (s, .error e) := by rw [step_refresh, hre]
      have : lineageStep now s g (.refresh rt req ha) = g := by simp [lineageStep, hst]
      rw [this, hst]; exact h
    | ok i =>
      obtain ⟨r0, r1, c, hi', hsup, htok, hlook, hcid, hgrant, hvs, hauth⟩ := refreshExchange_ok hre
      subst hi'
      obtain ⟨m1, m2, m3⟩ := mintTokens_refresh s r1 c req.RefreshToken
      have hst : Flow.step now s (.refresh rt req ha) =
          (mintTokens s (.refresh r1 c req.RefreshToken), .issued (.refresh r1 c req.RefreshToken) (some ("rt" ++ toString s.nextRT))) := by
        rw [step_refresh, hre, ← m3]; rfl
      have hfind0 := tokenLookup hlook
      have hr0mem := List.mem_of_find?_eq_some hfind0
      have hr0tok : r0.token = req.RefreshToken := by simpa using List.find?_some hfind0
      obtain ⟨sc, hsc, hsub0⟩ := h.within r0 hr0mem
      rw [hr0tok] at hsc
      have : lineageStep now s g (.refresh rt req ha) = g ++ [("rt" ++ toString s.nextRT, sc)] := by simp [lineageStep, hst, hsc]
      rw [this, hst]
      have hsub1 := (C07.validateRefreshTokenScopes_ok hvs).1
      exact h.mint (l := s.store.refresh.filter (·.token != req.RefreshToken)) (fun r hr => (List.mem_filter.1 hr).1)
        (new := { r1 with token := "rt" ++ toString s.nextRT }) rfl (sub_trans hsub1 hsub0) m1 m2

theorem lin_run (now : Int) {s : Flow.St} {o : ObsState} {g : List (String × List String)} (hi : Inv07 s o) (h : Lin s g) (ops : List Flow.Op) :
    Lin (Flow.run now s ops).1 (lineage now s g ops) := by
  induction ops generalizing s o g with
  | nil => exact h
  | cons op rest ih =>
    have hinv := (good07_step now hi op).1
    rw [stepObs_state] at hinv
    exact ih hinv (lin_step now hi h op)

end FlowObs

namespace C07
open FlowObs Flow

/-- **Scope chains over histories.**  Along ANY history (from an empty storage), every refresh token the storage holds at
    the end has a lineage - the code exchange it descends from through the chain of rotations - and its scopes are within the
    scopes granted by that exchange: however many refreshes, by whomever, with whatever scope parameters, interleaved with
    whatever else. -/
theorem c07_scope_chain (now : Int) (s : Flow.St) (hr : s.store.authReqs = []) (hc : s.store.codes = []) (hrt : s.store.refresh = [])
    (ops : List Flow.Op) :
    ∀ r ∈ (Flow.run now s ops).1.store.refresh,
      ∃ granted, (lineage now s [] ops).find? (·.1 == r.token) = some (r.token, granted) ∧ sub r.scopes granted := by
  have hinv := (init_obsOf hr hc hrt).inv07
  have hlin : Lin s [] := ⟨(by rw [hrt]; intro r hr; cases hr), (by intro e he; cases he)⟩
  exact (lin_run now hinv hlin ops).within

end C07

/-! ## Non-vacuity and the need for the side conditions of `c07_history` -/

namespace FlowObs
open Go Gen Hand Flow

/-- a chain: exchange, then three refreshes narrowing step by step (offline_access dropped in the middle), a replay of a
    rotated token, a foreign caller, and a widening request -/
def demoChain (rt : Router) : List Flow.Op :=
  [demoAuthorize, .login "ar1" "user1" 1000, .callback "ar1" "c1", demoExchange rt,
   demoRefresh rt "rt1" ["openid", "email", "offline_access"],
   demoRefresh rt "rt2" ["openid", "email"],
   demoRefresh rt "rt1" [],                                                              -- replay of a rotated token
   .refresh rt { RefreshToken := "rt3", ClientID := "pub" } false,                      -- another client presents it
   demoRefresh rt "rt3" ["openid", "email", "offline_access"],                          -- re-widening to a dropped scope
   demoRefresh rt "rt3" []]

-- witnesses for the side conditions
def wEmpty : OPClient :=
  { id := "", secret := "s", auth := "client_secret_basic", grants := ["authorization_code", "refresh_token"], redirectURIs := ["https://rp.example/cb"] }
def wStateEmpty : Flow.St := { p := { store := { clients := [wEmpty] }, issuer := "https://op.example", refreshSupported := true } }
def wOpsEmpty : List Flow.Op :=
  [.authorize { clientID := "", redirectURI := "https://rp.example/cb", scopes := ["openid", "offline_access"] } {}, .login "ar1" "user1" 1000, .callback "ar1" "c1",
   .exchange .provider { Code := "c1", RedirectURI := "https://rp.example/cb", ClientID := "", ClientSecret := "s" } false,
   .refresh .legacy { RefreshToken := "rt1", Scopes := ["openid", "admin"], ClientID := "", ClientSecret := "s" } false]

def wOpsFlag : List Flow.Op :=
  [demoAuthorize, .login "ar1" "user1" 1000, .callback "ar1" "c1", demoExchange .legacy,
   .refresh .legacy { RefreshToken := "rt1", Scopes := ["openid", "admin"], ClientID := "web", ClientSecret := "s3cret" } true]

def wKey : JWK := { KeyID := "k1", Use := "sig", kty := .rsa, keyNo := 7 }
def wPk : OPClient :=
  { id := "pk", auth := "private_key_jwt", grants := ["authorization_code", "refresh_token"], redirectURIs := ["https://rp.example/cb"], keys := [wKey] }
def wStatePk : Flow.St :=
  { p := { store := { clients := [wPk] }, issuer := "https://op.example", refreshSupported := true, pkjwtSupported := true, jwtOffset := 0 } }
def wAssertion (bytes : Nat) (exp iat : Int) : Token :=
  let p : Payload := { bytes := bytes, claims := some { iss := "pk", sub := "pk", aud := ["https://op.example"], exp := exp, iat := iat } }
  let hdr : JHeader := { Algorithm := "RS256", KeyID := "k1" }
  { segs := 3, middle := some p, jws := some { Signatures := [{ Header := hdr, signer := some 7, signedAlg := "RS256", signedBytes := bytes, signedHdr := hdr }], payload := p } }
/-- 3700.5 s: `now - MaxAgeIAT` (3600 s) is 100.5 s, which the code rounds up to 101 s -/
def wNow : Int := 3700500000000
def wOpsPk (iatOfRefreshAssertion : Int) : List Flow.Op :=
  [.authorize { clientID := "pk", redirectURI := "https://rp.example/cb", scopes := ["openid", "offline_access"] } {}, .login "ar1" "user1" 50, .callback "ar1" "c1",
   .exchange .provider { Code := "c1", RedirectURI := "https://rp.example/cb", ClientAssertionType := Const.ClientAssertionTypeJWTAssertion, ClientAssertion := wAssertion 1 4000 3700 } true,
   .refresh .provider { RefreshToken := "rt1", Scopes := ["openid", "admin"], ClientAssertionType := Const.ClientAssertionTypeJWTAssertion,
                        ClientAssertion := wAssertion 2 4000 iatOfRefreshAssertion } true]

end FlowObs

namespace C07
open FlowObs Flow

/-- the chain on both routers: every step accepted by both monitors; scopes shrink, replays / foreign callers / re-widening are refused -/
example : ((runObs 0 (demoState, obsOf demoState) (demoChain .provider)).2.map fun x => (showOutShort x.1, x.2.1, x.2.2)) =
  [("login:ar1", none, none), ("done", none, none), ("code:c1", none, none), ("tokens:user1:web:rt1", none, none),
   ("refreshed:user1:web:openid email offline_access:rt2", none, none), ("refreshed:user1:web:openid email:rt3", none, none),
   ("error:ErrInvalidGrant", none, none), ("error:ErrInvalidGrant", none, none), ("error:ErrInvalidScope", none, none),
   ("refreshed:user1:web:openid email:rt4", none, none)] := by decide

example : ((runObs 0 (demoState, obsOf demoState) (demoChain .legacy)).2.map fun x => (showOutShort x.1, x.2.1, x.2.2)) =
  [("login:ar1", none, none), ("done", none, none), ("code:c1", none, none), ("tokens:user1:web:rt1", none, none),
   ("refreshed:user1:web:openid email offline_access:rt2", none, none), ("refreshed:user1:web:openid email:rt3", none, none),
   ("error:ErrInvalidGrant", none, none), ("error:ErrInvalidGrant", none, none), ("error:ErrInvalidScope", none, none),
   ("refreshed:user1:web:openid email:rt4", none, none)] := by decide

/-- the premises of `c07_history` hold for it -/
example : Init demoState (obsOf demoState) ∧ ClientsOK demoState.p ∧ ∀ op ∈ demoChain .provider, OpOK 0 demoState.p op := by
  refine ⟨init_obsOf rfl rfl rfl, ?_, ?_⟩
  · intro c hc
    simp only [demoState, List.mem_cons, List.mem_nil_iff, or_false] at hc
    rcases hc with rfl | rfl <;> decide
  · intro op hop
    simp only [demoChain, List.mem_cons, List.mem_nil_iff, or_false] at hop
    rcases hop with rfl | rfl | rfl | rfl | rfl | rfl | rfl | rfl | rfl | rfl <;>
      first | trivial | exact ⟨by decide, fun h => absurd h (by decide)⟩

/-- the lineage of the chain: the last token descends from the grant of the exchange -/
example : lineage 0 demoState [] (demoChain .provider) =
  [("rt1", ["openid", "email", "offline_access"]), ("rt2", ["openid", "email", "offline_access"]),
   ("rt3", ["openid", "email", "offline_access"]), ("rt4", ["openid", "email", "offline_access"])] := by decide

/-- the monitor is not trivially silent: a refresh answered with a scope that was dropped, or without rotation, is flagged -/
example :
    let o := (runObs 0 (demoState, obsOf demoState) ((demoChain .provider).take 6)).1.2
    (observe 0 o (.refresh { clientID := "web", secret := "s3cret" } "rt3" ["openid", "email", "offline_access"]
      (some { newRT := "rt4", scopes := ["openid", "email", "offline_access"], client := "web", subject := "user1", audience := ["web"], authTime := 1000, handedOver := true })
      "" true)).2.2 = some "scope-widened" ∧
    (observe 0 o (.refresh { clientID := "web", secret := "s3cret" } "rt3" ["openid"]
      (some { newRT := "", scopes := ["openid"], client := "web", subject := "user1", audience := ["web"], authTime := 1000, handedOver := false })
      "" true)).2.2 = some "no-new-refresh-token" := by decide

/-- the storage fault leaves a refresh token behind that was never delivered (when the storage creates the tokens before the
    deletion is attempted - a regenerated fact); the observer learns it from the storage, and a later refresh with it (by its
    client) is a refresh of a known, live token -/
example : Flow.tokensBeforeDelete = true → ((runObs 0 (demoState, obsOf demoState)
      [demoAuthorize, .login "ar1" "user1" 1000, .callback "ar1" "c1",
       .exchangeDeleteFails .provider { Code := "c1", RedirectURI := "https://rp.example/cb", ClientID := "web", ClientSecret := "s3cret" } false,
       demoRefresh .provider "rt1" []]).2.map fun x => (showOutShort x.1, x.2.1, x.2.2)) =
  [("login:ar1", none, none), ("done", none, none), ("code:c1", none, none), ("error:ErrServerError", none, none),
   ("refreshed:user1:web:openid email offline_access:rt2", none, none)] := by decide

/-- ... whereas an observer that only learns refresh tokens from token responses would have to object (the undelivered token
    exists and works): -/
example :
    let o := (runObs 0 (demoState, obsOf demoState) [demoAuthorize, .login "ar1" "user1" 1000, .callback "ar1" "c1"]).1.2
    (observe 0 o (.refresh { clientID := "web", secret := "s3cret" } "rt1" []
      (some { newRT := "rt2", scopes := ["openid", "email", "offline_access"], client := "web", subject := "user1", audience := ["web"], authTime := 1000, handedOver := true })
      "" true)).2.2 = some "unknown-or-dead-refresh-token" := by decide

/-! Each side condition of `c07_history` is needed: without it the widening clause fires on the model (the request was
    refused for ANOTHER reason than its scope, which the monitor's credential check does not see). -/

/-- (a) a registered client with the empty id: the Server router refuses a request without client_id as invalid_request -/
theorem c07_widening_needs_client_ids :
    ((runObs 0 (wStateEmpty, obsOf wStateEmpty) wOpsEmpty).2.map fun x => (showOutShort x.1, x.2.2)).getLast? =
      some ("error:ErrInvalidRequest", widening) := by decide

/-- (b) `hasAssertion` without the JWT assertion type: the Server router refuses it as invalid_request -/
theorem c07_widening_needs_assertion_flag :
    ((runObs 0 (demoState, obsOf demoState) wOpsFlag).2.map fun x => (showOutShort x.1, x.2.2)).getLast? =
      some ("error:ErrInvalidRequest", widening) := by decide

/-- (c) an assertion whose `iat` is exactly `MaxAgeIAT + 0.5 s` old: the spec (half a second of tolerance) takes it, the code
    (which rounds `now - MaxAgeIAT` up to the next second) refuses it as too old - one second younger and all is well -/
theorem c07_widening_needs_decisive_instant :
    ((runObs wNow (wStatePk, obsOf wStatePk) (wOpsPk 100)).2.map fun x => (showOutShort x.1, x.2.2)).getLast? =
      some ("error:ErrIatToOld", widening) ∧
    ((runObs wNow (wStatePk, obsOf wStatePk) (wOpsPk 101)).2.map fun x => (showOutShort x.1, x.2.2)).getLast? =
      some ("error:ErrInvalidScope", none) := by decide

end C07
