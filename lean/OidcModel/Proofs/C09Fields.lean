/-
  C09 — the field contract (kind W, fourth part): a function that is handed a result struct and dereferences one of its
  nil-able fields without a nil test only ever sees values in which that field is set.

  `field_contract` (`decide` over the regenerated return statements, consumers and call-throughs), `c09_field_consumers_total`
  (its reading: for every consumer, every producer that can reach it, every value that producer hands back on the paths
  the consumer sees), `c09_rp_handlers_no_nil_field` (what the driver predicts for the relying party's redirect handlers).
  Relaxing a producer — returning the struct with a nil error where it used to return an error (seeded C09-H) — adds a
  value without the field to `resolve`, and `field_contract` stops checking.
-/
import OidcModel.Model.C09Tie

namespace C09

/-- decided on the regenerated facts: no consumer is reached by a value that lacks the field it dereferences -/
theorem field_contract :
    (GenC09.fieldConsumers.all fun c => !consumerBroken GenC09.fieldReturns GenC09.callThroughs c) = true := by decide

/-- **C09 (field contract)**: for every selection `v.F.x` (or `v.P` promoted through an embedded pointer `F`) in the
    library that is not preceded by a nil test of `v.F`, every producer whose result can be that `v` — directly, or
    through a callback of a named func type — and every struct value the producer can hand back on the paths the
    consumer sees (with a nil error; with any error where the error is not checked or is discarded): the field is set,
    or the value is built under an audited configuration condition (`rp.IsOAuth2Only()`) -/
theorem c09_field_consumers_total :
    ∀ c ∈ GenC09.fieldConsumers, c.guarded = false →
      ∀ src ∈ consumerSources GenC09.callThroughs c, ∀ v ∈ resolve GenC09.fieldReturns fieldFuel src.1 src.2,
        c.field ∈ v.sets ∨ v.exempt = true := by
  intro c hc hg src hsrc v hv
  have h := List.all_eq_true.mp field_contract c hc
  simp only [consumerBroken, Bool.not_not, List.isEmpty_iff] at h
  by_cases hin : c.field ∈ v.sets
  · exact Or.inl hin
  · right
    cases hex : v.exempt
    · exfalso
      have hmem : v ∈ consumerWitnesses GenC09.fieldReturns GenC09.callThroughs c := by
        unfold consumerWitnesses
        simp only [hg, Bool.false_eq_true, if_false]
        refine List.mem_flatMap.mpr ⟨src, hsrc, ?_⟩
        refine List.mem_filter.mpr ⟨hv, ?_⟩
        simp [hin, hex]
      rw [h] at hmem
      exact List.not_mem_nil hmem
    · rfl

/-- the redirect handlers of the relying party never dereference an unset field of the tokens they are handed -/
theorem c09_rp_handlers_no_nil_field (handler : String) :
    handlerMayPanic GenC09.fieldReturns GenC09.callThroughs GenC09.fieldConsumers handler = false := by
  unfold handlerMayPanic
  split
  · rename_i fn _
    rw [List.any_eq_false]
    intro c hc
    have := List.all_eq_true.mp field_contract c hc
    simp only [Bool.not_eq_true'] at this
    simp [this]
  · rfl

/-! ### nil guards of pointer parameters -/

/-- the pointer parameters / receivers that the audited tree tests for nil before selecting through them: callers rely on
    it (`LegacyServer.CodeExchange` hands `VerifyCodeChallenge` the challenge of an auth request that may have none;
    `createDiscoveryConfigV2` calls `Absolute` on endpoints that may be unset) -/
def auditedNilGuards : List (String × String) :=
  [("oidc.Locale.Tag", "l"), ("oidc.VerifyCodeChallenge", "c"), ("op.Endpoint.Absolute", "e"), ("op.Endpoint.Relative", "e"), ("op.Endpoint.Validate", "e")]

/-- every audited nil guard is still in the regenerated source (guards may be added, not lost) -/
theorem nil_guards_kept : (auditedNilGuards.all GenC09.nilGuardedParams.contains) = true := by decide

/-! ### non-vacuity -/

/-- the consumer is there: `UserinfoCallback` selects through `tokens.IDTokenClaims` without a nil test, its values come
    from the nil-error returns of `rp.CodeExchange` (through `CodeExchangeHandler`'s call of the callback) … -/
example : (GenC09.fieldConsumers.any fun c => c.fn == "rp.UserinfoCallback" && c.field == "IDTokenClaims" && !c.guarded &&
      consumerSources GenC09.callThroughs c == [("rp.CodeExchange", false)]) = true := by decide
/-- … which are: the OAuth2-only value (exempt) and the fully populated one -/
example : ((resolve GenC09.fieldReturns fieldFuel "rp.CodeExchange" false).any fun v => v.exempt && !v.sets.contains "IDTokenClaims") = true ∧
    ((resolve GenC09.fieldReturns fieldFuel "rp.CodeExchange" false).any fun v => !v.exempt && v.sets.contains "IDTokenClaims") = true := by decide
/-- `RefreshTokens` does hand back tokens without ID-token claims (documented); nothing in the library dereferences them -/
example : ((resolve GenC09.fieldReturns fieldFuel "rp.RefreshTokens" false).any fun v => !v.sets.contains "IDTokenClaims" && !v.exempt && !v.isNil) = true := by decide

/-- seeded C09-H: `CodeExchange` answers a missing id_token with the tokens and a nil error -/
def returnsRelaxed : List FieldReturn :=
  (GenC09.fieldReturns.filter fun r => r.fn != "rp.CodeExchange") ++
  [{ fn := "rp.CodeExchange", valueKind := "nil", sets := [], forward := "", errKind := "nonnil", launders := false, conds := ["err != nil"] },
   { fn := "rp.CodeExchange", valueKind := "forward", sets := [], forward := "rp.verifyTokenResponse", errKind := "nil", launders := true, conds := ["errors.Is(err, ErrMissingIDToken)"] },
   { fn := "rp.CodeExchange", valueKind := "forward", sets := [], forward := "rp.verifyTokenResponse", errKind := "same", launders := false, conds := [] }]
example : handlerMayPanic returnsRelaxed GenC09.callThroughs GenC09.fieldConsumers "CodeExchangeHandler+UserinfoCallback" = true := by decide
example : handlerMayPanic returnsRelaxed GenC09.callThroughs GenC09.fieldConsumers "CodeExchangeHandler+callback" = false := by decide
/-- a nil test in the consumer repairs it -/
example : (GenC09.fieldConsumers.all fun c => !consumerBroken returnsRelaxed GenC09.callThroughs { c with guarded := true }) = true := by decide

end C09
