/-
  C18, layer 1: ONE characterisation lemma per regenerated function of the logout slice, and hand-readable reference
  functions (`ref…`) they are stated against.  This file is the ONLY place where a definition of
  Generated/Session.lean (and the checks of Generated/OidcVerifier.lean / RPVerifier.lean the hint verifier calls) is
  unfolded; the scripts are the shape-independent `go_char` / `go_leaf` (OidcModel/GoTac.lean) and `go_paths`
  (Proofs/C02.lean): unfold, split every `if` / `match` whatever the shape, close every branch.  A semantically
  neutral rewrite of the Go text (local variable for a getter, inverted `if`, early return instead of `else`,
  `slices.Contains` for a hand-written loop, merged / reordered guards, an extracted helper) regenerates another term
  and the same scripts still close; a rewrite that changes what a function computes leaves an unprovable goal here.
  Everything else (Proofs/C18.lean, C18History.lean, C18Bytes.lean) uses only these lemmas.

  | regenerated definition                         | lemma                                   |
  |------------------------------------------------|-----------------------------------------|
  | `Gen.CheckIssuer`                              | `checkIssuer_ok`                        |
  | `Gen.ParseToken`                               | `parseToken_claimsOf`                   |
  | `Gen.CheckSignature`                           | `checkSignature_claims` (via C02.checkSignature_paths) |
  | `Gen.VerifyIDTokenHint`                        | `hint_paths`, `hint_time_independent`   |
  | `Gen.ProviderIDTokenHintVerifier`              | `providerVerifier_char`                 |
  | `Gen.ValidateEndSessionPostLogoutRedirectURI`  | `validateURI_char`  (= `refURI`)        |
  | `Gen.ValidateEndSessionRequest`                | `validate_eq_ref`   (= `refValidate`)   |
  | `Gen.EndSession`                               | `endSession_char`   (= `refEndSession`) |
  | `Gen.LegacyEndSession`                         | `legacyEndSession_char` (= `refLegacy`) |
  | `Gen.LegacyEndSessionHandler`                  | `legacyHandler_char` (= `refLegacyHandler`) |
-/
import OidcModel.Spec.C18
import OidcModel.Generated.Session
import OidcModel.Model.SessionFlow
import OidcModel.Proofs.C02
import OidcModel.GoTac
namespace C18
open Go Gen Hand

/-! ### loops (`Go.forFirst`): shape-independent facts -/

theorem forFirst_none {α β : Type} {l : List α} {f : α → Option β} (h : Go.forFirst l f = none) : ∀ x ∈ l, f x = none := by
  induction l with
  | nil => simp
  | cons a t ih =>
    simp only [Go.forFirst] at h
    cases ha : f a with
    | some r => simp [ha] at h
    | none =>
      simp only [ha] at h
      intro x hx
      simp only [List.mem_cons] at hx
      rcases hx with rfl | hx
      · exact ha
      · exact ih h x hx

theorem forFirst_some {α β : Type} {l : List α} {f : α → Option β} {r : β} (h : Go.forFirst l f = some r) :
    ∃ x ∈ l, f x = some r := by
  induction l with
  | nil => simp [Go.forFirst] at h
  | cons a t ih =>
    simp only [Go.forFirst] at h
    cases ha : f a with
    | some r' =>
      simp only [ha, Option.some.injEq] at h; subst h
      exact ⟨a, by simp, ha⟩
    | none =>
      simp only [ha] at h
      obtain ⟨x, hx, hf⟩ := ih h
      exact ⟨x, by simp [hx], hf⟩

theorem forFirst_of_all_none {α β : Type} {l : List α} {f : α → Option β} (h : ∀ x ∈ l, f x = none) : Go.forFirst l f = none := by
  induction l with
  | nil => rfl
  | cons a t ih =>
    simp only [Go.forFirst]
    rw [h a (by simp)]
    exact ih (fun x hx => h x (by simp [hx]))

/-- a loop whose iterations either continue or leave with `r`, and one of which leaves, leaves with `r` -/
theorem forFirst_first {α β : Type} {l : List α} {f : α → Option β} {r : β}
    (h1 : ∀ x ∈ l, f x = none ∨ f x = some r) (h2 : ∃ x ∈ l, f x = some r) : Go.forFirst l f = some r := by
  induction l with
  | nil => simp at h2
  | cons a t ih =>
    simp only [Go.forFirst]
    rcases h1 a (by simp) with ha | ha
    · rw [ha]
      apply ih (fun x hx => h1 x (by simp [hx]))
      obtain ⟨x, hx, hf⟩ := h2
      simp only [List.mem_cons] at hx
      rcases hx with rfl | hx
      · rw [ha] at hf; simp at hf
      · exact ⟨x, hx, hf⟩
    · rw [ha]

/-- two loop bodies that agree pointwise give the same loop: lets a characterisation lemma replace the regenerated body —
    whatever its shape — by a named step function -/
theorem forFirst_congr {α β : Type} {l : List α} {f g : α → Option β} (h : ∀ x, f x = g x) : Go.forFirst l f = Go.forFirst l g := by
  have : f = g := funext h
  rw [this]

/-! ### the hint verifier and the checks it calls -/

@[simp] theorem hintClaims_valid (c : Claims) : hintClaims (HintOut.valid c) = c := rfl
@[simp] theorem hintClaims_expired (c : Claims) (e : String) : hintClaims (HintOut.expired c e) = c := rfl

theorem checkIssuer_ok {now : Int} {c : Claims} {iss : String} : CheckIssuer now c iss = .ok () ↔ c.iss = iss := by
  go_char CheckIssuer Claims.GetIssuer Go.ok

theorem parseToken_claimsOf {now : Int} {t : Token} {p : Payload} {c : Claims} :
    ParseToken now t = .ok (p, c) → claimsOf t = some c := by
  unfold ParseToken claimsOf
  go_paths

theorem checkSignature_claims {now : Int} {t : Token} {p : Payload} {c c' : Claims} {algs : List String} {ks : KeySet}
    (h : CheckSignature now t p c algs ks = .ok c') : ∃ alg, c' = c.SetSignatureAlgorithm alg := by
  obtain ⟨j, _, _, _, sp, _, _, hc⟩ := C02.checkSignature_paths h
  exact ⟨_, hc⟩

/-- an accepted hint (valid OR expired) went through `ParseToken`, `CheckIssuer` against the verifier's issuer and
    `CheckSignature` under the verifier's allow-list and key set; the claims handed back are those `CheckSignature` returned -/
theorem hint_paths {now : Int} {t : Token} {v : Verifier} {out : HintOut} : VerifyIDTokenHint now t v = .ok out →
    ∃ p c0, ParseToken now t = .ok (p, c0) ∧ CheckIssuer now c0 v.Issuer = .ok () ∧
      ∃ c1, CheckSignature now t p c0 v.SupportedSignAlgs v.KeySet = .ok c1 ∧ hintClaims out = c1 := by
  unfold VerifyIDTokenHint DecryptToken
  go_paths

/-- the claims a hint verification hands back do not depend on the clock: expiry, issued-at and auth_time
    failures are tolerated (`IDTokenHintExpiredError`), everything else never looks at the time -/
theorem hint_time_independent (now now' : Int) (t : Token) (v : Verifier) :
    (VerifyIDTokenHint now t v).map hintClaims = (VerifyIDTokenHint now' t v).map hintClaims := by
  unfold VerifyIDTokenHint
  have e1 : ∀ t, DecryptToken now t = DecryptToken now' t := fun _ => rfl
  have e2 : ∀ t, ParseToken now t = ParseToken now' t := fun _ => rfl
  have e3 : ∀ c i, CheckIssuer now c i = CheckIssuer now' c i := fun _ _ => rfl
  have e4 : ∀ t p c a k, CheckSignature now t p c a k = CheckSignature now' t p c a k := fun _ _ _ _ _ => rfl
  have e5 : ∀ c a, CheckAuthorizationContextClassReference now c a = CheckAuthorizationContextClassReference now' c a := fun _ _ => rfl
  simp only [e1, e2, e3, e4, e5]
  repeat' split
  all_goals simp_all [Except.map, hintClaims]

/-- `Provider.IDTokenHintVerifier(ctx)`: issuer of THIS request, the provider's hint key-set field, its configured allow-list -/
theorem providerVerifier_char (now : Int) (reqIssuer : String) (hp : HintProvider) :
    ProviderIDTokenHintVerifier now reqIssuer hp =
      { Issuer := reqIssuer, KeySet := hp.idTokenHinKeySet, SupportedSignAlgs := hp.idTokenHintVerifierOpts } := by
  go_char ProviderIDTokenHintVerifier Hand.newIDTokenHintVerifier

/-! ### `ValidateEndSessionPostLogoutRedirectURI` -/

/-- one iteration of the glob loop: a matcher error leaves with `server_error`, a match leaves with success, otherwise on -/
def globStep (pm : String → String → Go.R Bool) (uri g : String) : Option (Go.R Unit) :=
  match pm g uri with
  | .error _ => some (.error "ErrServerError")
  | .ok true => some (.ok ())
  | .ok false => none

/-- hand-readable reference: exact list first; globs only for a client that opted in, only its POST-LOGOUT globs, in order -/
def refURI (o : SessOracles) (uri : String) (c : OPClient) : Go.R Unit :=
  if c.postLogoutURIs.contains uri then .ok ()
  else if c.is_HasRedirectGlobs then
    (match Go.forFirst c.PostLogoutRedirectURIGlobs (globStep o.pathMatch uri) with
     | some r => r
     | none => .error "ErrInvalidRequest")
  else .error "ErrInvalidRequest"

theorem validateURI_char (now : Int) (o : SessOracles) (uri : String) (c : OPClient) :
    ValidateEndSessionPostLogoutRedirectURI now o uri c = refURI o uri c := by
  unfold ValidateEndSessionPostLogoutRedirectURI refURI
  simp only []
  rw [forFirst_congr (g := globStep o.pathMatch uri)]
  · go_char OPClient.PostLogoutRedirectURIs Go.ok
  · intro g
    go_char globStep Go.ok

/-! ### `ValidateEndSessionRequest` -/

/-- step 1 of `ValidateEndSessionRequest`: who is logging out (subject, client, hint claims) -/
def refIdentify (now : Int) (o : SessOracles) (r : EndSessionReq) (e : SessionEnder) : Go.R (String × String × Claims) :=
  if r.IdTokenHint != "" then
    match Hand.viaToken o.tokenOf (VerifyIDTokenHint now) r.IdTokenHint e.hintVerifier with
    | .error _ => .error "ErrInvalidRequest"
    | .ok out =>
      if r.ClientID != "" && r.ClientID != (hintClaims out).azp then .error "ErrInvalidRequest"
      else .ok ((hintClaims out).sub, (hintClaims out).azp, hintClaims out)
  else .ok ("", r.ClientID, default)

/-- step 2: the client's registration decides where to go (session client id, target URI) -/
def refTarget (now : Int) (o : SessOracles) (r : EndSessionReq) (e : SessionEnder) (cid : String) : Go.R (String × String) :=
  if cid != "" then
    match e.store.GetClientByClientID cid with
    | .error err => .error (sessDefaultToServerError now err "")
    | .ok client =>
      if r.PostLogoutRedirectURI != "" then
        match refURI o r.PostLogoutRedirectURI client with
        | .error err => .error err
        | .ok _ => .ok (client.id, r.PostLogoutRedirectURI)
      else .ok (client.id, e.defaultLogoutURI)
  else .ok ("", e.defaultLogoutURI)

/-- step 3: the state is appended -/
def refState (now : Int) (o : SessOracles) (r : EndSessionReq) (target : String) : Go.R String :=
  if r.State != "" then
    match o.urlParse target with
    | .error err => .error (sessDefaultToServerError now err "")
    | .ok u => .ok (sessMergeQueryParams now u [("state", [r.State])])
  else .ok target

/-- hand-readable reference of `ValidateEndSessionRequest` -/
def refValidate (now : Int) (o : SessOracles) (r : EndSessionReq) (e : SessionEnder) : Go.R EndSessionRequest :=
  match refIdentify now o r e with
  | .error err => .error err
  | .ok (uid, cid, claims) =>
    match refTarget now o r e cid with
    | .error err => .error err
    | .ok (scid, target) =>
      match refState now o r target with
      | .error err => .error err
      | .ok loc => .ok { UserID := uid, ClientID := scid, IDTokenHintClaims := if r.IdTokenHint != "" then claims else default, RedirectURI := loc }

/-- closes a path of `ValidateEndSessionRequest` against the reference; the second alternative sees through helpers an
    "extract function" rewrite introduced (factgen emits them as `@[simp] def`: `simp_all` unfolds them, the `match`es they
    bring along are split) -/
local macro "validate_close" : tactic => `(tactic| first
  | (simp_all [refValidate, refIdentify, refTarget, refState]; done)
  | (simp_all [refValidate, refIdentify, refTarget, refState]; grind)
  | (simp_all [refValidate, refIdentify, refTarget, refState] <;> (repeat' split) <;> first | (simp_all; done) | grind))

theorem validate_ok_ref {now : Int} {o : SessOracles} {r : EndSessionReq} {e : SessionEnder} {s : EndSessionRequest}
    (h : ValidateEndSessionRequest now o r e = .ok s) : refValidate now o r e = .ok s := by
  unfold ValidateEndSessionRequest at h
  simp only [validateURI_char, SessionEnder.Storage, SessionEnder.DefaultLogoutRedirectURI, SessionEnder.IDTokenHintVerifier,
    Claims.GetSubject, Claims.GetAuthorizedParty, OPClient.GetID] at h
  repeat' (split at h <;> try (simp at h))
  all_goals (subst_vars; by_cases hcid : r.ClientID = "" <;> validate_close)

theorem validate_err_ref {now : Int} {o : SessOracles} {r : EndSessionReq} {e : SessionEnder} {err : String}
    (h : ValidateEndSessionRequest now o r e = .error err) : refValidate now o r e = .error err := by
  unfold ValidateEndSessionRequest at h
  simp only [validateURI_char, SessionEnder.Storage, SessionEnder.DefaultLogoutRedirectURI, SessionEnder.IDTokenHintVerifier,
    Claims.GetSubject, Claims.GetAuthorizedParty, OPClient.GetID] at h
  repeat' (split at h <;> try (simp at h))
  all_goals ((try subst_vars); by_cases hcid : r.ClientID = "" <;> validate_close)

/-- bridge: the regenerated function IS the reference function -/
theorem validate_eq_ref (now : Int) (o : SessOracles) (r : EndSessionReq) (e : SessionEnder) :
    ValidateEndSessionRequest now o r e = refValidate now o r e := by
  cases h : ValidateEndSessionRequest now o r e with
  | ok s => exact (validate_ok_ref h).symm
  | error err => exact (validate_err_ref h).symm

/-! ### the handlers of the two routers -/

/-- the storage is asked to terminate the session's (user, client); with `CanTerminateSessionFromRequest` the storage
    also names the redirect (the reference storage: the proposed one) -/
def refTerminate (st : SessStore) (s : EndSessionRequest) : Go.R String :=
  if st.is_CanTerminateSessionFromRequest then st.TerminateSessionFromRequest s
  else match st.TerminateSession s.UserID s.ClientID with
    | .error err => .error err
    | .ok _ => .ok s.RedirectURI

/-- `op.EndSession` (Provider router) -/
def refEndSession (now : Int) (o : SessOracles) (rq : Go.R EndSessionReq) (e : SessionEnder) : SessResp :=
  match rq with
  | .error _ => .httpError "ErrInvalidRequest" 500
  | .ok r =>
    match ValidateEndSessionRequest now o r e with
    | .error err => .requestError err
    | .ok s =>
      match refTerminate e.store s with
      | .error err => .requestError (sessDefaultToServerError now err "error terminating session")
      | .ok loc => .redirect loc 302

theorem endSession_char (now : Int) (o : SessOracles) (rq : Go.R EndSessionReq) (e : SessionEnder) :
    EndSession now o rq e = refEndSession now o rq e := by
  unfold EndSession refEndSession refTerminate
  go_char Hand.parseEndSessionRequest SessionEnder.Storage SessionEnder.Decoder

/-- `LegacyServer.EndSession` -/
def refLegacy (now : Int) (o : SessOracles) (e : SessionEnder) (r : EndSessionReq) : Go.R SessRedirect :=
  match ValidateEndSessionRequest now o r e with
  | .error err => .error err
  | .ok s =>
    match refTerminate e.store s with
    | .error err => .error err
    | .ok loc => .ok ⟨loc⟩

theorem legacyEndSession_char (now : Int) (o : SessOracles) (s : SessLegacyServer) (r : Request EndSessionReq) :
    LegacyEndSession now o s r = refLegacy now o s.provider r.Data := by
  unfold LegacyEndSession refLegacy refTerminate
  go_char SessionEnder.Storage Hand.sessNewRedirect

/-- `webServer.endSessionHandler` (Server router) -/
def refLegacyHandler (now : Int) (o : SessOracles) (rq : Go.R EndSessionReq) (e : SessionEnder) : SessResp :=
  match rq with
  | .error _ => .writeError "ErrInvalidRequest"
  | .ok r =>
    match refLegacy now o e r with
    | .error err => .writeError err
    | .ok resp => .writeOut resp

theorem legacyHandler_char (now : Int) (o : SessOracles) (rq : Go.R EndSessionReq) (s : SessWebServer) :
    LegacyEndSessionHandler now o rq s = refLegacyHandler now o rq s.legacy.provider := by
  unfold LegacyEndSessionHandler refLegacyHandler
  simp only [legacyEndSession_char]
  go_char Hand.decodeEndSession Hand.newRequest

end C18
