/-
  C14 (deep 5) — the time window of an accepted assertion along HISTORIES of one verifier object and at the provider's ENDPOINTS,
  whatever the distance of iat / exp from the clock (lifts `c14_assertion_time_window` of Proofs/C14Time through the history theorem of
  Proofs/C14Reuse and the characterisation lemmas of the consumers in Proofs/C14Endpoints; no regenerated definition is unfolded here).
-/
import OidcModel.Proofs.C14Time
import OidcModel.Proofs.C14Endpoints

namespace C14
open Go Gen Hand

/-- what "inside the verifier's window at `now`" says of claims: unexpired at `now + offset`, iat present, not later than
    `now + offset` (+ ½ s of rounding), with a maximum age not earlier than `now - maxAge` (- ½ s).  Mathematical integers, no bounds. -/
def inWindow (now maxAge offset : Int) (c : Claims) : Prop :=
  now + offset < asTime c.exp ∧ asTime c.iat ≠ zeroTime ∧ asTime c.iat ≤ now + offset + 500000000 ∧
    (maxAge = 0 ∨ now - maxAge - 500000000 ≤ asTime c.iat)

theorem verify_inWindow {now : Int} {t : Token} {v : JWTProfileVerifier} {c : Claims} (h : VerifyJWTAssertion now t v = .ok c) :
    ∃ p c0, ParseToken now t = .ok (p, c0) ∧ inWindow now v.MaxAgeIAT v.Offset c0 :=
  c14_assertion_time_window h

/-- HISTORY: one verifier object, ANY sequence of assertions (any length, issuers, keys, instants, time claims at any distance): every
    answer that accepts, at whatever position, is about a token whose claims are inside the window at the instant of THAT call -/
theorem c14_sequence_time_window (v : JWTProfileVerifier) (ops : List (Int × Token)) (i : Nat) (hi : i < ops.length) (c : Claims)
    (hok : (runVerifier v ops).1[i]? = some (.ok c)) :
    ∃ p c0, ParseToken ops[i].1 ops[i].2 = .ok (p, c0) ∧ inWindow ops[i].1 v.MaxAgeIAT v.Offset c0 := by
  rw [c14_reused_answer v ops i hi] at hok
  exact verify_inWindow (Option.some.inj hok)

/-- ENDPOINTS, client authentication (`ClientJWTAuth`: introspection, revocation, device authorization, the device grant …) on a provider
    with the provider's settings (stock `*op.Provider`: `settings_stock`; any configured subject check: `settings_subject_check`): an
    authenticated request carried an assertion that is unexpired in one second, issued at most one hour (+ ½ s) ago and at most one second
    (+ ½ s) ahead - at EVERY distance -/
theorem c14_client_auth_time_window {now : Int} {reqIssuer : String} {ca : AsrtAssertionParams} {p : AsrtProvider} {id : String}
    {reg : List (String × JWK)} {check : Option (Claims → Go.R Unit)}
    (hs : ProviderSettings now (verifierAt now reqIssuer p) reqIssuer reg check)
    (h : GenC14.ClientJWTAuth now reqIssuer ca p = .ok id) :
    ∃ pl c0, ParseToken now (p.tokenOf ca.ClientAssertion) = .ok (pl, c0) ∧ inWindow now providerMaxAgeIAT providerOffset c0 := by
  obtain ⟨_, c, hv, _⟩ := clientJWTAuth_ok.mp h
  obtain ⟨pl, c0, hp, hw⟩ := verify_inWindow hv
  rw [hs.maxAge, hs.offset] at hw
  exact ⟨pl, c0, hp, hw⟩

/-- … and the token endpoint with private_key_jwt (`AuthorizePrivateJWTKey`: code, refresh, token exchange grants) -/
theorem c14_private_key_time_window {now : Int} {reqIssuer : String} {t : Token} {p : AsrtProvider} {cl : OPClient}
    {reg : List (String × JWK)} {check : Option (Claims → Go.R Unit)}
    (hs : ProviderSettings now (verifierAt now reqIssuer p) reqIssuer reg check)
    (h : GenC14.AuthorizePrivateJWTKey now reqIssuer t p = .ok cl) :
    ∃ pl c0, ParseToken now t = .ok (pl, c0) ∧ inWindow now providerMaxAgeIAT providerOffset c0 := by
  obtain ⟨c, hv, _⟩ := authorizePrivateJWTKey_ok.mp h
  obtain ⟨pl, c0, hp, hw⟩ := verify_inWindow hv
  rw [hs.maxAge, hs.offset] at hw
  exact ⟨pl, c0, hp, hw⟩

/-- the stock provider, in one statement: a request authenticated by assertion at `*op.Provider` was issued within
    [now - 1 h - ½ s, now + 1 s + ½ s] and expires later than now + 1 s -/
theorem c14_stock_provider_time_window {now : Int} {reqIssuer : String} {ca : AsrtAssertionParams} {p : AsrtProvider} {id : String}
    (hstock : p.customVerifier = none) (h : GenC14.ClientJWTAuth now reqIssuer ca p = .ok id) :
    ∃ pl c0, ParseToken now (p.tokenOf ca.ClientAssertion) = .ok (pl, c0) ∧ now + second < asTime c0.exp ∧
      now - 3600 * second - 500000000 ≤ asTime c0.iat ∧ asTime c0.iat ≤ now + second + 500000000 := by
  obtain ⟨pl, c0, hp, hexp, _, hf, ho⟩ := c14_client_auth_time_window (settings_stock now reqIssuer p hstock) h
  refine ⟨pl, c0, hp, hexp, ?_, hf⟩
  rcases ho with ho | ho
  · exact absurd ho (by unfold providerMaxAgeIAT second; decide)
  · exact ho

/-- non-vacuity of `inWindow` at the far samples: one int64-nanosecond wrap ahead / ago is outside, now - 5 s is inside -/
example : ¬ inWindow farNow (3600 * second) second { iat := farNowS + 18446744074, exp := farNowS + 300 } := by
  unfold inWindow; decide
example : ¬ inWindow farNow (3600 * second) second { iat := farNowS - 18446744074, exp := farNowS + 300 } := by
  unfold inWindow; decide
example : inWindow farNow (3600 * second) second { iat := farNowS - 5, exp := farNowS + 4611686018427387904 } := by
  unfold inWindow; decide

end C14
