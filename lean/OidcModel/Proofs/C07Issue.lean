/-
  C07 (deep4), function level: what `CreateTokenResponse` answers to a REFRESH, for arbitrary storages / keys / clients - about
  the REGENERATED issuance code of C06's group (Generated/IssueC06.lean, namespace GenC06, used read-only:
  `CreateTokenResponse`, `CreateAccessToken`, `createTokens`; the storage, go-jose and AES are arbitrary functions, so every
  fault schedule of the request's storage calls is an instance).

  `c07_refresh_response_iff`: the response of a refresh exists (HTTP 200) IFF the storage's rotation call
  `CreateAccessAndRefreshTokens(request, presented token)` succeeded AND the access token string could be produced (JWT: the
  storage's private claims and signing key, go-jose; opaque: AES) AND the ID token could be produced; and then the response's
  refresh token is EXACTLY the string the storage returned from that rotation call, its access token exactly the signer's /
  the cipher's result for the token id the storage returned, its ID token the result of `CreateIDToken` for that access token.
  `c07_refresh_fails_closed`: a failing rotation call (whatever the error: plain, ErrInvalidRefreshToken, a context error)
  ends the request with that error - no response, nothing issued.
  Layer 1 (the only unfoldings of regenerated definitions): `createTokens_refresh_eq`, `createAccessToken_refresh_iff`,
  `createTokenResponse_refresh_iff`, each by a shape-independent script.
-/
import OidcModel.Generated.IssueC06
import OidcModel.GoTac
import OidcModel.GoTacEq
set_option linter.unusedSimpArgs false
namespace C07
open Go Hand

/-- the access token string `CreateAccessToken` hands out for token id `id` -/
def accessTokenFor (now : Int) (rq : IssRequest) (cl : IssClient) (cr : IssCreator) (id : String) (exp : Int) : Go.R String :=
  if cl.AccessTokenType = IssConst.AccessTokenTypeJWT then GenC06.CreateJWT now cr.IssuerFromContext rq exp id cl cr.Storage
  else cr.Crypto.Encrypt (id ++ ":" ++ rq.GetSubject)

/-- layer 1: for a request that needs a refresh token `createTokens` IS the storage's rotation call, with this request object and
    the refresh token it was handed -/
theorem createTokens_refresh_eq (now : Int) (rq : IssRequest) (st : IssStorage) (cur : String) (cl : IssClient)
    (hn : rq.needsRefreshToken = true) :
    GenC06.createTokens now rq st cur cl = st.CreateAccessAndRefreshTokens rq cur := by
  unfold GenC06.createTokens
  simp only [Hand.issNeedsRefreshToken, hn]
  go_leaf

/-- layer 1: `CreateAccessToken` succeeds iff `createTokens` and the production of the token string do; the refresh token it
    returns is the one `createTokens` returned -/
theorem createAccessToken_refresh_iff (now : Int) (rq : IssRequest) (cl : IssClient) (cr : IssCreator) (cur at' rt : String) (validity : Int) :
    GenC06.CreateAccessToken now rq cl.AccessTokenType cr cl cur = .ok (at', rt, validity) ↔
    ∃ id exp, GenC06.createTokens now rq cr.Storage cur cl = .ok (id, rt, exp) ∧ accessTokenFor now rq cl cr id exp = .ok at' ∧
      validity = Go.tSub (Go.tAdd exp (if Go.notNil cl then cl.ClockSkew else 0)) now := by
  unfold GenC06.CreateAccessToken accessTokenFor
  simp only [GenC06.CreateBearerToken, HAdd.hAdd]
  go_leaf

/-- layer 1: a failing `createTokens` ends `CreateAccessToken` with that error -/
theorem createAccessToken_err (now : Int) (rq : IssRequest) (tt : Nat) (cl : IssClient) (cr : IssCreator) (cur e : String)
    (h : GenC06.createTokens now rq cr.Storage cur cl = .error e) :
    GenC06.CreateAccessToken now rq tt cr cl cur = .error e := by
  unfold GenC06.CreateAccessToken
  simp only [h]

/-- layer 1: `CreateTokenResponse` for a request that is not an authorization request (a refresh): its parts -/
theorem createTokenResponse_refresh_iff (now : Int) (rq : IssRequest) (cl : IssClient) (cr : IssCreator) (cur : String) (r : IssTokenResponse)
    (hAR : rq.is_AuthRequest = false) :
    GenC06.CreateTokenResponse now rq cl cr true "" cur = .ok r ↔
    ∃ at' rt validity idt, GenC06.CreateAccessToken now rq cl.AccessTokenType cr cl cur = .ok (at', rt, validity) ∧
      GenC06.CreateIDToken now cr.IssuerFromContext rq cl.IDTokenLifetime at' "" cr.Storage cl = .ok idt ∧
      r = { AccessToken := at', IDToken := idt, RefreshToken := rt, TokenType := IssConst.BearerToken, ExpiresIn := Go.dSeconds validity,
            State := "", Scope := rq.GetScopes } := by
  unfold GenC06.CreateTokenResponse
  simp only [hAR]
  go_leaf

/-- layer 1: a failing `CreateAccessToken` ends `CreateTokenResponse` with that error -/
theorem createTokenResponse_err (now : Int) (rq : IssRequest) (cl : IssClient) (cr : IssCreator) (code cur e : String)
    (h : GenC06.CreateAccessToken now rq cl.AccessTokenType cr cl cur = .error e) :
    GenC06.CreateTokenResponse now rq cl cr true code cur = .error e := by
  unfold GenC06.CreateTokenResponse
  simp only [h]
  go_leaf

/-! layer 2 (nothing below unfolds a regenerated definition) -/

/-- **The response of a refresh is 200 iff every storage call of the request succeeded, and then its tokens are exactly the
    storage's / the signer's results.**  For every storage, key, cipher, client, request that is not an authorization request and
    for which `needsRefreshToken` holds (a `RefreshTokenRequest`: `FlowObs.wantsRefresh_refresh`), and every refresh token `cur`
    handed to `CreateTokenResponse`: a response `r` is returned iff
    * the storage's rotation call `CreateAccessAndRefreshTokens(request, cur)` returned `(id, rt, exp)`,
    * the access token string for token id `id` was produced (`accessTokenFor`: the JWT over the storage's private claims signed
      with the storage's key, or the encryption of `id:subject`),
    * `CreateIDToken` (signing key, userinfo, private claims from the storage) returned `idt` for that access token,
    and `r` is exactly: access token = that string, refresh token = `rt` (the storage's new refresh token of THIS call), ID
    token = `idt`, scope = the request's (narrowed) scopes. -/
theorem c07_refresh_response_iff (now : Int) (rq : IssRequest) (cl : IssClient) (cr : IssCreator) (cur : String) (r : IssTokenResponse)
    (hAR : rq.is_AuthRequest = false) (hn : rq.needsRefreshToken = true) :
    GenC06.CreateTokenResponse now rq cl cr true "" cur = .ok r ↔
    ∃ id rt exp at' idt, cr.Storage.CreateAccessAndRefreshTokens rq cur = .ok (id, rt, exp) ∧
      accessTokenFor now rq cl cr id exp = .ok at' ∧
      GenC06.CreateIDToken now cr.IssuerFromContext rq cl.IDTokenLifetime at' "" cr.Storage cl = .ok idt ∧
      r = { AccessToken := at', IDToken := idt, RefreshToken := rt, TokenType := IssConst.BearerToken,
            ExpiresIn := Go.dSeconds (Go.tSub (Go.tAdd exp (if Go.notNil cl then cl.ClockSkew else 0)) now), State := "", Scope := rq.GetScopes } := by
  rw [createTokenResponse_refresh_iff now rq cl cr cur r hAR]
  constructor
  · rintro ⟨at', rt, validity, idt, h1, h2, h3⟩
    obtain ⟨id, exp, g1, g2, g3⟩ := (createAccessToken_refresh_iff now rq cl cr cur at' rt validity).1 h1
    rw [createTokens_refresh_eq now rq cr.Storage cur cl hn] at g1
    exact ⟨id, rt, exp, at', idt, g1, g2, h2, by rw [h3, g3]⟩
  · rintro ⟨id, rt, exp, at', idt, g1, g2, h2, h3⟩
    refine ⟨at', rt, _, idt, (createAccessToken_refresh_iff now rq cl cr cur at' rt _).2 ⟨id, exp, ?_, g2, rfl⟩, h2, h3⟩
    rw [createTokens_refresh_eq now rq cr.Storage cur cl hn]
    exact g1

/-- **A refresh whose rotation the storage refuses fails closed**: whatever error `CreateAccessAndRefreshTokens` returns (a plain
    error, `ErrInvalidRefreshToken` because a concurrent refresh rotated the token or it expired meanwhile, a context error),
    `CreateTokenResponse` returns that error - no response: no access token, no refresh token, no ID token. -/
theorem c07_refresh_fails_closed (now : Int) (rq : IssRequest) (cl : IssClient) (cr : IssCreator) (code cur e : String)
    (hn : rq.needsRefreshToken = true) (h : cr.Storage.CreateAccessAndRefreshTokens rq cur = .error e) :
    GenC06.CreateTokenResponse now rq cl cr true code cur = .error e := by
  apply createTokenResponse_err
  apply createAccessToken_err
  rw [createTokens_refresh_eq now rq cr.Storage cur cl hn]
  exact h

/-- a response of a refresh carries the refresh token of a SUCCESSFUL rotation call of this request, made with the token the
    handler handed on, and a non-empty... (the string) access token produced for the token id of that same call -/
theorem c07_refresh_response_rotated {now : Int} {rq : IssRequest} {cl : IssClient} {cr : IssCreator} {cur : String} {r : IssTokenResponse}
    (hAR : rq.is_AuthRequest = false) (hn : rq.needsRefreshToken = true)
    (h : GenC06.CreateTokenResponse now rq cl cr true "" cur = .ok r) :
    ∃ id exp, cr.Storage.CreateAccessAndRefreshTokens rq cur = .ok (id, r.RefreshToken, exp) ∧
      accessTokenFor now rq cl cr id exp = .ok r.AccessToken ∧ r.Scope = rq.GetScopes := by
  obtain ⟨id, rt, exp, at', idt, g1, g2, _, h3⟩ := (c07_refresh_response_iff now rq cl cr cur r hAR hn).1 h
  subst h3
  exact ⟨id, exp, g1, g2, rfl⟩

/-! Non-vacuity: a storage that rotates, one that refuses the rotation (the overtaken request of two concurrent refreshes), one
    whose signing key is gone after the rotation. -/
def demoRefreshReq : IssRequest :=
  { GetSubject := "user1", GetAudience := ["web"], GetScopes := ["openid", "offline_access"], GetClientID := "web", needsRefreshToken := true }
def demoCreator (rot : IssRequest → String → Go.R (String × String × Int)) (key : Go.R IssSigningKey) : IssCreator :=
  { Storage := { CreateAccessAndRefreshTokens := rot, SigningKey := key }, IssuerFromContext := "https://op.example" }
def demoKey : IssSigningKey := { signID := fun c => .ok ("idt[" ++ c.Subject ++ "]") }

example : (GenC06.CreateTokenResponse 0 demoRefreshReq { GetID := "web" } (demoCreator (fun _ cur => .ok ("at9", "rt-after-" ++ cur, 0)) (.ok demoKey)) true "" "rt5").toOption.map
    (fun r => (r.AccessToken, r.RefreshToken, r.IDToken)) = some ("enc(at9:user1)", "rt-after-rt5", "idt[user1]") := by decide
example : (GenC06.CreateTokenResponse 0 demoRefreshReq { GetID := "web" } (demoCreator (fun _ _ => .error "ErrInvalidRefreshToken") (.ok demoKey)) true "" "rt5").toOption.map (·.IDToken) =
    none := by decide
example : (GenC06.CreateTokenResponse 0 demoRefreshReq { GetID := "web" } (demoCreator (fun _ cur => .ok ("at9", "rt-after-" ++ cur, 0)) (.error "ErrKeyGone")) true "" "rt5").toOption.map (·.RefreshToken) =
    none := by decide

end C07
