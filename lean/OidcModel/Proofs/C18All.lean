/-
  C18: the proof module of the slice.  Layer 1 (`C18Char`: one characterisation lemma per regenerated function), the
  per-request theorems (`C18`), histories with storage faults (`C18History`), the byte-level state round trip composed
  with C11, the key-set shapes composed with C02, unusual registrations (`C18Deep`).
-/
import OidcModel.Proofs.C18Char
import OidcModel.Proofs.C18
import OidcModel.Proofs.C18History
import OidcModel.Proofs.C18Deep
