/-
  C09 — slice / index expressions never run out of range (kind W, third part).

  `entailsLe_sound`, `entailsNonneg_sound`, `safe_sound`: the syntactic check `BoundSite.safe` is sound — for ALL values
  of the opaque quantities (all lengths, all indices) that satisfy the recorded facts the access is in range;
  `unsafe_bound_sites_audited` (`decide`): on the sites regenerated from the source the check fails exactly for the
  audited ones; `c09_bound_sites_total`: no regenerated, non-audited site panics, whatever the lengths are.
  When a length guard is removed, weakened, or moved to another variable / another function, the regenerated site
  carries no (or a weaker) fact, `safe` is false for it and `unsafe_bound_sites_audited` stops checking.
-/
import OidcModel.Model.C09Tie

namespace C09

/-! ### soundness of the entailment check -/

theorem holds_ge {g : BGuard} {env : BEnv} (h : g.holds env = true) (ho : g.op = .ge) : g.rhs.eval env ≤ env g.lhs := by
  simpa [BGuard.holds, ho] using h

theorem holds_eq {g : BGuard} {env : BEnv} (h : g.holds env = true) (ho : g.op = .eq) : env g.lhs = g.rhs.eval env := by
  simpa [BGuard.holds, ho] using h

theorem holds_lt {g : BGuard} {env : BEnv} (h : g.holds env = true) (ho : g.op = .lt) : env g.lhs < g.rhs.eval env := by
  simpa [BGuard.holds, ho] using h

/-- `ge` and `eq` facts both give a lower bound -/
theorem holds_lower {g : BGuard} {env : BEnv} (h : g.holds env = true) (ho : (g.op == .ge || g.op == .eq) = true) :
    g.rhs.eval env ≤ env g.lhs := by
  simp only [Bool.or_eq_true, beq_iff_eq] at ho
  rcases ho with ho | ho
  · exact holds_ge h ho
  · exact Int.le_of_eq (holds_eq h ho).symm

theorem eval_none {t : BTerm} {env : BEnv} (h : t.atom = none) : t.eval env = t.off := by simp [BTerm.eval, h]
theorem eval_some {t : BTerm} {env : BEnv} {a : BAtom} (h : t.atom = some a) : t.eval env = env a + t.off := by simp [BTerm.eval, h]

theorem lowerOf_sound {gs : List BGuard} {env : BEnv} (hok : BEnvOK env) (hg : ∀ g ∈ gs, g.holds env = true)
    {a : BAtom} {c : Int} (hc : c ∈ lowerOf gs a) : c ≤ env a := by
  unfold lowerOf at hc
  rcases List.mem_append.mp hc with h | h
  · cases a with
    | len v => simp at h; subst h; exact hok.len_nonneg v
    | var n =>
      cases hv : constVal n with
      | none => simp [hv] at h
      | some v => simp [hv] at h; rw [h]; exact Int.le_of_eq (hok.consts n v hv).symm
    | other t => simp at h
  · obtain ⟨g, hgm, hgc⟩ := List.mem_filterMap.mp h
    split at hgc
    · rename_i hcond
      simp only [Bool.and_eq_true, beq_iff_eq] at hcond
      obtain ⟨⟨⟨hl, _⟩, hn⟩, hop⟩ := hcond
      have hlow := holds_lower (hg g hgm) (by simpa using hop)
      have hn' : g.rhs.atom = none := by simpa using hn
      rw [eval_none hn', hl] at hlow
      cases hgc
      exact hlow
    · cases hgc

theorem entailsNonneg_sound {gs : List BGuard} {env : BEnv} (hok : BEnvOK env) (hg : ∀ g ∈ gs, g.holds env = true)
    {t : BTerm} (h : entailsNonneg gs t = true) : 0 ≤ t.eval env := by
  unfold entailsNonneg at h
  cases ha : t.atom with
  | none => simp only [ha, decide_eq_true_eq] at h; rw [eval_none ha]; exact h
  | some a =>
    simp only [ha, List.any_eq_true, decide_eq_true_eq] at h
    obtain ⟨c, hc, hle⟩ := h
    have := lowerOf_sound hok hg hc
    rw [eval_some ha]; omega

theorem entailsLe_sound {gs : List BGuard} {env : BEnv} (hok : BEnvOK env) (hg : ∀ g ∈ gs, g.holds env = true)
    {t1 t2 : BTerm} (h : entailsLe gs t1 t2 = true) : t1.eval env ≤ t2.eval env := by
  unfold entailsLe at h
  cases h1 : t1.atom with
  | none =>
    cases h2 : t2.atom with
    | none => simp only [h1, h2, decide_eq_true_eq] at h; rw [eval_none h1, eval_none h2]; exact h
    | some a =>
      simp only [h1, h2, List.any_eq_true, decide_eq_true_eq] at h
      obtain ⟨c, hc, hle⟩ := h
      have := lowerOf_sound hok hg hc
      rw [eval_none h1, eval_some h2]; omega
  | some i =>
    cases h2 : t2.atom with
    | none => simp [h1, h2] at h
    | some a =>
      rw [eval_some h1, eval_some h2]
      simp only [h1, h2, Bool.or_eq_true] at h
      rcases h with (((h | h) | h) | h) | h
      · -- R1
        simp only [Bool.and_eq_true, beq_iff_eq, decide_eq_true_eq] at h
        obtain ⟨⟨_, hia⟩, hle⟩ := h
        subst hia; omega
      · -- R3
        simp only [List.any_eq_true, Bool.and_eq_true, beq_iff_eq, decide_eq_true_eq] at h
        obtain ⟨g, hgm, ⟨⟨⟨⟨⟨hop, hl⟩, _⟩, hr⟩, _⟩, hle⟩⟩ := h
        have hlt := holds_lt (hg g hgm) hop
        rw [eval_some hr, hl] at hlt
        omega
      · -- R4
        simp only [List.any_eq_true, Bool.and_eq_true, beq_iff_eq, decide_eq_true_eq] at h
        obtain ⟨g, hgm, ⟨⟨⟨⟨hop, hl⟩, hr⟩, _⟩, hle⟩⟩ := h
        have hlow := holds_lower (hg g hgm) (by simpa using hop)
        rw [eval_some hr, hl] at hlow
        omega
      · -- R5
        simp only [List.any_eq_true, Bool.and_eq_true, beq_iff_eq] at h
        obtain ⟨g1, hg1m, ⟨⟨⟨hop1, hl1⟩, _⟩, hrest⟩⟩ := h
        cases hb : g1.rhs.atom with
        | none => simp [hb] at hrest
        | some b =>
          simp only [hb, Bool.and_eq_true, List.any_eq_true, beq_iff_eq, decide_eq_true_eq] at hrest
          obtain ⟨_, g2, hg2m, ⟨⟨⟨hop2, hl2⟩, hr2⟩, hle⟩⟩ := hrest
          have hlt := holds_lt (hg g1 hg1m) hop1
          have hlow := holds_lower (hg g2 hg2m) (by simpa using hop2)
          rw [eval_some hb, hl1] at hlt
          rw [eval_some hr2, hl2] at hlow
          omega
      · -- R6
        simp only [List.any_eq_true, Bool.and_eq_true, beq_iff_eq, decide_eq_true_eq, Option.isNone_iff_eq_none] at h
        obtain ⟨g1, hg1m, ⟨⟨⟨⟨hop1, hl1⟩, _⟩, hn⟩, c, hc, hle⟩⟩ := h
        have hlt := holds_lt (hg g1 hg1m) hop1
        have hlow := lowerOf_sound hok hg hc
        rw [eval_none hn, hl1] at hlt
        omega

/-- **soundness of the check**: a site that passes `safe` is in range for every assignment of lengths, indices and
    constants that satisfies the facts recorded for it -/
theorem safe_sound {s : BoundSite} (hs : s.safe = true) {env : BEnv} (hok : BEnvOK env)
    (hg : ∀ g ∈ s.guards, g.holds env = true) : s.inRange env = true := by
  simp only [BoundSite.safe, Bool.and_eq_true] at hs
  obtain ⟨⟨h0, h1⟩, h2⟩ := hs
  have a := entailsNonneg_sound hok hg h0
  have b := entailsLe_sound hok hg h1
  have c := entailsLe_sound hok hg h2
  have hc : (⟨some (.len s.base), 0⟩ : BTerm).eval env = env (.len s.base) := by simp [BTerm.eval]
  rw [hc] at c
  simp [BoundSite.inRange, a, b, c]

theorem safe_no_panic {s : BoundSite} (hs : s.safe = true) {env : BEnv} (hok : BEnvOK env) : sitePanics s env = false := by
  unfold sitePanics
  cases hall : s.guards.all (·.holds env)
  · simp
  · have := safe_sound hs hok (fun g hg => by simpa using List.all_eq_true.mp hall g hg)
    simp [this]

/-! ### the regenerated sites -/

/-! the audited sites: `auditedBoundSites` (Model/C09Bounds.lean) -/

/-- on the slice / index expressions regenerated from the source the check fails exactly for the audited ones -/
theorem unsafe_bound_sites_audited :
    ((GenC09.boundSites.filter fun s => !s.safe).map fun s => (s.fn, s.expr)) = auditedBoundSites := by decide

theorem bound_sites_safe_or_audited :
    ∀ s ∈ GenC09.boundSites, (s.fn, s.expr) ∉ auditedBoundSites → s.safe = true := by
  intro s hs hna
  cases hsafe : s.safe
  · exfalso
    apply hna
    rw [← unsafe_bound_sites_audited]
    exact List.mem_map.mpr ⟨s, List.mem_filter.mpr ⟨hs, by simp [hsafe]⟩, rfl⟩
  · rfl

/-- **C09 (slice / index expressions)**: no slice expression `x[a:b]` / `x[:n]` / `x[n:]` and no index expression `x[i]`
    of pkg/oidc, pkg/op, pkg/http, pkg/crypto, pkg/client (operand not a map; the audited two excepted) runs out of
    range — for every length of every operand and every value of every index that reaches it -/
theorem c09_bound_sites_total :
    ∀ s ∈ GenC09.boundSites, (s.fn, s.expr) ∉ auditedBoundSites → ∀ env : BEnv, BEnvOK env → sitePanics s env = false :=
  fun s hs hna _ hok => safe_no_panic (bound_sites_safe_or_audited s hs hna) hok

/-! ### index variables that a loop carries (`for !p(b[i]) { i-- }`, `for i := n; …; i-- { b[i] }`) -/

/-- on the regenerated sites: every loop-carried index variable has a lower-bound AND an upper-bound fact that
    dominates the access (no site is exempt - the audited two have opaque indices) -/
theorem loop_carried_sites_guarded :
    ((GenC09.boundSites.filter fun s => !s.loopGuarded).map fun s => (s.fn, s.expr)) = [] := by decide

/-- **C09 (slice / index expressions inside loops)**: for every regenerated slice / index expression (audited ones
    excepted) whose index is carried around a loop: both bounds of every carried index variable are guarded by a fact
    that holds on every path to the access in EVERY iteration, and the access is in range for all lengths and all
    values of the index that satisfy those facts -/
theorem c09_loop_sites_total :
    ∀ s ∈ GenC09.boundSites, (s.fn, s.expr) ∉ auditedBoundSites →
      s.loopGuarded = true ∧ ∀ env : BEnv, BEnvOK env → sitePanics s env = false := by
  intro s hs hna
  refine ⟨?_, c09_bound_sites_total s hs hna⟩
  cases hg : s.loopGuarded
  · exfalso
    have : (s.fn, s.expr) ∈ ((GenC09.boundSites.filter fun s => !s.loopGuarded).map fun s => (s.fn, s.expr)) :=
      List.mem_map.mpr ⟨s, List.mem_filter.mpr ⟨hs, by simp [hg]⟩, rfl⟩
    rw [loop_carried_sites_guarded] at this
    cases this
  · rfl

/-- only generated code (enumer) is exempt from the scan; a hand-written file cannot hide behind the header unnoticed -/
theorem bounds_skipped_files_pinned : GenC09.boundsSkippedFiles = ["pkg/op/applicationtype_enumer.go"] := by decide

theorem hashString_pinned : GenC09.HashString_skeleton = [
    "if hash == nil {",
    "return s",
    "}",
    "hash.Write([]byte(s))",
    "size := hash.Size()",
    "if firstHalf {",
    "size = size / 2",
    "}",
    "sum := hash.Sum(nil)[:size]",
    "return base64.RawURLEncoding.EncodeToString(sum)"] := by decide

theorem newUserCode_pinned : GenC09.NewUserCode_skeleton = [
    "var buf strings.Builder",
    "if dashInterval > 0 {",
    "buf.Grow(charAmount + charAmount/dashInterval - 1)",
    "} else {",
    "buf.Grow(charAmount)",
    "}",
    "max := big.NewInt(int64(len(charSet)))",
    "for i := 0; i < charAmount; i++ { if dashInterval != 0 && i != 0 && i%dashInterval == 0 { buf.WriteByte('-') } bi, err := rand.Int(rand.Reader, max) if err != nil { return \"\", fmt.Errorf(\"%w getting entropy for user code\", err) } buf.WriteRune(charSet[int(bi.Int64())]) }",
    "return buf.String(), nil"] := by
  set_option maxRecDepth 8000 in decide

/-! ### what the driver predicts for the length-boundary cases: a parameter of length `n` -/

theorem constEnv_ok (base : String) (n : Nat) : BEnvOK (constEnv base n) where
  len_nonneg v := by
    simp only [constEnv]
    split
    · exact Int.natCast_nonneg n
    · exact Int.le_refl 0
  consts n' v h := by simp [constEnv, h]

/-- no function of the library (the two with an audited site aside) panics on a slice / index expression over one of
    its parameters, whatever the parameter's length -/
theorem c09_no_length_panics (fn base : String) (n : Nat) (hfn : fn ∉ auditedBoundSites.map (·.1)) :
    fnPanicsAt GenC09.boundSites fn base n = false := by
  unfold fnPanicsAt
  rw [List.any_eq_false]
  intro s hs
  by_cases hf : s.fn = fn
  · have hna : (s.fn, s.expr) ∉ auditedBoundSites := fun h => hfn (hf ▸ List.mem_map.mpr ⟨_, h, rfl⟩)
    have := c09_bound_sites_total s hs hna (constEnv base n) (constEnv_ok base n)
    simp [this]
  · have : (s.fn == fn) = false := by simpa using hf
    simp [this]

/-! ### non-vacuity -/

/-- the decrypt helper's slice expressions are among the sites, under a length guard on the SAME variable -/
example : (GenC09.boundSites.any fun s => s.fn == "crypto.DecryptBytesAES" && s.base == "cipherText" && s.kind == "slice" && !s.guards.isEmpty && s.safe) = true := by decide
example : ((GenC09.boundSites.filter fun s => s.fn == "crypto.DecryptBytesAES").all fun s => s.safe) = true := by decide

/-- the same expression without a fact about `cipherText` (the guard measures another variable, in another function:
    seeded C09-F) is rejected, and the model panics for a 12-byte operand … -/
def siteGuardMoved : BoundSite :=
  { fn := "crypto.DecryptBytesAES", expr := "cipherText[:aes.BlockSize]", base := "cipherText", kind := "slice",
    lo := ⟨none, 0⟩, hi := ⟨some (.var "aes.BlockSize"), 0⟩, guards := [] }
example : siteGuardMoved.safe = false := by decide
example : fnPanicsAt [siteGuardMoved] "crypto.DecryptBytesAES" "cipherText" 12 = true := by decide
example : fnPanicsAt [siteGuardMoved] "crypto.DecryptBytesAES" "cipherText" 16 = false := by decide
/-- … a guard on the text instead of the bytes does not help … -/
example : ({ siteGuardMoved with guards := [⟨.ge, .len "data", ⟨some (.var "aes.BlockSize"), 0⟩, "!(len(data) < aes.BlockSize)"⟩] } : BoundSite).safe = false := by decide
/-- … nor does an off-by-one guard (`len(cipherText) < aes.BlockSize - 1`) -/
example : ({ siteGuardMoved with guards := [⟨.ge, .len "cipherText", ⟨some (.var "aes.BlockSize"), -1⟩, ""⟩] } : BoundSite).safe = false := by decide
example : ({ siteGuardMoved with guards := [⟨.ge, .len "cipherText", ⟨some (.var "aes.BlockSize"), 0⟩, ""⟩] } : BoundSite).safe = true := by decide
set_option maxRecDepth 8000 in
/-- on the regenerated sites the real function is fine at every boundary length -/
example : ([0, 1, 15, 16, 17].map fun n => fnPanicsAt GenC09.boundSites "crypto.DecryptBytesAES" "cipherText" n) = [false, false, false, false, false] := by decide

/-! ### non-vacuity, loop-carried indices (the shape of seeded C09-M: walk back from byte 1024 to a rune start) -/

/-- `for !utf8.RuneStart(body[end]) { end-- }` after `end := 1024` under `len(body) > 1024`: the upper bound is carried
    into the loop (end only moves down), nothing bounds `end` from below -/
def siteWalkBack : BoundSite :=
  { fn := "http.bodyExcerpt", expr := "body[end]", base := "body", kind := "index", lo := ⟨some (.var "end"), 0⟩, hi := ⟨some (.var "end"), 1⟩,
    guards := [⟨.ge, .len "body", ⟨none, 1025⟩, ""⟩, ⟨.lt, .var "end", ⟨none, 1025⟩, ""⟩], carried := [("end", "dec")] }
example : siteWalkBack.loopGuarded = false := by decide
example : siteWalkBack.safe = false := by decide
/-- … and the model panics: a 2000-byte body, the index has reached -1 -/
example : sitePanics siteWalkBack (fun a => match a with | .len _ => 2000 | .var _ => -1 | .other _ => 0) = true := by decide
/-- with `end > 0 &&` in front of the access (the loop condition) both bounds are there and the access is safe -/
example : ({ siteWalkBack with guards := siteWalkBack.guards ++ [⟨.ge, .var "end", ⟨none, 1⟩, "end > 0"⟩] } : BoundSite).loopGuarded = true := by decide
example : ({ siteWalkBack with guards := siteWalkBack.guards ++ [⟨.ge, .var "end", ⟨none, 1⟩, "end > 0"⟩] } : BoundSite).safe = true := by decide
/-- a lower bound alone (the fact about the start value was lost: `end` is assigned some other way) is not enough -/
example : ({ siteWalkBack with guards := [⟨.ge, .var "end", ⟨none, 1⟩, "end > 0"⟩], carried := [("end", "other")] } : BoundSite).loopGuarded = false := by decide
/-- the regenerated list has loop-carried sites (so the theorem is not about the empty set) -/
example : (GenC09.boundSites.any fun s => !s.carried.isEmpty && !s.indexVars.isEmpty) = true := by decide

end C09
