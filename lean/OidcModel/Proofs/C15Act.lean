/-
  C15 (deep5) - THE `act` MEMBER OF AN EXCHANGE TOKEN IS THE STORAGE POLICY'S ANSWER, AND NOTHING ELSE.

  Path in the Go source: request -> `CreateJWT` / `CreateIDToken` (pkg/op/token.go) -> `claims.Actor` (filled from the request ONLY if the
  request object implements the optional `TokenActorRequest`) -> `mergeAndMarshalClaims` (pkg/oidc/util.go: the registered claims,
  `act` among them, are decoded OVER the custom claims the storage hook supplied - "registered wins", C12).  So a `GetActor()` on the
  library's own `*tokenExchangeRequest` silently replaces the `act` the storage policy decided (a nested chain, a pairwise actor id,
  no act at all) by a flat `{sub: <raw actor subject>}` (seeded change C15-P).

  Stated here:
  * `c15_request_hands_no_actor`   the REGENERATED method set of `*tokenExchangeRequest` (Generated/TETypes.lean, extracted from the source on
                                    every run) has no `GetActor`, and the interfaces of pkg/op it implements are among the four the exchange
                                    code needs - no optional interface through which the request object hands the claims anything of its own;
  * `c15_exchange_jwt_act_is_storage_answer`, `c15_exchange_id_token_act_is_storage_answer`   over the regenerated `CreateJWT` / `CreateIDToken`:
                                    the signed claims have NO registered actor and their custom claims / userinfo ARE the exchange hook's answer;
  * `c15_wire_act_is_custom_when_request_hands_none`, `c15_wire_act_registered_overrides`   over the REGENERATED `mergeAndMarshalClaims`
                                    (C12's `c12_registered_wins_gen`): without a registered actor the `act` member of the marshalled token is
                                    the custom claims' `act` (absent if they have none); with one it is the registered one whatever the
                                    storage answered - which is why the first two statements are needed;
  * `c15_issued_token_act_is_policy_answer`, `c15_issued_id_token_act_is_policy_answer`   end to end from `CreateTokenExchangeResponse`.
-/
import OidcModel.Proofs.C15
import OidcModel.Proofs.C12

namespace C15
open Codec

/-- the four interfaces of pkg/op the exchange code uses a `*tokenExchangeRequest` as -/
def exchangeRequestInterfaces : List String := ["IDTokenRequest", "RefreshTokenRequest", "TokenExchangeRequest", "TokenRequest"]

/-- THE REQUEST OBJECT HANDS THE CLAIMS NO ACTOR OF ITS OWN - a statement about the regenerated method-set facts: `*tokenExchangeRequest`
    has no `GetActor` method, does not satisfy `TokenActorRequest` (the assertion in `CreateJWT` / `CreateIDToken`), and EVERY interface of
    pkg/op it satisfies is one of the four the exchange code needs (it does satisfy `TokenExchangeRequest`) -/
theorem c15_request_hands_no_actor :
    "GetActor" ∉ GenTE.tokenExchangeRequest_methods ∧
    "TokenActorRequest" ∉ GenTE.tokenExchangeRequest_satisfies ∧
    (∀ i ∈ GenTE.tokenExchangeRequest_implements, i ∈ exchangeRequestInterfaces) ∧
    "TokenExchangeRequest" ∈ GenTE.tokenExchangeRequest_implements ∧
    (∀ m ∈ ["GetExchangeActor", "GetExchangeSubject", "GetSubject", "GetScopes", "GetAudience", "GetClientID"], m ∈ GenTE.tokenExchangeRequest_methods) := by
  decide

/-- the claims `CreateJWT` signs for an exchange request carry no registered actor, and their custom claims are `pc` -/
theorem exchangeJWTClaims_actor (now : Int) (iss : String) (r : TEReq) (exp : Int) (id : String) (c : OPClient) (st : TEStore) (pc : TEClaims) :
    (exchangeJWTClaims now iss r exp id c st pc).Actor = "" ∧ (exchangeJWTClaims now iss r exp id c st pc).Claims = pc := ⟨rfl, rfl⟩

/-- the claims `CreateIDToken` signs for an exchange request carry no registered actor, and their userinfo is `ui` -/
theorem exchangeIDClaims_actor (now : Int) (iss : String) (r : TEReq) (lifetime : Int) (c : OPClient) (st : TEStore) (ui : TEUserInfo) :
    (exchangeIDClaims now iss r lifetime c st ui).Actor = "" ∧ (exchangeIDClaims now iss r lifetime c st ui).UserInfo = ui := by
  have key : ∀ (cl : TEIDTokenClaims) (s : String),
      (if cl.Subject == "" then { cl with Subject := s } else cl).Actor = cl.Actor ∧
      (if cl.Subject == "" then { cl with Subject := s } else cl).UserInfo = cl.UserInfo := by
    intro cl s
    by_cases hs : (cl.Subject == "") = true
    · rw [if_pos hs]; exact ⟨rfl, rfl⟩
    · rw [if_neg hs]; exact ⟨rfl, rfl⟩
  exact key ((Hand.teNewIDTokenClaims now iss r.subject r.audience (Go.tAdd (Go.tAdd now (st.ClientClockSkew c)) lifetime) r.authTime "" "" []
    r.clientID (st.ClientClockSkew c)).SetUserInfo ui) r.subject

/-- THE `act` OF A JWT ACCESS TOKEN OF AN EXCHANGE (regenerated `CreateJWT`; every storage with `TokenExchangeStorage`, every client, key,
    other capability): the token is the signature over claims `cl` that have NO registered actor (the request handed none) and whose
    custom claims - where `act` lives - are EXACTLY what `GetPrivateClaimsFromTokenExchangeRequest` answered for this request -/
theorem c15_exchange_jwt_act_is_storage_answer {now : Int} {iss : String} {r : TEReq} {exp : Int} {id : String} {c : OPClient} {st : TEStore} {tok : String}
    (hte : st.is_TokenExchangeStorage = true) (h : GenTE.CreateJWT now iss r.asTokenRequest exp id c st = .ok tok) :
    ∃ pc key cl, st.GetPrivateClaimsFromTokenExchangeRequest r.asTokenRequest = .ok pc ∧ st.SigningKey = .ok key ∧
      key.signAT cl = .ok tok ∧ cl.Actor = "" ∧ cl.Claims = pc ∧ cl.Subject = (exchangeJWTClaims now iss r exp id c st pc).Subject := by
  obtain ⟨pc, key, h1, h2, _, h4⟩ := c15_exchange_jwt_claims_source hte h
  exact ⟨pc, key, _, h1, h2, h4, rfl, rfl, rfl⟩

/-- THE `act` OF AN ID TOKEN OF AN EXCHANGE (regenerated `CreateIDToken`): no registered actor; the userinfo - where `act` lives - is
    EXACTLY what `SetUserinfoFromTokenExchangeRequest` made of the empty userinfo for this request -/
theorem c15_exchange_id_token_act_is_storage_answer {now : Int} {iss : String} {r : TEReq} {lifetime : Int} {c : OPClient} {st : TEStore} {tok : String}
    (hte : st.is_TokenExchangeStorage = true) (h : GenTE.CreateIDToken now iss r.asTokenRequest lifetime "" "" st c = .ok tok) :
    ∃ ui key cl, st.SetUserinfoFromTokenExchangeRequest {} r.asTokenRequest = .ok ui ∧ st.SigningKey = .ok key ∧
      key.signID cl = .ok tok ∧ cl.Actor = "" ∧ cl.UserInfo = ui := by
  obtain ⟨ui, key, h1, h2, _, h4⟩ := c15_exchange_id_token_userinfo_source hte h
  exact ⟨ui, key, _, h1, h2, h4, (exchangeIDClaims_actor ..).1, (exchangeIDClaims_actor ..).2⟩

/-! ### what the registered `Actor` field does on the wire: the REGENERATED `mergeAndMarshalClaims` (C12) -/

/-- what `encoding/json` makes of the typed part of `*oidc.AccessTokenClaims` / `*oidc.IDTokenClaims` as far as `act` goes
    (`Actor *ActorClaims json:"act,omitempty"`): a member `act` iff the pointer is set, then the flat `{sub: …}` of a request's `GetActor()`;
    no key twice -/
def ActEncoding (actor : String) (r : Codec.Obj) : Prop :=
  (keys r).Nodup ∧ (actor = "" → (keys r).contains "act" = false) ∧ (actor ≠ "" → lookup r "act" = some (actValue "flat" actor "" ""))

/-- NO REGISTERED ACTOR ⇒ THE TOKEN'S `act` IS THE CUSTOM CLAIMS' `act` (the storage's answer), nested members and all - or absent if the
    storage decided on none.  Over the regenerated `mergeAndMarshalClaims`, for every encoding of the registered claims without `act`. -/
theorem c15_wire_act_is_custom_when_request_hands_none (now : Int) (o : Cdc.Oracles) (reg : Cdc.Reg) (r custom : Codec.Obj)
    (hreg : reg.enc = .ok r) (he : ActEncoding "" r) (hc : (keys custom).Nodup) (henc : o.mapEncodable (C12.mergedMap r custom) = true) :
    ∃ m, (GenCodec.mergeAndMarshalClaims now o reg custom).2 = .ok [m] ∧ lookup m "act" = lookup custom "act" := by
  obtain ⟨m, hm, _, h2⟩ := C12.c12_registered_wins_gen now o reg r custom hreg he.1 hc henc
  exact ⟨m, hm, h2 "act" (he.2.1 rfl)⟩

/-- A REGISTERED ACTOR OVERRIDES WHATEVER THE STORAGE ANSWERED: were the request to hand the claims an actor (`TokenActorRequest`), the token
    would name the flat `{sub: actor}` - a chain, a pairwise id, "no act" decided by the policy are all lost (seeded change C15-P) -/
theorem c15_wire_act_registered_overrides (now : Int) (o : Cdc.Oracles) (reg : Cdc.Reg) (r custom : Codec.Obj) (actor : String) (ha : actor ≠ "")
    (hreg : reg.enc = .ok r) (he : ActEncoding actor r) (hc : (keys custom).Nodup) (henc : o.mapEncodable (C12.mergedMap r custom) = true) :
    ∃ m, (GenCodec.mergeAndMarshalClaims now o reg custom).2 = .ok [m] ∧ lookup m "act" = some (actValue "flat" actor "" "") := by
  obtain ⟨m, hm, h1, _⟩ := C12.c12_registered_wins_gen now o reg r custom hreg he.1 hc henc
  have hk : (keys r).contains "act" = true := by
    have := he.2.2 ha
    cases hkk : (keys r).contains "act" with
    | true => rfl
    | false => rw [C12.lookup_none_of_not_key r "act" hkk] at this; cases this
  exact ⟨m, hm, by rw [h1 "act" hk]; exact he.2.2 ha⟩

/-! ### end to end from the response -/

/-- END TO END (requested access_token / refresh_token, client with JWT access tokens): the access token of a successful
    `CreateTokenExchangeResponse` is the signature over claims with NO registered actor whose custom claims are exactly the exchange
    hook's answer for the (policy-rewritten) request `r` -/
theorem c15_issued_token_act_is_policy_answer {now : Int} {r : TEReq} {c : OPClient} {p : TEProvider} {resp : ExchangeResp}
    (hte : p.Storage.is_TokenExchangeStorage = true) (hj : p.Storage.ClientAccessTokenType c = TEConst.AccessTokenTypeJWT)
    (hreq : r.requestedTokenType = Const.AccessTokenType ∨ r.requestedTokenType = Const.RefreshTokenType)
    (h : GenTE.CreateTokenExchangeResponse now r c p = .ok resp) :
    ∃ pc key cl, p.Storage.GetPrivateClaimsFromTokenExchangeRequest r.asTokenRequest = .ok pc ∧ p.Storage.SigningKey = .ok key ∧
      key.signAT cl = .ok resp.AccessToken ∧ cl.Actor = "" ∧ cl.Claims = pc ∧ cl.Subject = r.subject := by
  obtain ⟨id, exp, _, h2⟩ := c15_issued_access_token_carries_policy_decision hte hreq h
  simp only [hj, if_true] at h2
  obtain ⟨pc, key, h3, h4, h5⟩ := h2
  exact ⟨pc, key, _, h3, h4, h5, rfl, rfl, rfl⟩

/-- END TO END (requested id_token): the same for the ID token and `SetUserinfoFromTokenExchangeRequest` -/
theorem c15_issued_id_token_act_is_policy_answer {now : Int} {r : TEReq} {c : OPClient} {p : TEProvider} {resp : ExchangeResp}
    (hte : p.Storage.is_TokenExchangeStorage = true) (hreq : r.requestedTokenType = Const.IDTokenType)
    (h : GenTE.CreateTokenExchangeResponse now r c p = .ok resp) :
    ∃ ui key cl, p.Storage.SetUserinfoFromTokenExchangeRequest {} r.asTokenRequest = .ok ui ∧ p.Storage.SigningKey = .ok key ∧
      key.signID cl = .ok resp.AccessToken ∧ cl.Actor = "" ∧ cl.UserInfo = ui := by
  obtain ⟨_, ui, key, h1, h2, h3⟩ := c15_issued_id_token_carries_policy_decision hte hreq h
  exact ⟨ui, key, _, h1, h2, h3, (exchangeIDClaims_actor ..).1, (exchangeIDClaims_actor ..).2⟩

/-! ### non-vacuity -/

/-- a storage whose policy decides a NESTED chain for delegation -/
def exStoreChain : TEStore :=
  { GetPrivateClaimsFromTokenExchangeRequest := fun a => .ok [("act", actValue "chain" a.req.exchangeActor a.req.exchangeSubject a.req.clientID)],
    SigningKey := .ok { signAT := fun cl => .ok ("jwt|" ++ cl.Actor ++ "|" ++ ((cl.Claims.find? (·.1 == "act")).map (·.2)).getD "") } }

example : (match GenTE.CreateJWT 0 "https://op" ({ exchangeSubject := "user1", subject := "user1", exchangeActor := "actor1", clientID := "px" } : TEReq).asTokenRequest 300 "at9" { id := "px" } exStoreChain with
    | .ok t => t == "jwt||{\"act\":{\"act\":{\"sub\":\"prior:user1\"},\"sub\":\"gw\"},\"sub\":\"actor1\"}" | .error _ => false) = true := by decide

/-- the policy table: five different decisions for the same actor -/
example : (["flat", "chain", "pairwise", "extra", "none"].map fun m => actValue m "actor1" "user1" "px") =
    ["{\"sub\":\"actor1\"}", "{\"act\":{\"act\":{\"sub\":\"prior:user1\"},\"sub\":\"gw\"},\"sub\":\"actor1\"}", "{\"sub\":\"pw:px:actor1\"}",
     "{\"amr\":[\"mfa\"],\"client_id\":\"px\",\"sub\":\"actor1\"}", ""] := by decide

/-- `ActEncoding` is satisfiable both ways; the merge on concrete objects: the chain survives without a registered actor, is lost with one -/
example : ActEncoding "" [("iss", "\"op\""), ("sub", "\"user1\"")] ∧ ActEncoding "actor1" [("iss", "\"op\""), ("act", "{\"sub\":\"actor1\"}")] := by
  constructor
  · exact ⟨by decide, fun _ => by decide, fun h => absurd rfl h⟩
  · exact ⟨by decide, fun h => absurd h (by decide), fun _ => by decide⟩
example : lookup (Codec.merge [("iss", "\"op\"")] [("act", "{\"act\":{\"sub\":\"gw\"},\"sub\":\"a\"}")]) "act" = some "{\"act\":{\"sub\":\"gw\"},\"sub\":\"a\"}" ∧
    lookup (Codec.merge [("iss", "\"op\""), ("act", "{\"sub\":\"a\"}")] [("act", "{\"act\":{\"sub\":\"gw\"},\"sub\":\"a\"}")]) "act" = some "{\"sub\":\"a\"}" := by decide

end C15
