/-
  C11 — authorization response parameters arrive intact and cannot inject markup: the property theorems.

  The model is the code regenerated from /repo by `factgen` on every run (`GenWire.AuthResponseURL`,
  `GenWire.mergeQueryParams`, `GenWire.setFragment`, `GenWire.formPostTemplate`, `GenWire.formPostAutoescape`) on top of the
  byte-level model of net/url and html/template (Model/AuthResponse.lean).  The monitor is Spec/C11.lean.

  * query mode: the monitor accepts the model's answer for ALL inputs                      (`c11_holds_query`)
  * fragment mode: the monitor accepts the model's answer for ALL inputs                   (`c11_holds_fragment`);
    the raw fragment is the encoded response itself, escaped once (`c11_fragment_wire`, `c11_fragment_roundtrip`)
  * form_post: for ALL redirect URIs and values the page tokenises to exactly the expected tags, nothing can
    break out (`c11_form_tags`), the decoded submission is the listed parameters unchanged (`c11_form_submission`),
    every parameter of an authorization response is listed (`template_lists_required`), and the monitor accepts
    the page whenever html/template's URL filter lets the redirect URI's scheme through
    (`c11_holds_form_partial`); FALSE as a whole on the current tree: custom schemes lose the action (F-C11b,
    witness `c11_form_custom_scheme_witness`)
-/
import OidcModel.Proofs.C11Html

namespace C11
open UA

-- ---------------------------------------------------------------- the regenerated facts

set_option maxRecDepth 1000000 in
/-- the template `factgen` read from pkg/op/form_post.html.tmpl has the shape the tokenizer lemmas need:
    evaluated by the kernel on the regenerated definition -/
theorem formPostTemplate_ok : templateOK GenWire.formPostTemplate = true := by decide

/-- pkg/op/auth_request.go renders it with html/template -/
theorem formPostAutoescape_on : GenWire.formPostAutoescape = true := by decide

/-- names of the success responses that the template does NOT carry: pinned, so that a template change shows up here -/
def notInTemplate (names : List AR.Bytes) : List AR.Bytes :=
  names.filter fun n => !(GenWire.formPostTemplate.any fun nd => match nd with | .withParam m _ _ => m == n | _ => false)

/-- what the form leaves out of the code response struct and of what `AuthResponseToken` encodes: `refresh_token` and
    `scope` — neither is a parameter of an authorization response the statement names (`required`) -/
theorem template_missing_params :
    notInTemplate (GenWire.codeResponseParams ++ GenWire.implicitResponseParams)
      = [AR.ascii "refresh_token", AR.ascii "scope"] := by decide

/-- **every parameter the statement names that a success response can carry is in the form** (regenerated template
    against the regenerated `schema` names of the code response struct and of what `AuthResponseToken` encodes;
    error responses always travel in a Location value) -/
theorem template_lists_required :
    (notInTemplate (GenWire.codeResponseParams ++ GenWire.implicitResponseParams)).filter required = [] := by decide

/-- the implicit-flow response carries the session state next to the token response, as the code response does -/
theorem implicit_response_has_session_state :
    GenWire.implicitResponseParams.contains (AR.ascii "session_state") = true
    ∧ GenWire.codeResponseParams.contains (AR.ascii "session_state") = true
    ∧ GenWire.errorResponseParams.contains (AR.ascii "session_state") = true := by decide

-- ---------------------------------------------------------------- response mode decision (G-fact)

/-- **which channel `AuthResponseURL` uses** (regenerated decision): query mode on request, fragment mode on
    request, otherwise the fragment exactly for the implicit response types — the channel the monitor expects -/
theorem authResponseURL_channel (now : Int) (parse : AR.Bytes → Go.R AR.URL) (uri : AR.Bytes) (rtype mode : String)
    (resp : AR.Values) (u : AR.URL) (hu : parse uri = .ok u) :
    GenWire.AuthResponseURL now parse uri rtype mode resp () =
      .ok (if mode == "query" then GenWire.mergeQueryParams now u resp
           else if mode == "fragment" then GenWire.setFragment now u resp
           else if implicitType rtype then GenWire.setFragment now u resp
           else GenWire.mergeQueryParams now u resp) := by
  simp only [GenWire.AuthResponseURL, hu, AR.URLEncodeParams, AR.ResponseModeQuery, AR.ResponseModeFragment,
    AR.ResponseTypeIDToken, AR.ResponseTypeIDTokenOnly, implicitType]
  by_cases h1 : mode == "query" <;> by_cases h2 : mode == "fragment" <;>
    by_cases h3 : (rtype == "id_token token" || rtype == "id_token") <;> simp [h1, h2, h3]

/-- an unparsable redirect URI yields an error, never a redirect -/
theorem authResponseURL_unparsable (now : Int) (parse : AR.Bytes → Go.R AR.URL) (uri : AR.Bytes) (rtype mode : String)
    (resp : AR.Values) (e : String) (hu : parse uri = .error e) :
    GenWire.AuthResponseURL now parse uri rtype mode resp () = .error "ErrServerError" := by
  simp [GenWire.AuthResponseURL, hu]

-- ---------------------------------------------------------------- form_post

theorem templateOK_shape (tmpl : List AR.Node) (h : templateOK tmpl = true) :
    ∃ t0 t1 rest, tmpl = .text t0 :: .redirectURI :: .text t1 :: rest := by
  unfold templateOK at h
  split at h
  · exact ⟨_, _, _, rfl⟩
  · exact absurd h (by decide)

/-- **C11, form_post, all redirect URIs and all values (without CR): no markup injection.**  The page rendered
    from the regenerated template tokenises to exactly the page frame, ONE form tag and the hidden inputs of
    the listed parameters; attribute values are the escaped strings, which contain no `"`, `'`, `<`, `>`
    (`c11_attr_no_breakout`). -/
theorem c11_form_tags (uri : Bytes) (params : AR.Values) (hv : ∀ name, ∀ v ∈ params.get name, ∀ c ∈ v, c ≠ 0x0D) :
    tokenize (AR.render GenWire.formPostAutoescape GenWire.formPostTemplate uri params)
      = pageFrame ++ formTag (AR.attrEscape (AR.urlNormalize (AR.urlFilter uri)))
          :: restTags AR.attrEscape params (GenWire.formPostTemplate.drop 3) := by
  obtain ⟨t0, t1, rest, hshape⟩ := templateOK_shape _ formPostTemplate_ok
  have hok := formPostTemplate_ok
  rw [formPostAutoescape_on, hshape] at *
  exact tokenize_render t0 t1 rest hok uri params hv

/-- the fields a template submits for a response: one per listed parameter the response carries, first value -/
def restFields (params : AR.Values) : List AR.Node → List (Bytes × Bytes)
  | [] => []
  | .withParam name _ _ :: rest =>
    (match params.get name with | [] => [] | v :: _ => [(name, v)]) ++ restFields params rest
  | _ :: rest => restFields params rest

theorem pageFrame_decoded : pageFrame.map decodeTag = pageFrame := by decide

theorem attrUnescape_post : attrUnescape (s "post") = s "post" := by decide
theorem attrUnescape_hidden : attrUnescape (s "hidden") = s "hidden" := by decide

theorem restTags_decoded (params : AR.Values) (hv : ∀ name, ∀ v ∈ params.get name, ∀ c ∈ v, c ≠ 0)
    (rest : List AR.Node) (h : restOK rest = true) :
    (restTags AR.attrEscape params rest).map decodeTag = restTags id params rest := by
  induction rest with
  | nil => rfl
  | cons n rest ih =>
    cases n with
    | text t =>
      simp only [restOK, Bool.and_eq_true] at h
      simpa [restTags] using ih h.2
    | redirectURI => simp [restOK] at h
    | withParam name pre post =>
      simp only [restOK, Bool.and_eq_true, beq_iff_eq] at h
      obtain ⟨⟨⟨⟨_, _⟩, _⟩, hn⟩, h5⟩ := h
      simp only [restTags, List.map_append, ih h5]
      cases hg : params.get name with
      | nil => simp
      | cons v vs =>
        have hv' := c11_attr_roundtrip v (hv name v (by simp [hg]))
        simp [decodeTag, inputTag, attrUnescape_hidden, hn, hv']

theorem isInput_inputTag (n v : Bytes) : isInput (inputTag n v) = some (n, v) := by
  simp [isInput, inputTag]

theorem restTags_inputs (params : AR.Values) (rest : List AR.Node) :
    (restTags id params rest).find? (fun t => (isInput t).isNone) = none
    ∧ (restTags id params rest).filterMap isInput = restFields params rest := by
  induction rest with
  | nil => simp [restTags, restFields]
  | cons n rest ih =>
    cases n with
    | text t => simpa [restTags, restFields] using ih
    | redirectURI => simpa [restTags, restFields] using ih
    | withParam name pre post =>
      simp only [restTags, restFields]
      cases params.get name with
      | nil => simpa using ih
      | cons v vs =>
        simp only [List.cons_append, List.nil_append, List.find?_cons, isInput_inputTag, Option.isNone_some,
          List.filterMap_cons, id]
        exact ⟨ih.1, by rw [ih.2]⟩

/-- **C11, form_post, what the user agent submits, all inputs.**  For every redirect URI and every
    response whose values contain neither NUL nor CR: the decoded page is accepted as an auto-submitting form
    (`formOf`), its action is the URL-normalised redirect URI (`#ZgotmplZ` if html/template's URL filter rejects
    the scheme — F-C11b), and its fields are exactly the template-listed parameters with their values UNCHANGED
    (which names are listed: `formPostTemplate_names`, `template_lists_required`). -/
theorem c11_form_submission (uri : Bytes) (params : AR.Values)
    (hv : ∀ name, ∀ v ∈ params.get name, ∀ c ∈ v, c ≠ 0x0D ∧ c ≠ 0) :
    formOf ((tokenize (AR.render GenWire.formPostAutoescape GenWire.formPostTemplate uri params)).map decodeTag)
      = .ok (AR.urlNormalize (AR.urlFilter uri), restFields params (GenWire.formPostTemplate.drop 3)) := by
  rw [c11_form_tags uri params (fun n v hm c hc => (hv n v hm c hc).1)]
  obtain ⟨t0, t1, rest, hshape⟩ := templateOK_shape _ formPostTemplate_ok
  have hok := formPostTemplate_ok
  rw [hshape] at hok ⊢
  simp only [templateOK, Bool.and_eq_true] at hok
  have hr : restOK rest = true := hok.2
  have haction : attrUnescape (AR.attrEscape (AR.urlNormalize (AR.urlFilter uri))) = AR.urlNormalize (AR.urlFilter uri) :=
    c11_attr_roundtrip _ (fun c hc => (urlNormalize_clean _ c hc).2)
  simp only [List.drop_succ_cons, List.drop_zero, List.map_append, List.map_cons, pageFrame_decoded,
    restTags_decoded params (fun n v hm c hc => (hv n v hm c hc).2) rest hr]
  have hform : decodeTag (formTag (AR.attrEscape (AR.urlNormalize (AR.urlFilter uri)))) = formTag (AR.urlNormalize (AR.urlFilter uri)) := by
    simp [decodeTag, formTag, attrUnescape_post, haction]
  rw [hform]
  obtain ⟨hi1, hi2⟩ := restTags_inputs params rest
  have htake : (pageFrame ++ formTag (AR.urlNormalize (AR.urlFilter uri)) :: restTags id params rest).take 4 = pageFrame := by
    simp [pageFrame]
  have hdrop : (pageFrame ++ formTag (AR.urlNormalize (AR.urlFilter uri)) :: restTags id params rest).drop 4
      = formTag (AR.urlNormalize (AR.urlFilter uri)) :: restTags id params rest := by
    simp [pageFrame]
  unfold formOf
  rw [htake, hdrop]
  simp [formTag, hi1, hi2]

-- ---------------------------------------------------------------- the monitor on the model's answer: query mode

theorem valuesOf_nil_of_not_mem (k : Bytes) (ps : List (Bytes × Bytes)) (h : k ∉ keysOf ps) : valuesOf k ps = [] := by
  induction ps with
  | nil => rfl
  | cons p ps ih =>
    simp only [keysOf, List.map_cons, List.mem_cons, not_or] at h
    have : (p.1 == k) = false := by
      rw [beq_eq_false_iff_ne]; exact fun heq => h.1 heq.symm
    simp only [valuesOf, List.filter_cons, this]
    exact ih h.2

theorem valuesOf_ne_nil_of_mem (k : Bytes) (ps : List (Bytes × Bytes)) (h : k ∈ keysOf ps) : valuesOf k ps ≠ [] := by
  induction ps with
  | nil => simp [keysOf] at h
  | cons p ps ih =>
    simp only [keysOf, List.map_cons, List.mem_cons] at h
    by_cases hp : p.1 = k
    · simp [valuesOf, List.filter_cons, hp]
    · have : (p.1 == k) = false := by simpa using hp
      simp only [valuesOf, List.filter_cons, this]
      rcases h with h | h
      · exact absurd h.symm hp
      · exact ih h

/-- the monitor's clause is satisfied as soon as every name decodes to its existing values followed by the produced ones -/
theorem paramsArrive_none (what : String) (produced existing got : List (Bytes × Bytes))
    (h : ∀ k, valuesOf k got = valuesOf k existing ++ valuesOf k produced) :
    paramsArrive what produced existing got = none := by
  unfold paramsArrive firstSome
  have h1 : (keysOf produced).findSome? (fun k =>
      if valuesOf k got == valuesOf k existing ++ valuesOf k produced then none
      else if !required k && valuesOf k got == valuesOf k existing then none
      else if valuesOf k got == valuesOf k existing then some s!"{what}-param-missing:{showBytes k}"
      else if (valuesOf k got).map formDecode == (valuesOf k existing ++ valuesOf k produced).map some then some s!"{what}-param-encoded-twice:{showBytes k}"
      else some s!"{what}-param-altered:{showBytes k}") = none := by
    rw [List.findSome?_eq_none_iff]
    intro k _
    simp [h k]
  have h2 : (keysOf existing).findSome? (fun k =>
      if (keysOf produced).contains k || valuesOf k got == valuesOf k existing then none else some s!"existing-query-not-preserved:{showBytes k}") = none := by
    rw [List.findSome?_eq_none_iff]
    intro k _
    by_cases hk : k ∈ keysOf produced
    · simp [hk]
    · simp [h k, valuesOf_nil_of_not_mem k produced hk]
  have h3 : (keysOf got).findSome? (fun k =>
      if (keysOf produced).contains k || (keysOf existing).contains k then none else some s!"{what}-param-invented:{showBytes k}") = none := by
    rw [List.findSome?_eq_none_iff]
    intro k hk
    by_cases hp : k ∈ keysOf produced
    · simp [hp]
    · by_cases he : k ∈ keysOf existing
      · simp [he]
      · exfalso
        apply valuesOf_ne_nil_of_mem k got hk
        rw [h k, valuesOf_nil_of_not_mem k produced hp, valuesOf_nil_of_not_mem k existing he]; rfl
  simp only [h1, h2, h3]
  rfl

/-- what the theorems assume about `url.Parse`'s answer `u` for the redirect URI (the driver evaluates these
    three conditions on the oracle values of every harness case and reports them as `hyp=`): the part in front
    of the query is rendered without `?`/`#` and addresses the same target, `RawQuery` is the URI's query text -/
structure ParseOK (uri : Bytes) (u : AR.URL) : Prop where
  base : BaseOK u
  rawQuery : locationQuery uri = u.RawQuery
  target : sameTarget u.base (locationBase uri) = true

/-- the query text url.Parse reports contains no `#` -/
theorem ParseOK.nohash {uri : Bytes} {u : AR.URL} (h : ParseOK uri u) : ∀ b ∈ u.RawQuery, b ≠ 0x23 := by
  rw [← h.rawQuery]; exact locationQuery_nohash uri

/-- **C11 holds in query mode, for all inputs.**  Whatever the redirect URI (with query, with fragment, custom
    scheme, …), the response (any names, any byte strings) and whatever url.Parse answered within `ParseOK`:
    the monitor accepts the Location value the regenerated `mergeQueryParams` produces — every parameter is
    recovered unchanged by the user agent's decoder, the redirect URI's own query parameters are preserved,
    nothing is invented, the target is the redirect URI. -/
theorem c11_holds_query (now : Int) (i : Input) (u : AR.URL) (resp : AR.Values)
    (hpar : ParseOK i.uri u) (hresp : i.params = flatten resp.entries) (hd : DistinctKeys resp.entries)
    (hch : (channels i).contains Channel.query = true) :
    monitor i (.redirect (GenWire.mergeQueryParams now u resp)) = none := by
  have hq := hpar.nohash
  simp only [monitor, hch, if_true, checkQuery]
  rw [c11_query_base now u resp hpar.base hq, hpar.target]
  simp only [Bool.not_true, Bool.false_eq_true, if_false]
  have h1 : paramsArrive "query" i.params (parseQuery (locationQuery i.uri))
      (parseQuery (locationQuery (GenWire.mergeQueryParams now u resp))) = none := by
    apply paramsArrive_none
    intro k
    rw [c11_query_roundtrip now u resp hpar.base hq hd k, hpar.rawQuery, hresp, valuesOf_flatten_get k _ hd]
  rw [h1]
  simp [unreadKept, c11_query_unread_kept now u resp hpar.base hq, hpar.rawQuery]

/-- the same through the regenerated mode decision of `AuthResponseURL` -/
theorem c11_holds_query_mode (now : Int) (parse : AR.Bytes → Go.R AR.URL) (i : Input) (u : AR.URL) (resp : AR.Values)
    (hu : parse i.uri = .ok u) (hpar : ParseOK i.uri u) (hresp : i.params = flatten resp.entries) (hd : DistinctKeys resp.entries)
    (hmode : i.mode = "query" ∨ (i.mode = "" ∧ implicitType i.rtype = false)) :
    ∃ loc, GenWire.AuthResponseURL now parse i.uri i.rtype i.mode resp () = .ok loc ∧ monitor i (.redirect loc) = none := by
  refine ⟨GenWire.mergeQueryParams now u resp, ?_, ?_⟩
  · rw [authResponseURL_channel now parse i.uri i.rtype i.mode resp u hu]
    rcases hmode with h | ⟨h1, h2⟩
    · simp [h]
    · simp [h1, h2]
  · apply c11_holds_query now i u resp hpar hresp hd
    rcases hmode with h | ⟨h1, h2⟩
    · simp [channels, h]
    · simp [channels, h1, h2]

-- ---------------------------------------------------------------- the monitor on the model's answer: fragment mode

/-- **C11 holds in fragment mode, for all inputs.**  Whatever the redirect URI (with query, with its own fragment,
    custom scheme, …), the response (any names, any byte strings: `+ / = & % # ?`, spaces, quotes, non-ASCII, invalid
    UTF-8) and whatever url.Parse answered within `ParseOK`: the monitor accepts the Location value the regenerated
    `setFragment` produces — parsing the raw text after `#` ONCE as form data recovers every parameter unchanged,
    nothing is invented, the redirect URI's own query is untouched, the target is the redirect URI. -/
theorem c11_holds_fragment (now : Int) (i : Input) (u : AR.URL) (resp : AR.Values)
    (hpar : ParseOK i.uri u) (hresp : i.params = flatten resp.entries) (hd : DistinctKeys resp.entries)
    (hnq : (channels i).contains Channel.query = false) (hch : (channels i).contains Channel.fragment = true) :
    monitor i (.redirect (GenWire.setFragment now u resp)) = none := by
  have hq := hpar.nohash
  obtain ⟨hf, hlq, hlb⟩ := c11_fragment_wire now u resp hpar.base hq
  simp only [monitor, hnq, hch, if_true, Bool.false_eq_true, if_false, checkFragment]
  rw [hlb, hpar.target, hf, hlq]
  simp only [Bool.not_true, Bool.false_eq_true, if_false]
  by_cases hne : resp.Encode = []
  · simp [hne, hresp, Encode_nil_flatten resp hd hne]
  · simp only [hne, if_false]
    have h1 : paramsArrive "fragment" i.params [] (parseQuery resp.Encode) = none := by
      apply paramsArrive_none
      intro k
      rw [valuesOf_parseQuery_Encode resp hd k, hresp, valuesOf_flatten_get k _ hd]; rfl
    have h2 : paramsArrive "query" [] (parseQuery (locationQuery i.uri)) (parseQuery u.RawQuery) = none := by
      apply paramsArrive_none
      intro k
      rw [hpar.rawQuery]; simp [valuesOf]
    rw [h1, h2]
    simp [unreadKept, hpar.rawQuery]

/-- the same through the regenerated mode decision of `AuthResponseURL` -/
theorem c11_holds_fragment_mode (now : Int) (parse : AR.Bytes → Go.R AR.URL) (i : Input) (u : AR.URL) (resp : AR.Values)
    (hu : parse i.uri = .ok u) (hpar : ParseOK i.uri u) (hresp : i.params = flatten resp.entries) (hd : DistinctKeys resp.entries)
    (hmode : i.mode = "fragment" ∨ (i.mode = "" ∧ implicitType i.rtype = true)) :
    ∃ loc, GenWire.AuthResponseURL now parse i.uri i.rtype i.mode resp () = .ok loc ∧ monitor i (.redirect loc) = none := by
  refine ⟨GenWire.setFragment now u resp, ?_, ?_⟩
  · rw [authResponseURL_channel now parse i.uri i.rtype i.mode resp u hu]
    rcases hmode with h | ⟨h1, h2⟩
    · simp [h]
    · simp [h1, h2]
  · apply c11_holds_fragment now i u resp hpar hresp hd
    · rcases hmode with h | ⟨h1, h2⟩
      · simp [channels, h]
      · simp [channels, h1, h2]
    · rcases hmode with h | ⟨h1, h2⟩
      · simp [channels, h]
      · simp [channels, h1, h2]

-- ---------------------------------------------------------------- the monitor on the model's answer: form_post

/-- the parameter names of the hidden inputs of a template -/
def nodeNames : List AR.Node → List Bytes
  | [] => []
  | .withParam name _ _ :: rest => name :: nodeNames rest
  | _ :: rest => nodeNames rest

/-- the hidden inputs of the regenerated template, in order -/
theorem formPostTemplate_names :
    nodeNames (GenWire.formPostTemplate.drop 3)
      = [s "state", s "code", s "id_token", s "access_token", s "token_type", s "expires_in", s "session_state"] := by decide

theorem valuesOf_restFields (params : AR.Values) (nodes : List AR.Node) (hn : (nodeNames nodes).Nodup) (k : Bytes) :
    valuesOf k (restFields params nodes) = if (nodeNames nodes).contains k then (params.get k).take 1 else [] := by
  induction nodes with
  | nil => simp [restFields, nodeNames, valuesOf]
  | cons n rest ih =>
    cases n with
    | text t => exact ih hn
    | redirectURI => exact ih hn
    | withParam name pre post =>
      simp only [nodeNames, List.nodup_cons] at hn
      simp only [restFields, nodeNames, valuesOf_append, ih hn.2, List.contains_cons]
      by_cases hk : k = name
      · subst hk
        have hnc : (nodeNames rest).contains k = false := by simpa using hn.1
        simp only [hnc, beq_self_eq_true, Bool.true_or, if_true, Bool.false_eq_true, if_false, List.append_nil]
        cases params.get k with
        | nil => simp [valuesOf]
        | cons v vs => simp [valuesOf]
      · have hk' : (name == k) = false := by simp; exact fun h => hk h.symm
        have hk'' : (k == name) = false := by simp; exact hk
        simp only [hk'', Bool.false_or]
        cases params.get name with
        | nil => simp [valuesOf]
        | cons v vs => simp [valuesOf, hk']

theorem get_nil_of_not_key (es : Entries) (k : Bytes) (h : k ∉ es.map (·.1)) : AR.Values.get ⟨es⟩ k = [] := by
  induction es with
  | nil => rfl
  | cons e es ih =>
    simp only [List.map_cons, List.mem_cons, not_or] at h
    have : (e.1 == k) = false := by simp; exact fun heq => h.1 heq.symm
    rw [get_cons, this]; simpa using ih h.2

theorem get_of_mem (es : Entries) (hd : DistinctKeys es) (e : Bytes × List Bytes) (he : e ∈ es) : AR.Values.get ⟨es⟩ e.1 = e.2 := by
  induction es with
  | nil => simp at he
  | cons x es ih =>
    simp only [DistinctKeys, List.map_cons, List.nodup_cons] at hd
    rw [get_cons]
    rcases List.mem_cons.mp he with h | h
    · subst h; simp
    · have : (x.1 == e.1) = false := by
        simp only [beq_eq_false_iff_ne, ne_eq]
        intro heq; exact hd.1 (heq ▸ List.mem_map_of_mem h)
      rw [this]; simpa using ih hd.2 h

/-- **C11 holds in form_post mode whenever the form's action survives** (partial: F-C11b).  For every redirect URI
    whose scheme html/template's URL filter lets through (no scheme, http, https, mailto) and every response of
    template-listed parameters (one value each, no NUL / CR): the monitor accepts the page rendered from the
    regenerated template — it is exactly the auto-submitting form, its action addresses the redirect URI, every
    parameter is submitted with its value unchanged, nothing else is in the page. -/
theorem c11_holds_form_partial (i : Input) (resp : AR.Values)
    (hsafe : AR.isSafeURL i.uri = true)
    (hresp : i.params = flatten resp.entries) (hd : DistinctKeys resp.entries)
    (hv : ∀ name, ∀ v ∈ resp.get name, ∀ c ∈ v, c ≠ 0x0D ∧ c ≠ 0)
    (hlisted : ∀ e ∈ resp.entries, e.1 ∈ nodeNames (GenWire.formPostTemplate.drop 3) ∧ e.2.length ≤ 1)
    (hch : (channels i).contains Channel.form = true) :
    monitor i (.form (AR.render GenWire.formPostAutoescape GenWire.formPostTemplate i.uri resp)
      ((tokenize (AR.render GenWire.formPostAutoescape GenWire.formPostTemplate i.uri resp)).map decodeTag)) = none := by
  simp only [monitor, hch, if_true, checkForm, bne_self_eq_false, Bool.false_eq_true, if_false]
  rw [c11_form_submission i.uri resp hv]
  simp only [c11_form_action_target i.uri hsafe, Bool.not_true, Bool.false_eq_true, if_false]
  apply paramsArrive_none
  intro k
  have hnodup : (nodeNames (GenWire.formPostTemplate.drop 3)).Nodup := by rw [formPostTemplate_names]; decide
  rw [valuesOf_restFields resp _ hnodup k, hresp, valuesOf_flatten_get k _ hd]
  simp only [valuesOf, List.filter_nil, List.map_nil, List.nil_append]
  by_cases hk : k ∈ resp.entries.map (·.1)
  · obtain ⟨e, he, rfl⟩ := List.mem_map.mp hk
    obtain ⟨hl1, hl2⟩ := hlisted e he
    have hl1' : (nodeNames (GenWire.formPostTemplate.drop 3)).contains e.1 = true := by simpa using hl1
    rw [get_of_mem _ hd e he]
    simp only [hl1', if_true]
    exact List.take_of_length_le hl2
  · rw [get_nil_of_not_key _ k hk]; simp

-- ---------------------------------------------------------------- non-vacuity and the remaining finding

def wUri : Bytes := s "https://rp.example/cb?tenant=acme#/app"
def wURL : AR.URL := { base := s "https://rp.example/cb", RawQuery := s "tenant=acme", Fragment := s "/app" }
def wResp : AR.Values := ⟨[(s "code", [s "a+b/c=&%#? \"<>"]), (s "state", [[0xE2, 0x82, 0xAC, 0x20, 0xFF]])]⟩

/-- the hypotheses of `c11_holds_query` are satisfiable: a redirect URI with query AND fragment, values with
    every kind of awkward byte -/
example : ParseOK wUri wURL := ⟨by decide, by decide, by decide⟩
example : DistinctKeys wResp.entries := by decide
set_option maxRecDepth 1000000 in
/-- … and the monitor really evaluates to "ok" on that case (concrete accepted case) -/
example : monitor { uri := wUri, uriOK := true, mode := "query", rtype := "code", isError := false, params := flatten wResp.entries }
    (.redirect (GenWire.mergeQueryParams 0 wURL wResp)) = none := by decide
set_option maxRecDepth 1000000 in
/-- a concrete rejected case: the same Location with one value altered is flagged -/
example : monitor { uri := wUri, uriOK := true, mode := "query", rtype := "code", isError := false, params := [(s "code", s "a b")] }
    (.redirect (s "https://rp.example/cb?code=a-b&tenant=acme#/app")) = some "query-param-altered:code" := by decide

def wPlain : Bytes := s "https://rp.example/cb"
def wPlainURL : AR.URL := { base := wPlain }
def wPage (uri : Bytes) (resp : AR.Values) : Bytes := AR.render GenWire.formPostAutoescape GenWire.formPostTemplate uri resp
def wForm (uri : Bytes) (resp : AR.Values) : Observed := .form (wPage uri resp) ((tokenize (wPage uri resp)).map decodeTag)

set_option maxRecDepth 1000000 in
/-- fragment mode with a value that needs a percent escape: `state=a+b` is on the wire as `#state=a%2Bb`, the user
    agent recovers `a+b` (concrete accepted case; the input of the repaired finding F-C11a) -/
example : monitor { uri := wPlain, uriOK := true, mode := "fragment", rtype := "code", isError := false, params := [(s "state", s "a+b")] }
    (.redirect (GenWire.setFragment 0 wPlainURL ⟨[(s "state", [s "a+b"])]⟩)) = none := by decide

set_option maxRecDepth 1000000 in
/-- … on a redirect URI with query and fragment of its own, every kind of awkward byte in the values -/
example : monitor { uri := wUri, uriOK := true, mode := "", rtype := "id_token", isError := false, params := flatten wResp.entries }
    (.redirect (GenWire.setFragment 0 wURL wResp)) = none := by decide

set_option maxRecDepth 1000000 in
/-- a concrete rejected case: a Location whose fragment was escaped a second time is flagged -/
example : monitor { uri := wPlain, uriOK := true, mode := "fragment", rtype := "code", isError := false, params := [(s "state", s "a+b")] }
    (.redirect (s "https://rp.example/cb#state=a%252Bb")) = some "fragment-param-encoded-twice:state" := by decide

set_option maxRecDepth 1000000 in
/-- a concrete rejected case: a Location that lost the setting `a;b=1` of the redirect URI's query (what rebuilding the
    query from `url.Values` does; the input of the repaired finding F-C18a) is flagged -/
example : monitor { uri := s "https://rp.example/cb?a;b=1&ok=1", uriOK := true, mode := "query", rtype := "code", isError := false, params := [(s "code", s "c1")] }
    (.redirect (s "https://rp.example/cb?code=c1&ok=1")) = some "existing-query-not-preserved:unread-setting" := by decide

set_option maxRecDepth 1000000 in
/-- query mode keeps the parts of the redirect URI's query no decoder accepts (`a;b=1`, `%zz`) byte for byte -/
example : GenWire.mergeQueryParams 0 { base := wPlain, RawQuery := s "a;b=1&%zz=2&ok=1" } ⟨[(s "code", [s "c 1"])]⟩
    = s "https://rp.example/cb?a;b=1&%zz=2&ok=1&code=c+1" := by decide

set_option maxRecDepth 1000000 in
/-- **F-C11b (witness, current tree): form_post with a custom-scheme redirect URI posts to `#ZgotmplZ`** -/
theorem c11_form_custom_scheme_witness :
    monitor { uri := s "myapp://callback", uriOK := true, mode := "form_post", rtype := "code", isError := false, params := [(s "code", s "c1")] }
      (wForm (s "myapp://callback") ⟨[(s "code", [s "c1"])]⟩) = some "form-action-differs" := by decide

set_option maxRecDepth 1000000 in
/-- the form carries `session_state` (concrete accepted case; the input of the repaired finding F-C11c) -/
example : monitor { uri := wPlain, uriOK := true, mode := "form_post", rtype := "code", isError := false,
                    params := [(s "code", s "c1"), (s "state", s "x"), (s "session_state", s "ss")] }
    (wForm wPlain ⟨[(s "code", [s "c1"]), (s "state", [s "x"]), (s "session_state", [s "ss"])]⟩) = none := by decide

set_option maxRecDepth 1000000 in
/-- form_post is accepted when the scheme is http(s) and the response has only listed parameters — with values
    that try to break out (concrete accepted case) -/
example : monitor { uri := s "https://rp.example/cb?a=\"x\"&b='y'", uriOK := true, mode := "form_post", rtype := "code", isError := false,
                    params := [(s "code", s "\"><script>alert(1)</script>"), (s "state", s "&amp;&#34;' <b>")] }
    (wForm (s "https://rp.example/cb?a=\"x\"&b='y'") ⟨[(s "code", [s "\"><script>alert(1)</script>"]), (s "state", [s "&amp;&#34;' <b>"])]⟩) = none := by decide

set_option maxRecDepth 1000000 in
/-- … and a page in which a value DID break out of its attribute is rejected (the monitor is not vacuous) -/
example : (monitor { uri := wPlain, uriOK := true, mode := "form_post", rtype := "code", isError := false, params := [(s "code", s "\"><script>")] }
    (let page := AR.render false GenWire.formPostTemplate wPlain ⟨[(s "code", [s "\"><script>"])]⟩
     .form page ((tokenize page).map decodeTag))).isSome = true := by decide

end C11
