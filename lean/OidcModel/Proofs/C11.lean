/-
  C11 — authorization response parameters arrive intact and cannot inject markup: the property theorems.

  The model is the code regenerated from /repo by `factgen` on every run (`GenWire.AuthResponseURL`,
  `GenWire.mergeQueryParams`, `GenWire.setFragment`, `GenWire.formPostTemplate`, `GenWire.formPostAutoescape`) on top of the
  byte-level model of net/url and html/template (Model/AuthResponse.lean).  The monitor is Spec/C11.lean.

  * query mode: the monitor accepts the model's answer for ALL inputs                      (`c11_holds_query`)
  * fragment mode: the monitor accepts the model's answer for ALL inputs                   (`c11_holds_fragment`);
    the raw fragment is the encoded response itself, escaped once (`c11_fragment_wire`, `c11_fragment_roundtrip`)
  * form_post: for ALL redirect URIs and values the page tokenises to exactly the expected tags, nothing can
    break out (`c11_form_tags`), the decoded submission is the listed parameters unchanged (`c11_form_submission`),
    every parameter of an authorization response is listed (`template_lists_required`), and the monitor accepts
    the page whenever html/template's URL filter lets the redirect URI's scheme through
    (`c11_holds_form_partial`); FALSE as a whole on the current tree: custom schemes lose the action (F-C11b,
    witness `c11_form_custom_scheme_witness`)
-/
import OidcModel.Proofs.C11Html
import OidcModel.Proofs.C11Text
import OidcModel.Generated.AuthError
import OidcModel.Generated.RequestObject

namespace C11
open UA

-- ---------------------------------------------------------------- the regenerated facts

set_option maxRecDepth 1000000 in
/-- the template `factgen` read from pkg/op/form_post.html.tmpl has the shape the tokenizer lemmas need:
    evaluated by the kernel on the regenerated definition -/
theorem formPostTemplate_ok : templateOK GenWire.formPostTemplate = true := by decide

/-- pkg/op/auth_request.go renders it with html/template -/
theorem formPostAutoescape_on : GenWire.formPostAutoescape = true := by decide

/-- names of the success responses that the template does NOT carry: pinned, so that a template change shows up here -/
def notInTemplate (names : List AR.Bytes) : List AR.Bytes :=
  names.filter fun n => !(GenWire.formPostTemplate.any fun nd => match nd with | .withParam m _ _ => m == n | _ => false)

/-- what the form leaves out of the code response struct and of what `AuthResponseToken` encodes: `refresh_token` and
    `scope` — neither is a parameter of an authorization response the statement names (`required`) -/
theorem template_missing_params :
    notInTemplate (GenWire.codeResponseParams ++ GenWire.implicitResponseParams)
      = [AR.ascii "refresh_token", AR.ascii "scope"] := by decide

/-- **every parameter the statement names that a success response can carry is in the form** (regenerated template
    against the regenerated `schema` names of the code response struct and of what `AuthResponseToken` encodes;
    error responses always travel in a Location value) -/
theorem template_lists_required :
    (notInTemplate (GenWire.codeResponseParams ++ GenWire.implicitResponseParams)).filter required = [] := by decide

/-- the implicit-flow response carries the session state next to the token response, as the code response does -/
theorem implicit_response_has_session_state :
    GenWire.implicitResponseParams.contains (AR.ascii "session_state") = true
    ∧ GenWire.codeResponseParams.contains (AR.ascii "session_state") = true
    ∧ GenWire.errorResponseParams.contains (AR.ascii "session_state") = true := by decide

-- ---------------------------------------------------------------- response mode decision (G-fact)

/-- **which channel `AuthResponseURL` uses** (regenerated decision): query mode on request, fragment mode on
    request, otherwise the fragment exactly for the implicit response types — the channel the monitor expects -/
theorem authResponseURL_channel (now : Int) (parse : AR.Bytes → Go.R AR.URL) (uri : AR.Bytes) (rtype mode : String)
    (resp : AR.Values) (u : AR.URL) (hu : parse uri = .ok u) :
    GenWire.AuthResponseURL now parse uri rtype mode resp () =
      .ok (if mode == "query" then GenWire.mergeQueryParams now u resp
           else if mode == "fragment" then GenWire.setFragment now u resp
           else if implicitType rtype then GenWire.setFragment now u resp
           else GenWire.mergeQueryParams now u resp) := by
  simp only [GenWire.AuthResponseURL, hu, AR.URLEncodeParams, AR.ResponseModeQuery, AR.ResponseModeFragment,
    AR.ResponseTypeIDToken, AR.ResponseTypeIDTokenOnly, implicitType]
  by_cases h1 : mode == "query" <;> by_cases h2 : mode == "fragment" <;>
    by_cases h3 : (rtype == "id_token token" || rtype == "id_token") <;> simp [h1, h2, h3]

/-- an unparsable redirect URI yields an error, never a redirect -/
theorem authResponseURL_unparsable (now : Int) (parse : AR.Bytes → Go.R AR.URL) (uri : AR.Bytes) (rtype mode : String)
    (resp : AR.Values) (e : String) (hu : parse uri = .error e) :
    GenWire.AuthResponseURL now parse uri rtype mode resp () = .error "ErrServerError" := by
  simp [GenWire.AuthResponseURL, hu]

-- ---------------------------------------------------------------- form_post

theorem templateOK_shape (tmpl : List AR.Node) (h : templateOK tmpl = true) :
    ∃ t0 t1 rest, tmpl = .text t0 :: .redirectURI :: .text t1 :: rest := by
  unfold templateOK at h
  split at h
  · exact ⟨_, _, _, rfl⟩
  · exact absurd h (by decide)

/-- **C11, form_post, all redirect URIs and all values (without CR): no markup injection.**  The page rendered
    from the regenerated template tokenises to exactly the page frame, ONE form tag and the hidden inputs of
    the listed parameters; attribute values are the escaped strings, which contain no `"`, `'`, `<`, `>`
    (`c11_attr_no_breakout`). -/
theorem c11_form_tags (uri : Bytes) (params : AR.Values) (hv : ∀ name, ∀ v ∈ params.get name, ∀ c ∈ v, c ≠ 0x0D) :
    tokenize (AR.render GenWire.formPostAutoescape GenWire.formPostTemplate uri params)
      = pageFrame ++ formTag (AR.attrEscape (AR.urlNormalize (AR.urlFilter uri)))
          :: restTags AR.attrEscape params (GenWire.formPostTemplate.drop 3) := by
  obtain ⟨t0, t1, rest, hshape⟩ := templateOK_shape _ formPostTemplate_ok
  have hok := formPostTemplate_ok
  rw [formPostAutoescape_on, hshape] at *
  exact tokenize_render t0 t1 rest hok uri params hv

set_option maxRecDepth 1000000 in
/-- the literal text of the regenerated template has no character data outside tags (evaluated by the kernel) -/
theorem formPostTemplate_textOK : templateTextOK GenWire.formPostTemplate = true := by decide

/-- **C11, form_post: nothing before, after or between the tags.**  For every redirect URI and all values (without CR) the page
    rendered from the regenerated template has no character data outside its tags: no value ends up as text, nothing
    precedes or follows the document. -/
theorem c11_form_no_text (uri : Bytes) (params : AR.Values) (hv : ∀ name, ∀ v ∈ params.get name, ∀ c ∈ v, c ≠ 0x0D) :
    pageText (AR.render GenWire.formPostAutoescape GenWire.formPostTemplate uri params) = [] := by
  obtain ⟨t0, t1, rest, hshape⟩ := templateOK_shape _ formPostTemplate_ok
  have hok := formPostTemplate_ok
  have htx := formPostTemplate_textOK
  rw [formPostAutoescape_on, hshape] at *
  exact pageText_render t0 t1 rest hok htx uri params hv

/-- the fields a template submits for a response: one per listed parameter the response carries, first value -/
def restFields (params : AR.Values) : List AR.Node → List (Bytes × Bytes)
  | [] => []
  | .withParam name _ _ :: rest =>
    (match params.get name with | [] => [] | v :: _ => [(name, v)]) ++ restFields params rest
  | _ :: rest => restFields params rest

theorem pageFrame_decoded : pageFrame.map decodeTag = pageFrame := by decide

theorem attrUnescape_post : attrUnescape (s "post") = s "post" := by decide
theorem attrUnescape_hidden : attrUnescape (s "hidden") = s "hidden" := by decide

theorem restTags_decoded (params : AR.Values) (hv : ∀ name, ∀ v ∈ params.get name, ∀ c ∈ v, c ≠ 0)
    (rest : List AR.Node) (h : restOK rest = true) :
    (restTags AR.attrEscape params rest).map decodeTag = restTags id params rest := by
  induction rest with
  | nil => rfl
  | cons n rest ih =>
    cases n with
    | text t =>
      simp only [restOK, Bool.and_eq_true] at h
      simpa [restTags] using ih h.2
    | redirectURI => simp [restOK] at h
    | withParam name pre post =>
      simp only [restOK, Bool.and_eq_true, beq_iff_eq] at h
      obtain ⟨⟨⟨⟨_, _⟩, _⟩, hn⟩, h5⟩ := h
      simp only [restTags, List.map_append, ih h5]
      cases hg : params.get name with
      | nil => simp
      | cons v vs =>
        have hv' := c11_attr_roundtrip v (hv name v (by simp [hg]))
        simp [decodeTag, inputTag, attrUnescape_hidden, hn, hv']

theorem isInput_inputTag (n v : Bytes) : isInput (inputTag n v) = some (n, v) := by
  simp [isInput, inputTag]

theorem restTags_inputs (params : AR.Values) (rest : List AR.Node) :
    (restTags id params rest).find? (fun t => (isInput t).isNone) = none
    ∧ (restTags id params rest).filterMap isInput = restFields params rest := by
  induction rest with
  | nil => simp [restTags, restFields]
  | cons n rest ih =>
    cases n with
    | text t => simpa [restTags, restFields] using ih
    | redirectURI => simpa [restTags, restFields] using ih
    | withParam name pre post =>
      simp only [restTags, restFields]
      cases params.get name with
      | nil => simpa using ih
      | cons v vs =>
        simp only [List.cons_append, List.nil_append, List.find?_cons, isInput_inputTag, Option.isNone_some,
          List.filterMap_cons, id]
        exact ⟨ih.1, by rw [ih.2]⟩

/-- **C11, form_post, what the user agent submits, all inputs.**  For every redirect URI and every
    response whose values contain neither NUL nor CR: the decoded page is accepted as an auto-submitting form
    (`formOf`), its action is the URL-normalised redirect URI (`#ZgotmplZ` if html/template's URL filter rejects
    the scheme — F-C11b), and its fields are exactly the template-listed parameters with their values UNCHANGED
    (which names are listed: `formPostTemplate_names`, `template_lists_required`). -/
theorem c11_form_submission (uri : Bytes) (params : AR.Values)
    (hv : ∀ name, ∀ v ∈ params.get name, ∀ c ∈ v, c ≠ 0x0D ∧ c ≠ 0) :
    formOf ((tokenize (AR.render GenWire.formPostAutoescape GenWire.formPostTemplate uri params)).map decodeTag)
      = .ok (AR.urlNormalize (AR.urlFilter uri), restFields params (GenWire.formPostTemplate.drop 3)) := by
  rw [c11_form_tags uri params (fun n v hm c hc => (hv n v hm c hc).1)]
  obtain ⟨t0, t1, rest, hshape⟩ := templateOK_shape _ formPostTemplate_ok
  have hok := formPostTemplate_ok
  rw [hshape] at hok ⊢
  simp only [templateOK, Bool.and_eq_true] at hok
  have hr : restOK rest = true := hok.2
  have haction : attrUnescape (AR.attrEscape (AR.urlNormalize (AR.urlFilter uri))) = AR.urlNormalize (AR.urlFilter uri) :=
    c11_attr_roundtrip _ (fun c hc => (urlNormalize_clean _ c hc).2)
  simp only [List.drop_succ_cons, List.drop_zero, List.map_append, List.map_cons, pageFrame_decoded,
    restTags_decoded params (fun n v hm c hc => (hv n v hm c hc).2) rest hr]
  have hform : decodeTag (formTag (AR.attrEscape (AR.urlNormalize (AR.urlFilter uri)))) = formTag (AR.urlNormalize (AR.urlFilter uri)) := by
    simp [decodeTag, formTag, attrUnescape_post, haction]
  rw [hform]
  obtain ⟨hi1, hi2⟩ := restTags_inputs params rest
  have htake : (pageFrame ++ formTag (AR.urlNormalize (AR.urlFilter uri)) :: restTags id params rest).take 4 = pageFrame := by
    simp [pageFrame]
  have hdrop : (pageFrame ++ formTag (AR.urlNormalize (AR.urlFilter uri)) :: restTags id params rest).drop 4
      = formTag (AR.urlNormalize (AR.urlFilter uri)) :: restTags id params rest := by
    simp [pageFrame]
  unfold formOf
  rw [htake, hdrop]
  simp [formTag, hi1, hi2]

-- ---------------------------------------------------------------- the monitor on the model's answer: query mode

theorem valuesOf_nil_of_not_mem (k : Bytes) (ps : List (Bytes × Bytes)) (h : k ∉ keysOf ps) : valuesOf k ps = [] := by
  induction ps with
  | nil => rfl
  | cons p ps ih =>
    simp only [keysOf, List.map_cons, List.mem_cons, not_or] at h
    have : (p.1 == k) = false := by
      rw [beq_eq_false_iff_ne]; exact fun heq => h.1 heq.symm
    simp only [valuesOf, List.filter_cons, this]
    exact ih h.2

theorem valuesOf_ne_nil_of_mem (k : Bytes) (ps : List (Bytes × Bytes)) (h : k ∈ keysOf ps) : valuesOf k ps ≠ [] := by
  induction ps with
  | nil => simp [keysOf] at h
  | cons p ps ih =>
    simp only [keysOf, List.map_cons, List.mem_cons] at h
    by_cases hp : p.1 = k
    · simp [valuesOf, List.filter_cons, hp]
    · have : (p.1 == k) = false := by simpa using hp
      simp only [valuesOf, List.filter_cons, this]
      rcases h with h | h
      · exact absurd h.symm hp
      · exact ih h

/-- the monitor's clause is satisfied as soon as every name decodes to its existing values followed by the produced ones -/
theorem paramsArrive_none (what : String) (produced existing got : List (Bytes × Bytes))
    (h : ∀ k, valuesOf k got = valuesOf k existing ++ valuesOf k produced) :
    paramsArrive what produced existing got = none := by
  unfold paramsArrive firstSome
  have h1 : (keysOf produced).findSome? (fun k =>
      if valuesOf k got == valuesOf k existing ++ valuesOf k produced then none
      else if !required k && valuesOf k got == valuesOf k existing then none
      else if valuesOf k got == valuesOf k existing then some s!"{what}-param-missing:{showBytes k}"
      else if (valuesOf k got).map formDecode == (valuesOf k existing ++ valuesOf k produced).map some then some s!"{what}-param-encoded-twice:{showBytes k}"
      else some s!"{what}-param-altered:{showBytes k}") = none := by
    rw [List.findSome?_eq_none_iff]
    intro k _
    simp [h k]
  have h2 : (keysOf existing).findSome? (fun k =>
      if (keysOf produced).contains k || valuesOf k got == valuesOf k existing then none else some s!"existing-query-not-preserved:{showBytes k}") = none := by
    rw [List.findSome?_eq_none_iff]
    intro k _
    by_cases hk : k ∈ keysOf produced
    · simp [hk]
    · simp [h k, valuesOf_nil_of_not_mem k produced hk]
  have h3 : (keysOf got).findSome? (fun k =>
      if (keysOf produced).contains k || (keysOf existing).contains k then none else some s!"{what}-param-invented:{showBytes k}") = none := by
    rw [List.findSome?_eq_none_iff]
    intro k hk
    by_cases hp : k ∈ keysOf produced
    · simp [hp]
    · by_cases he : k ∈ keysOf existing
      · simp [he]
      · exfalso
        apply valuesOf_ne_nil_of_mem k got hk
        rw [h k, valuesOf_nil_of_not_mem k produced hp, valuesOf_nil_of_not_mem k existing he]; rfl
  simp only [h1, h2, h3]
  rfl

/-- the parameters the provider produced agree with their SOURCE: the state is the one the client sent (request object
    first, see `Source.state`), error code and description are the ones the provider produced.  Trivial for inputs
    without source tracing; for the provider's own error path it is `c11_error_source` / `c11_state_source`. -/
def SourceOK (i : Input) : Prop :=
  match i.source with
  | none => True
  | some src =>
    valuesOf (s "state") i.params = (if src.state.isEmpty then [] else [src.state]) ∧
    (∀ d, src.desc = some d → valuesOf (s "error_description") i.params = (if d.isEmpty then [] else [d])) ∧
    (∀ c, src.code = some c → valuesOf (s "error") i.params = [c])

theorem sourceValue_none (clause : String) (name v : Bytes) (produced existing got : List (Bytes × Bytes))
    (h : ∀ k, valuesOf k got = valuesOf k existing ++ valuesOf k produced)
    (hv : valuesOf name produced = (if v.isEmpty then [] else [v])) :
    sourceValue clause name v existing got = none := by
  simp [sourceValue, h name, hv]

theorem sourceValue_none_always (clause : String) (name v : Bytes) (produced existing got : List (Bytes × Bytes))
    (h : ∀ k, valuesOf k got = valuesOf k existing ++ valuesOf k produced)
    (hv : valuesOf name produced = [v]) :
    sourceValue clause name v existing got true = none := by
  simp [sourceValue, h name, hv]

/-- source equality holds as soon as every name decodes to its existing values followed by the produced ones -/
theorem sourceArrives_none (what : String) (i : Input) (existing got : List (Bytes × Bytes)) (hs : SourceOK i)
    (h : ∀ k, valuesOf k got = valuesOf k existing ++ valuesOf k i.params) :
    sourceArrives what i existing got = none := by
  unfold sourceArrives
  unfold SourceOK at hs
  cases hsrc : i.source with
  | none => rfl
  | some src =>
    rw [hsrc] at hs
    obtain ⟨h1, h2, h3⟩ := hs
    simp only
    rw [sourceValue_none _ _ _ i.params existing got h h1]
    cases hdesc : src.desc with
    | none =>
      cases hcode : src.code with
      | none => rfl
      | some c => simp only [sourceValue_none_always _ _ _ i.params existing got h (h3 c hcode)]; rfl
    | some d =>
      simp only [sourceValue_none _ _ _ i.params existing got h (h2 d hdesc)]
      cases hcode : src.code with
      | none => rfl
      | some c => simp only [sourceValue_none_always _ _ _ i.params existing got h (h3 c hcode)]; rfl

/-- what the theorems assume about `url.Parse`'s answer `u` for the redirect URI (the driver evaluates these
    three conditions on the oracle values of every harness case and reports them as `hyp=`): the part in front
    of the query is rendered without `?`/`#` and addresses the same target, `RawQuery` is the URI's query text -/
structure ParseOK (uri : Bytes) (u : AR.URL) : Prop where
  base : BaseOK u
  rawQuery : locationQuery uri = u.RawQuery
  target : sameTarget u.base (locationBase uri) = true

/-- the query text url.Parse reports contains no `#` -/
theorem ParseOK.nohash {uri : Bytes} {u : AR.URL} (h : ParseOK uri u) : ∀ b ∈ u.RawQuery, b ≠ 0x23 := by
  rw [← h.rawQuery]; exact locationQuery_nohash uri

/-- **C11 holds in query mode, for all inputs.**  Whatever the redirect URI (with query, with fragment, custom
    scheme, …), the response (any names, any byte strings) and whatever url.Parse answered within `ParseOK`:
    the monitor accepts the Location value the regenerated `mergeQueryParams` produces — every parameter is
    recovered unchanged by the user agent's decoder, the redirect URI's own query parameters are preserved,
    nothing is invented, the target is the redirect URI. -/
theorem c11_holds_query (now : Int) (i : Input) (u : AR.URL) (resp : AR.Values)
    (hpar : ParseOK i.uri u) (hresp : i.params = flatten resp.entries) (hd : DistinctKeys resp.entries)
    (hch : (channels i).contains Channel.query = true) (hsrc : SourceOK i) :
    monitor i (.redirect (GenWire.mergeQueryParams now u resp)) = none := by
  have hq := hpar.nohash
  simp only [monitor, hch, if_true, checkQuery]
  rw [c11_query_base now u resp hpar.base hq, hpar.target]
  simp only [Bool.not_true, Bool.false_eq_true, if_false]
  have hall : ∀ k, valuesOf k (parseQuery (locationQuery (GenWire.mergeQueryParams now u resp)))
      = valuesOf k (parseQuery (locationQuery i.uri)) ++ valuesOf k i.params := by
    intro k
    rw [c11_query_roundtrip now u resp hpar.base hq hd k, hpar.rawQuery, hresp, valuesOf_flatten_get k _ hd]
  rw [paramsArrive_none _ _ _ _ hall, sourceArrives_none _ _ _ _ hsrc hall]
  simp [unreadKept, c11_query_unread_kept now u resp hpar.base hq, hpar.rawQuery]

/-- the same through the regenerated mode decision of `AuthResponseURL` -/
theorem c11_holds_query_mode (now : Int) (parse : AR.Bytes → Go.R AR.URL) (i : Input) (u : AR.URL) (resp : AR.Values)
    (hu : parse i.uri = .ok u) (hpar : ParseOK i.uri u) (hresp : i.params = flatten resp.entries) (hd : DistinctKeys resp.entries)
    (hmode : i.mode = "query" ∨ (i.mode = "" ∧ implicitType i.rtype = false)) (hsrc : SourceOK i) :
    ∃ loc, GenWire.AuthResponseURL now parse i.uri i.rtype i.mode resp () = .ok loc ∧ monitor i (.redirect loc) = none := by
  refine ⟨GenWire.mergeQueryParams now u resp, ?_, ?_⟩
  · rw [authResponseURL_channel now parse i.uri i.rtype i.mode resp u hu]
    rcases hmode with h | ⟨h1, h2⟩
    · simp [h]
    · simp [h1, h2]
  · apply c11_holds_query now i u resp hpar hresp hd _ hsrc
    rcases hmode with h | ⟨h1, h2⟩
    · simp [channels, h]
    · simp [channels, h1, h2]

-- ---------------------------------------------------------------- the monitor on the model's answer: fragment mode

/-- **C11 holds in fragment mode, for all inputs.**  Whatever the redirect URI (with query, with its own fragment,
    custom scheme, …), the response (any names, any byte strings: `+ / = & % # ?`, spaces, quotes, non-ASCII, invalid
    UTF-8) and whatever url.Parse answered within `ParseOK`: the monitor accepts the Location value the regenerated
    `setFragment` produces — parsing the raw text after `#` ONCE as form data recovers every parameter unchanged,
    nothing is invented, the redirect URI's own query is untouched, the target is the redirect URI. -/
theorem c11_holds_fragment (now : Int) (i : Input) (u : AR.URL) (resp : AR.Values)
    (hpar : ParseOK i.uri u) (hresp : i.params = flatten resp.entries) (hd : DistinctKeys resp.entries)
    (hnq : (channels i).contains Channel.query = false) (hch : (channels i).contains Channel.fragment = true)
    (hsrc : SourceOK i) :
    monitor i (.redirect (GenWire.setFragment now u resp)) = none := by
  have hq := hpar.nohash
  obtain ⟨hf, hlq, hlb⟩ := c11_fragment_wire now u resp hpar.base hq
  simp only [monitor, hnq, hch, if_true, Bool.false_eq_true, if_false, checkFragment]
  rw [hlb, hpar.target, hf, hlq]
  simp only [Bool.not_true, Bool.false_eq_true, if_false]
  by_cases hne : resp.Encode = []
  · have hnil : i.params = [] := by rw [hresp]; exact Encode_nil_flatten resp hd hne
    have hs0 : sourceArrives "fragment" i [] [] = none :=
      sourceArrives_none _ _ _ _ hsrc (fun k => by rw [hnil]; simp [valuesOf])
    simp [hne, hnil, hs0]
  · simp only [hne, if_false]
    have hall : ∀ k, valuesOf k (parseQuery resp.Encode) = valuesOf k [] ++ valuesOf k i.params := by
      intro k
      rw [valuesOf_parseQuery_Encode resp hd k, hresp, valuesOf_flatten_get k _ hd]; rfl
    have h2 : paramsArrive "query" [] (parseQuery (locationQuery i.uri)) (parseQuery u.RawQuery) = none := by
      apply paramsArrive_none
      intro k
      rw [hpar.rawQuery]; simp [valuesOf]
    rw [paramsArrive_none _ _ _ _ hall, h2, sourceArrives_none _ _ _ _ hsrc hall]
    simp [unreadKept, hpar.rawQuery]

/-- the same through the regenerated mode decision of `AuthResponseURL` -/
theorem c11_holds_fragment_mode (now : Int) (parse : AR.Bytes → Go.R AR.URL) (i : Input) (u : AR.URL) (resp : AR.Values)
    (hu : parse i.uri = .ok u) (hpar : ParseOK i.uri u) (hresp : i.params = flatten resp.entries) (hd : DistinctKeys resp.entries)
    (hmode : i.mode = "fragment" ∨ (i.mode = "" ∧ implicitType i.rtype = true)) (hsrc : SourceOK i) :
    ∃ loc, GenWire.AuthResponseURL now parse i.uri i.rtype i.mode resp () = .ok loc ∧ monitor i (.redirect loc) = none := by
  refine ⟨GenWire.setFragment now u resp, ?_, ?_⟩
  · rw [authResponseURL_channel now parse i.uri i.rtype i.mode resp u hu]
    rcases hmode with h | ⟨h1, h2⟩
    · simp [h]
    · simp [h1, h2]
  · apply c11_holds_fragment now i u resp hpar hresp hd
    · rcases hmode with h | ⟨h1, h2⟩
      · simp [channels, h]
      · simp [channels, h1, h2]
    · rcases hmode with h | ⟨h1, h2⟩
      · simp [channels, h]
      · simp [channels, h1, h2]
    · exact hsrc

-- ---------------------------------------------------------------- the monitor on the model's answer: form_post

/-- the parameter names of the hidden inputs of a template -/
def nodeNames : List AR.Node → List Bytes
  | [] => []
  | .withParam name _ _ :: rest => name :: nodeNames rest
  | _ :: rest => nodeNames rest

/-- the hidden inputs of the regenerated template, in order -/
theorem formPostTemplate_names :
    nodeNames (GenWire.formPostTemplate.drop 3)
      = [s "state", s "code", s "id_token", s "access_token", s "token_type", s "expires_in", s "session_state"] := by decide

theorem valuesOf_restFields (params : AR.Values) (nodes : List AR.Node) (hn : (nodeNames nodes).Nodup) (k : Bytes) :
    valuesOf k (restFields params nodes) = if (nodeNames nodes).contains k then (params.get k).take 1 else [] := by
  induction nodes with
  | nil => simp [restFields, nodeNames, valuesOf]
  | cons n rest ih =>
    cases n with
    | text t => exact ih hn
    | redirectURI => exact ih hn
    | withParam name pre post =>
      simp only [nodeNames, List.nodup_cons] at hn
      simp only [restFields, nodeNames, valuesOf_append, ih hn.2, List.contains_cons]
      by_cases hk : k = name
      · subst hk
        have hnc : (nodeNames rest).contains k = false := by simpa using hn.1
        simp only [hnc, beq_self_eq_true, Bool.true_or, if_true, Bool.false_eq_true, if_false, List.append_nil]
        cases params.get k with
        | nil => simp [valuesOf]
        | cons v vs => simp [valuesOf]
      · have hk' : (name == k) = false := by simp; exact fun h => hk h.symm
        have hk'' : (k == name) = false := by simp; exact hk
        simp only [hk'', Bool.false_or]
        cases params.get name with
        | nil => simp [valuesOf]
        | cons v vs => simp [valuesOf, hk']

theorem get_nil_of_not_key (es : Entries) (k : Bytes) (h : k ∉ es.map (·.1)) : AR.Values.get ⟨es⟩ k = [] := by
  induction es with
  | nil => rfl
  | cons e es ih =>
    simp only [List.map_cons, List.mem_cons, not_or] at h
    have : (e.1 == k) = false := by simp; exact fun heq => h.1 heq.symm
    rw [get_cons, this]; simpa using ih h.2

theorem get_of_mem (es : Entries) (hd : DistinctKeys es) (e : Bytes × List Bytes) (he : e ∈ es) : AR.Values.get ⟨es⟩ e.1 = e.2 := by
  induction es with
  | nil => simp at he
  | cons x es ih =>
    simp only [DistinctKeys, List.map_cons, List.nodup_cons] at hd
    rw [get_cons]
    rcases List.mem_cons.mp he with h | h
    · subst h; simp
    · have : (x.1 == e.1) = false := by
        simp only [beq_eq_false_iff_ne, ne_eq]
        intro heq; exact hd.1 (heq ▸ List.mem_map_of_mem h)
      rw [this]; simpa using ih hd.2 h

/-- **C11 holds in form_post mode whenever the form's action survives** (partial: F-C11b).  For every redirect URI
    whose scheme html/template's URL filter lets through (no scheme, http, https, mailto) and every response of
    template-listed parameters (one value each, no NUL / CR): the monitor accepts the page rendered from the
    regenerated template — it is exactly the auto-submitting form, its action addresses the redirect URI, every
    parameter is submitted with its value unchanged, nothing else is in the page. -/
theorem c11_holds_form_partial (i : Input) (resp : AR.Values)
    (hsafe : AR.isSafeURL i.uri = true)
    (hresp : i.params = flatten resp.entries) (hd : DistinctKeys resp.entries)
    (hv : ∀ name, ∀ v ∈ resp.get name, ∀ c ∈ v, c ≠ 0x0D ∧ c ≠ 0)
    (hlisted : ∀ e ∈ resp.entries, e.1 ∈ nodeNames (GenWire.formPostTemplate.drop 3) ∧ e.2.length ≤ 1)
    (hch : (channels i).contains Channel.form = true) (hsrc : SourceOK i) :
    monitor i (.form (AR.render GenWire.formPostAutoescape GenWire.formPostTemplate i.uri resp)
      ((tokenize (AR.render GenWire.formPostAutoescape GenWire.formPostTemplate i.uri resp)).map decodeTag)) = none := by
  simp only [monitor, hch, if_true, checkForm, bne_self_eq_false, Bool.false_eq_true, if_false,
    c11_form_no_text i.uri resp (fun n v hm c hc => (hv n v hm c hc).1), List.isEmpty_nil, Bool.not_true]
  rw [c11_form_submission i.uri resp hv]
  simp only [c11_form_action_target i.uri hsafe, Bool.not_true, Bool.false_eq_true, if_false]
  suffices hall : ∀ k, valuesOf k (restFields resp (GenWire.formPostTemplate.drop 3)) = valuesOf k [] ++ valuesOf k i.params by
    rw [paramsArrive_none _ _ _ _ hall, sourceArrives_none _ _ _ _ hsrc hall]; rfl
  intro k
  have hnodup : (nodeNames (GenWire.formPostTemplate.drop 3)).Nodup := by rw [formPostTemplate_names]; decide
  rw [valuesOf_restFields resp _ hnodup k, hresp, valuesOf_flatten_get k _ hd]
  simp only [valuesOf, List.filter_nil, List.map_nil, List.nil_append]
  by_cases hk : k ∈ resp.entries.map (·.1)
  · obtain ⟨e, he, rfl⟩ := List.mem_map.mp hk
    obtain ⟨hl1, hl2⟩ := hlisted e he
    have hl1' : (nodeNames (GenWire.formPostTemplate.drop 3)).contains e.1 = true := by simpa using hl1
    rw [get_of_mem _ hd e he]
    simp only [hl1', if_true]
    exact List.take_of_length_le hl2
  · rw [get_nil_of_not_key _ k hk]; simp

-- ---------------------------------------------------------------- non-vacuity and the remaining finding

def wUri : Bytes := s "https://rp.example/cb?tenant=acme#/app"
def wURL : AR.URL := { base := s "https://rp.example/cb", RawQuery := s "tenant=acme", Fragment := s "/app" }
def wResp : AR.Values := ⟨[(s "code", [s "a+b/c=&%#? \"<>"]), (s "state", [[0xE2, 0x82, 0xAC, 0x20, 0xFF]])]⟩

/-- the hypotheses of `c11_holds_query` are satisfiable: a redirect URI with query AND fragment, values with
    every kind of awkward byte -/
example : ParseOK wUri wURL := ⟨by decide, by decide, by decide⟩
example : DistinctKeys wResp.entries := by decide
set_option maxRecDepth 1000000 in
/-- … and the monitor really evaluates to "ok" on that case (concrete accepted case) -/
example : monitor { uri := wUri, uriOK := true, mode := "query", rtype := "code", isError := false, params := flatten wResp.entries }
    (.redirect (GenWire.mergeQueryParams 0 wURL wResp)) = none := by decide
set_option maxRecDepth 1000000 in
/-- a concrete rejected case: the same Location with one value altered is flagged -/
example : monitor { uri := wUri, uriOK := true, mode := "query", rtype := "code", isError := false, params := [(s "code", s "a b")] }
    (.redirect (s "https://rp.example/cb?code=a-b&tenant=acme#/app")) = some "query-param-altered:code" := by decide

def wPlain : Bytes := s "https://rp.example/cb"
def wPlainURL : AR.URL := { base := wPlain }
def wPage (uri : Bytes) (resp : AR.Values) : Bytes := AR.render GenWire.formPostAutoescape GenWire.formPostTemplate uri resp
def wForm (uri : Bytes) (resp : AR.Values) : Observed := .form (wPage uri resp) ((tokenize (wPage uri resp)).map decodeTag)

set_option maxRecDepth 1000000 in
/-- fragment mode with a value that needs a percent escape: `state=a+b` is on the wire as `#state=a%2Bb`, the user
    agent recovers `a+b` (concrete accepted case; the input of the repaired finding F-C11a) -/
example : monitor { uri := wPlain, uriOK := true, mode := "fragment", rtype := "code", isError := false, params := [(s "state", s "a+b")] }
    (.redirect (GenWire.setFragment 0 wPlainURL ⟨[(s "state", [s "a+b"])]⟩)) = none := by decide

set_option maxRecDepth 1000000 in
/-- … on a redirect URI with query and fragment of its own, every kind of awkward byte in the values -/
example : monitor { uri := wUri, uriOK := true, mode := "", rtype := "id_token", isError := false, params := flatten wResp.entries }
    (.redirect (GenWire.setFragment 0 wURL wResp)) = none := by decide

set_option maxRecDepth 1000000 in
/-- a concrete rejected case: a Location whose fragment was escaped a second time is flagged -/
example : monitor { uri := wPlain, uriOK := true, mode := "fragment", rtype := "code", isError := false, params := [(s "state", s "a+b")] }
    (.redirect (s "https://rp.example/cb#state=a%252Bb")) = some "fragment-param-encoded-twice:state" := by decide

set_option maxRecDepth 1000000 in
/-- a concrete rejected case: a Location that lost the setting `a;b=1` of the redirect URI's query (what rebuilding the
    query from `url.Values` does; the input of the repaired finding F-C18a) is flagged -/
example : monitor { uri := s "https://rp.example/cb?a;b=1&ok=1", uriOK := true, mode := "query", rtype := "code", isError := false, params := [(s "code", s "c1")] }
    (.redirect (s "https://rp.example/cb?code=c1&ok=1")) = some "existing-query-not-preserved:unread-setting" := by decide

set_option maxRecDepth 1000000 in
/-- query mode keeps the parts of the redirect URI's query no decoder accepts (`a;b=1`, `%zz`) byte for byte -/
example : GenWire.mergeQueryParams 0 { base := wPlain, RawQuery := s "a;b=1&%zz=2&ok=1" } ⟨[(s "code", [s "c 1"])]⟩
    = s "https://rp.example/cb?a;b=1&%zz=2&ok=1&code=c+1" := by decide

set_option maxRecDepth 1000000 in
/-- **F-C11b (witness, current tree): form_post with a custom-scheme redirect URI posts to `#ZgotmplZ`** -/
theorem c11_form_custom_scheme_witness :
    monitor { uri := s "myapp://callback", uriOK := true, mode := "form_post", rtype := "code", isError := false, params := [(s "code", s "c1")] }
      (wForm (s "myapp://callback") ⟨[(s "code", [s "c1"])]⟩) = some "form-action-differs" := by decide

set_option maxRecDepth 1000000 in
/-- the form carries `session_state` (concrete accepted case; the input of the repaired finding F-C11c) -/
example : monitor { uri := wPlain, uriOK := true, mode := "form_post", rtype := "code", isError := false,
                    params := [(s "code", s "c1"), (s "state", s "x"), (s "session_state", s "ss")] }
    (wForm wPlain ⟨[(s "code", [s "c1"]), (s "state", [s "x"]), (s "session_state", [s "ss"])]⟩) = none := by decide

set_option maxRecDepth 1000000 in
/-- form_post is accepted when the scheme is http(s) and the response has only listed parameters — with values
    that try to break out (concrete accepted case) -/
example : monitor { uri := s "https://rp.example/cb?a=\"x\"&b='y'", uriOK := true, mode := "form_post", rtype := "code", isError := false,
                    params := [(s "code", s "\"><script>alert(1)</script>"), (s "state", s "&amp;&#34;' <b>")] }
    (wForm (s "https://rp.example/cb?a=\"x\"&b='y'") ⟨[(s "code", [s "\"><script>alert(1)</script>"]), (s "state", [s "&amp;&#34;' <b>"])]⟩) = none := by decide

set_option maxRecDepth 1000000 in
/-- … and a page in which a value DID break out of its attribute is rejected (the monitor is not vacuous) -/
example : (monitor { uri := wPlain, uriOK := true, mode := "form_post", rtype := "code", isError := false, params := [(s "code", s "\"><script>")] }
    (let page := AR.render false GenWire.formPostTemplate wPlain ⟨[(s "code", [s "\"><script>"])]⟩
     .form page ((tokenize page).map decodeTag))).isSome = true := by decide


-- ================================================================ from the SOURCE to the wire: error text and state

/-! The wire theorems above start from the parameters the provider hands to the transport code.  This part is about how
    those parameters come about, on the definitions regenerated from pkg/oidc/error.go, pkg/op/error.go and
    pkg/op/auth_request.go (`GenErr.*`, `Gen.CopyRequestObjectToAuthRequest`). -/

-- ---------------------------------------------------------------- fmt.Sprintf without operands

theorem sprintf0_nopct (t : Bytes) : ∀ fuel, t.length ≤ fuel → (0x25 : UInt8) ∉ t → AR.sprintf0 fuel .text false t = t := by
  induction t with
  | nil => intro fuel _ _; cases fuel <;> rfl
  | cons c r ih =>
    intro fuel hf hp
    cases fuel with
    | zero => simp at hf
    | succ n =>
      have hc : (c == 0x25) = false := by
        simp only [beq_eq_false_iff_ne, ne_eq]; intro h; exact hp (by simp [h])
      have hr : (0x25 : UInt8) ∉ r := fun h => hp (by simp [h])
      simp only [AR.sprintf0, hc, Bool.false_eq_true, if_false]
      rw [ih n (by simpa using hf) hr]

/-- `fmt.Sprintf(text)` gives the text back when it contains no `%` … -/
theorem sprintf_nopct (t : Bytes) (h : (0x25 : UInt8) ∉ t) : AR.Sprintf t = t := by
  simp [AR.Sprintf, sprintf0_nopct t (t.length + 1) (by omega) h]

set_option maxRecDepth 100000 in
/-- … and not otherwise: a text is a FORMAT there (`100% full` comes out as `100%!f(MISSING)ull`) -/
theorem sprintf_pct_witness :
    AR.Sprintf (AR.ascii "disk is 100% full") = AR.ascii "disk is 100%!f(MISSING)ull"
    ∧ AR.Sprintf (AR.ascii "a%2Fb") = AR.ascii "a%!F(MISSING)b"
    ∧ AR.Sprintf (AR.ascii "usage at 93%") = AR.ascii "usage at 93%!(NOVERB)"
    ∧ AR.Sprintf (AR.ascii "100%% sure") = AR.ascii "100% sure" := by decide

-- ---------------------------------------------------------------- the error an error path answers with

/-- the description the failing component REPORTED: the text of a plain error, the description of an OAuth error
    (its own, or the one found in its chain) -/
def srcDesc : AR.GoErr → Bytes
  | .plain t => t
  | .oidc e => e.Description
  | .wraps _ e => e.Description

/-- … and the error code: `server_error` for a plain error, the OAuth error's own otherwise -/
def srcCode : AR.GoErr → String
  | .plain _ => "server_error"
  | .oidc e => e.ErrorType
  | .wraps _ e => e.ErrorType

/-- the regenerated `(*oidc.Error).WithDescription`: a printf — the description becomes `Sprintf(desc, args...)` -/
theorem withDescription_eq (now : Int) (e : AR.OidcError) (desc : Bytes) (args : List AR.FmtArg) :
    GenErr.WithDescription now e desc args = { e with Description := AR.Sprintf desc args } := rfl

/-- the regenerated `oidc.DefaultToServerError`: an OAuth error (also one found in the chain) is answered as it is;
    anything else as `server_error` with the description handed over, UNCHANGED -/
theorem defaultToServerError_eq (now : Int) (err : AR.GoErr) (description : Bytes) :
    GenErr.DefaultToServerError now err description =
      match err with
      | .plain _ => { ErrorType := "server_error", Description := description, Parent := ⟨err.Error⟩ }
      | .oidc e => e
      | .wraps _ e => e := by
  cases err <;> rfl

/-- **the description put on the wire is the error's own text / the OAuth error's description, verbatim** — for every
    error value and every text (any bytes: `%`, `%s`, `%!`, `%%`, a trailing `%`, UTF-8): the error that
    `AuthRequestError` / `TryErrorRedirect` encode, `DefaultToServerError(err, err.Error())`, carries exactly the
    description and the code the failing component reported.  (No `Sprintf` in between: with the description passed
    through `WithDescription` this is false, `sprintf_pct_witness`.) -/
theorem c11_error_description_verbatim (now : Int) (err : AR.GoErr) :
    (GenErr.DefaultToServerError now err (AR.errText err)).Description = srcDesc err
    ∧ (GenErr.DefaultToServerError now err (AR.errText err)).ErrorType = srcCode err := by
  rw [defaultToServerError_eq]
  cases err <;> exact ⟨rfl, rfl⟩

/-- a call site that hands over its own wording (`DefaultToServerError(err, "unable to save auth request")`): that
    wording is the description of a plain error, an OAuth error keeps its own -/
theorem c11_error_description_own_wording (now : Int) (err : AR.GoErr) (wording : Bytes) :
    (GenErr.DefaultToServerError now err wording).Description
      = (match err with | .plain _ => wording | .oidc e => e.Description | .wraps _ e => e.Description) := by
  rw [defaultToServerError_eq]
  cases err <;> rfl

/-- the error as `AuthRequestError` / `TryErrorRedirect` complete it: state and session state of the request -/
def errorOf (now : Int) (authReq : AR.ErrReq) (err : AR.GoErr) : AR.OidcError :=
  { GenErr.DefaultToServerError now err (AR.errText err) with
    State := authReq.state,
    SessionState := if authReq.is_AuthRequestSessionState then authReq.sessionState else [] }

/-- the response mode the error paths ask `AuthResponseURL` for -/
def errMode (authReq : AR.ErrReq) : String := if authReq.is_has_GetResponseMode then authReq.responseMode else ""

/-- **the regenerated `AuthRequestError`, for a request it redirects**: the Location value is `AuthResponseURL` of the
    redirect URI and the schema encoding of `errorOf` — `error`, `error_description`, `state`, `session_state` -/
theorem authRequestError_eq (now : Int) (urlParse : Bytes → Go.R AR.URL) (authReq : AR.ErrReq) (err : AR.GoErr) (authorizer : AR.ErrAuthorizer)
    (hnn : authReq.nilp = false) (huri : authReq.redirectURI ≠ [])
    (hrd : (GenErr.DefaultToServerError now err (AR.errText err)).redirectDisabled = false) :
    GenErr.AuthRequestError now urlParse authReq err authorizer =
      match GenWire.AuthResponseURL now urlParse authReq.redirectURI authReq.responseType (errMode authReq)
          (AR.encodeError (errorOf now authReq err)) () with
      | .ok url => [.redirect url]
      | .error e => [.page 400 (AR.ascii e)] := by
  have huri' : (authReq.redirectURI == ([] : Bytes)) = false := by simpa using huri
  have hrd' : (GenErr.DefaultToServerError now err err.Error).redirectDisabled = false := hrd
  unfold GenErr.AuthRequestError errorOf errMode
  simp only [Go.isNil, Go.Nilable.isNil, hnn, Bool.false_eq_true, if_false, AR.ErrReq.GetRedirectURI, coe_empty, huri',
    AR.OidcError.IsRedirectDisabled, AR.ErrReq.GetState, AR.ErrReq.GetSessionState, AR.ErrReq.GetResponseMode,
    AR.ErrReq.GetResponseType, AR.ErrAuthorizer.Encoder, AR.httpRedirect, AR.httpError, List.append_nil, AR.errText, AR.ErrText.errText]
  by_cases h1 : authReq.is_AuthRequestSessionState = true <;> by_cases h2 : authReq.is_has_GetResponseMode = true <;>
    simp only [h1, h2, hrd', if_true, if_false, Bool.false_eq_true, Bool.or_self, coe_empty] <;>
    (generalize GenWire.AuthResponseURL _ _ _ _ _ _ _ = X; cases X <;> rfl)


/-- the regenerated `TryErrorRedirect` (Server router) builds the same Location value from the same error -/
theorem tryErrorRedirect_eq (now : Int) (urlParse : Bytes → Go.R AR.URL) (authReq : AR.ErrReq) (err : AR.GoErr)
    (hnn : authReq.nilp = false) (huri : authReq.redirectURI ≠ [])
    (hrd : (GenErr.DefaultToServerError now err (AR.errText err)).redirectDisabled = false) :
    GenErr.TryErrorRedirect now urlParse authReq err () () =
      match GenWire.AuthResponseURL now urlParse authReq.redirectURI authReq.responseType (errMode authReq)
          (AR.encodeError (errorOf now authReq err)) () with
      | .ok url => .ok ⟨url⟩
      | .error e => .error e := by
  have huri' : (authReq.redirectURI == ([] : Bytes)) = false := by simpa using huri
  have hrd' : (GenErr.DefaultToServerError now err err.Error).redirectDisabled = false := hrd
  unfold GenErr.TryErrorRedirect errorOf errMode
  simp only [Go.isNil, Go.Nilable.isNil, hnn, Bool.false_eq_true, if_false, AR.ErrReq.GetRedirectURI, coe_empty, huri',
    AR.OidcError.IsRedirectDisabled, AR.ErrReq.GetState, AR.ErrReq.GetSessionState, AR.ErrReq.GetResponseMode,
    AR.ErrReq.GetResponseType, AR.NewRedirect, AR.AsStatusError, AR.ErrName.errName, AR.errText, AR.ErrText.errText]
  by_cases h1 : authReq.is_AuthRequestSessionState = true <;> by_cases h2 : authReq.is_has_GetResponseMode = true <;>
    simp only [h1, h2, hrd', if_true, if_false, Bool.false_eq_true, Bool.or_self, coe_empty] <;>
    (generalize GenWire.AuthResponseURL _ _ _ _ _ _ _ = X; cases X <;> rfl)

-- ---------------------------------------------------------------- … and what the user agent makes of it

theorem encodeError_distinct (e : AR.OidcError) : DistinctKeys (AR.encodeError e).entries := by
  unfold AR.encodeError DistinctKeys
  by_cases h1 : e.Description.isEmpty = true <;> by_cases h2 : e.State.isEmpty = true <;> by_cases h3 : e.SessionState.isEmpty = true <;>
    simp only [h1, h2, h3, if_true, if_false, Bool.false_eq_true, List.append_nil, List.cons_append, List.nil_append, List.map_cons, List.map_nil] <;>
    decide

theorem ne_nil_of_isEmpty_false {b : Bytes} (h : ¬ b.isEmpty = true) : b.isEmpty = false := by simpa using h

set_option maxRecDepth 100000 in
theorem encodeError_values (e : AR.OidcError) :
    valuesOf (s "state") (flatten (AR.encodeError e).entries) = (if e.State.isEmpty then [] else [e.State])
    ∧ valuesOf (s "error_description") (flatten (AR.encodeError e).entries) = (if e.Description.isEmpty then [] else [e.Description])
    ∧ valuesOf (s "error") (flatten (AR.encodeError e).entries) = [AR.ascii e.ErrorType] := by
  have k1 : (AR.ascii "error" == s "state") = false := by decide
  have k2 : (AR.ascii "error_description" == s "state") = false := by decide
  have k3 : (AR.ascii "session_state" == s "state") = false := by decide
  have k4 : (AR.ascii "state" == s "state") = true := by decide
  have k5 : (AR.ascii "error" == s "error_description") = false := by decide
  have k6 : (AR.ascii "error_description" == s "error_description") = true := by decide
  have k7 : (AR.ascii "state" == s "error_description") = false := by decide
  have k8 : (AR.ascii "session_state" == s "error_description") = false := by decide
  have k9 : (AR.ascii "error" == s "error") = true := by decide
  have k10 : (AR.ascii "error_description" == s "error") = false := by decide
  have k11 : (AR.ascii "state" == s "error") = false := by decide
  have k12 : (AR.ascii "session_state" == s "error") = false := by decide
  unfold AR.encodeError
  by_cases h1 : e.Description.isEmpty = true <;> by_cases h2 : e.State.isEmpty = true <;> by_cases h3 : e.SessionState.isEmpty = true <;>
    simp [h1, h2, h3, flatten, valuesOf, k1, k2, k3, k4, k5, k6, k7, k8, k9, k10, k11, k12]

/-- what the monitor is asked about an error answer to the request `authReq` in which the failing component reported
    `err`: the parameters are what the error path encodes; the SOURCE is the state the request holds and the
    description / code that component reported -/
def errInput (now : Int) (authReq : AR.ErrReq) (err : AR.GoErr) : Input :=
  { uri := authReq.redirectURI, uriOK := true, mode := errMode authReq, rtype := authReq.responseType, isError := true,
    params := flatten (AR.encodeError (errorOf now authReq err)).entries,
    source := some { statePlain := authReq.state, stateRO := [], roHonoured := false,
                     desc := some (srcDesc err), code := some (AR.ascii (srcCode err)) } }

/-- the error path's parameters agree with their source (`c11_error_description_verbatim`) -/
theorem c11_error_source (now : Int) (authReq : AR.ErrReq) (err : AR.GoErr) : SourceOK (errInput now authReq err) := by
  obtain ⟨hd, hc⟩ := c11_error_description_verbatim now err
  obtain ⟨v1, v2, v3⟩ := encodeError_values (errorOf now authReq err)
  have e1 : (errorOf now authReq err).State = authReq.state := rfl
  have e2 : (errorOf now authReq err).Description = srcDesc err := hd
  have e3 : (errorOf now authReq err).ErrorType = srcCode err := hc
  rw [e1] at v1; rw [e2] at v2; rw [e3] at v3
  refine ⟨?_, ?_, ?_⟩
  · simpa [errInput, Source.state] using v1
  · intro d hd'; simp only [errInput, Option.some.injEq] at hd'; subst hd'; exact v2
  · intro c hc'; simp only [errInput, Option.some.injEq] at hc'; subst hc'; exact v3

/-- an error answer through `AuthResponseURL`, whatever the requested mode (an error answer to a form_post request
    travels in the response type's default channel): the monitor accepts the Location value -/
theorem c11_holds_error_url (now : Int) (parse : AR.Bytes → Go.R AR.URL) (i : Input) (u : AR.URL) (resp : AR.Values)
    (hu : parse i.uri = .ok u) (hpar : ParseOK i.uri u) (hresp : i.params = flatten resp.entries) (hd : DistinctKeys resp.entries)
    (herr : i.isError = true) (hsrc : SourceOK i) :
    ∃ loc, GenWire.AuthResponseURL now parse i.uri i.rtype i.mode resp () = .ok loc ∧ monitor i (.redirect loc) = none := by
  rw [authResponseURL_channel now parse i.uri i.rtype i.mode resp u hu]
  by_cases h1 : i.mode = "query"
  · exact ⟨_, by simp [h1], c11_holds_query now i u resp hpar hresp hd (by simp [channels, h1]) hsrc⟩
  · by_cases h2 : i.mode = "fragment"
    · exact ⟨_, by simp [h2], c11_holds_fragment now i u resp hpar hresp hd (by simp [channels, h2]) (by simp [channels, h2]) hsrc⟩
    · have m1 : (i.mode == "query") = false := by simpa using h1
      have m2 : (i.mode == "fragment") = false := by simpa using h2
      by_cases h3 : implicitType i.rtype = true
      · refine ⟨GenWire.setFragment now u resp, by simp [m1, m2, h3], ?_⟩
        apply c11_holds_fragment now i u resp hpar hresp hd _ _ hsrc
        · by_cases h4 : i.mode = "form_post" <;> simp [channels, h1, h2, h3, h4, herr]
        · by_cases h4 : i.mode = "form_post" <;> simp [channels, h1, h2, h3, h4, herr]
      · have h3' : implicitType i.rtype = false := by simpa using h3
        refine ⟨GenWire.mergeQueryParams now u resp, by simp [m1, m2, h3'], ?_⟩
        apply c11_holds_query now i u resp hpar hresp hd _ hsrc
        by_cases h4 : i.mode = "form_post" <;> simp [channels, h1, h2, h3', h4, herr]

/-- **C11 for the provider's error path, from the source to the user agent** (`AuthRequestError`, Provider router and
    the callback of both routers): for every request it redirects, every error value the failing component reported
    (plain, OAuth, wrapped; any text) and every requested mode, the answer is a redirect whose Location value the
    monitor accepts WITH source tracing — the user agent decodes `error` and `error_description` exactly as reported,
    `state` exactly as the request holds it, nothing else is altered or invented. -/
theorem c11_error_redirect_holds (now : Int) (parse : AR.Bytes → Go.R AR.URL) (authReq : AR.ErrReq) (err : AR.GoErr) (authorizer : AR.ErrAuthorizer)
    (u : AR.URL) (hu : parse authReq.redirectURI = .ok u) (hpar : ParseOK authReq.redirectURI u)
    (hnn : authReq.nilp = false) (huri : authReq.redirectURI ≠ [])
    (hrd : (GenErr.DefaultToServerError now err (AR.errText err)).redirectDisabled = false) :
    ∃ loc, GenErr.AuthRequestError now parse authReq err authorizer = [.redirect loc]
      ∧ GenErr.TryErrorRedirect now parse authReq err () () = .ok ⟨loc⟩
      ∧ monitor (errInput now authReq err) (.redirect loc) = none := by
  obtain ⟨loc, hloc, hmon⟩ := c11_holds_error_url now parse (errInput now authReq err) u (AR.encodeError (errorOf now authReq err))
    hu hpar rfl (encodeError_distinct _) rfl (c11_error_source now authReq err)
  have hloc' : GenWire.AuthResponseURL now parse authReq.redirectURI authReq.responseType (errMode authReq)
      (AR.encodeError (errorOf now authReq err)) () = .ok loc := hloc
  refine ⟨loc, ?_, ?_, hmon⟩
  · rw [authRequestError_eq now parse authReq err authorizer hnn huri hrd, hloc']
  · rw [tryErrorRedirect_eq now parse authReq err hnn huri hrd, hloc']

-- ---------------------------------------------------------------- the state the request holds

/-- **the state stored on the authorization request is the request object's when it carries one, else the plain
    parameter's** — for all requests and all request objects (regenerated `CopyRequestObjectToAuthRequest`); this is
    `Source.state` of the monitor, on the model's strings -/
theorem c11_state_source (now : Int) (a : AuthRequestIn) (ro : Claims) :
    (Gen.CopyRequestObjectToAuthRequest now a ro).State = (if ro.State != "" then ro.State else a.State) := by
  unfold Gen.CopyRequestObjectToAuthRequest
  simp only [apply_ite AuthRequestIn.State, ite_self]

/-- … also through the regenerated `ParseRequestObject`: an accepted request object leaves the request with that state,
    a refused one leaves no request at all (the error is answered directly, never redirected) -/
theorem c11_state_source_parsed (now : Int) (a a' : AuthRequestIn) (st : Store) (issuer : String)
    (h : Gen.ParseRequestObject now a st issuer = .ok a') :
    ∃ ro : Claims, a'.State = (if ro.State != "" then ro.State else a.State) := by
  unfold Gen.ParseRequestObject at h
  repeat' (split at h <;> try (simp at h))
  rename_i ro _
  exact ⟨ro, by rw [← h]; exact c11_state_source now a ro⟩

/-- without a request object in play the state is the plain parameter's (nothing else writes `State` before the
    request is stored): `Source.state` with `roHonoured = false` -/
example (plain ro : Bytes) : Source.state { statePlain := plain, stateRO := ro, roHonoured := false } = plain := rfl
example (plain : Bytes) : Source.state { statePlain := plain, stateRO := s "r", roHonoured := true } = s "r" := by
  have : (s "r").isEmpty = false := by decide
  simp [Source.state, this]
example (plain : Bytes) : Source.state { statePlain := plain, stateRO := [], roHonoured := true } = plain := rfl


-- ---------------------------------------------------------------- non-vacuity of the source clauses

-- (a concrete instance of `c11_error_redirect_holds` — real Location bytes, accepted; the printf-mangled one, rejected — is
--  evaluated by the kernel in Proofs/C11Examples.lean, kept out of this module for build time)

set_option maxRecDepth 1000000 in
/-- … and when the provider handed the mangled text to the transport code itself (so that nothing is altered on the wire),
    the source clause catches it -/
example : monitor { uri := wPlain, uriOK := true, mode := "query", rtype := "code", isError := true,
                    params := [(s "error", s "server_error"), (s "error_description", s "100%!f(MISSING)ull")],
                    source := some { statePlain := [], stateRO := [], roHonoured := false, desc := some (s "100% full"), code := some (s "server_error") } }
    (.redirect (s "https://rp.example/cb?error=server_error&error_description=100%25%21f%28MISSING%29ull"))
      = some "query-error_description-not-the-one-the-provider-produced" := by decide

set_option maxRecDepth 1000000 in
/-- a state sent as plain parameter next to a request object WITHOUT state has to come back (accepted / rejected) -/
example : monitor { uri := wPlain, uriOK := true, mode := "query", rtype := "code", isError := false,
                    params := [(s "code", s "c1"), (s "state", s "st1")],
                    source := some { statePlain := s "st1", stateRO := [], roHonoured := true } }
    (.redirect (s "https://rp.example/cb?code=c1&state=st1")) = none := by decide
set_option maxRecDepth 1000000 in
example : monitor { uri := wPlain, uriOK := true, mode := "query", rtype := "code", isError := false,
                    params := [(s "code", s "c1")],
                    source := some { statePlain := s "st1", stateRO := [], roHonoured := true } }
    (.redirect (s "https://rp.example/cb?code=c1")) = some "query-state-not-the-one-the-client-sent" := by decide
set_option maxRecDepth 1000000 in
/-- both channels: the request object's state wins -/
example : monitor { uri := wPlain, uriOK := true, mode := "query", rtype := "code", isError := false,
                    params := [(s "code", s "c1"), (s "state", s "plain")],
                    source := some { statePlain := s "plain", stateRO := s "from-ro", roHonoured := true } }
    (.redirect (s "https://rp.example/cb?code=c1&state=plain")) = some "query-state-not-the-one-the-client-sent" := by decide

end C11
