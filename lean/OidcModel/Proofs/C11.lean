/-
  C11 — authorization response parameters arrive intact and cannot inject markup: the property theorems.

  The model is the code regenerated from /repo by `factgen` on every run (`GenWire.AuthResponseURL`,
  `GenWire.mergeQueryParams`, `GenWire.setFragment`, `GenWire.formPostTemplate`, `GenWire.formPostAutoescape`) on top of the
  byte-level model of net/url and html/template (Model/AuthResponse.lean).  The monitor is Spec/C11.lean.

  * query mode: the monitor accepts the model's answer for ALL inputs                      (`c11_holds_query`)
  * fragment mode: FALSE on the unchanged tree (second percent-encoding, F-C11a): exact description of the wire
    format for all inputs (`c11_fragment_wire`), the part that holds (`c11_fragment_roundtrip_partial`), witness
  * form_post: for ALL redirect URIs and values the page tokenises to exactly the expected tags, nothing can
    break out (`c11_form_tags`), the decoded submission is the listed parameters unchanged
    (`c11_form_submission_partial`); FALSE as a whole on the unchanged tree: custom schemes lose the action
    (F-C11b), `session_state` is not in the template (F-C11c): witnesses
-/
import OidcModel.Proofs.C11Html

namespace C11
open UA

-- ---------------------------------------------------------------- the regenerated facts

set_option maxRecDepth 1000000 in
/-- the template `factgen` read from pkg/op/form_post.html.tmpl has the shape the tokenizer lemmas need:
    evaluated by the kernel on the regenerated definition -/
theorem formPostTemplate_ok : templateOK GenWire.formPostTemplate = true := by decide

/-- pkg/op/auth_request.go renders it with html/template -/
theorem formPostAutoescape_on : GenWire.formPostAutoescape = true := by decide

/-- parameters of the success responses that the template does NOT carry (F-C11c): pinned, so that a template
    change shows up here -/
def notInTemplate (names : List AR.Bytes) : List AR.Bytes :=
  names.filter fun n => !(GenWire.formPostTemplate.any fun nd => match nd with | .withParam m _ _ => m == n | _ => false)

theorem template_missing_params :
    notInTemplate (GenWire.codeResponseParams ++ GenWire.tokenResponseParams)
      = [AR.ascii "session_state", AR.ascii "refresh_token", AR.ascii "scope"] := by decide

-- ---------------------------------------------------------------- response mode decision (G-fact)

/-- **which channel `AuthResponseURL` uses** (regenerated decision): query mode on request, fragment mode on
    request, otherwise the fragment exactly for the implicit response types — the channel the monitor expects -/
theorem authResponseURL_channel (now : Int) (parse : AR.Bytes → Go.R AR.URL) (uri : AR.Bytes) (rtype mode : String)
    (resp : AR.Values) (u : AR.URL) (hu : parse uri = .ok u) :
    GenWire.AuthResponseURL now parse uri rtype mode resp () =
      .ok (if mode == "query" then GenWire.mergeQueryParams now u resp
           else if mode == "fragment" then GenWire.setFragment now u resp
           else if implicitType rtype then GenWire.setFragment now u resp
           else GenWire.mergeQueryParams now u resp) := by
  simp only [GenWire.AuthResponseURL, hu, AR.URLEncodeParams, AR.ResponseModeQuery, AR.ResponseModeFragment,
    AR.ResponseTypeIDToken, AR.ResponseTypeIDTokenOnly, implicitType]
  by_cases h1 : mode == "query" <;> by_cases h2 : mode == "fragment" <;>
    by_cases h3 : (rtype == "id_token token" || rtype == "id_token") <;> simp [h1, h2, h3]

/-- an unparsable redirect URI yields an error, never a redirect -/
theorem authResponseURL_unparsable (now : Int) (parse : AR.Bytes → Go.R AR.URL) (uri : AR.Bytes) (rtype mode : String)
    (resp : AR.Values) (e : String) (hu : parse uri = .error e) :
    GenWire.AuthResponseURL now parse uri rtype mode resp () = .error "ErrServerError" := by
  simp [GenWire.AuthResponseURL, hu]

-- ---------------------------------------------------------------- form_post

theorem templateOK_shape (tmpl : List AR.Node) (h : templateOK tmpl = true) :
    ∃ t0 t1 rest, tmpl = .text t0 :: .redirectURI :: .text t1 :: rest := by
  unfold templateOK at h
  split at h
  · exact ⟨_, _, _, rfl⟩
  · exact absurd h (by decide)

/-- **C11, form_post, all redirect URIs and all values (without CR): no markup injection.**  The page rendered
    from the regenerated template tokenises to exactly the page frame, ONE form tag and the hidden inputs of
    the listed parameters; attribute values are the escaped strings, which contain no `"`, `'`, `<`, `>`
    (`c11_attr_no_breakout`). -/
theorem c11_form_tags (uri : Bytes) (params : AR.Values) (hv : ∀ name, ∀ v ∈ params.get name, ∀ c ∈ v, c ≠ 0x0D) :
    tokenize (AR.render GenWire.formPostAutoescape GenWire.formPostTemplate uri params)
      = pageFrame ++ formTag (AR.attrEscape (AR.urlNormalize (AR.urlFilter uri)))
          :: restTags AR.attrEscape params (GenWire.formPostTemplate.drop 3) := by
  obtain ⟨t0, t1, rest, hshape⟩ := templateOK_shape _ formPostTemplate_ok
  have hok := formPostTemplate_ok
  rw [formPostAutoescape_on, hshape] at *
  exact tokenize_render t0 t1 rest hok uri params hv

/-- the fields a template submits for a response: one per listed parameter the response carries, first value -/
def restFields (params : AR.Values) : List AR.Node → List (Bytes × Bytes)
  | [] => []
  | .withParam name _ _ :: rest =>
    (match params.get name with | [] => [] | v :: _ => [(name, v)]) ++ restFields params rest
  | _ :: rest => restFields params rest

theorem pageFrame_decoded : pageFrame.map decodeTag = pageFrame := by decide

theorem attrUnescape_post : attrUnescape (s "post") = s "post" := by decide
theorem attrUnescape_hidden : attrUnescape (s "hidden") = s "hidden" := by decide

theorem restTags_decoded (params : AR.Values) (hv : ∀ name, ∀ v ∈ params.get name, ∀ c ∈ v, c ≠ 0)
    (rest : List AR.Node) (h : restOK rest = true) :
    (restTags AR.attrEscape params rest).map decodeTag = restTags id params rest := by
  induction rest with
  | nil => rfl
  | cons n rest ih =>
    cases n with
    | text t =>
      simp only [restOK, Bool.and_eq_true] at h
      simpa [restTags] using ih h.2
    | redirectURI => simp [restOK] at h
    | withParam name pre post =>
      simp only [restOK, Bool.and_eq_true, beq_iff_eq] at h
      obtain ⟨⟨⟨⟨_, _⟩, _⟩, hn⟩, h5⟩ := h
      simp only [restTags, List.map_append, ih h5]
      cases hg : params.get name with
      | nil => simp
      | cons v vs =>
        have hv' := c11_attr_roundtrip v (hv name v (by simp [hg]))
        simp [decodeTag, inputTag, attrUnescape_hidden, hn, hv']

theorem isInput_inputTag (n v : Bytes) : isInput (inputTag n v) = some (n, v) := by
  simp [isInput, inputTag]

theorem restTags_inputs (params : AR.Values) (rest : List AR.Node) :
    (restTags id params rest).find? (fun t => (isInput t).isNone) = none
    ∧ (restTags id params rest).filterMap isInput = restFields params rest := by
  induction rest with
  | nil => simp [restTags, restFields]
  | cons n rest ih =>
    cases n with
    | text t => simpa [restTags, restFields] using ih
    | redirectURI => simpa [restTags, restFields] using ih
    | withParam name pre post =>
      simp only [restTags, restFields]
      cases params.get name with
      | nil => simpa using ih
      | cons v vs =>
        simp only [List.cons_append, List.nil_append, List.find?_cons, isInput_inputTag, Option.isNone_some,
          List.filterMap_cons, id]
        exact ⟨ih.1, by rw [ih.2]⟩

/-- **C11, form_post, what the user agent submits (the part that holds).**  For every redirect URI and every
    response whose values contain neither NUL nor CR: the decoded page is accepted as an auto-submitting form
    (`formOf`), its action is the URL-normalised redirect URI (`#ZgotmplZ` if html/template's URL filter rejects
    the scheme — F-C11b), and its fields are exactly the template-listed parameters with their values UNCHANGED.
    (Parameters the template does not list are not submitted — F-C11c.) -/
theorem c11_form_submission_partial (uri : Bytes) (params : AR.Values)
    (hv : ∀ name, ∀ v ∈ params.get name, ∀ c ∈ v, c ≠ 0x0D ∧ c ≠ 0) :
    formOf ((tokenize (AR.render GenWire.formPostAutoescape GenWire.formPostTemplate uri params)).map decodeTag)
      = .ok (AR.urlNormalize (AR.urlFilter uri), restFields params (GenWire.formPostTemplate.drop 3)) := by
  rw [c11_form_tags uri params (fun n v hm c hc => (hv n v hm c hc).1)]
  obtain ⟨t0, t1, rest, hshape⟩ := templateOK_shape _ formPostTemplate_ok
  have hok := formPostTemplate_ok
  rw [hshape] at hok ⊢
  simp only [templateOK, Bool.and_eq_true] at hok
  have hr : restOK rest = true := hok.2
  have haction : attrUnescape (AR.attrEscape (AR.urlNormalize (AR.urlFilter uri))) = AR.urlNormalize (AR.urlFilter uri) :=
    c11_attr_roundtrip _ (fun c hc => (urlNormalize_clean _ c hc).2)
  simp only [List.drop_succ_cons, List.drop_zero, List.map_append, List.map_cons, pageFrame_decoded,
    restTags_decoded params (fun n v hm c hc => (hv n v hm c hc).2) rest hr]
  have hform : decodeTag (formTag (AR.attrEscape (AR.urlNormalize (AR.urlFilter uri)))) = formTag (AR.urlNormalize (AR.urlFilter uri)) := by
    simp [decodeTag, formTag, attrUnescape_post, haction]
  rw [hform]
  obtain ⟨hi1, hi2⟩ := restTags_inputs params rest
  have htake : (pageFrame ++ formTag (AR.urlNormalize (AR.urlFilter uri)) :: restTags id params rest).take 4 = pageFrame := by
    simp [pageFrame]
  have hdrop : (pageFrame ++ formTag (AR.urlNormalize (AR.urlFilter uri)) :: restTags id params rest).drop 4
      = formTag (AR.urlNormalize (AR.urlFilter uri)) :: restTags id params rest := by
    simp [pageFrame]
  unfold formOf
  rw [htake, hdrop]
  simp [formTag, hi1, hi2]

-- ---------------------------------------------------------------- the monitor on the model's answer: query mode

theorem valuesOf_nil_of_not_mem (k : Bytes) (ps : List (Bytes × Bytes)) (h : k ∉ keysOf ps) : valuesOf k ps = [] := by
  induction ps with
  | nil => rfl
  | cons p ps ih =>
    simp only [keysOf, List.map_cons, List.mem_cons, not_or] at h
    have : (p.1 == k) = false := by
      rw [beq_eq_false_iff_ne]; exact fun heq => h.1 heq.symm
    simp only [valuesOf, List.filter_cons, this]
    exact ih h.2

theorem valuesOf_ne_nil_of_mem (k : Bytes) (ps : List (Bytes × Bytes)) (h : k ∈ keysOf ps) : valuesOf k ps ≠ [] := by
  induction ps with
  | nil => simp [keysOf] at h
  | cons p ps ih =>
    simp only [keysOf, List.map_cons, List.mem_cons] at h
    by_cases hp : p.1 = k
    · simp [valuesOf, List.filter_cons, hp]
    · have : (p.1 == k) = false := by simpa using hp
      simp only [valuesOf, List.filter_cons, this]
      rcases h with h | h
      · exact absurd h.symm hp
      · exact ih h

/-- the monitor's clause is satisfied as soon as every name decodes to its existing values followed by the produced ones -/
theorem paramsArrive_none (what : String) (produced existing got : List (Bytes × Bytes))
    (h : ∀ k, valuesOf k got = valuesOf k existing ++ valuesOf k produced) :
    paramsArrive what produced existing got = none := by
  unfold paramsArrive firstSome
  have h1 : (keysOf produced).findSome? (fun k =>
      if valuesOf k got == valuesOf k existing ++ valuesOf k produced then none
      else if !required k && valuesOf k got == valuesOf k existing then none
      else if valuesOf k got == valuesOf k existing then some s!"{what}-param-missing:{showBytes k}"
      else if (valuesOf k got).map formDecode == (valuesOf k existing ++ valuesOf k produced).map some then some s!"{what}-param-encoded-twice:{showBytes k}"
      else some s!"{what}-param-altered:{showBytes k}") = none := by
    rw [List.findSome?_eq_none_iff]
    intro k _
    simp [h k]
  have h2 : (keysOf existing).findSome? (fun k =>
      if (keysOf produced).contains k || valuesOf k got == valuesOf k existing then none else some s!"existing-query-not-preserved:{showBytes k}") = none := by
    rw [List.findSome?_eq_none_iff]
    intro k _
    by_cases hk : k ∈ keysOf produced
    · simp [hk]
    · simp [h k, valuesOf_nil_of_not_mem k produced hk]
  have h3 : (keysOf got).findSome? (fun k =>
      if (keysOf produced).contains k || (keysOf existing).contains k then none else some s!"{what}-param-invented:{showBytes k}") = none := by
    rw [List.findSome?_eq_none_iff]
    intro k hk
    by_cases hp : k ∈ keysOf produced
    · simp [hp]
    · by_cases he : k ∈ keysOf existing
      · simp [he]
      · exfalso
        apply valuesOf_ne_nil_of_mem k got hk
        rw [h k, valuesOf_nil_of_not_mem k produced hp, valuesOf_nil_of_not_mem k existing he]; rfl
  simp only [h1, h2, h3]
  rfl

/-- what the theorems assume about `url.Parse`'s answer `u` for the redirect URI (the driver evaluates these
    three conditions on the oracle values of every harness case and reports them as `hyp=`): the part in front
    of the query is rendered without `?`/`#` and addresses the same target, `RawQuery` is the URI's query text -/
structure ParseOK (uri : Bytes) (u : AR.URL) : Prop where
  base : BaseOK u
  rawQuery : locationQuery uri = u.RawQuery
  target : sameTarget u.base (locationBase uri) = true

/-- **C11 holds in query mode, for all inputs.**  Whatever the redirect URI (with query, with fragment, custom
    scheme, …), the response (any names, any byte strings) and whatever url.Parse answered within `ParseOK`:
    the monitor accepts the Location value the regenerated `mergeQueryParams` produces — every parameter is
    recovered unchanged by the user agent's decoder, the redirect URI's own query parameters are preserved,
    nothing is invented, the target is the redirect URI. -/
theorem c11_holds_query (now : Int) (i : Input) (u : AR.URL) (resp : AR.Values)
    (hpar : ParseOK i.uri u) (hresp : i.params = flatten resp.entries) (hd : DistinctKeys resp.entries)
    (hch : (channels i).contains Channel.query = true) :
    monitor i (.redirect (GenWire.mergeQueryParams now u resp)) = none := by
  simp only [monitor, hch, if_true, checkQuery]
  rw [c11_query_base now u resp hpar.base, hpar.target]
  simp only [Bool.not_true, Bool.false_eq_true, if_false]
  apply paramsArrive_none
  intro k
  rw [c11_query_roundtrip now u resp hpar.base hd k, hpar.rawQuery, hresp, valuesOf_flatten_get k _ hd]

/-- the same through the regenerated mode decision of `AuthResponseURL` -/
theorem c11_holds_query_mode (now : Int) (parse : AR.Bytes → Go.R AR.URL) (i : Input) (u : AR.URL) (resp : AR.Values)
    (hu : parse i.uri = .ok u) (hpar : ParseOK i.uri u) (hresp : i.params = flatten resp.entries) (hd : DistinctKeys resp.entries)
    (hmode : i.mode = "query" ∨ (i.mode = "" ∧ implicitType i.rtype = false)) :
    ∃ loc, GenWire.AuthResponseURL now parse i.uri i.rtype i.mode resp () = .ok loc ∧ monitor i (.redirect loc) = none := by
  refine ⟨GenWire.mergeQueryParams now u resp, ?_, ?_⟩
  · rw [authResponseURL_channel now parse i.uri i.rtype i.mode resp u hu]
    rcases hmode with h | ⟨h1, h2⟩
    · simp [h]
    · simp [h1, h2]
  · apply c11_holds_query now i u resp hpar hresp hd
    rcases hmode with h | ⟨h1, h2⟩
    · simp [channels, h]
    · simp [channels, h1, h2]

-- ---------------------------------------------------------------- non-vacuity and the findings on the unchanged tree

def wUri : Bytes := s "https://rp.example/cb?tenant=acme#/app"
def wURL : AR.URL := { base := s "https://rp.example/cb", RawQuery := s "tenant=acme", Fragment := s "/app" }
def wResp : AR.Values := ⟨[(s "code", [s "a+b/c=&%#? \"<>"]), (s "state", [[0xE2, 0x82, 0xAC, 0x20, 0xFF]])]⟩

/-- the hypotheses of `c11_holds_query` are satisfiable: a redirect URI with query AND fragment, values with
    every kind of awkward byte -/
example : ParseOK wUri wURL := ⟨by decide, by decide, by decide⟩
example : DistinctKeys wResp.entries := by decide
set_option maxRecDepth 1000000 in
/-- … and the monitor really evaluates to "ok" on that case (concrete accepted case) -/
example : monitor { uri := wUri, uriOK := true, mode := "query", rtype := "code", isError := false, params := flatten wResp.entries }
    (.redirect (GenWire.mergeQueryParams 0 wURL wResp)) = none := by decide
set_option maxRecDepth 1000000 in
/-- a concrete rejected case: the same Location with one value altered is flagged -/
example : monitor { uri := wUri, uriOK := true, mode := "query", rtype := "code", isError := false, params := [(s "code", s "a b")] }
    (.redirect (s "https://rp.example/cb?code=a-b&tenant=acme#/app")) = some "query-param-altered:code" := by decide

def wPlain : Bytes := s "https://rp.example/cb"
def wPlainURL : AR.URL := { base := wPlain }
def wPage (uri : Bytes) (resp : AR.Values) : Bytes := AR.render GenWire.formPostAutoescape GenWire.formPostTemplate uri resp
def wForm (uri : Bytes) (resp : AR.Values) : Observed := .form (wPage uri resp) ((tokenize (wPage uri resp)).map decodeTag)

set_option maxRecDepth 1000000 in
/-- **F-C11a (witness, unchanged tree): fragment mode percent-encodes twice.**  `state=a+b` is on the wire as
    `#state=a%252Bb`; the user agent recovers `a%2Bb`.  The full fragment-mode statement is therefore false. -/
theorem c11_fragment_double_encoding_witness :
    monitor { uri := wPlain, uriOK := true, mode := "fragment", rtype := "code", isError := false, params := [(s "state", s "a+b")] }
      (.redirect (GenWire.setFragment 0 wPlainURL ⟨[(s "state", [s "a+b"])]⟩)) = some "fragment-param-encoded-twice:state" := by decide

set_option maxRecDepth 1000000 in
/-- fragment mode on a value without special bytes is accepted (the partial theorem is not vacuous) -/
example : monitor { uri := wPlain, uriOK := true, mode := "fragment", rtype := "id_token", isError := false, params := [(s "state", s "a b-c_d.e~f")] }
    (.redirect (GenWire.setFragment 0 wPlainURL ⟨[(s "state", [s "a b-c_d.e~f"])]⟩)) = none := by decide

set_option maxRecDepth 1000000 in
/-- **F-C11b (witness, unchanged tree): form_post with a custom-scheme redirect URI posts to `#ZgotmplZ`** -/
theorem c11_form_custom_scheme_witness :
    monitor { uri := s "myapp://callback", uriOK := true, mode := "form_post", rtype := "code", isError := false, params := [(s "code", s "c1")] }
      (wForm (s "myapp://callback") ⟨[(s "code", [s "c1"])]⟩) = some "form-action-differs" := by decide

set_option maxRecDepth 1000000 in
/-- **F-C11c (witness, unchanged tree): the form does not carry `session_state`** -/
theorem c11_form_session_state_witness :
    monitor { uri := wPlain, uriOK := true, mode := "form_post", rtype := "code", isError := false,
              params := [(s "code", s "c1"), (s "state", s "x"), (s "session_state", s "ss")] }
      (wForm wPlain ⟨[(s "code", [s "c1"]), (s "state", [s "x"]), (s "session_state", [s "ss"])]⟩) = some "form-param-missing:session_state" := by decide

set_option maxRecDepth 1000000 in
/-- form_post is accepted when the scheme is http(s) and the response has only listed parameters — with values
    that try to break out (concrete accepted case) -/
example : monitor { uri := s "https://rp.example/cb?a=\"x\"&b='y'", uriOK := true, mode := "form_post", rtype := "code", isError := false,
                    params := [(s "code", s "\"><script>alert(1)</script>"), (s "state", s "&amp;&#34;' <b>")] }
    (wForm (s "https://rp.example/cb?a=\"x\"&b='y'") ⟨[(s "code", [s "\"><script>alert(1)</script>"]), (s "state", [s "&amp;&#34;' <b>"])]⟩) = none := by decide

set_option maxRecDepth 1000000 in
/-- … and a page in which a value DID break out of its attribute is rejected (the monitor is not vacuous) -/
example : (monitor { uri := wPlain, uriOK := true, mode := "form_post", rtype := "code", isError := false, params := [(s "code", s "\"><script>")] }
    (let page := AR.render false GenWire.formPostTemplate wPlain ⟨[(s "code", [s "\"><script>"])]⟩
     .form page ((tokenize page).map decodeTag))).isSome = true := by decide

end C11
