/-
  deep3-C04: C04 over histories in which ANY storage call of ANY code exchange may fail (Model/FlowC04X.lean `stepFault`).

  `OpX` = an operation of the base model or a code exchange with a fault at a given storage call; `runObsX` runs the observer
  of Spec/FlowObs.lean next to the model as `runObs` does.  `c04_history_faults`: from an initial situation, for every list of
  such operations, the reference monitor has nothing to object to any step; `c04_fault_fails_closed`: a fault the code reports
  (every call of `CreateTokenResponse` is `errReturned` - regenerated, `callees_fatal`) never ends in tokens;
  `c04_single_use_faults`: two successful exchanges of one code string are separated by a callback handing it out again -
  whatever faults happened before, between and after.
-/
import OidcModel.Proofs.C04History
import OidcModel.Model.FlowC04X

namespace FlowObs.C04F   -- (own sub-namespace: Proofs/C07Wire.lean defines OpX / stepObsX / runObsX … of its own in FlowObs)
open Go Gen Hand Flow FlowX FlowObs

inductive OpX
  | base (op : Flow.Op)
  | exchangeFault (rt : Router) (req : AccessTokenRequest) (ha : Bool) (f : FaultAt)
  deriving Repr

/-- the model step of an extended operation -/
def stepX (now : Int) (s : Flow.St) : OpX → Flow.St × Flow.Out
  | .base op => Flow.step now s op
  | .exchangeFault rt req ha f => stepFault now s rt req ha f

/-- how an onlooker reads an extended operation: a faulty exchange is a code presented at the token endpoint, like any other -/
def opOf : OpX → Flow.Op
  | .base op => op
  | .exchangeFault rt req ha _ => .exchangeDeleteFails rt req ha

def stepObsX (now : Int) (so : Flow.St × ObsState) (op : OpX) : (Flow.St × ObsState) × (Flow.Out × Option String × Option String) :=
  let r := stepX now so.1 op
  match eventOf so.1 r.1 (opOf op) r.2 with
  | none => ((r.1, so.2), (r.2, none, none))
  | some e => let v := observe now so.2 e; ((r.1, v.1), (r.2, v.2.1, v.2.2))

def runObsX (now : Int) (so : Flow.St × ObsState) : List OpX → (Flow.St × ObsState) × List (Flow.Out × Option String × Option String)
  | [] => (so, [])
  | op :: rest =>
    let r := stepObsX now so op
    let rr := runObsX now r.1 rest
    (rr.1, r.2 :: rr.2)

theorem stepObsX_base (now : Int) (so : Flow.St × ObsState) (op : Flow.Op) : stepObsX now so (.base op) = stepObs now so op := rfl

/-- the regenerated fact the fault model rests on: a failure inside any of the three calls of `CreateTokenResponse` that touch
    the storage ends the request with an error (whether the tokens exist by then - `mintedBefore` - is read off the same
    regenerated list and may change with a benign reordering; nothing here depends on it) -/
theorem callees_fatal : calleeFatal "CreateAccessToken" = true ∧ calleeFatal "CreateIDToken" = true ∧ calleeFatal "DeleteAuthRequest" = true := by decide

/-- deleting ANY stored request (with its codes) keeps the invariant: the observer merely remembers codes that no longer resolve -/
theorem inv04_delete {s : Flow.St} {o : ObsState} (h : Inv04 s o) (id : String) : Inv04 (deleteAuthRequest s id) o := by
  refine ⟨h.cfg, ?_, h.fresh, ?_, ?_⟩
  · intro x hx
    simp only [deleteAuthRequest, St.store, St.setStore, List.mem_filter] at hx
    exact h.reqs x hx.1
  · intro c id' hc
    simp only [deleteAuthRequest, St.store, St.setStore, List.mem_filter] at hc ⊢
    obtain ⟨hc, hne⟩ := hc
    obtain ⟨x, hx, hxid⟩ := h.codesLive c id' hc
    exact ⟨x, ⟨hx, by rw [hxid]; exact hne⟩, hxid⟩
  · intro c id' x hc hx
    simp only [deleteAuthRequest, St.store, St.setStore, List.mem_filter] at hc hx
    obtain ⟨hc, hne⟩ := hc
    have hne' : id' ≠ id := by simpa using hne
    rw [find?_filter_of_imp (l := s.p.store.authReqs) (p := fun y => y.id != id) (q := fun y => y.id == id')
      (by intro y hy; have : y.id = id' := by simpa using hy
          simp [this, hne'])] at hx
    exact h.codes c id' x hc hx

/-- the effects `CreateTokenResponse` had before a fault - tokens created, the request deleted, in whichever order - keep the invariant -/
theorem inv04_effects {s : Flow.St} {o : ObsState} (h : Inv04 s o) (i : IssueFor) (callee : String) (inner : Bool) :
    Inv04 (effectsBefore s i callee inner) o := by
  have hm : ∀ b : Bool, Inv04 (if b = true then mintTokens s i else s) o := by
    intro b
    cases b
    · exact h
    · obtain ⟨m1, m2, m3, m4⟩ := mintTokens_auth s i
      exact h.of_same m1 m2 m3 m4 rfl rfl
  unfold effectsBefore
  cases i with
  | code a c k =>
    simp only []
    split
    · exact inv04_delete (hm _) a.id
    · exact hm _
  | refresh r c k => exact hm _

/-- a faulty exchange that ends in an error after `CreateTokenResponse` had some of its effects -/
theorem goodX_effects {now : Int} {s : Flow.St} {o : ObsState} (h : Inv04 s o) {rt : Router} {req : AccessTokenRequest} {ha : Bool} {f : FaultAt}
    {i : IssueFor} {callee : String} {inner : Bool}
    (hs : stepFault now s rt req ha f = (effectsBefore s i callee inner, .error "ErrServerError")) :
    Inv04 (stepObsX now (s, o) (.exchangeFault rt req ha f)).1.1 (stepObsX now (s, o) (.exchangeFault rt req ha f)).1.2 ∧
      (stepObsX now (s, o) (.exchangeFault rt req ha f)).2.2.1 = none := by
  simp only [stepObsX, stepX, opOf, hs, eventOf, observe, judge_none, and_true]
  have := inv04_effects h i callee inner
  exact ⟨this.cfg, this.reqs, this.fresh, this.codesLive, this.codes⟩

/-- a step that ends in an error and leaves requests and codes alone keeps the invariant; nothing to object -/
theorem goodX_refused {now : Int} {s s' : Flow.St} {o : ObsState} (h : Inv04 s o) {rt : Router} {req : AccessTokenRequest} {ha : Bool} {f : FaultAt} {e : String}
    (hs : stepFault now s rt req ha f = (s', .error e))
    (h1 : s'.store.authReqs = s.store.authReqs) (h2 : s'.store.codes = s.store.codes) (h3 : s'.nextReq = s.nextReq) (h4 : CfgEq s s') :
    Inv04 (stepObsX now (s, o) (.exchangeFault rt req ha f)).1.1 (stepObsX now (s, o) (.exchangeFault rt req ha f)).1.2 ∧
      (stepObsX now (s, o) (.exchangeFault rt req ha f)).2.2.1 = none := by
  simp only [stepObsX, stepX, opOf, hs, eventOf, observe, judge_none, and_true]
  exact h.of_same h1 h2 h3 h4 rfl rfl

/-- one faulty exchange: the invariant is kept and the C04 monitor has nothing to object - at whichever storage call the fault hits -/
theorem good04_fault {now : Int} {s : Flow.St} {o : ObsState} (h : Inv04 s o) (rt : Router) (req : AccessTokenRequest) (ha : Bool) (f : FaultAt) :
    Inv04 (stepObsX now (s, o) (.exchangeFault rt req ha f)).1.1 (stepObsX now (s, o) (.exchangeFault rt req ha f)).1.2 ∧
      (stepObsX now (s, o) (.exchangeFault rt req ha f)).2.2.1 = none := by
  cases f with
  | validation site => exact goodX_refused h (s' := s) rfl rfl rfl rfl (CfgEq.refl s)
  | createTokens =>
    cases hce : codeExchange now rt s.p req ha with
    | error e => exact goodX_refused h (s' := s) (e := e) (by simp only [stepFault, hce]) rfl rfl rfl (CfgEq.refl s)
    | ok i => exact goodX_effects h (i := i) (callee := "CreateAccessToken") (inner := false) (by simp only [stepFault, hce])
  | issuing callee =>
    by_cases hdel : callee = "DeleteAuthRequest"
    · -- the fault of the base model
      have hstep : stepObsX now (s, o) (.exchangeFault rt req ha (.issuing callee)) = stepObs now (s, o) (.exchangeDeleteFails rt req ha) := by
        simp only [stepObsX, stepX, opOf, stepFault, hdel, beq_self_eq_true, if_true, stepObs]
        try rfl
      rw [hstep]
      exact good04_step now h (.exchangeDeleteFails rt req ha)
    · have hne : (callee == "DeleteAuthRequest") = false := by simpa using hdel
      cases hce : codeExchange now rt s.p req ha with
      | error e =>
        exact goodX_refused h (s' := s) (e := e) (by simp only [stepFault, hne, hce]; rfl) rfl rfl rfl (CfgEq.refl s)
      | ok i =>
        by_cases hfat : calleeFatal callee = true
        · exact goodX_effects h (i := i) (callee := callee) (inner := true) (by simp only [stepFault, hne, hce, hfat]; rfl)
        · -- a swallowed failure: the model lets the exchange through exactly as the fault-free exchange
          have hstep : stepObsX now (s, o) (.exchangeFault rt req ha (.issuing callee)) = stepObs now (s, o) (.exchange rt req ha) := by
            obtain ⟨a, c, hi, _⟩ := codeExchange_ok hce
            subst hi
            simp only [stepObsX, stepX, opOf, stepFault, hne, hce, hfat, stepObs, step_exchange, eventOf]
            rfl
          rw [hstep]
          exact good04_step now h (.exchange rt req ha)

theorem good04_stepX (now : Int) {s : Flow.St} {o : ObsState} (h : Inv04 s o) (op : OpX) :
    Inv04 (stepObsX now (s, o) op).1.1 (stepObsX now (s, o) op).1.2 ∧ (stepObsX now (s, o) op).2.2.1 = none := by
  cases op with
  | base op => rw [stepObsX_base]; exact good04_step now h op
  | exchangeFault rt req ha f => exact good04_fault h rt req ha f

theorem inv04_runX (now : Int) {s : Flow.St} {o : ObsState} (h : Inv04 s o) (ops : List OpX) :
    Inv04 (runObsX now (s, o) ops).1.1 (runObsX now (s, o) ops).1.2 ∧ ∀ x ∈ (runObsX now (s, o) ops).2, x.2.1 = none := by
  induction ops generalizing s o with
  | nil => exact ⟨h, by intro x hx; cases hx⟩
  | cons op rest ih =>
    obtain ⟨hinv, hv⟩ := good04_stepX now h op
    obtain ⟨i1, i2⟩ := ih hinv
    refine ⟨i1, ?_⟩
    intro x hx
    simp only [runObsX, List.mem_cons] at hx
    rcases hx with rfl | hx
    · exact hv
    · exact i2 x hx

end FlowObs.C04F

namespace C04
open FlowObs FlowObs.C04F Flow FlowX

/-- **C04 over histories with storage faults at every index.**  From an initial situation, for EVERY list of operations of the
    base model and code exchanges during which the k-th storage call fails - a read of the validation phase, the token-creating
    call, a call inside `CreateAccessToken` / `CreateIDToken` after the tokens were created, `DeleteAuthRequest` - in any order
    and number, on either router: the reference monitor has nothing to object to any step (in particular: a code whose
    exchange failed half-way yields tokens at most once afterwards, and only to its client with its redirect URI and PKCE
    proof; a code that was consumed before the fault yields none). -/
theorem c04_history_faults (now : Int) (s : Flow.St) (o : ObsState) (h0 : Init s o) (ops : List OpX) :
    ∀ x ∈ (runObsX now (s, o) ops).2, x.2.1 = none :=
  (inv04_runX now h0.inv04 ops).2

/-- a fault the code reports never ends in tokens: every faulty exchange is answered with an error -/
theorem c04_fault_fails_closed (now : Int) (s : Flow.St) (rt : Router) (req : AccessTokenRequest) (ha : Bool) (f : FaultAt)
    (hf : ∀ callee, f = .issuing callee → calleeFatal callee = true) :
    ∃ e, (stepFault now s rt req ha f).2 = .error e := by
  cases f with
  | validation site => exact ⟨_, rfl⟩
  | createTokens => simp only [stepFault]; split <;> exact ⟨_, rfl⟩
  | issuing callee =>
    have hfat := hf callee rfl
    by_cases hdel : callee = "DeleteAuthRequest"
    · simp only [stepFault, hdel, beq_self_eq_true, if_true, step_exchangeDeleteFails]
      split <;> exact ⟨_, rfl⟩
    · have hne : (callee == "DeleteAuthRequest") = false := by simpa using hdel
      simp only [stepFault, hne, Bool.false_eq_true, if_false, hfat, if_true]
      split <;> exact ⟨_, rfl⟩

/-- ... and - as long as the deletion of the request is not ordered before the failing call (today it is the LAST storage call of
    `CreateTokenResponse`) - leaves the authorization request and its code where they were: the client may retry -/
theorem c04_fault_keeps_code (now : Int) (s : Flow.St) (rt : Router) (req : AccessTokenRequest) (ha : Bool) (f : FaultAt)
    (hf : ∀ callee, f = .issuing callee → calleeFatal callee = true)
    (hlast : ∀ callee, before "DeleteAuthRequest" callee = false) :
    (stepFault now s rt req ha f).1.store.authReqs = s.store.authReqs ∧ (stepFault now s rt req ha f).1.store.codes = s.store.codes := by
  have heff : ∀ (i : IssueFor) (callee : String) (inner : Bool),
      (effectsBefore s i callee inner).store.authReqs = s.store.authReqs ∧ (effectsBefore s i callee inner).store.codes = s.store.codes := by
    intro i callee inner
    have hm : ∀ b : Bool, (if b = true then mintTokens s i else s).store.authReqs = s.store.authReqs ∧
        (if b = true then mintTokens s i else s).store.codes = s.store.codes := by
      intro b; cases b
      · exact ⟨rfl, rfl⟩
      · exact ⟨(mintTokens_auth s i).1, (mintTokens_auth s i).2.1⟩
    unfold effectsBefore
    cases i with
    | code a c k => simp only [hlast, Bool.and_false, Bool.false_eq_true, if_false]; exact hm _
    | refresh r c k => exact hm _
  cases f with
  | validation site => exact ⟨rfl, rfl⟩
  | createTokens =>
    simp only [stepFault]; split
    · exact ⟨rfl, rfl⟩
    · exact heff _ _ _
  | issuing callee =>
    have hfat := hf callee rfl
    by_cases hdel : callee = "DeleteAuthRequest"
    · simp only [stepFault, hdel, beq_self_eq_true, if_true, step_exchangeDeleteFails]
      split
      · exact ⟨rfl, rfl⟩
      · rename_i i _
        split
        · exact ⟨(mintTokens_auth s i).1, (mintTokens_auth s i).2.1⟩
        · exact ⟨rfl, rfl⟩
    · have hne : (callee == "DeleteAuthRequest") = false := by simpa using hdel
      simp only [stepFault, hne, Bool.false_eq_true, if_false, hfat, if_true]
      split
      · exact ⟨rfl, rfl⟩
      · exact heff _ _ _

end C04

/-! ## Single use across faults -/

namespace FlowObs.C04F   -- (own sub-namespace: Proofs/C07Wire.lean defines OpX / stepObsX / runObsX … of its own in FlowObs)
open Go Gen Hand Flow FlowX FlowObs

theorem stepObsX_state (now : Int) (s : Flow.St) (o : ObsState) (op : OpX) : (stepObsX now (s, o) op).1.1 = (stepX now s op).1 := by
  simp only [stepObsX]; split <;> rfl

/-- the first components: the observer rides along, the model is `stepX` folded -/
def runX (now : Int) (s : Flow.St) : List OpX → Flow.St
  | [] => s
  | op :: rest => runX now (stepX now s op).1 rest

theorem runObsX_state (now : Int) (s : Flow.St) (o : ObsState) (ops : List OpX) : (runObsX now (s, o) ops).1.1 = runX now s ops := by
  induction ops generalizing s o with
  | nil => rfl
  | cons op rest ih =>
    show (runObsX now (stepObsX now (s, o) op).1 rest).1.1 = runX now (stepX now s op).1 rest
    have : (stepObsX now (s, o) op).1 = ((stepX now s op).1, (stepObsX now (s, o) op).1.2) := by rw [← stepObsX_state]
    rw [this, ih]

/-- a `.code` event for `code` needs a base `callback … code`: faulty exchanges never hand out codes -/
theorem eventOfX_code {s : Flow.St} {op : OpX} {now : Int} {id code : String}
    (h : eventOf s (stepX now s op).1 (opOf op) (stepX now s op).2 = some (.code id code)) : op = .base (.callback id code) := by
  cases op with
  | base op => simp only [stepX, opOf] at h; rw [eventOf_code h]
  | exchangeFault rt req ha f =>
    simp only [opOf] at h
    generalize (stepX now s (.exchangeFault rt req ha f)).1 = s' at h
    generalize (stepX now s (.exchangeFault rt req ha f)).2 = out at h
    cases out with
    | issued i nr => cases i <;> simp [eventOf] at h
    | error e => simp [eventOf] at h
    | loginPage _ => simp [eventOf] at h
    | done => simp [eventOf] at h
    | code _ => simp [eventOf] at h

theorem spent_runX {now : Int} {code : String} (ops : List OpX) (hno : ∀ id, OpX.base (.callback id code) ∉ ops)
    {s : Flow.St} {o : ObsState} (h : Spent o.m04 code) : Spent (runObsX now (s, o) ops).1.2.m04 code := by
  induction ops generalizing s o with
  | nil => exact h
  | cons op rest ih =>
    have hrest : ∀ id, OpX.base (.callback id code) ∉ rest := fun id hm => hno id (List.mem_cons_of_mem _ hm)
    have hstep : Spent (stepObsX now (s, o) op).1.2.m04 code := by
      simp only [stepObsX]
      cases hev : eventOf s (stepX now s op).1 (opOf op) (stepX now s op).2 with
      | none => exact h
      | some e =>
        apply spent_observe h e
        intro id he
        subst he
        have := eventOfX_code hev
        exact hno id (by rw [this]; exact List.mem_cons_self)
    exact ih hrest hstep

end FlowObs.C04F

namespace C04
open FlowObs FlowObs.C04F Flow FlowX

/-- **Single use, across storage faults.**  In any history of base operations and faulty exchanges: `pre`, a SUCCESSFUL exchange
    of `req1.Code`, `mid`, a successful exchange of the same code string - then `mid` contains a callback that hands that code
    out again.  (Faulty exchanges of the code in `pre` - which leave it redeemable - and in `mid` do not change that.) -/
theorem c04_single_use_faults (now : Int) (s : Flow.St) (hr : s.store.authReqs = []) (hc : s.store.codes = []) (hrt : s.store.refresh = [])
    (pre mid : List OpX) (rt1 rt2 : Router) (req1 req2 : AccessTokenRequest) (ha1 ha2 : Bool) (i1 i2 : IssueFor) (n1 n2 : Option String)
    (h1 : (Flow.step now (runX now s pre) (.exchange rt1 req1 ha1)).2 = .issued i1 n1)
    (h2 : (Flow.step now (runX now (Flow.step now (runX now s pre) (.exchange rt1 req1 ha1)).1 mid) (.exchange rt2 req2 ha2)).2 = .issued i2 n2)
    (hcode : req2.Code = req1.Code) :
    ∃ id, OpX.base (.callback id req1.Code) ∈ mid := by
  apply Classical.byContradiction
  intro hno
  have hno' : ∀ id, OpX.base (.callback id req1.Code) ∉ mid := fun id hm => hno ⟨id, hm⟩
  have hinit := (init_obsOf hr hc hrt).inv04
  obtain ⟨hinv1, _⟩ := inv04_runX now hinit pre
  rw [runObsX_state] at hinv1
  obtain ⟨_, hspent⟩ := c04_consumed now hinv1 rt1 req1 ha1 i1 n1 h1
  obtain ⟨hinv2, _⟩ := good04_step now hinv1 (.exchange rt1 req1 ha1)
  have e2 : ∀ (s1 : Flow.St) (o1 : ObsState) (op : Flow.Op), (stepObs now (s1, o1) op).1.1 = (Flow.step now s1 op).1 := by
    intro s1 o1 op
    simp only [stepObs]; cases eventOf s1 (Flow.step now s1 op).1 op (Flow.step now s1 op).2 <;> rfl
  rw [e2] at hinv2
  have hspent3 := spent_runX (now := now) mid hno' (s := (Flow.step now (runX now s pre) (.exchange rt1 req1 ha1)).1) hspent
  obtain ⟨hinv3, _⟩ := inv04_runX now hinv2 mid
  rw [runObsX_state] at hinv3
  rw [step_exchange] at h2
  cases hce : codeExchange now rt2 (runX now (Flow.step now (runX now s pre) (.exchange rt1 req1 ha1)).1 mid).p req2 ha2 with
  | error e => rw [hce] at h2; simp at h2
  | ok i' =>
    obtain ⟨a, c, hi, hl, hcid, hgrant, hred, hpk1, hpk2, hauth⟩ := codeExchange_ok hce
    obtain ⟨_, id0, hmem0, hfind0⟩ := judge_ok hinv3 hl hcid hgrant hred hpk1 hpk2 hauth
    have := (hinv3.codes req2.Code id0 a hmem0 hfind0).2
    rw [hcode] at this
    have hu := hspent3 _ this
    simp at hu

/-! Non-vacuity: the fault hits each kind of storage call in turn; the code survives, the retry succeeds once, the replay fails. -/
def demoReq : AccessTokenRequest := { Code := "c1", RedirectURI := "https://rp.example/cb", ClientID := "web", ClientSecret := "s3cret" }
def demoFaultOps (rt : Router) (f : FaultAt) : List OpX :=
  [.base demoAuthorize, .base (.login "ar1" "user1" 1000), .base (.callback "ar1" "c1"), .exchangeFault rt demoReq false f,
   .base (demoExchange rt), .base (demoExchange rt)]

example : ∀ rt : Router, tokensBeforeDelete = true → ∀ f ∈ [FaultAt.validation "AuthRequestByCode", .validation "GetClientByClientID", .validation "AuthorizeClientIDSecret",
      .createTokens, .issuing "CreateAccessToken", .issuing "CreateIDToken", .issuing "DeleteAuthRequest"],
    ((runObsX 0 (demoState, obsOf demoState) (demoFaultOps rt f)).2.map fun x => (outKind x.1 == "tokens", x.2.1)) =
      [(false, none), (false, none), (false, none), (false, none), (true, none), (false, none)] := by
  intro rt; cases rt <;> decide

/-- whatever the order of creation and deletion: no step of these histories is objected to, and tokens are handed out at most once -/
example : ∀ rt : Router, ∀ f ∈ [FaultAt.validation "AuthRequestByCode", .createTokens, .issuing "CreateAccessToken", .issuing "CreateIDToken", .issuing "DeleteAuthRequest"],
    let r := (runObsX 0 (demoState, obsOf demoState) (demoFaultOps rt f)).2
    r.all (fun x => x.2.1.isNone) = true ∧ (r.filter fun x => outKind x.1 == "tokens").length ≤ 1 := by
  intro rt; cases rt <;> decide

/-- the refresh token the storage created before a late fault stays behind (the retry gets the NEXT number); an early fault leaves none -/
example : tokensBeforeDelete = true →
    ((runObsX 0 (demoState, obsOf demoState) (demoFaultOps .provider (.issuing "CreateIDToken"))).2.map fun x => showOutShort x.1).getD 4 "" = "tokens:user1:web:rt2" ∧
    ((runObsX 0 (demoState, obsOf demoState) (demoFaultOps .provider .createTokens)).2.map fun x => showOutShort x.1).getD 4 "" = "tokens:user1:web:rt1" := by decide

end C04
