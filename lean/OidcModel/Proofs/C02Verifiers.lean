/-
  C02 (round 3): WHICH verifier object judges a token at the token-consuming endpoints, and what a verification
  leaves behind in the object it was handed.

  Layer 1 (characterisation lemmas, one per regenerated definition of Generated/VerifiersC02.lean, proved by
  `unfold …; go_leaf` / `rfl`): what the functional options, the constructors, the provider's per-request getters,
  `revocationKeySet.verifier` / `.VerifySignature`, the readers of a presented access token and the state-returning
  twins of the verification functions compute.
  Layer 2 (uses only layer 1 and the theorems of Proofs/C02.lean): every verifier an endpoint uses is the CONFIGURED
  one (allow-list and key set of the provider, issuer of the request); a reader believes a JWT only under the monitor's
  conditions for that configuration; a verifier object (and a key-set object) that is reused for any sequence of
  tokens answers each of them as a fresh one would.
-/
import OidcModel.Proofs.C02
import OidcModel.Generated.VerifiersC02
import OidcModel.GoTac
namespace C02
open Go Gen Hand

/-! ## the configuration an endpoint's verifier must carry (hand-readable spec) -/

/-- the options of a list applied in order, as Go's `for _, opt := range opts { opt(verifier) }` -/
def applyOpts (opts : List C02VerifierOpt) (v : Verifier) : Verifier := opts.foldl (fun v o => o v) v

/-- the access-token verifier a provider is CONFIGURED with, for a request addressed to `iss`: the provider's key set and
    whatever its option list sets (`WithAccessTokenVerifierOpts`) -/
def configuredAT (iss : String) (p : C02Provider) : Verifier :=
  applyOpts p.accessTokenVerifierOpts { Issuer := iss, KeySet := p.accessTokenKeySet }

/-- the id_token_hint verifier a provider is configured with -/
def configuredHint (iss : String) (p : C02Provider) : Verifier :=
  applyOpts p.idTokenHintVerifierOpts { Issuer := iss, KeySet := p.idTokenHinKeySet }

/-! ## layer 1: characterisation lemmas -/

theorem withSupportedAccessTokenSigningAlgorithms_spec (now : Int) (algs : List String) (v : Verifier) :
    GenC02.WithSupportedAccessTokenSigningAlgorithms now algs v = { v with SupportedSignAlgs := algs } := by
  unfold GenC02.WithSupportedAccessTokenSigningAlgorithms; go_leaf

theorem withSupportedIDTokenHintSigningAlgorithms_spec (now : Int) (algs : List String) (v : Verifier) :
    GenC02.WithSupportedIDTokenHintSigningAlgorithms now algs v = { v with SupportedSignAlgs := algs } := by
  unfold GenC02.WithSupportedIDTokenHintSigningAlgorithms; go_leaf

/-- `op.SubjectCheck(check)` replaces the subject check and nothing else (issuer, storage and key set stay) -/
theorem subjectCheck_spec (now : Int) (check : Option (Claims → Go.R Unit)) (v : JWTProfileVerifier) :
    GenC02.SubjectCheck now check v = { v with CheckSubject := check } := by
  unfold GenC02.SubjectCheck; go_leaf

theorem newAccessTokenVerifier_spec (now : Int) (iss : String) (ks : KeySet) (opts : List C02VerifierOpt) :
    GenC02.NewAccessTokenVerifier now iss ks opts = applyOpts opts { Issuer := iss, KeySet := ks } := by
  unfold GenC02.NewAccessTokenVerifier GoX.foldList applyOpts; go_leaf

theorem newIDTokenHintVerifier_spec (now : Int) (iss : String) (ks : KeySet) (opts : List C02VerifierOpt) :
    GenC02.NewIDTokenHintVerifier now iss ks opts = applyOpts opts { Issuer := iss, KeySet := ks } := by
  unfold GenC02.NewIDTokenHintVerifier GoX.foldList applyOpts; go_leaf

theorem withAccessTokenVerifierOpts_spec (now : Int) (opts : List C02VerifierOpt) (p : C02Provider) :
    GenC02.WithAccessTokenVerifierOpts now opts p = .ok { p with accessTokenVerifierOpts := opts } := by
  unfold GenC02.WithAccessTokenVerifierOpts; go_leaf

theorem withIDTokenHintVerifierOpts_spec (now : Int) (opts : List C02VerifierOpt) (p : C02Provider) :
    GenC02.WithIDTokenHintVerifierOpts now opts p = .ok { p with idTokenHintVerifierOpts := opts } := by
  unfold GenC02.WithIDTokenHintVerifierOpts; go_leaf

theorem withAccessTokenKeySet_spec (now : Int) (ks : KeySet) (p : C02Provider) :
    GenC02.WithAccessTokenKeySet now ks p = .ok { p with accessTokenKeySet := ks } := by
  unfold GenC02.WithAccessTokenKeySet; go_leaf

theorem withIDTokenHintKeySet_spec (now : Int) (ks : KeySet) (p : C02Provider) :
    GenC02.WithIDTokenHintKeySet now ks p = .ok { p with idTokenHinKeySet := ks } := by
  unfold GenC02.WithIDTokenHintKeySet; go_leaf

/-- `Provider.AccessTokenVerifier(ctx)` builds the configured verifier -/
theorem providerAccessTokenVerifier_configured (now : Int) (iss : String) (p : C02Provider) :
    GenC02.ProviderAccessTokenVerifier now iss p = configuredAT iss p := by
  unfold GenC02.ProviderAccessTokenVerifier configuredAT
  exact newAccessTokenVerifier_spec ..

/-- `Provider.IDTokenHintVerifier(ctx)` builds the configured verifier -/
theorem providerIDTokenHintVerifier_configured (now : Int) (iss : String) (p : C02Provider) :
    GenC02.ProviderIDTokenHintVerifier now iss p = configuredHint iss p := by
  unfold GenC02.ProviderIDTokenHintVerifier configuredHint
  exact newIDTokenHintVerifier_spec ..

/-- `revocationKeySet.verifier(v)`: the derived verifier IS `v` (every option `v` was built with survives; as a key set
    the recorder is the key set of `v`), and the recorder holds `v`'s key set -/
theorem revocationKeySetVerifier_spec (now : Int) (k : C02RevocationKeySet) (v : Verifier) :
    GenC02.revocationKeySetVerifier now k v = (v, { k with KeySet := v.KeySet }) := by
  unfold GenC02.revocationKeySetVerifier; go_leaf

/-- `revocationKeySet.VerifySignature`: answers exactly what its inner key set answers (it only records a key-storage failure) -/
theorem revocationKeySet_transparent (now : Int) (k : C02RevocationKeySet) (jws : JWS) :
    (GenC02.revocationKeySetVerifySignature now k jws).1 = Hand.c02VerifySignaturePair k.KeySet jws ∧
    (GenC02.revocationKeySetVerifySignature now k jws).2.KeySet = k.KeySet := by
  unfold GenC02.revocationKeySetVerifySignature; go_leaf

/-- the reader of userinfo / introspection (both routers) on a string that does not decrypt: it believes exactly what
    `VerifyAccessToken` under the provider's per-request verifier believes -/
theorem getTokenIDAndSubject_jwt (now : Int) (iss : String) (p : C02Provider) (s : String) (e : String)
    (hd : p.crypto.Decrypt s = .error e) :
    GenC02.getTokenIDAndSubject now iss p s =
      match Gen.OPVerifyAccessToken now (p.tokenOf s) (GenC02.ProviderAccessTokenVerifier now iss p) with
      | .ok c => (p.jtiOf s, c.sub, true)
      | .error _ => ("", "", false) := by
  unfold GenC02.getTokenIDAndSubject Hand.c02VerifyAccessToken C02ATClaims.Subject; go_leaf

/-- a new `revocationKeySet` has recorded no key-storage failure -/
theorem newRevocationKeySet_noErr : Go.notNil (default : C02RevocationKeySet).err = false := rfl

/-- the reader of the revocation endpoint (both routers), same statement; the verifier is the one DERIVED by
    `revocationKeySet.verifier` from the provider's per-request verifier -/
theorem getTokenIDAndSubjectForRevocation_jwt (now : Int) (iss : String) (p : C02Provider) (s : String) (e : String)
    (hd : p.crypto.Decrypt s = .error e) :
    GenC02.getTokenIDAndSubjectForRevocation now iss p s =
      match Gen.OPVerifyAccessToken now (p.tokenOf s)
          (GenC02.revocationKeySetVerifier now default (GenC02.ProviderAccessTokenVerifier now iss p)).1 with
      | .ok c => .ok (p.jtiOf s, c.sub, true)
      | .error _ => .ok ("", "", false) := by
  unfold GenC02.getTokenIDAndSubjectForRevocation Hand.c02VerifyAccessToken Hand.c02Derived C02ATClaims.Subject
  go_leaf [newRevocationKeySet_noErr]

/-- the access-token arm of the token-exchange reader -/
theorem getTokenIDAndClaims_jwt (now : Int) (iss : String) (p : C02Provider) (s : String) (e : String)
    (hd : p.crypto.Decrypt s = .error e) :
    GenC02.getTokenIDAndClaims now iss p s =
      match Gen.OPVerifyAccessToken now (p.tokenOf s) (GenC02.ProviderAccessTokenVerifier now iss p) with
      | .ok c => (p.jtiOf s, c.sub, { base := c, JWTID := p.jtiOf s }, true)
      | .error _ => ("", "", C02ATClaims.none, false) := by
  unfold GenC02.getTokenIDAndClaims Hand.c02VerifyAccessToken C02ATClaims.Subject; go_leaf

/-- the verification functions do not write to the verifier they are handed, and their answer is the stateless
    function the C02 theorems are about -/
theorem opVerifyAccessTokenSt_frame (now : Int) (t : Token) (v : Verifier) :
    GenC02.OPVerifyAccessTokenSt now t v = (Gen.OPVerifyAccessToken now t v, v) := by
  unfold GenC02.OPVerifyAccessTokenSt Gen.OPVerifyAccessToken; go_leaf

theorem verifyIDTokenHintSt_frame (now : Int) (t : Token) (v : Verifier) :
    GenC02.VerifyIDTokenHintSt now t v = (Gen.VerifyIDTokenHint now t v, v) := by
  unfold GenC02.VerifyIDTokenHintSt Gen.VerifyIDTokenHint; go_leaf

theorem verifyIDTokenSt_frame (now : Int) (t : Token) (v : Verifier) :
    GenC02.VerifyIDTokenSt now t v = (Gen.VerifyIDToken now t v, v) := by
  unfold GenC02.VerifyIDTokenSt Gen.VerifyIDToken; go_leaf

theorem verifyJWTAssertionSt_frame (now : Int) (t : Token) (v : JWTProfileVerifier) :
    GenC02.VerifyJWTAssertionSt now t v = (Gen.VerifyJWTAssertion now t v, v) := by
  unfold GenC02.VerifyJWTAssertionSt Gen.VerifyJWTAssertion; go_leaf

/-- the two storage-backed key-set objects do not write to themselves either (a key set that remembered the keys it was
    handed once would keep believing a key the storage has withdrawn) -/
theorem openIDKeySetSt_frame (now : Int) (o : C02KeyStorage) (j : JWS) :
    GenC02.OpenIDKeySetVerifySignatureSt now o j = (GenC02.OpenIDKeySetVerifySignature now o j, o) := by
  unfold GenC02.OpenIDKeySetVerifySignatureSt GenC02.OpenIDKeySetVerifySignature; go_leaf

theorem jwtProfileKeySetSt_frame (now : Int) (k : C02JwtProfileKeySet) (j : JWS) :
    GenC02.JwtProfileKeySetVerifySignatureSt now k j = (GenC02.JwtProfileKeySetVerifySignature now k j, k) := by
  unfold GenC02.JwtProfileKeySetVerifySignatureSt GenC02.JwtProfileKeySetVerifySignature; go_leaf

/-! ## layer 2: the property at the endpoints -/

/-- the monitor accepts only tokens whose (single) signature names an algorithm of the allow-list in force -/
theorem monitor_alg_allowed {algs : List String} {ks : KeySet} {t : Token} {c : Claims}
    (h : monitor algs ks t (some c) = none) :
    ∃ j s, t.jws = some j ∧ j.Signatures = [s] ∧ (allowed algs).contains s.Header.Algorithm = true := by
  unfold monitor at h
  cases ha : acceptedOK algs ks t c with
  | some cl => simp [ha] at h
  | none =>
    unfold acceptedOK at ha
    split at ha
    · simp at ha
    · split at ha
      · simp at ha
      · rename_i j hj
        split at ha
        · rename_i s hs
          refine ⟨j, s, hj, hs, ?_⟩
          split at ha
          · simp at ha
          · simp_all
        · simp at ha

/-- a provider whose option list is `WithAccessTokenVerifierOpts(WithSupportedAccessTokenSigningAlgorithms(algs...))`
    (and nothing after it) is configured with exactly this allow-list, its key set and the request's issuer -/
theorem configuredAT_restricted (now : Int) (iss : String) (p0 p : C02Provider) (algs : List String)
    (h : GenC02.WithAccessTokenVerifierOpts now [GenC02.WithSupportedAccessTokenSigningAlgorithms now algs] p0 = .ok p) :
    (configuredAT iss p).SupportedSignAlgs = algs ∧ (configuredAT iss p).KeySet = p0.accessTokenKeySet ∧
      (configuredAT iss p).Issuer = iss := by
  rw [withAccessTokenVerifierOpts_spec] at h
  cases h
  simp [configuredAT, applyOpts, withSupportedAccessTokenSigningAlgorithms_spec]

theorem configuredHint_restricted (now : Int) (iss : String) (p0 p : C02Provider) (algs : List String)
    (h : GenC02.WithIDTokenHintVerifierOpts now [GenC02.WithSupportedIDTokenHintSigningAlgorithms now algs] p0 = .ok p) :
    (configuredHint iss p).SupportedSignAlgs = algs ∧ (configuredHint iss p).KeySet = p0.idTokenHinKeySet ∧
      (configuredHint iss p).Issuer = iss := by
  rw [withIDTokenHintVerifierOpts_spec] at h
  cases h
  simp [configuredHint, applyOpts, withSupportedIDTokenHintSigningAlgorithms_spec]

/-- THE statement for derived verifiers: every verifier a token-consuming endpoint uses carries the provider's configured
    allow-list and key set (and the request's issuer): the per-request getters build the configured verifier, and the
    verifier the revocation endpoint derives from it is that verifier again -/
theorem c02_endpoint_verifiers (now : Int) (iss : String) (p : C02Provider) (k : C02RevocationKeySet) :
    GenC02.ProviderAccessTokenVerifier now iss p = configuredAT iss p ∧
    GenC02.ProviderIDTokenHintVerifier now iss p = configuredHint iss p ∧
    (GenC02.revocationKeySetVerifier now k (GenC02.ProviderAccessTokenVerifier now iss p)).1 = configuredAT iss p := by
  refine ⟨providerAccessTokenVerifier_configured .., providerIDTokenHintVerifier_configured .., ?_⟩
  rw [revocationKeySetVerifier_spec, providerAccessTokenVerifier_configured]

/-- userinfo / introspection (both routers): a JWT is believed only under the monitor's conditions for the CONFIGURED
    allow-list and key set; the subject handed on is the one of the signed payload -/
theorem c02_reader_userinfo (now : Int) (iss : String) (p : C02Provider) (s e id sub : String)
    (hd : p.crypto.Decrypt s = .error e) (h : GenC02.getTokenIDAndSubject now iss p s = (id, sub, true)) :
    ∃ c, monitor (configuredAT iss p).SupportedSignAlgs (configuredAT iss p).KeySet (p.tokenOf s) (some c) = none ∧
      c.sub = sub ∧ id = p.jtiOf s := by
  rw [getTokenIDAndSubject_jwt now iss p s e hd, providerAccessTokenVerifier_configured] at h
  have hm := c02_accessToken now (p.tokenOf s) (configuredAT iss p)
  cases hv : Gen.OPVerifyAccessToken now (p.tokenOf s) (configuredAT iss p) with
  | error e' => simp [hv] at h
  | ok c =>
    simp [hv] at h
    exact ⟨c, by simpa [hv, Except.toOption] using hm, h.2, h.1.symm⟩

/-- revocation (both routers) -/
theorem c02_reader_revocation (now : Int) (iss : String) (p : C02Provider) (s e id sub : String)
    (hd : p.crypto.Decrypt s = .error e) (h : GenC02.getTokenIDAndSubjectForRevocation now iss p s = .ok (id, sub, true)) :
    ∃ c, monitor (configuredAT iss p).SupportedSignAlgs (configuredAT iss p).KeySet (p.tokenOf s) (some c) = none ∧
      c.sub = sub ∧ id = p.jtiOf s := by
  rw [getTokenIDAndSubjectForRevocation_jwt now iss p s e hd, (c02_endpoint_verifiers now iss p default).2.2] at h
  have hm := c02_accessToken now (p.tokenOf s) (configuredAT iss p)
  cases hv : Gen.OPVerifyAccessToken now (p.tokenOf s) (configuredAT iss p) with
  | error e' => simp [hv] at h
  | ok c =>
    simp [hv] at h
    exact ⟨c, by simpa [hv, Except.toOption] using hm, h.2, h.1.symm⟩

/-- token exchange, subject / actor token of type access_token -/
theorem c02_reader_exchange (now : Int) (iss : String) (p : C02Provider) (s e id sub : String) (cl : C02ATClaims)
    (hd : p.crypto.Decrypt s = .error e) (h : GenC02.getTokenIDAndClaims now iss p s = (id, sub, cl, true)) :
    ∃ c, monitor (configuredAT iss p).SupportedSignAlgs (configuredAT iss p).KeySet (p.tokenOf s) (some c) = none ∧
      c.sub = sub ∧ id = p.jtiOf s ∧ cl.base = c := by
  rw [getTokenIDAndClaims_jwt now iss p s e hd, providerAccessTokenVerifier_configured] at h
  have hm := c02_accessToken now (p.tokenOf s) (configuredAT iss p)
  cases hv : Gen.OPVerifyAccessToken now (p.tokenOf s) (configuredAT iss p) with
  | error e' => simp [hv] at h
  | ok c =>
    simp [hv] at h
    obtain ⟨h1, h2, h3⟩ := h
    exact ⟨c, by simpa [hv, Except.toOption] using hm, h2, h1.symm, by rw [← h3]⟩

/-- the restricted allow-list at the revocation endpoint: a provider configured with
    `WithAccessTokenVerifierOpts(WithSupportedAccessTokenSigningAlgorithms(algs...))`, `algs` not empty, does not believe a JWT
    whose signature names an algorithm outside `algs` - whoever signed it -/
theorem c02_revocation_restricted (now : Int) (iss : String) (p0 p : C02Provider) (algs : List String) (s e id sub : String)
    (hc : GenC02.WithAccessTokenVerifierOpts now [GenC02.WithSupportedAccessTokenSigningAlgorithms now algs] p0 = .ok p)
    (hne : algs ≠ []) (hd : p.crypto.Decrypt s = .error e)
    (h : GenC02.getTokenIDAndSubjectForRevocation now iss p s = .ok (id, sub, true)) :
    ∃ j sg, (p.tokenOf s).jws = some j ∧ j.Signatures = [sg] ∧ algs.contains sg.Header.Algorithm = true := by
  obtain ⟨c, hm, _, _⟩ := c02_reader_revocation now iss p s e id sub hd h
  obtain ⟨j, sg, hj, hs, ha⟩ := monitor_alg_allowed hm
  rw [(configuredAT_restricted now iss p0 p algs hc).1] at ha
  refine ⟨j, sg, hj, hs, ?_⟩
  have : algs.isEmpty = false := by cases algs <;> simp_all
  simpa [allowed, this] using ha

/-! ## reuse: one verifier object (and one key-set object) for many tokens -/

/-- assertions run through ONE `*JWTProfileVerifier`, each call working on what the previous one left behind -/
def runAssertions (v : JWTProfileVerifier) : List (Int × Token) → List (Go.R Claims) × JWTProfileVerifier
  | [] => ([], v)
  | (now, t) :: rest =>
    let r := GenC02.VerifyJWTAssertionSt now t v
    let rs := runAssertions r.2 rest
    (r.1 :: rs.1, rs.2)

/-- access tokens run through ONE `*AccessTokenVerifier` -/
def runAccessTokens (v : Verifier) : List (Int × Token) → List (Go.R Claims) × Verifier
  | [] => ([], v)
  | (now, t) :: rest =>
    let r := GenC02.OPVerifyAccessTokenSt now t v
    let rs := runAccessTokens r.2 rest
    (r.1 :: rs.1, rs.2)

/-- id_token_hints run through ONE `*IDTokenHintVerifier` -/
def runHints (v : Verifier) : List (Int × Token) → List (Go.R HintOut) × Verifier
  | [] => ([], v)
  | (now, t) :: rest =>
    let r := GenC02.VerifyIDTokenHintSt now t v
    let rs := runHints r.2 rest
    (r.1 :: rs.1, rs.2)

/-- whatever was verified before: every assertion is answered as a FRESH verifier would answer it, and the object is
    left as it was -/
theorem runAssertions_fresh (v : JWTProfileVerifier) (ops : List (Int × Token)) :
    runAssertions v ops = (ops.map fun o => Gen.VerifyJWTAssertion o.1 o.2 v, v) := by
  induction ops with
  | nil => rfl
  | cons o rest ih =>
    obtain ⟨now, t⟩ := o
    simp only [runAssertions, verifyJWTAssertionSt_frame, ih, List.map]

theorem runAccessTokens_fresh (v : Verifier) (ops : List (Int × Token)) :
    runAccessTokens v ops = (ops.map fun o => Gen.OPVerifyAccessToken o.1 o.2 v, v) := by
  induction ops with
  | nil => rfl
  | cons o rest ih =>
    obtain ⟨now, t⟩ := o
    simp only [runAccessTokens, opVerifyAccessTokenSt_frame, ih, List.map]

theorem runHints_fresh (v : Verifier) (ops : List (Int × Token)) :
    runHints v ops = (ops.map fun o => Gen.VerifyIDTokenHint o.1 o.2 v, v) := by
  induction ops with
  | nil => rfl
  | cons o rest ih =>
    obtain ⟨now, t⟩ := o
    simp only [runHints, verifyIDTokenHintSt_frame, ih, List.map]

/-- C02 for a REUSED JWT-profile verifier: in any sequence of assertions (of any issuers) through one verifier object,
    every accepted assertion satisfies the monitor for the key set of ITS OWN issuer -/
theorem c02_assertion_reuse (v : JWTProfileVerifier) (ops : List (Int × Token)) (i : Nat) (c : Claims)
    (h : (runAssertions v ops).1[i]? = some (.ok c)) :
    ∃ o, ops[i]? = some o ∧ ∃ iss, payloadIssuer o.2 = some iss ∧ monitor [] (assertionKeySet v iss) o.2 (some c) = none := by
  rw [runAssertions_fresh] at h
  simp only [List.getElem?_map] at h
  cases ho : ops[i]? with
  | none => simp [ho] at h
  | some o =>
    simp [ho] at h
    exact ⟨o, rfl, c02_assertion o.1 o.2 v c h⟩

/-- C02 for a reused access-token verifier (and with it a reused key-set object) -/
theorem c02_accessToken_reuse (v : Verifier) (ops : List (Int × Token)) (i : Nat) (c : Claims)
    (h : (runAccessTokens v ops).1[i]? = some (.ok c)) :
    ∃ o, ops[i]? = some o ∧ monitor v.SupportedSignAlgs v.KeySet o.2 (some c) = none := by
  rw [runAccessTokens_fresh] at h
  simp only [List.getElem?_map] at h
  cases ho : ops[i]? with
  | none => simp [ho] at h
  | some o =>
    simp [ho] at h
    have := c02_accessToken o.1 o.2 v
    exact ⟨o, rfl, by simpa [h, Except.toOption] using this⟩

/-- C02 for a reused id_token_hint verifier -/
theorem c02_idTokenHint_reuse (v : Verifier) (ops : List (Int × Token)) (i : Nat) (out : HintOut)
    (h : (runHints v ops).1[i]? = some (.ok out)) :
    ∃ o, ops[i]? = some o ∧ monitor v.SupportedSignAlgs v.KeySet o.2 (some out.claims) = none := by
  rw [runHints_fresh] at h
  simp only [List.getElem?_map] at h
  cases ho : ops[i]? with
  | none => simp [ho] at h
  | some o =>
    simp [ho] at h
    have := c02_idTokenHint o.1 o.2 v
    exact ⟨o, rfl, by simpa [h, Except.toOption] using this⟩

/-! ## non-vacuity -/

/-- an OP that only allows ES256 while its key set still holds the RSA key `a` (the example token `exT` is RS256 by `a`) -/
def exProv0 : C02Provider := { accessTokenKeySet := exKS, idTokenHinKeySet := exKS, tokenOf := fun _ => exT, jtiOf := fun _ => "at1" }
def exProvES : C02Provider :=
  match GenC02.WithAccessTokenVerifierOpts 0 [GenC02.WithSupportedAccessTokenSigningAlgorithms 0 ["ES256"]] exProv0 with
  | .ok p => p
  | .error _ => exProv0
def exNow : Int := 2000000100 * Go.second

-- default allow-list: the RS256 token by a trusted key is believed at all three readers …
example : GenC02.getTokenIDAndSubject exNow "https://op" exProv0 "jwt" = ("at1", "u", true) := by decide
example : (GenC02.getTokenIDAndSubjectForRevocation exNow "https://op" exProv0 "jwt").toOption = some ("at1", "u", true) := by decide
example : (GenC02.getTokenIDAndClaims exNow "https://op" exProv0 "jwt").2.2.2 = true := by decide
-- … restricted to ES256 it is refused at all three (revocation included), although `a` is still a key of the set
example : (GenC02.ProviderAccessTokenVerifier exNow "https://op" exProvES).SupportedSignAlgs = ["ES256"] := by decide
example : (GenC02.revocationKeySetVerifier exNow default (GenC02.ProviderAccessTokenVerifier exNow "https://op" exProvES)).1.SupportedSignAlgs = ["ES256"] := by decide
example : GenC02.getTokenIDAndSubject exNow "https://op" exProvES "jwt" = ("", "", false) := by decide
example : (GenC02.getTokenIDAndSubjectForRevocation exNow "https://op" exProvES "jwt").toOption = some ("", "", false) := by decide
example : (GenC02.getTokenIDAndClaims exNow "https://op" exProvES "jwt").2.2.2 = false := by decide
-- what the monitor says about believing it nevertheless
example : monitor ["ES256"] exKS exT (some (exC.SetSignatureAlgorithm "RS256")) = some "accepted:alg-not-allowed" := by decide

-- reuse: client M's assertion first, then an assertion that NAMES client A but is signed with M's key, through one verifier
def exKeyM : JWK := { KeyID := "m", Use := "sig", kty := .rsa, keyNo := 7 }
def exAsrtC (iss : String) : Claims := { iss := iss, sub := iss, aud := ["https://op"], exp := 2000000600, iat := 2000000000 }
def exAsrtT (iss : String) (bytes : Nat) : Token :=
  let p : Payload := { bytes := bytes, claims := some (exAsrtC iss) }
  let h : JHeader := { Algorithm := "RS256", KeyID := "m" }
  { segs := 3, middle := some p, jws := some { Signatures := [{ Header := h, signer := some 7, signedAlg := "RS256", signedBytes := bytes, signedHdr := h }], payload := p } }
def exJV : JWTProfileVerifier := { Issuer := "https://op", MaxAgeIAT := 3600 * Go.second, Offset := Go.second, Storage := [("client-M", exKeyM), ("client-A", exKeyA)] }
example : (runAssertions exJV [(exNow, exAsrtT "client-M" 11), (exNow, exAsrtT "client-A" 12)]).1.map (·.toOption.isSome) = [true, false] := by decide
example : monitor [] (assertionKeySet exJV "client-A") (exAsrtT "client-A" 12) (some (exAsrtC "client-A")) = some "accepted:no-trusted-key" := by decide

end C02
