/-
  C11: everything the check builds and audits (checklib/props.d/C11.json `proof_module`).
    Proofs/C11Url.lean       net/url: escape / unescape / Values.Encode round trips on bytes
    Proofs/C11Html.lean      html/template: attribute escaper, URL normaliser, the tokenizer on the rendered page
    Proofs/C11Text.lean      the rendered page has no character data outside its tags
    Proofs/C11.lean          the property theorems (query, fragment, form_post; error text and state from the source)
    Proofs/C11Examples.lean  concrete instances
    Proofs/C11CutOff.lean    pages cut off at any byte are accepted as cut-off pages of their own response; the monitor at
                             EVERY position of EVERY history of form_post responses with faults
    Proofs/C11Par.lean       error responses in flight at the same time: every schedule, error objects created per call (regenerated facts)
    Proofs/C11ErrVal.lean    the regenerated statement lists of AuthRequestError / TryErrorRedirect read for the VALUE (imports no translated
                             function: fails by name when a helper touches the description on the way to the encoder)
    Proofs/C11Len.lean       the description / code handed to the encoder are DefaultToServerError's, untouched (regenerated statement lists
                             of AuthRequestError / TryErrorRedirect read for the VALUE: only State / SessionState are assigned)
    Proofs/C11Modes.lean     every response mode string x response type in one statement
    Proofs/C11FormPost.lean  sequences of form_post responses with write faults: the regenerated buffer handling of
                             AuthResponseFormPost leaves nothing behind, every delivered body is a function of its own request
-/
import OidcModel.Proofs.C11
import OidcModel.Proofs.C11Examples
import OidcModel.Proofs.C11FormPost
import OidcModel.Proofs.C11CutOff
import OidcModel.Proofs.C11Modes
import OidcModel.Proofs.C11Par
import OidcModel.Proofs.C11ErrVal
import OidcModel.Proofs.C11Len
